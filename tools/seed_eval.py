#!/usr/bin/env python3
"""seed_eval.py PROP K SRC_DIR [NAME]
Confirm an independently written regression (SRC_DIR/mutation_K.diff + demo_K.py) in a scratch
worktree: demo passes on the clean tree and fails with the change, the pinned suite keeps its
baseline, and bin/check PROP reports it.  Stores /verif/seeded/<NAME>/{patch.diff,demo.py,meta.json}."""
import json, os, re, shutil, subprocess, sys, time
prop, k, src = sys.argv[1], sys.argv[2], sys.argv[3]
name = sys.argv[4] if len(sys.argv) > 4 else f"{prop}_{k}"
V = "/verif"
wt = f"/tmp/seedwt_{name}"
def sh(cmd, **kw):
    p = subprocess.run(cmd, shell=isinstance(cmd, str), stdout=subprocess.PIPE, stderr=subprocess.STDOUT, text=True, **kw)
    return p.returncode, p.stdout
subprocess.run(["git", "-C", "/repo", "worktree", "remove", "--force", wt], capture_output=True)
rc, out = sh(["git", "-C", "/repo", "worktree", "add", "--detach", wt])
assert rc == 0, out
meta = {"property": prop, "source": f"{src}/mutation_{k}.diff", "repo_head": sh("git -C /repo log --format=%h -1")[1].strip()}
try:
    demo = f"{src}/demo_{k}.py"
    env = dict(os.environ, PYTHONPATH=wt, PYTHONHASHSEED="0")
    d0 = f"/tmp/seeddemo_{name}"; shutil.rmtree(d0, ignore_errors=True); os.makedirs(d0)
    shutil.copy(demo, f"{d0}/demo.py")
    rc0, out0 = sh(["/venv/bin/python", "demo.py"], cwd=d0, env=env, timeout=600)
    rca, outa = sh(["git", "-C", wt, "apply", f"{src}/mutation_{k}.diff"])
    if rca != 0:        # written against an earlier HEAD: try a 3-way merge
        rca, outa = sh(["git", "-C", wt, "apply", "-3", f"{src}/mutation_{k}.diff"])
        meta["rebased"] = rca == 0
    assert rca == 0, "patch does not apply to current /repo HEAD: " + outa
    rc1, out1 = sh(["/venv/bin/python", "demo.py"], cwd=d0, env=env, timeout=600)
    meta["demo_clean"] = {"exit": rc0, "tail": out0[-300:]}
    meta["demo_changed"] = {"exit": rc1, "tail": out1[-500:]}
    rcb, outb = sh(["/venv/bin/python", f"{V}/tools/baseline.py"], env=dict(os.environ, BASELINE_REPO=wt), timeout=1800)
    meta["pinned_suite"] = outb.strip().splitlines()[:4]
    t0 = time.time()
    rcc, outc = sh([f"{V}/bin/check", prop], env=dict(os.environ, VERIF_REPO=wt, VERIF_OUT=f"/tmp/seedout_{name}"), timeout=3000)
    lines = [l for l in outc.splitlines() if l.startswith("VIOLATION")]
    meta["check"] = {"cmd": f"VERIF_REPO=<worktree with patch> bin/check {prop}", "exit": rcc, "violation_lines": lines,
                     "summary": outc.strip().splitlines()[-1][:300], "wall_s": round(time.time() - t0, 1)}
    gates = []
    for l in lines:
        m = re.search(r"replay=(\S+)", l)
        if m and os.path.exists(m.group(1)):
            r = json.load(open(m.group(1)))
            gates.append({"why": str(r.get("why"))[:300], "case": r.get("case"),
                          "gate": "oracle (failing input found)" if r.get("case") is not None else "proof/correspondence only",
                          "no_failing_input": "no-failing-input-found" in l})
    meta["caught_by"] = gates
    meta["confirmed"] = (rc0 == 0 and rc1 != 0 and rcb == 0)
    meta["caught"] = rcc == 1 and bool(lines)
    dst = f"{V}/seeded/{name}"
    os.makedirs(dst, exist_ok=True)
    shutil.copy(f"{src}/mutation_{k}.diff", f"{dst}/patch.diff")
    shutil.copy(demo, f"{dst}/demo.py")
    json.dump(meta, open(f"{dst}/meta.json", "w"), indent=1)
    print(json.dumps({k2: meta[k2] for k2 in ("confirmed", "caught", "pinned_suite")}), meta["check"]["summary"])
    for g in gates:
        print("  ", g["gate"], "|", g["why"][:160])
finally:
    subprocess.run(["git", "-C", "/repo", "worktree", "remove", "--force", wt], capture_output=True)
    shutil.rmtree(f"/tmp/seeddemo_{name}", ignore_errors=True)
    shutil.rmtree(f"/tmp/seedout_{name}", ignore_errors=True)
