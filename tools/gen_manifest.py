#!/usr/bin/env python3
"""Writes MANIFEST.json from the table below (one entry per claimed property)."""
import json, pathlib
V = pathlib.Path(__file__).resolve().parent.parent
ALL = [f"C{i:02d}" for i in range(1, 20)]
CLAIMED = {
 "C10": dict(
   text="Coq theorems over Remote.v (a heap of node and channel objects with identities; dump/restore = the __getstate__/"
        "__setstate__ chain; merge of a remotely executed composite step by step; submit/complete with the input lock) and Dag.v: "
        "for every executor assignment and completion order the outputs equal the all-local run (instance of the C01 theorem); "
        "after the merge, for every heap: parent, executor and class kept, not running, the copy's children adopted, every old IO "
        "channel has a fresh counterpart owned by the node with the same ordered connection list, neighbours list the fresh "
        "channel in place, the lexical path is unchanged, nothing else is touched; while a node is out every input assignment is "
        "refused and the delivered output belongs to the inputs shown; unlocked after success and failure; the lock holds again "
        "after a merge. Real workflows with leaf / macro / nested macro / root placements across an emulated pickle boundary "
        "(and a few real thread/process/cloudpickle-process/instruction executors) are compared with the model on graphs reflected "
        "from the real objects.",
   design="13/C10", technique="Coq proofs over a heap with identities + instance of the C01 schedule theorem + Node.data_input_locked REGENERATED from node.py on every run and proved to be the flag the model's lock reads (translator tie) + differential correspondence across a pickle boundary + oracle",
   note="The pickle round trip itself is C07's; For body construction, caches and hints are outside this layer. Full merge theorems "
        "hold for the code after fix 0e04eb3 (S15 and three merge defects). Known finding: a workflow's inputs (its children's "
        "channels) stay writable while the workflow itself is out on an executor."),
 "C11": dict(
   text="Coq theorems over Pull.v (get_nodes_in_data_tree, the disconnect/restore wrapper, toposort_flatten and the linear chain, "
        "run_data_tree step by step incl. relabelling, parent run with overridden starting nodes and the finally clause; depth-first "
        "delivery outside and FIFO loop inside a running parent): the executed list is a topological enumeration of exactly the "
        "target's closure with the target last, each once; labels, starting nodes, data edges and the connection sets of every "
        "run/accumulate_and_run/ran channel are restored for every outcome (ok, refused for cycle or executor, upstream failure), "
        "level by level up to the root; refusals leave the scope literally unchanged. Pulls of every target in generated DAGs of "
        "parentless nodes, workflow children and nested macro children are compared with the model and with an oracle.",
   design="13/C11", technique="Coq proofs (induction over closure fuel / stack of scopes, restoration invariants) + differential correspondence + oracle + get_nodes_in_data_tree REGENERATED from topology.py on every run and proved equal to the model's closure (translator tie)",
   note="Data values, caches and executors actually running are outside the model (oracle checks returned values). Order inside "
        "restored connection lists is not preserved (observation, theorem C11_order_not_restored). C11_nothing_downstream is full "
        "after fix 4976e8b (S12); one known finding remains: a hand-wired `failed` handler of a failing upstream node runs during a "
        "pull although it is outside the closure (partial theorem under the guard that failed-connections end inside the closure)."),
 "C07": dict(
   text="Coq theorems over Serial.v (the __getstate__/__setstate__ chain: channels drop connections and receivers, lexical objects "
        "drop the parent and record the detached path, runnables drop future and live executor, composites store label tuples "
        "and re-connect -- data in reverse for input priority, signals in stored order --, macros/for re-forge value links; "
        "Node.load's second top-level cycle): every graph built by any op list is well formed; for any k+1 pickle (or file) trips "
        "the result equals a closed form and is observationally the same node (labels, nesting, values with NOT_DATA distinct, flags, "
        "executor instructions, links, starting nodes, per-input ordered data connections, signal connections as sets); a child "
        "pickled alone comes back without parent/siblings; re-run equality under a canonical signal order; five refuted "
        "witnesses (known findings). BEFORE/AFTER snapshots of real graphs through pickle, cloudpickle and save/load are compared "
        "with the model and by an observation-equality oracle incl. re-run.",
   design="13/C07", technique="Coq proofs (closed form of k round trips, invariant over build ops) + differential correspondence + oracle",
   note="pickle's own fidelity trusted. Partial theorems carry guards equal to the cause predicates of five known findings "
        "(unused macro input unloadable, running linked child blocks loading, link overwrites direct child edit, file load leaves "
        "foreign channel owner, signal fan-out order changes execution order)."),
 "C08": dict(
   text="Coq theorems over Resume.v (nested DAG graphs with per-node output, cache key, failed/running; run = current run cycle until "
        "the first failure with the recovery image written for the root after flags are final; load per Composite/Macro __setstate__): "
        "exactly one recovery image, for the root, equal to the final state; for EVERY graph and every failing node at any depth: load, "
        "fix the cause, clear failed on the node and its ancestors, run => outputs equal the uninterrupted twin's and exactly the "
        "unfinished leaves are called; sequences of failures; checkpoint images: partial under 'file loads and running cleared', "
        "and a universal refutation of the protocol as stated (known findings S19, S28). Every failing position of generated DAGs "
        "incl. nested macros is run on the real library with real recovery/checkpoint files.",
   design="13/C08", technique="Coq proofs (induction over nested graphs, invariant 'keyed leaves hold the right outputs') + Node._run_finally REGENERATED from node.py on every run and proved equal to the epilogue model (recovery-save guard, cache-before-checkpoint order; translator tie) + differential correspondence + oracle",
   note="Executors not covered. Checkpoint resume is refuted for the protocol "
        "the property states; proved under explicit flag clearing."),
 "C09": dict(
   text="Coq theorems over Macro.v (Macro._setup_node step by step: interface nodes, creation script with nested macros, links, "
        "purge of single-use interface nodes, flow configuration; value setter with push to the receiver at any depth; run with "
        "caches): macro outputs = plain composition = inlined body for every valid definition and every history of macro-level "
        "updates; interface = definition; children connected only to siblings; macro and child channels distinct; sync down/up "
        "through any nesting; 'always equal' over every history without receiving-side updates; refuted: receiving-side updates "
        "(S14, by construction), duplicate returns, stale re-run after a child-level update (S5). Generated macro SOURCE is "
        "imported and compared with the model, with the same body in a plain Workflow and with plain python.",
   design="13/C09", technique="Coq proofs (induction on nesting depth and creation script) + differential correspondence on generated source + oracle",
   note="Ints and int/object hints only; hand-wired flows as chains; execution order inside a DAG body is C01's."),
 "C14": dict(
   text="Coq theorems over Edit.v (connect/disconnect/copy_connections, value and value_receiver setters, copy_io with its undo "
        "logs as written, remove/add/replace_child incl. Workflow IO maps, flow derivation with fallback recovery) with fault "
        "counters that make the k-th connection / value / link transfer raise, for EVERY k and every graph: atomicity of "
        "copy_connections, copy_io, replace_child and wiring under explicit guards; exact characterisation of what a successful "
        "replacement inherits (label, parent, starting status, links: full; connections with positions: partial); eleven refuted "
        "witnesses (nine known findings). Every child x candidate replacement x injected failure index on real Workflows and "
        "Macros is compared with the model and with a snapshot-equality oracle.",
   design="13/C14", technique="Coq proofs quantified over injected fault indices + differential correspondence with fault injection + oracle",
   note="Macro/workflow children as replacement candidates, executors and post-edit runs not covered. The full all-or-nothing "
        "statement is false on the code in nine identified ways (known findings); theorems are the strongest true guarded forms."),
 "C18": dict(
   text="Coq theorems over Inject.v (the injection label function as exact string concatenation, lookup-or-create per parent, the "
        "operator table incl. reflected forms and node delegation, Slice break-up, autorun rule, pull): every entry point creates "
        "the class whose function applies that operator with operands in that order (finite table lifted by forallb_forall); the "
        "value after a run/pull is pyop applied to the operand values (pyop, repr, hash are Section variables) and an invalid "
        "operation surfaces as the operator's exception; re-writing an expression inside one parent reuses the node and adds no child, "
        "over every history of injections; two different raw operands never share a node (given hash and repr injectivity). "
        "Expressions over real channels/nodes with operands from a pool are compared with the model, values with the python "
        "operator itself.",
   design="7/C18", technique="Coq proofs (finite table by vm_compute+forallb_forall, induction over injection histories) + the injection label function REGENERATED from injection.py on every run and proved equal to the model's inj_label (translator tie) + differential correspondence + oracle",
   note="CPython operator semantics enter as per-case tables computed by the real interpreter; hash/repr injectivity are explicit "
        "hypotheses. General distinctness is partial: labels are joined with '_' without escaping (known finding C18-underscore-framing). "
        "Full/partial split holds for the code after fix ee32d7a (S17 and slice/autorun defects)."),
 "C06": dict(
   text="Coq theorems over Fail.v (the composite loop with children whose functions raise, local execution) and Dag.v (every "
        "schedule of executor children): a raising child ends failed, keeps its outputs and announces only `failed`; no "
        "completion-type signal of a child is ever sent unless its function returned; if any child raised or refused the caller "
        "does not get a normal return, and a normal return means no child is marked failed; under every delivery/completion "
        "schedule of a DAG-wired composite a child starts only after all its upstream children finished, so nothing downstream of "
        "a failed child runs; Free.v (hand-wired flows WITHOUT a parent, signals delivered depth first): a run that returns normally "
        "called nothing that raised or refused, an exception names a node that raised in that run. Hand-wired flows with failing nodes (raised or suppressed), with and without a parent, are compared with the models; the "
        "oracle checks flags, outputs, error chain and 'nothing downstream ran' on flows and on DAG workflows with executor "
        "children in prescribed completion orders and nested macros.",
   design="7/C06", technique="Coq invariant proofs over the failing-child loop + corollary of the DAG edge-token invariant + Node._run_finally REGENERATED from node.py on every run and proved equal to the epilogue model (signals leave exactly once; translator tie) + differential correspondence + oracle",
   note="Executor failures (completion at idle polls, during a local sibling's call, inside submit), nested macros and suppression "
        "at depth are covered by the oracle, not by the Fail.v model. No open finding: S6, S26, S27 were repaired in /repo "
        "(46849a9, a65bcde, 6fe5477 + 821e619)."),
 "C17": dict(
   text="Coq theorems over Wrap.v (signature description -> input/output channels, set_input_values vs python's own binding, "
        "output labels declared or scraped, single/multi output storing, run = bare function over every construction/call split "
        "incl. cache hits, transformers for all sizes, dataclass nodes with defaults and factories). Generated python SOURCE "
        "for every signature description is wrapped by the real decorators and compared with the model and with the bare function.",
   design="7/C17", technique="Coq proofs by induction over parameter lists / sizes / call histories + differential correspondence on generated source + oracle + Function.process_run_result / _outputs_to_run_return REGENERATED from function.py on every run and proved equal to the model (translator tie)",
   note="Full theorems hold for the code after fix commit 74b924f. CPython's parser/inspect are glue validated differentially; "
        "inputs_to_dataframe keeps a guard about ill-formed rows; caller-chosen names equal to run flags for inputs_to_dict / "
        "dataclass fields are outside (side condition stated in the theorem)."),
 "C12": dict(
   text="Coq theorems over Chan.v (channel store with ordered connection lists; connect/disconnect/disconnect_all/"
        "copy_connections with its undo log, panel and node level helpers, >> and <<, call keywords, remove_child, replace_child, "
        "topology wiring and pull): the invariant Sym /\\ Conj /\\ NoDup (+ hint-valid strict data connections) holds in every state "
        "reachable by ANY op sequence and is preserved by every single op from any invariant state; refused connects and "
        "disconnects of unconnected channels leave the whole state equal; after remove_child / node.disconnect / replace_child no "
        "channel points at the node. Edit histories on real nodes are compared with the model after every op.",
   design="7/C12", technique="Coq invariant proof by induction over op lists + Channel.connect REGENERATED from channels.py on every run and proved equal to the model's connect (translator tie) + differential correspondence + oracle",
   note="Macro value_receiver links are not connections (S22 observation) and are outside this layer; executors/merge and "
        "restore-from-state are covered by C10/C07. Iteration orders of python sets are read back from the implementation."),
 "C13": dict(
   text="Coq theorems over Lex.v (parent pointers, ordered label<->child maps, starting nodes; _set_parent, add_child, remove_child, "
        "label uniqueness/suffixing, cyclic test by identity walk, Workflow parent setter, replace_child, __setattr__, parent= at "
        "construction): the ownership invariant (both views agree, unique sibling labels, no reserved labels, well-founded parent "
        "chains, workflows parentless, starting nodes are children) holds after EVERY history of operations, and a refused operation "
        "leaves the state literally equal. Histories on real Workflows/Macros/leaves are compared with the model after every op.",
   design="7/C13", technique="Coq invariant proof by induction over op lists + differential correspondence + oracle",
   note="Full theorems hold for the code after fix commits 41b18f7 251e8e4 c6a0b05 bbd293b (S8 S9 S10 K1-K4). Connections, value "
        "links and pickling are outside this layer."),
 "C03": dict(
   text="Coq theorems over Fetch.v (value setter with lock test, own type check, forwarding along value-receiver chains before "
        "the store; InputData.fetch; DataChannel.ready; set_input_values -> fetch -> readiness gate -> call): fetch takes the most "
        "recently connected upstream output holding data else keeps its own value and touches only the receiver chain; the "
        "function is called only by a non-running non-failed node whose inputs are all ready, with exactly the resolved values, "
        "otherwise the run is refused with the store left by delivery; every delivery path (direct, keyword, fetch, forwarding "
        "of any chain length) preserves 'no strictly hinted channel holds a hint-violating value'. Histories of public operations "
        "on real channels and nodes are compared step by step with the model; the oracle re-derives the property's demands.",
   design="7/C03", technique="Coq proofs (induction on receiver-chain fuel, store invariant over all delivery paths) + model functions proved equal to the methods REGENERATED from channels.py on every run (translator tie) + differential correspondence + oracle",
   note="Hints are reduced to int-or-none here (the hint calculus is C04). A TypeError raised by the setter during fetch is "
        "accepted as a refusal alongside ReadinessError. Second tie (coq/gen/C03gen.v): ready, _type_check_new_value, both value "
        "setters and InputData.fetch are regenerated from the source by tools/py2gallina_chan.py and proved equal to the model's "
        "functions; when the source leaves the translator's language this tie is reported as not applicable and the correspondence remains. The cache is switched off on the nodes of this layer (C05 covers it)."),
 "C05": dict(
   text="Coq theorem over Cache.v (the run cycle of one node as the current code performs it: cache test, readiness gate, local "
        "or executor run, success/failure epilogue, cache write): for EVERY deterministic node function and EVERY history of "
        "assignments, local and executor runs, failures, refusals, flag clears and cache-resetting edits, the cached machine and "
        "its use_cache=False twin return the same results and show the same inputs/outputs/flags after every operation; the "
        "invariant 'a cache key is the input vector of the current output' and 'nothing changes while a job is out' are separate "
        "theorems; the statement with silent internal edits of a composite is refuted (known finding S5). Both machines are "
        "compared step by step with real nodes (cached and uncached), and the twin comparison on the real library (leaf nodes "
        "and macros with child additions, replacements, silent edits) is the oracle.",
   design="7/C05", technique="Coq simulation proof (twin machines, invariant over histories) + Node.cache_hit REGENERATED from node.py on every run and proved equal to the model's cache_hit (translator tie) + differential correspondence + twin oracle on the real library",
   note="Composite internals are abstracted to a configuration value; for-loop rebuild on miss is covered by C16. Functions are "
        "assumed deterministic and non-mutating; executor runs are observed at completion."),
 "C02": dict(
   text="Coq theorems: (1) for every history of arrivals, bare calls, connects, disconnects and resets the all-of trigger fires "
        "exactly at the steps where its round is complete (sound+complete), then starts a fresh round, given that scoped labels "
        "identify emitters; refuted without that hypothesis (known finding S11); any-of fires once per call. (2) for every hand-wired "
        "signal graph over function/comparison/If/all-of nodes, every fuel and starting list, the loop as the code performs it (with "
        "per-node input caches) ends in the same state as the plain FIFO interpretation of the signal connections. Both models are "
        "run against real AccumulatingInputSignal objects and real non-automated Workflows; an independent python queue interpreter "
        "is the oracle.",
   design="7/C02", technique="Coq induction over op histories + simulation proof (cached loop refines queue spec) + trigger model proved equal to the methods REGENERATED from channels.py on every run (translator tie) + differential correspondence + oracle",
   note="All children local, no failing functions (C06), no executors in flows. Second tie (coq/gen/C02gen.v): "
        "AccumulatingInputSignal.__call__/reset and InputSignal.__call__ are regenerated from the source by tools/py2gallina_chan.py "
        "and proved equal to Trig.v's acc_call (callback invoked exactly once iff the model fires). Trusts the harness's python reference interpreter "
        "as oracle and the generators' coverage (distribution in evidence)."),
 "C15": dict(
   text="Coq theorems over WfIO.v (model of Workflow._build_io, the map setters, panel assignment and run): characterisation of the "
        "IO panels for every state, identity of exposed channels, hidden/connected rules, return dictionary, bijectivity of maps, "
        "invariant over every edit history; refuted witnesses for key collisions (known findings S18, S33). Edit histories are "
        "run on real Workflows and compared step by step with the model; the oracle checks the characterisation directly.",
   design="7/C15", technique="Coq proof of a characterisation + invariant over histories + Workflow._build_io REGENERATED from workflow.py on every run and proved equal to the model's build_io (translator tie) + differential correspondence + oracle",
   note="Availability theorem is partial (guard: no scoped-label collision, no map name shadowing a default key). Per-step "
        "observations are compared through a 61-bit hash computed alike on both sides (TRUSTED in evidence). Type hints, executors, "
        "failing children not covered here."),
 "C16": dict(
   text="Coq theorems over ForLoop.v: dictionary_to_index_maps equals the nested-times-zipped enumeration (mixed radix digits, length "
        "prod x min), the returned table equals the specification table for every body function, layout, output form, column map "
        "and completion order, re-runs rebuild exactly the body nodes of the current lengths; two refuted witnesses (known findings "
        "mixed zero length, column map clash). Real For nodes (incl. thread-pool bodies) are compared with the model and with a "
        "plain-python nested-loops reference.",
   design="7/C16", technique="Coq proof (induction over key lists / row indices / histories) + dictionary_to_index_maps REGENERATED from for_loop.py on every run and proved equal to the model's index_maps (translator tie) + differential correspondence + oracle",
   note="pandas internals, failing bodies, in-place mutation of inputs not modelled; partial theorems carry the guards "
        "mixed_zero=false and distinct column names."),
 "C19": dict(
   text="Coq theorems over Store.v (abstract file system; save as an explicit list of primitive steps so that a crash is any prefix "
        "incl. a partial write): for every history of saves, failing saves, crashes at every step/byte, loads, deletes: load returns "
        "the last completed save, no final name ever holds a partial file, a successful save is what the next load/autoload returns, "
        "delete removes files and emptied directories, class-mismatching loads are refused with the node unchanged. The model's "
        "predicted traces of os-level calls are compared with traces recorded on the real code; crashes are injected in a child process.",
   design="7/C19", technique="Coq refinement invariant over histories with crash prefixes + trace correspondence + fault injection + oracle + the file-system step list of PickleStorage._save REGENERATED from storage.py on every run and proved equal to the model's save_steps (translator tie)",
   note="FS assumptions: each primitive atomic (incl. os.replace), a dead process leaves its completed primitives plus a prefix of "
        "the write in flight, no durability semantics. Two partial theorems (known findings S24 stale tmp after crash, S25 rmdir of cwd)."),
 "C01": dict(
   text="Coq theorems about the abstract DAG-run machine (Dag.v): for every acyclic graph, every node function, every "
        "executor assignment and EVERY enabled sequence of signal deliveries and executor completions ending quiescent: each "
        "child starts and finishes exactly once, finish(u) precedes start(n) on every data edge, outputs equal plain "
        "composition, nothing left running; plus a termination bound (2|V|+|E| events) and deadlock freedom. The machine is tied to the code by "
        "running real workflows (manual executor, prescribed completion order) and comparing the merged start/finish log, "
        "outputs, flags, derived trigger wiring and starting nodes with the model's code-shaped scheduler, which is proved "
        "to be one of the machine's event sequences.",
   design="7/C01", technique="Coq invariant proof (edge-token invariant) over an event machine + the all-of trigger wiring REGENERATED from topology.py on every run and proved to be the model's wiring (translator tie) + trace correspondence + oracle",
   note="Trusts: Coq kernel/vm_compute; the harness's manual executor and the replacement of composite.sleep as schedule; toposort's first "
        "layer = sources. Executor callbacks are modelled as atomic events: the finish/checkpoint/emit split (DESIGN S20) and real "
        "thread timing are not exhibited. Nested macros are covered by the oracle only."),
 "C04": dict(
   text="Coq theorems (totality for every pair of hint objects, reflexivity and soundness on the stated grammar) "
        "about HintsGen.v, which is regenerated from /repo's type_hinting.py by a fail-closed translator on every run; "
        "plus differential runs of the generated model and of Hints.admits against the real functions, and a soundness/"
        "reflexivity/no-crash oracle on the implementation.",
   design="7/C04", technique="Coq proof about a model regenerated from source + differential correspondence + oracle",
   note="Trusts: Coq kernel/vm_compute; tools/py2gallina.py; Hints.v primitives (typing.get_origin/get_args, issubclass, ==) "
        "and Hints.admits as the model of isinstance+typeguard (validated differentially each run). Soundness theorem is "
        "partial: variadic tuples/Callable only by correspondence+oracle; tuple[()] targets refuted (known finding S3); "
        "float excluded (known finding S23)."),
}
def main():
    checks = []
    for pid, c in sorted(CLAIMED.items()):
        checks.append({
            "property_id": pid,
            "quick_cmd": f"bin/check {pid} --tier quick",
            "thorough_cmd": f"bin/check {pid} --tier thorough",
            "evidence_file": f"/verif/evidence/{pid}.json",
            "replay_cmd_template": f"bin/check {pid} --replay {{path}}",
            "engine": "coq-model+correspondence",
            "level_claimed": {"category": "proof", "text": c["text"], "design_ref": c["design"]},
            "level_note": c["note"],
            "technique": c["technique"],
        })
    m = {
        "version": 1,
        "setup_cmd": "bin/setup",
        "hooks": {"guard": "PYIRON_WORKFLOW_VERIF", "enable": "PYIRON_WORKFLOW_VERIF=1 in the environment of the harness (bin/check sets it)",
                  "baseline_off_cmd": "cd /repo && env -u PYIRON_WORKFLOW_VERIF /venv/bin/python -m pytest -ra -q -p no:cacheprovider --timeout=900 --continue-on-collection-errors",
                  "source_commits": json.loads((V / "hooks.json").read_text()) if (V / "hooks.json").exists() else [],
                  "add_only": True},
        "engines": [{"name": "coq-model+correspondence", "path": "coq/ harness/ tools/",
                     "serves_properties": sorted(CLAIMED),
                     "kind_free_text": "Coq 8.16 development (executable Gallina model + theorems), python harness that runs the real library "
                                       "and the model (coqc/vm_compute) on the same generated scenarios, property oracles"}],
        "checks": checks,
        "notes": "See DESIGN.md. known_findings.json lists recorded genuine defects and fixed: entries.",
        "not_applicable": [{"property_id": p, "reason": "no check registered yet (framework under construction; see DESIGN.md section 12)"}
                           for p in ALL if p not in CLAIMED],
    }
    (V / "MANIFEST.json").write_text(json.dumps(m, indent=1) + "\n")
if __name__ == "__main__":
    main()
