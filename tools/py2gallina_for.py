#!/usr/bin/env python3
"""Fail-closed translator:  /repo/pyiron_workflow/nodes/for_loop.py :: dictionary_to_index_maps  ->  ForGen.v

usage: py2gallina_for.py <for_loop.py> <out dir>      (prints one JSON line: {"for": "ok"|reason})

The function is regenerated, statement by statement, as a Gallina definition over the types of ForLoop.v
(`data` : key -> length-or-no-len, keys : option (list string), result : res (list imap)); coq/gen/ForGenProofs.v
then PROVES it equal to the hand-written ForLoop.index_maps for all arguments, so the theorems of Props/C16.v about
the index maps are theorems about what the source says now.  Idiom -> primitive table: coq/theories/ForPrim.v.
Anything outside the table raises Untranslatable (the tie is then reported as not applicable)."""
import ast
import json
import sys
from pathlib import Path


class Untranslatable(Exception):
    pass


def bad(node, why):
    raise Untranslatable(f"line {getattr(node, 'lineno', '?')}: {why}: {ast.unparse(node)[:90]}")


def name_of(n):
    return n.id if isinstance(n, ast.Name) else None


def dotted(n):
    if isinstance(n, ast.Name):
        return n.id
    if isinstance(n, ast.Attribute):
        d = dotted(n.value)
        return None if d is None else d + "." + n.attr
    return None


class T:
    def __init__(self, fn):
        self.fn = fn
        a = fn.args
        ps = [x.arg for x in a.args]
        if len(ps) != 3 or a.vararg or a.kwarg or a.kwonlyargs or [ast.unparse(d) for d in a.defaults] != ["None", "None"]:
            bad(fn, "signature")
        self.data, self.keys = ps[0], ps[1:]
        self.nats, self.lists, self.fun0, self.funs = set(), set(), set(), {}
        self.result = None

    # ---------------------------------------------------------------- conditions
    def cond(self, n, env):
        if isinstance(n, ast.BoolOp):
            op = "&&" if isinstance(n.op, ast.And) else "||"
            return "(" + f" {op} ".join(self.cond(v, env) for v in n.values) + ")"
        if isinstance(n, ast.Compare) and len(n.ops) == 1:
            l, op, r = n.left, n.ops[0], n.comparators[0]
            if isinstance(op, ast.Is) and isinstance(r, ast.Constant) and r.value is None and name_of(l) in self.keys:
                return f"isnone {l.id}"
            if isinstance(r, ast.Constant) and r.value == 0 and isinstance(op, (ast.Eq, ast.Gt)):
                e = self.nat(l, env)
                return f"Nat.eqb {e} 0" if isinstance(op, ast.Eq) else f"Nat.ltb 0 {e}"
        bad(n, "condition outside the translated idioms")

    # ---------------------------------------------------------------- naturals
    def nat(self, n, env):
        if isinstance(n, ast.Constant) and isinstance(n.value, int) and not isinstance(n.value, bool) and 0 <= n.value < 100:
            return str(n.value)
        if name_of(n) in self.nats or name_of(n) in env:
            return env.get(n.id, n.id)
        if isinstance(n, ast.Call) and name_of(n.func) == "len" and len(n.args) == 1 and not n.keywords:
            a = n.args[0]
            if name_of(a) in self.keys:
                return f"(List.length (okeys {a.id}))"
            if name_of(a) in self.lists:
                return f"(List.length {a.id})"
        if isinstance(n, ast.Call) and dotted(n.func) == "math.prod" and len(n.args) == 1 and name_of(n.args[0]) in self.lists:
            return f"prod {n.args[0].id}"
        if isinstance(n, ast.IfExp):
            return f"(if {self.cond(n.test, env)} then {self.nat(n.body, env)} else {self.nat(n.orelse, env)})"
        bad(n, "number outside the translated idioms")

    def is_lengths(self, n):
        """len(data[key]) for key in K  (list comprehension or generator) -> K"""
        if isinstance(n, (ast.ListComp, ast.GeneratorExp)) and len(n.generators) == 1:
            g = n.generators[0]
            e = n.elt
            if (not g.ifs and isinstance(g.target, ast.Name) and name_of(g.iter) in self.keys
                    and isinstance(e, ast.Call) and name_of(e.func) == "len" and len(e.args) == 1
                    and isinstance(e.args[0], ast.Subscript) and name_of(e.args[0].value) == self.data
                    and name_of(e.args[0].slice) == g.target.id):
                return g.iter.id
        return None

    # ---------------------------------------------------------------- expressions that may raise: res (list nat) / res nat
    def res_expr(self, n, env):
        """-> (text, 'list'|'nat')"""
        if isinstance(n, ast.IfExp):
            b, tb = self.res_expr(n.body, env)
            o, to = self.res_expr(n.orelse, env)
            if tb != to:
                bad(n, "branches of different types")
            return f"(if {self.cond(n.test, env)} then {b} else {o})", tb
        if isinstance(n, ast.List) and not n.elts:
            return "Ok []", "list"
        if isinstance(n, ast.Constant) and n.value == 0:
            return "Ok 0", "nat"
        k = self.is_lengths(n)
        if k and isinstance(n, ast.ListComp):
            return f"lengths {self.data} (okeys {k})", "list"
        if isinstance(n, ast.Call) and name_of(n.func) == "min" and len(n.args) == 1 and not n.keywords:
            k = self.is_lengths(n.args[0])
            if k:
                return f"rmap minl (lengths {self.data} (okeys {k}))", "nat"
        bad(n, "expression outside the translated idioms")

    # ---------------------------------------------------------------- sequences, dictionaries
    def seq(self, n, env):
        if isinstance(n, ast.Call) and name_of(n.func) in self.fun0 and not n.args and not n.keywords:
            return f"({n.func.id} tt)"
        if isinstance(n, ast.Call) and name_of(n.func) == "range" and len(n.args) == 1 and not n.keywords:
            return f"seq 0 {self.nat(n.args[0], env)}"
        if isinstance(n, ast.Call) and dotted(n.func) == "itertools.product" and not n.keywords:
            if len(n.args) == 1 and isinstance(n.args[0], ast.Starred):
                c = n.args[0].value
                if (isinstance(c, ast.ListComp) and len(c.generators) == 1 and not c.generators[0].ifs
                        and isinstance(c.generators[0].target, ast.Name) and name_of(c.generators[0].iter) in self.lists
                        and isinstance(c.elt, ast.Call) and name_of(c.elt.func) == "range" and len(c.elt.args) == 1
                        and name_of(c.elt.args[0]) == c.generators[0].target.id):
                    return f"product {c.generators[0].iter.id}"
            if len(n.args) == 2 and not any(isinstance(a, ast.Starred) for a in n.args):
                return f"(py_product2 {self.seq(n.args[0], env)} {self.seq(n.args[1], env)})"
        bad(n, "sequence outside the translated idioms")

    def dct(self, n, env):
        if isinstance(n, ast.Call) and name_of(n.func) in self.funs and not n.keywords and len(n.args) == self.funs[n.func.id]:
            args = " ".join(self.arg(a, env) for a in n.args)
            return f"{n.func.id} {args}"
        if (isinstance(n, ast.DictComp) and len(n.generators) == 1 and not n.generators[0].ifs):
            g = n.generators[0]
            if (isinstance(g.target, ast.Tuple) and len(g.target.elts) == 2 and all(isinstance(e, ast.Name) for e in g.target.elts)
                    and isinstance(g.iter, ast.Call) and name_of(g.iter.func) == "enumerate" and len(g.iter.args) == 1
                    and isinstance(n.key, ast.Subscript) and name_of(n.key.value) in self.keys
                    and name_of(n.key.slice) == g.target.elts[0].id and name_of(n.value) == g.target.elts[1].id
                    and name_of(g.iter.args[0]) in env):
                return f"dict_enum (okeys {n.key.value.id}) {env[g.iter.args[0].id]}"
        if (isinstance(n, ast.Call) and dotted(n.func) == "dict.fromkeys" and len(n.args) == 2 and not n.keywords
                and name_of(n.args[0]) in self.keys and name_of(n.args[1]) in env):
            return f"dict_fromkeys (okeys {n.args[0].id}) {env[n.args[1].id]}"
        bad(n, "dictionary outside the translated idioms")

    def arg(self, n, env):
        if name_of(n) in env:
            return env[n.id]
        return "(" + self.dct(n, env) + ")"

    def tuple_of(self, n, env):
        """tuple(F for x in G) / tuple(F for a, b in itertools.product(A, B))"""
        if not (isinstance(n, ast.Call) and name_of(n.func) == "tuple" and len(n.args) == 1 and isinstance(n.args[0], ast.GeneratorExp)
                and len(n.args[0].generators) == 1 and not n.args[0].generators[0].ifs):
            bad(n, "result outside the translated idioms")
        g = n.args[0].generators[0]
        src = self.seq(g.iter, env)
        if isinstance(g.target, ast.Name):
            x = g.target.id
            return f"map (fun {x} => {self.dct(n.args[0].elt, dict(env, **{x: x}))}) {src}"
        if isinstance(g.target, ast.Tuple) and len(g.target.elts) == 2 and all(isinstance(e, ast.Name) for e in g.target.elts):
            a, b = (e.id for e in g.target.elts)
            return f"map (fun p => {self.dct(n.args[0].elt, dict(env, **{a: '(fst p)', b: '(snd p)'}))}) {src}"
        bad(n, "loop target outside the translated idioms")

    # ---------------------------------------------------------------- statements
    def closure(self, st):
        args = [a.arg for a in st.args.args]
        body = st.body
        env = {a: a for a in args}
        if not args:
            if len(body) == 1 and isinstance(body[0], ast.Return) and body[0].value is not None:
                self.fun0.add(st.name)
                return f"let {st.name} := fun (_ : unit) => {self.seq(body[0].value, env)} in"
            bad(st, "closure outside the translated idioms")
        if len(body) == 1 and isinstance(body[0], ast.Return) and body[0].value is not None:
            text = self.dct(body[0].value, env)
        elif (len(args) == 2 and len(body) == 2 and isinstance(body[0], ast.Expr) and isinstance(body[0].value, ast.Call)
              and dotted(body[0].value.func) == f"{args[0]}.update" and len(body[0].value.args) == 1
              and name_of(body[0].value.args[0]) == args[1] and isinstance(body[1], ast.Return) and name_of(body[1].value) == args[0]):
            text = f"dict_update {args[0]} {args[1]}"
        else:
            bad(st, "closure outside the translated idioms")
        self.funs[st.name] = len(args)
        return f"let {st.name} := fun {' '.join(args)} => {text} in"

    def branch(self, body):
        if len(body) == 1 and isinstance(body[0], ast.Assign) and len(body[0].targets) == 1 and isinstance(body[0].targets[0], ast.Name):
            if self.result not in (None, body[0].targets[0].id):
                bad(body[0], "two result variables")
            self.result = body[0].targets[0].id
            return f"Ok ({self.tuple_of(body[0].value, {})})"
        if len(body) == 1 and isinstance(body[0], ast.Raise) and isinstance(body[0].exc, ast.Call) and name_of(body[0].exc.func) == "ValueError":
            a = body[0].exc.args
            msg = a[0].value if a and isinstance(a[0], ast.Constant) and isinstance(a[0].value, str) else ""
            if msg.startswith("At least one"):
                return "Err ValueErrorNoKeys"
            if msg.startswith("Received keys"):
                return "Err ValueErrorAllZero"
        bad(body[0], "branch outside the translated idioms")

    def chain(self, st):
        if not st.orelse:
            bad(st, "an if without else in result position")
        els = st.orelse
        rest = self.chain(els[0]) if len(els) == 1 and isinstance(els[0], ast.If) else self.branch(els)
        return f"if {self.cond(st.test, {})} then {self.branch(st.body)}\n  else {rest}"

    def generate(self):
        body = self.fn.body
        if body and isinstance(body[0], ast.Expr) and isinstance(body[0].value, ast.Constant):
            body = body[1:]
        lines, closers = [], 0
        i = 0
        while i < len(body):
            st = body[i]
            i += 1
            if isinstance(st, ast.Try):
                h = st.handlers
                if not (len(st.body) == 1 and isinstance(st.body[0], ast.Assign) and len(h) == 1 and name_of(h[0].type) == "TypeError"
                        and not st.orelse and not st.finalbody and len(h[0].body) == 1 and isinstance(h[0].body[0], ast.Raise)
                        and isinstance(h[0].body[0].exc, ast.Call) and name_of(h[0].body[0].exc.func) == "TypeError"):
                    bad(st, "try outside the translated idioms")
                st = st.body[0]
            if isinstance(st, ast.Assign) and len(st.targets) == 1 and isinstance(st.targets[0], ast.Name):
                x = st.targets[0].id
                try:
                    text, ty = self.res_expr(st.value, {})
                    lines.append(f"bind {text} (fun {x} =>")
                    closers += 1
                    (self.lists if ty == "list" else self.nats).add(x)
                except Untranslatable:
                    lines.append(f"let {x} := {self.nat(st.value, {})} in")
                    self.nats.add(x)
                continue
            if isinstance(st, ast.FunctionDef) and not st.decorator_list:
                lines.append(self.closure(st))
                continue
            if isinstance(st, ast.If):
                lines.append(self.chain(st))
                if not (i == len(body) - 1 and isinstance(body[i], ast.Return) and name_of(body[i].value) == self.result):
                    bad(st, "the branch chain must be followed by the return of its result")
                break
            bad(st, "statement outside the translated idioms")
        else:
            bad(self.fn, "no result")
        k1, k2 = self.keys
        return ("(* GENERATED by tools/py2gallina_for.py from pyiron_workflow/nodes/for_loop.py -- do not edit *)\n"
                "From PW Require Import Base ForLoop ForPrim.\nOpen Scope nat_scope.\n\n(* dictionary_to_index_maps *)\n"
                f"Definition gen_index_maps ({self.data} : list (string * option nat)) ({k1} {k2} : option (list string)) : res (list imap) :=\n  "
                + "\n  ".join(lines) + ")" * closers + ".\n")


def main():
    src, outdir = Path(sys.argv[1]), Path(sys.argv[2])
    out = outdir / "ForGen.v"
    try:
        tree = ast.parse(src.read_text())
        fns = [n for n in tree.body if isinstance(n, ast.FunctionDef) and n.name == "dictionary_to_index_maps"]
        if len(fns) != 1:
            raise Untranslatable(f"{len(fns)} definitions of dictionary_to_index_maps")
        text = T(fns[0]).generate()
    except (OSError, SyntaxError, Untranslatable) as e:
        out.unlink(missing_ok=True)
        print(json.dumps({"for": f"untranslatable: {e}"}))
        return
    out.write_text(text)
    print(json.dumps({"for": "ok"}))


if __name__ == "__main__":
    main()
