#!/usr/bin/env python3
"""mutsweep.py --n N --seed S --jobs J [--files f1.py f2.py ...] [--out DIR]
Operator-level mutation sweep used to look for blind spots of the checks (not part of any registered command):
for N random single-site mutants of the library (negated conditions, dropped statements, swapped comparison /
boolean operators, swapped call arguments), in scratch worktrees under /tmp:
  1. the package must import;   2. the pinned suite must keep its baseline (otherwise the tests already catch it);
  3. the quick checks of the properties anchored in the mutated file are run against the worktree.
Mutants that survive 2 AND 3 are listed for inspection (equivalent mutant, or a gap to close).
Evidence/replays of these runs go to a scratch directory (VERIF_OUT), never to /verif/evidence."""
import argparse, ast, collections, copy, json, os, random, shutil, subprocess, sys, time
from concurrent.futures import ThreadPoolExecutor

V = "/verif"
ap = argparse.ArgumentParser()
ap.add_argument("--n", type=int, default=20)
ap.add_argument("--seed", type=int, default=1)
ap.add_argument("--jobs", type=int, default=4)
ap.add_argument("--files", nargs="*")
ap.add_argument("--out", default=f"{V}/build/mutsweep")
ap.add_argument("--allprops", action="store_true")
a = ap.parse_args()

anch = collections.defaultdict(list)
for l in open(f"{V}/properties.jsonl"):
    d = json.loads(l)
    for f in d["anchors"]["files"]:
        anch[f].append(d["id"])
files = a.files or sorted(anch)
rng = random.Random(a.seed)


def sites(tree):
    out = []
    for node in ast.walk(tree):
        if isinstance(node, (ast.If, ast.While, ast.IfExp)):
            out.append(("negate", node))
        if isinstance(node, ast.Compare) and len(node.ops) == 1:
            out.append(("cmp", node))
        if isinstance(node, ast.BoolOp):
            out.append(("bool", node))
        if isinstance(node, (ast.FunctionDef, ast.If, ast.For, ast.While, ast.With, ast.Try)):
            for fld in ("body", "orelse", "finalbody"):
                body = getattr(node, fld, None) or []
                for i, st in enumerate(body):
                    if isinstance(st, (ast.Expr, ast.Assign, ast.AugAssign, ast.Raise)) and not (
                            isinstance(st, ast.Expr) and isinstance(st.value, ast.Constant)):
                        out.append(("drop", (node, fld, i)))
        if isinstance(node, ast.Call) and len(node.args) >= 2 and not any(isinstance(x, ast.Starred) for x in node.args):
            out.append(("swapargs", node))
        if isinstance(node, ast.Return) and node.value is not None and not isinstance(node.value, ast.Constant):
            out.append(("retnone", node))
    return out


SWAP = {ast.Eq: ast.NotEq, ast.NotEq: ast.Eq, ast.Is: ast.IsNot, ast.IsNot: ast.Is, ast.Lt: ast.LtE, ast.LtE: ast.Lt,
        ast.Gt: ast.GtE, ast.GtE: ast.Gt, ast.In: ast.NotIn, ast.NotIn: ast.In}


def mutate(src, pick):
    tree = ast.parse(src)
    ss = sites(tree)
    kind, node = ss[pick % len(ss)]
    line = getattr(node if kind != "drop" else getattr(node[0], node[1])[node[2]], "lineno", 0)
    if kind == "negate":
        node.test = ast.UnaryOp(op=ast.Not(), operand=node.test)
    elif kind == "cmp":
        node.ops = [SWAP[type(node.ops[0])]()]
    elif kind == "bool":
        node.op = ast.Or() if isinstance(node.op, ast.And) else ast.And()
    elif kind == "drop":
        getattr(node[0], node[1])[node[2]] = ast.Pass()
    elif kind == "swapargs":
        node.args[0], node.args[1] = node.args[1], node.args[0]
    elif kind == "retnone":
        node.value = ast.Constant(value=None)
    ast.fix_missing_locations(tree)
    return kind, line, ast.unparse(tree)


def sh(cmd, **kw):
    p = subprocess.run(cmd, stdout=subprocess.PIPE, stderr=subprocess.STDOUT, text=True, **kw)
    return p.returncode, p.stdout


plan = []
for i in range(a.n):
    f = rng.choice(files)
    plan.append((i, f, rng.randrange(10 ** 6)))
os.makedirs(a.out, exist_ok=True)
results = []


def work(slot, items):
    wt = f"/tmp/ms_wt_{a.seed}_{slot}"
    subprocess.run(["git", "-C", "/repo", "worktree", "remove", "--force", wt], capture_output=True)
    rc, out = sh(["git", "-C", "/repo", "worktree", "add", "--detach", wt])
    assert rc == 0, out
    scratch = f"/tmp/ms_out_{a.seed}_{slot}"
    try:
        for (i, f, pick) in items:
            sh(["git", "-C", wt, "checkout", "--", "."])
            src = open(f"{wt}/{f}").read()
            base = ast.unparse(ast.parse(src))
            try:
                kind, line, new = mutate(src, pick)
            except Exception as e:   # noqa
                continue
            if new == base:
                continue
            open(f"{wt}/{f}", "w").write(new)
            rec = {"i": i, "file": f, "kind": kind, "line": line, "pick": pick}
            rc, out = sh(["/venv/bin/python", "-c", "import pyiron_workflow"], env=dict(os.environ, PYTHONPATH=wt), timeout=120)
            if rc != 0:
                rec["stage"] = "import-fails"
                results.append(rec)
                continue
            try:
                rc, out = sh(["/venv/bin/python", f"{V}/tools/baseline.py"], env=dict(os.environ, BASELINE_REPO=wt), timeout=1500)
            except subprocess.TimeoutExpired:
                rc = 1
            if rc != 0:
                rec["stage"] = "tests-catch"
                results.append(rec)
                continue
            props = sorted(anch) and (sorted({p for v in anch.values() for p in v}) if a.allprops else anch[f])
            caught = []
            shutil.rmtree(scratch, ignore_errors=True)
            os.makedirs(scratch)
            for p in props:
                try:
                    rc, out = sh([f"{V}/bin/check", p], env=dict(os.environ, VERIF_REPO=wt, VERIF_OUT=scratch), timeout=1500)
                except subprocess.TimeoutExpired:
                    rc, out = 1, "timeout"
                if rc != 0:
                    caught.append(p)
                    break
            rec["stage"] = "checks-catch" if caught else "SURVIVES"
            rec["caught_by"] = caught
            rec["props_run"] = props
            if not caught:
                d = f"{a.out}/survivor_{a.seed}_{i}.diff"
                rc, out = sh(["git", "-C", wt, "diff"])
                # record only the mutated line region (the unparse reformats the whole file)
                rec["diff_file"] = d
                open(d, "w").write(f"# {f} line~{line} kind={kind} pick={pick}\n")
            results.append(rec)
            print(json.dumps(rec), flush=True)
    finally:
        subprocess.run(["git", "-C", "/repo", "worktree", "remove", "--force", wt], capture_output=True)
        shutil.rmtree(scratch, ignore_errors=True)


chunks = [plan[k::a.jobs] for k in range(a.jobs)]
with ThreadPoolExecutor(a.jobs) as ex:
    list(ex.map(lambda kv: work(*kv), enumerate(chunks)))
summary = collections.Counter(r["stage"] for r in results)
json.dump({"summary": summary, "results": results}, open(f"{a.out}/sweep_{a.seed}.json", "w"), indent=1)
print(dict(summary))
