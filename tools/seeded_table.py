#!/usr/bin/env python3
"""prints the markdown table of DESIGN §12 from seeded/*/{meta.json,patch.diff}"""
import glob, json, re
print("| seeded change | site of the change | reported by `bin/check` of | first failing input reported (oracle) |")
print("|---|---|---|---|")
for f in sorted(glob.glob("/verif/seeded/*/meta.json")):
    n = f.split("/")[-2]
    m = json.load(open(f))
    d = open(f.replace("meta.json", "patch.diff")).read()
    files = re.findall(r"^\+\+\+ b/pyiron_workflow/(\S+)", d, re.M)
    ctx = re.findall(r"^@@ [^@]+ @@ (?:class |def |async def )?([A-Za-z_0-9]+)", d, re.M)
    site = ", ".join(dict.fromkeys(files)) + (" (" + ", ".join(dict.fromkeys(ctx))[:40] + ")" if ctx else "")
    if m.get("obsolete"):
        why = re.sub(r"\s+", " ", str(m["obsolete"])).replace("|", "/")[:110]
        print(f"| {n} | {site} | (obsolete) | {why} |")
    elif m.get("caught"):
        g = (m.get("caught_by") or [{}])[0]
        why = re.sub(r"\s+", " ", str(g.get("why", ""))).replace("|", "/")[:80]
        print(f"| {n} | {site} | {m['property']} | {why} |")
    else:
        print(f"| {n} | {site} | not by {m['property']}'s own check: see the `{n}_via_…` row | |")
