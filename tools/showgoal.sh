#!/bin/sh
# usage: showgoal.sh file.v LINE [TAIL] -- prints the goal just before LINE (1-based) of the file
f="$1"; n="$2"; b=$(basename "$f" .v)
d=$(mktemp -d /tmp/showgoal_XXXXXX)
head -n $((n-1)) "$f" > "$d/Zz_show_$b.v"; echo "Show. Abort." >> "$d/Zz_show_$b.v"
(cd "$d" && timeout 300 coqc -noglob -Q /verif/coq/theories PW "Zz_show_$b.v" 2>&1 | tail -${3:-40})
rm -rf "$d"
