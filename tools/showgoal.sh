#!/bin/sh
# usage: showgoal.sh file.v LINE  -- prints the goal just before LINE (1-based) of the file
f="$1"; n="$2"; d=$(dirname "$f"); b=$(basename "$f" .v)
tmp="$d/Zz_show_$b.v"
head -n $((n-1)) "$f" > "$tmp"; echo "Show. Abort." >> "$tmp"
timeout 300 coqc -Q /verif/coq/theories PW "$tmp" 2>&1 | tail -${3:-40}
rm -f "$tmp" "$d/Zz_show_$b.vo" "$d/Zz_show_$b.glob" "$d/.Zz_show_$b.aux" "$d/Zz_show_$b.vok" "$d/Zz_show_$b.vos"
