#!/usr/bin/env python3
"""Fail-closed translator: /repo/pyiron_workflow/type_hinting.py  ->  coq/theories/HintsGen.v

Translates exactly three functions (type_hint_to_tuple, _get_type_hints,
type_hint_is_as_or_more_specific_than).  Every Python value they handle becomes a term of
the single Gallina type `Hints.hint` ("any Python object the functions can see"); tuples
and lists of such objects become `list hint`; truth values `bool`; the result of the
recursive function `option bool` (None = recursion limit hit; threaded as fuel).

Each accepted Python idiom maps to ONE primitive of Hints.v (table below).  Anything else
raises Untranslatable, and the C04 check then treats the proof tie as broken.
"""
import ast
import sys

class Untranslatable(Exception):
    pass

FUNCS = ["type_hint_to_tuple", "_get_type_hints", "type_hint_is_as_or_more_specific_than"]
REC = "type_hint_is_as_or_more_specific_than"

# dotted names / bare names that denote fixed objects
CONST_OBJ = {
    "types.UnionType": "(HSpec SUnionType)",
    "typing.Union": "(HSpec STypingUnion)",
    "typing.Annotated": "(HSpec SAnnotated)",
    "typing.Literal": "(HSpec SLiteral)",
    "dict": "(HCls DictC)", "tuple": "(HCls TupleC)", "list": "(HCls ListC)",
    "set": "(HCls SetC)", "type": "(HCls TypeC)", "Callable": "(HCls CallableC)",
    "None": "PyNone",
}

def dotted(node):
    if isinstance(node, ast.Name):
        return node.id
    if isinstance(node, ast.Attribute):
        d = dotted(node.value)
        return None if d is None else d + "." + node.attr
    return None

class Tr:
    def __init__(self, fname, params, recursive):
        self.fname, self.params, self.recursive = fname, params, recursive
        self.env = {p: "obj" for p in params}   # python var -> kind

    def v(self, name):
        return "v_" + name

    def fail(self, node, why):
        raise Untranslatable(f"{self.fname}: line {getattr(node, 'lineno', '?')}: {why}: "
                             f"{ast.dump(node)[:200]}")

    # ---- expressions: returns (text, kind) ------------------------------------------
    def expr(self, n):
        if isinstance(n, ast.Constant):
            if n.value is None:
                return "PyNone", "obj"
            if n.value is True:
                return "true", "bool"
            if n.value is False:
                return "false", "bool"
            if isinstance(n.value, int):
                return str(n.value), "nat"
            self.fail(n, "constant")
        d = dotted(n)
        if d is not None:
            if d in self.env:
                return self.v(d), self.env[d]
            if d in CONST_OBJ:
                return CONST_OBJ[d], "obj"
            if isinstance(n, ast.Attribute) and n.attr == "__origin__":
                t, k = self.expr(n.value)
                self.want(n, k, "obj")
                return f"(dunder_origin {t})", "obj"
            self.fail(n, "unknown name")
        if isinstance(n, ast.Tuple):
            parts = [self.expr(e) for e in n.elts]
            if all(k == "obj" for _, k in parts) and len(parts) == 1:
                return f"[{parts[0][0]}]", "list"     # (x,) : a 1-tuple of objects
            if len(parts) == 2 and all(k == "obj" for _, k in parts):
                return f"({parts[0][0]}, {parts[1][0]})", "pair"
            self.fail(n, "tuple shape")
        if isinstance(n, (ast.List, ast.Set)):
            parts = [self.expr(e) for e in n.elts]
            for _, k in parts:
                self.want(n, k, "obj")
            return "[" + "; ".join(t for t, _ in parts) + "]", "list"
        if isinstance(n, ast.BoolOp):
            parts = [self.expr(e) for e in n.values]
            for _, k in parts:
                self.want(n, k, "bool")
            op = " && " if isinstance(n.op, ast.And) else " || "
            return "(" + op.join(t for t, _ in parts) + ")", "bool"
        if isinstance(n, ast.UnaryOp) and isinstance(n.op, ast.Not):
            t, k = self.expr(n.operand)
            self.want(n, k, "bool")
            return f"(negb {t})", "bool"
        if isinstance(n, ast.BinOp) and isinstance(n.op, ast.BitAnd):
            (a, ka), (b, kb) = self.expr(n.left), self.expr(n.right)
            if isinstance(n.left, ast.Set) and isinstance(n.right, ast.Set):
                return f"(sets_intersect {a} {b})", "setand"   # only truth value is used
            self.fail(n, "& on non-set-literals")
        if isinstance(n, ast.Compare) and len(n.ops) == 1:
            op = n.ops[0]
            (a, ka), (b, kb) = self.expr(n.left), self.expr(n.comparators[0])
            if isinstance(op, ast.Is) and ka == kb == "obj":
                return f"(py_is {a} {b})", "bool"
            if isinstance(op, ast.IsNot) and ka == kb == "obj":
                return f"(negb (py_is {a} {b}))", "bool"
            if isinstance(op, ast.Eq) and ka == kb == "obj":
                return f"(py_eq {a} {b})", "bool"
            if isinstance(op, ast.NotEq) and ka == kb == "obj":
                return f"(negb (py_eq {a} {b}))", "bool"
            if isinstance(op, ast.Eq) and ka == kb == "nat":
                return f"(Nat.eqb {a} {b})", "bool"
            if isinstance(op, ast.NotEq) and ka == kb == "nat":
                return f"(negb (Nat.eqb {a} {b}))", "bool"
            if isinstance(op, ast.Gt) and ka == kb == "nat":
                return f"(Nat.ltb {b} {a})", "bool"
            if isinstance(op, ast.GtE) and ka == kb == "nat":
                return f"(Nat.leb {b} {a})", "bool"
            if isinstance(op, ast.Lt) and ka == kb == "nat":
                return f"(Nat.ltb {a} {b})", "bool"
            if isinstance(op, ast.LtE) and ka == kb == "nat":
                return f"(Nat.leb {a} {b})", "bool"
            if isinstance(op, ast.In) and ka == "obj" and kb == "list":
                return f"(py_in {a} {b})", "bool"
            if isinstance(op, ast.NotIn) and ka == "obj" and kb == "list":
                return f"(negb (py_in {a} {b}))", "bool"
            self.fail(n, f"comparison {type(op).__name__} on {ka},{kb}")
        if isinstance(n, ast.Call):
            return self.call(n)
        self.fail(n, "expression form")

    def want(self, n, k, expected):
        if k != expected:
            self.fail(n, f"expected {expected}, got {k}")

    def call(self, n):
        f = dotted(n.func)
        args = n.args
        kw = {k.arg: k.value for k in n.keywords}
        def one(kind):
            if len(args) != 1 or kw:
                self.fail(n, "arity")
            t, k = self.expr(args[0])
            self.want(n, k, kind)
            return t
        if f == "typing.get_origin":
            return f"(get_origin {one('obj')})", "obj"
        if f == "typing.get_args":
            return f"(get_args {one('obj')})", "list"
        if f == "type":
            return f"(py_type {one('obj')})", "obj"
        if f == "len":
            return f"(List.length {one('list')})", "nat"
        if f == "isinstance" and len(args) == 2 and dotted(args[1]) == "types.UnionType":
            t, k = self.expr(args[0])
            self.want(n, k, "obj")
            return f"(is_uniontype {t})", "bool"
        if f == "type_hint_to_tuple":
            return f"(type_hint_to_tuple {one('obj')})", "list"
        if f == "_get_type_hints":
            return f"(_get_type_hints {one('obj')})", "pair"
        if f == "zip" and len(args) == 2 and set(kw) <= {"strict"}:
            if "strict" in kw and not (isinstance(kw["strict"], ast.Constant) and kw["strict"].value is False):
                self.fail(n, "zip strict")
            (a, ka), (b, kb) = self.expr(args[0]), self.expr(args[1])
            self.want(n, ka, "list"); self.want(n, kb, "list")
            return f"(zip {a} {b})", "ziplist"
        if f == REC and self.recursive and len(args) == 2 and not kw:
            (a, ka), (b, kb) = self.expr(args[0]), self.expr(args[1])
            self.want(n, ka, "obj"); self.want(n, kb, "obj")
            return f"({REC} fuel {a} {b})", "optbool"
        if f in ("all", "any") and len(args) == 1 and isinstance(args[0], ast.GeneratorExp):
            g = args[0]
            if len(g.generators) != 1 or g.generators[0].ifs or g.generators[0].is_async:
                self.fail(n, "generator shape")
            comp = g.generators[0]
            it, kit = self.expr(comp.iter)
            saved = dict(self.env)
            if kit == "list" and isinstance(comp.target, ast.Name):
                self.env[comp.target.id] = "obj"
                binder = self.v(comp.target.id)
            elif kit == "ziplist" and isinstance(comp.target, ast.Tuple) and len(comp.target.elts) == 2 \
                    and all(isinstance(e, ast.Name) for e in comp.target.elts):
                for e in comp.target.elts:
                    self.env[e.id] = "obj"
                binder = "'(" + ", ".join(self.v(e.id) for e in comp.target.elts) + ")"
            else:
                self.fail(n, "generator target")
            body, kb = self.expr(g.elt)
            self.env = saved
            if kb == "bool":
                body = f"(Some {body})"
            elif kb != "optbool":
                self.fail(n, "generator body kind " + kb)
            return f"({f}_opt (fun {binder} => {body}) {it})", "optbool"
        self.fail(n, "call")

    def cond(self, n):
        t, k = self.expr(n)
        if k == "setand":
            return t
        self.want(n, k, "bool")
        return t

    # ---- statements -------------------------------------------------------------------
    def ret(self, n, want_kind):
        t, k = self.expr(n)
        if want_kind == "optbool":
            if k == "bool":
                return f"Some {t}"
            if k == "optbool":
                return t
            self.fail(n, f"return kind {k}")
        self.want(n, k, want_kind)
        return t

    def block(self, stmts, want_kind, ind):
        pad = "  " * ind
        if not stmts:
            raise Untranslatable(f"{self.fname}: control reaches end of a block without return")
        s, rest = stmts[0], stmts[1:]
        if isinstance(s, ast.Expr) and isinstance(s.value, ast.Constant) and isinstance(s.value.value, str):
            return self.block(rest, want_kind, ind)            # docstring / comment string
        if isinstance(s, ast.Return):
            if s.value is None:
                self.fail(s, "bare return")
            return pad + self.ret(s.value, want_kind)
        if isinstance(s, ast.Assign) and len(s.targets) == 1:
            t, k = self.expr(s.value)
            tgt = s.targets[0]
            if isinstance(tgt, ast.Name) and k in ("obj", "list", "nat", "bool"):
                self.env[tgt.id] = k
                return f"{pad}let {self.v(tgt.id)} := {t} in\n" + self.block(rest, want_kind, ind)
            if isinstance(tgt, ast.Tuple) and k == "pair" and len(tgt.elts) == 2 \
                    and all(isinstance(e, ast.Name) for e in tgt.elts):
                for e in tgt.elts:
                    self.env[e.id] = "obj"
                names = ", ".join(self.v(e.id) for e in tgt.elts)
                return f"{pad}let '({names}) := {t} in\n" + self.block(rest, want_kind, ind)
            self.fail(s, "assignment shape")
        if isinstance(s, ast.If):
            c = self.cond(s.test)
            saved = dict(self.env)
            then = self.block(s.body, want_kind, ind + 1)
            self.env = dict(saved)
            if s.orelse:
                if rest:
                    self.fail(s, "statements after if/else")
                els = self.block(s.orelse, want_kind, ind + 1)
            else:
                els = self.block(rest, want_kind, ind + 1)
            self.env = saved
            return f"{pad}if {c} then\n{then}\n{pad}else\n{els}"
        if isinstance(s, ast.Try):
            # try: return issubclass(a, b)   except TypeError: return <pure bool>
            ok = (len(s.body) == 1 and isinstance(s.body[0], ast.Return)
                  and isinstance(s.body[0].value, ast.Call) and dotted(s.body[0].value.func) == "issubclass"
                  and len(s.body[0].value.args) == 2 and not s.orelse and not s.finalbody
                  and len(s.handlers) == 1 and dotted(s.handlers[0].type) == "TypeError"
                  and len(s.handlers[0].body) == 1 and isinstance(s.handlers[0].body[0], ast.Return))
            if not ok or rest:
                self.fail(s, "try shape")
            (a, ka), (b, kb) = (self.expr(x) for x in s.body[0].value.args)
            self.want(s, ka, "obj"); self.want(s, kb, "obj")
            h, kh = self.expr(s.handlers[0].body[0].value)
            self.want(s, kh, "bool")
            t = f"(try_issubclass {a} {b} {h})"
            return pad + (f"Some {t}" if want_kind == "optbool" else t)
        self.fail(s, "statement form")


KIND_TY = {"list": "list hint", "pair": "hint * hint", "optbool": "option bool", "bool": "bool"}
RET_KIND = {"type_hint_to_tuple": "list", "_get_type_hints": "pair", REC: "optbool"}

def translate(src: str) -> str:
    tree = ast.parse(src)
    defs = {n.name: n for n in tree.body if isinstance(n, ast.FunctionDef)}
    out = ["(* GENERATED by tools/py2gallina.py from pyiron_workflow/type_hinting.py -- do not edit. *)",
           "From PW Require Import Base Hints.", ""]
    for name in FUNCS:
        if name not in defs:
            raise Untranslatable(f"function {name} not found")
        fn = defs[name]
        a = fn.args
        if a.vararg or a.kwarg or a.kwonlyargs or a.posonlyargs or a.defaults or fn.decorator_list:
            raise Untranslatable(f"{name}: signature shape")
        params = [x.arg for x in a.args]
        rec = name == REC
        tr = Tr(name, params, rec)
        body = tr.block(fn.body, RET_KIND[name], 2 if rec else 1)
        binders = " ".join(f"({tr.v(p)} : hint)" for p in params)
        if rec:
            out.append(f"Fixpoint {name} (fuel : nat) {binders} : option bool :=")
            out.append("  match fuel with O => None | S fuel =>")
            out.append(body)
            out.append("  end.")
        else:
            out.append(f"Definition {name} {binders} : {KIND_TY[RET_KIND[name]]} :=")
            out.append(body + ".")
        out.append("")
    out.append(f"Definition more_specific := {REC}.")
    return "\n".join(out) + "\n"


if __name__ == "__main__":
    src_path, out_path = sys.argv[1], sys.argv[2]
    try:
        text = translate(open(src_path).read())
    except Untranslatable as e:
        print("UNTRANSLATABLE:", e, file=sys.stderr)
        sys.exit(3)
    open(out_path, "w").write(text)
