#!/usr/bin/env python3
"""Fail-closed translator:  /repo/pyiron_workflow/node.py :: Node._run_finally  ->  EpiGen.v

usage: py2gallina_epi.py <node.py> <out dir>      (prints one JSON line: {"epi": "ok"|reason})

The epilogue of every run is regenerated as the ordered list of effects it performs, as a function of the flags its
guards read (Epilogue.flags).  coq/gen/EpiGenProofs.v proves gen_epilogue = Epilogue.epilogue for all 2^10 flag vectors
(finite sweep lifted by completeness of the enumeration), so the order/guard theorems of Epilogue.v -- enqueue before
un-register (C01), cache update before checkpoint and only on success (C05), recovery file exactly for a failed root
(C08), signals leave exactly once (C06) -- are about the method as it is written now.
Effects:   self._cached_inputs = self.inputs.to_value_dict()  ECacheWrite     self._cached_inputs = None        ECacheClear
           self.parent.register_child_emitting(self)          EEnqueue        self.parent.register_child_finished(self)  EUnregister
           self.save_checkpoint(self.checkpoint)              ECheckpoint     self.emit()                       EEmit
           self.save(backend=self.recovery, filename=...)     ERecoverySave   self._clean_graph_directory()     EClean
           super()._run_finally()                             nothing (Runnable._run_finally is an empty hook)
Guards:    self.use_cache self.failed self._do_clean emit_ran_signal raise_run_exceptions, `self.parent is not None`,
           self.parent.running, `self.checkpoint is not None`, `self.recovery is not None`, `self.graph_root is self`,
           local boolean names, and / or / not.
Anything else raises Untranslatable (the tie is then reported as not applicable)."""
import ast
import json
import sys
from pathlib import Path


class Untranslatable(Exception):
    pass


def bad(node, why):
    raise Untranslatable(f"line {getattr(node, 'lineno', '?')}: {why}: {ast.unparse(node)[:90]}")


ATOMS = {"self.use_cache": "use_cache f", "self.failed": "failed f", "self._do_clean": "do_clean f",
         "emit_ran_signal": "emit_ran f", "raise_run_exceptions": "raise_exc f",
         "self.parent is not None": "has_parent f", "self.parent.running": "parent_running f",
         "self.checkpoint is not None": "has_checkpoint f", "self.recovery is not None": "has_recovery f",
         "self.graph_root is self": "is_root f"}
EFFECTS = {"self._cached_inputs = self.inputs.to_value_dict()": "ECacheWrite", "self._cached_inputs = None": "ECacheClear",
           "self.parent.register_child_emitting(self)": "EEnqueue", "self.parent.register_child_finished(self)": "EUnregister",
           "self.save_checkpoint(self.checkpoint)": "ECheckpoint", "self.emit()": "EEmit",
           "self._clean_graph_directory()": "EClean"}


def cond(n, loc):
    u = ast.unparse(n)
    if u in ATOMS:
        return ATOMS[u]
    if isinstance(n, ast.Name) and n.id in loc:
        return n.id
    if isinstance(n, ast.BoolOp):
        return "(" + (" && " if isinstance(n.op, ast.And) else " || ").join(cond(v, loc) for v in n.values) + ")"
    if isinstance(n, ast.UnaryOp) and isinstance(n.op, ast.Not):
        return f"negb ({cond(n.operand, loc)})"
    bad(n, "guard outside the translated idioms")


def effect(st):
    u = ast.unparse(st)
    if u in EFFECTS:
        return EFFECTS[u]
    if (isinstance(st, ast.Expr) and isinstance(st.value, ast.Call) and ast.unparse(st.value.func) == "self.save"
            and not st.value.args and sorted(k.arg for k in st.value.keywords) == ["backend", "filename"]
            and ast.unparse([k.value for k in st.value.keywords if k.arg == "backend"][0]) == "self.recovery"):
        return "ERecoverySave"
    bad(st, "effect outside the translated idioms")


def block(stmts, loc):
    """a list-of-effects expression for a statement list without local definitions"""
    parts = []
    for st in stmts:
        if isinstance(st, ast.If):
            parts.append(f"(if {cond(st.test, loc)} then {block(st.body, loc)} else {block(st.orelse, loc)})")
        elif isinstance(st, ast.Pass):
            continue
        else:
            parts.append(f"[{effect(st)}]")
    return "(" + " ++ ".join(parts) + ")" if parts else "[]"


def generate(fn):
    body = fn.body
    if body and isinstance(body[0], ast.Expr) and isinstance(body[0].value, ast.Constant):
        body = body[1:]
    a = fn.args
    if [x.arg for x in a.posonlyargs] != ["self"] or sorted(x.arg for x in a.args) != ["emit_ran_signal", "raise_run_exceptions"]:
        bad(fn, "signature")
    lines, loc = [], set()
    for st in body:
        if ast.unparse(st) == "super()._run_finally()":
            continue
        if isinstance(st, ast.Assign) and len(st.targets) == 1 and isinstance(st.targets[0], ast.Name):
            x = st.targets[0].id
            lines.append(("let", f"let {x} := {cond(st.value, loc)} in"))
            loc.add(x)
            continue
        lines.append(("eff", block([st], loc)))
    # lets scope over everything after them: emit as nested  let .. in (e1 ++ (let .. in (e2 ++ ...)))
    def nest(i):
        if i == len(lines):
            return "[]"
        k, t = lines[i]
        return f"{t}\n  {nest(i + 1)}" if k == "let" else f"{t} ++\n  {nest(i + 1)}"
    return ("(* GENERATED by tools/py2gallina_epi.py from pyiron_workflow/node.py -- do not edit *)\n"
            "From PW Require Import Base Epilogue.\n\n(* Node._run_finally *)\n"
            f"Definition gen_epilogue (f : flags) : list effect :=\n  {nest(0)}.\n")


def main():
    src, outdir = Path(sys.argv[1]), Path(sys.argv[2])
    out = outdir / "EpiGen.v"
    try:
        tree = ast.parse(src.read_text())
        fns = [m for n in tree.body if isinstance(n, ast.ClassDef) and n.name == "Node"
               for m in n.body if isinstance(m, ast.FunctionDef) and m.name == "_run_finally"]
        if len(fns) != 1:
            raise Untranslatable(f"{len(fns)} definitions of Node._run_finally")
        text = generate(fns[0])
    except (OSError, SyntaxError, Untranslatable) as e:
        out.unlink(missing_ok=True)
        print(json.dumps({"epi": f"untranslatable: {e}"}))
        return
    out.write_text(text)
    print(json.dumps({"epi": "ok"}))


if __name__ == "__main__":
    main()
