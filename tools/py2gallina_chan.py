#!/usr/bin/env python3
"""Fail-closed translator:  /repo/pyiron_workflow/channels.py  ->  coq/theories/TrigGen.v, FetchGen.v

usage: py2gallina_chan.py <channels.py> <out dir>      (prints one JSON line: {"trig": "ok"|reason, "fetch": ...})

Regenerates, from the source as it is NOW, the methods that carry the logic of C02's triggers and C03's data
delivery, as Gallina definitions over the state types of Trig.v / Fetch.v:

  TrigGen.v    AccumulatingInputSignal.reset, AccumulatingInputSignal.__call__, InputSignal.__call__
  ConnGen.v    Channel.connect (the loop body for one partner, and the loop)
  FetchGen.v   DataChannel._has_hint, ._value_is_data, .ready, ._type_check_new_value, DataChannel.value (setter),
               InputData.value (setter), InputData.fetch

`TrigGenProofs.v` / `FetchGenProofs.v` then PROVE that these generated functions equal the hand-written model
functions (acc_call, ready, type_ok, set_value, fetch) for all states -- so the theorems of Props/C02.v and
Props/C03.v are theorems about what the code says now.

Every accepted Python idiom maps to one primitive of ChanPrim.v (table there).  Anything else raises
Untranslatable: the part is then reported as not translatable (the generated file is removed), the proof tie does
not apply to the current source and the property's check falls back to its correspondence tie alone.
"""
import ast
import json
import sys
from pathlib import Path


class Untranslatable(Exception):
    pass


def bad(node, why):
    raise Untranslatable(f"line {getattr(node, 'lineno', '?')}: {why}: {ast.unparse(node)[:90]}")


def strip_doc(body):
    if body and isinstance(body[0], ast.Expr) and isinstance(body[0].value, ast.Constant) and isinstance(body[0].value.value, str):
        return body[1:]
    return body


def find_method(tree, cls, name, deco=None):
    """the def of cls.name; deco None = plain method, 'property', or 'setter' (@name.setter)"""
    for n in tree.body:
        if isinstance(n, ast.ClassDef) and n.name == cls:
            hits = []
            for m in n.body:
                if isinstance(m, ast.FunctionDef) and m.name == name:
                    ds = [ast.unparse(d) for d in m.decorator_list]
                    kind = "property" if ds == ["property"] else "setter" if ds == [f"{name}.setter"] else None if not ds else "?"
                    if kind == deco:
                        hits.append(m)
            if len(hits) == 1:
                return hits[0]
            raise Untranslatable(f"{cls}.{name} ({deco or 'method'}): {len(hits)} definitions")
    raise Untranslatable(f"class {cls} not found")


def is_self_attr(node, attr=None):
    return (isinstance(node, ast.Attribute) and isinstance(node.value, ast.Name) and node.value.id == "self"
            and (attr is None or node.attr == attr))


# ======================================================================== triggers (state: Trig.acc)
class Trig:
    def __init__(self, tree):
        self.tree = tree

    def set_expr(self, n, env):
        if is_self_attr(n, "received_signals"):
            return "(a_recv s)"
        if isinstance(n, ast.Call) and isinstance(n.func, ast.Name) and n.func.id == "set" and not n.args and not n.keywords:
            return "pyset_empty"
        if isinstance(n, ast.SetComp) and len(n.generators) == 1:
            g = n.generators[0]
            if (isinstance(g.target, ast.Name) and is_self_attr(g.iter, "connections") and not g.ifs and not g.is_async
                    and isinstance(n.elt, ast.Attribute) and isinstance(n.elt.value, ast.Name)
                    and n.elt.value.id == g.target.id and n.elt.attr == "scoped_label"):
                return f"(pyset_of (map (fun {g.target.id} => e_key {g.target.id}) (a_conns s)))"
        if (isinstance(n, ast.Call) and isinstance(n.func, ast.Attribute) and n.func.attr == "difference"
                and len(n.args) == 1 and not n.keywords):
            return f"(pyset_difference {self.set_expr(n.func.value, env)} {self.set_expr(n.args[0], env)})"
        if isinstance(n, ast.BinOp) and isinstance(n.op, ast.Sub):
            return f"(pyset_difference {self.set_expr(n.left, env)} {self.set_expr(n.right, env)})"
        bad(n, "set expression outside the translated idioms")

    def elem_expr(self, n, env):
        if (isinstance(n, ast.Attribute) and isinstance(n.value, ast.Name) and n.value.id in env.get("emitters", {})
                and n.attr == "scoped_label"):
            return f"(e_key {env['emitters'][n.value.id]})"
        bad(n, "element expression outside the translated idioms")

    def bool_expr(self, n, env):
        if isinstance(n, ast.Compare) and len(n.ops) == 1:
            l, op, r = n.left, n.ops[0], n.comparators[0]
            if (isinstance(op, ast.Eq) and isinstance(r, ast.Constant) and r.value == 0 and isinstance(l, ast.Call)
                    and isinstance(l.func, ast.Name) and l.func.id == "len" and len(l.args) == 1):
                return f"(Nat.eqb (pyset_len {self.set_expr(l.args[0], env)}) 0)"
            if isinstance(op, ast.LtE):
                return f"(pyset_subset {self.set_expr(l, env)} {self.set_expr(r, env)})"
        if (isinstance(n, ast.Call) and isinstance(n.func, ast.Attribute) and n.func.attr == "issubset"
                and len(n.args) == 1 and not n.keywords):
            return f"(pyset_subset {self.set_expr(n.func.value, env)} {self.set_expr(n.args[0], env)})"
        if isinstance(n, ast.UnaryOp) and isinstance(n.op, ast.Not):
            try:
                return f"(Nat.eqb (pyset_len {self.set_expr(n.operand, env)}) 0)"       # `not <set>`: empty
            except Untranslatable:
                return f"(negb {self.bool_expr(n.operand, env)})"
        if isinstance(n, ast.BoolOp):
            op = "&&" if isinstance(n.op, ast.And) else "||"
            return "(" + f" {op} ".join(self.bool_expr(v, env) for v in n.values) + ")"
        bad(n, "condition outside the translated idioms")

    def block(self, stmts, env, fires):
        """statements -> a list of `let ... in` lines transforming s (and fired when fires)"""
        out = []
        pair = "'(s, fired)" if fires else "s"
        res = "(s, fired)" if fires else "s"
        for st in stmts:
            if isinstance(st, ast.Expr) and isinstance(st.value, ast.Call):
                c = st.value
                f = c.func
                if is_self_attr(f, "callback") and not c.args and not c.keywords:
                    if not fires:
                        bad(st, "callback in a method classified as state-only")
                    out.append("let fired := S fired in")
                    continue
                if is_self_attr(f) and f.attr in env["pure_methods"] and not c.args and not c.keywords:
                    out.append(f"let s := gen_acc_{f.attr} s in")
                    continue
                if (isinstance(f, ast.Attribute) and f.attr == "update" and is_self_attr(f.value, "received_signals")
                        and len(c.args) == 1 and isinstance(c.args[0], (ast.List, ast.Tuple, ast.Set)) and not c.keywords):
                    el = "; ".join(self.elem_expr(e, env) for e in c.args[0].elts)
                    out.append(f"let s := set_recv s (pyset_update (a_recv s) [{el}]) in")
                    continue
                if (isinstance(f, ast.Attribute) and f.attr == "add" and is_self_attr(f.value, "received_signals")
                        and len(c.args) == 1 and not c.keywords):
                    out.append(f"let s := set_recv s (pyset_update (a_recv s) [{self.elem_expr(c.args[0], env)}]) in")
                    continue
                bad(st, "call outside the translated idioms")
            if (isinstance(st, ast.Assign) and len(st.targets) == 1 and is_self_attr(st.targets[0], "received_signals")):
                out.append(f"let s := set_recv s {self.set_expr(st.value, env)} in")
                continue
            if isinstance(st, ast.If) and not st.orelse:
                t = st.test
                if (isinstance(t, ast.Call) and isinstance(t.func, ast.Name) and t.func.id == "isinstance" and len(t.args) == 2
                        and isinstance(t.args[0], ast.Name) and t.args[0].id == env["other"]
                        and isinstance(t.args[1], ast.Name) and t.args[1].id == "OutputSignal"):
                    env2 = dict(env, emitters={env["other"]: env["other"] + "_e"})
                    body = " ".join(self.block(st.body, env2, fires))
                    out.append(f"let {pair} := match {env['other']} with Some {env['other']}_e => {body} {res} | None => {res} end in")
                    continue
                body = " ".join(self.block(st.body, env, fires))
                out.append(f"let {pair} := if {self.bool_expr(t, env)} then ({body} {res}) else {res} in")
                continue
            if isinstance(st, ast.Pass):
                continue
            bad(st, "statement outside the translated idioms")
        return out

    def calls_callback(self, fn):
        return any(isinstance(x, ast.Call) and is_self_attr(x.func, "callback") for x in ast.walk(fn))

    def method(self, cls, name, gname, env):
        fn = find_method(self.tree, cls, name)
        args = [a.arg for a in fn.args.args]
        fires = self.calls_callback(fn)
        if name == "__call__":
            if args != ["self", "other"] or len(fn.args.defaults) != 1 or ast.unparse(fn.args.defaults[0]) != "None":
                bad(fn, "__call__ signature")
            env = dict(env, other="other")
            lines = self.block(strip_doc(fn.body), env, True)
            return (f"(* {cls}.{name} *)\nDefinition {gname} (s : acc) (other : option emitter) : acc * nat :=\n  let fired := 0 in\n  "
                    + "\n  ".join(lines) + "\n  (s, fired).\n")
        if args != ["self"] or fires:
            bad(fn, "state-only method with arguments or a callback")
        lines = self.block(strip_doc(fn.body), dict(env, other="<none>"), False)
        return f"(* {cls}.{name} *)\nDefinition {gname} (s : acc) : acc :=\n  " + "\n  ".join(lines) + "\n  s.\n"

    def generate(self):
        env = {"pure_methods": {"reset"}}
        parts = [self.method("AccumulatingInputSignal", "reset", "gen_acc_reset", env),
                 self.method("AccumulatingInputSignal", "__call__", "gen_acc_call", env),
                 self.method("InputSignal", "__call__", "gen_sig_call", env)]
        return ("(* GENERATED by tools/py2gallina_chan.py from pyiron_workflow/channels.py -- do not edit *)\n"
                "From PW Require Import Base Trig Fetch ChanPrim.\n\n" + "\n".join(parts))


# ======================================================================== data delivery (state: Fetch.store, self = channel c)
EXC = {"TypeError": "TypeErr", "RuntimeError": "Locked"}


class Fetch:
    PROPS = ["_has_hint", "_value_is_data", "ready"]

    def __init__(self, tree):
        self.tree = tree

    def val_expr(self, n, env):
        if isinstance(n, ast.Name) and n.id in env["values"]:
            return n.id
        if is_self_attr(n, "value") or is_self_attr(n, "_value"):
            return "(c_val (getc s c))"
        if isinstance(n, ast.Attribute) and isinstance(n.value, ast.Name) and n.value.id in env["chans"] and n.attr in ("value", "_value"):
            return f"(c_val (getc s {n.value.id}))"
        bad(n, "value expression outside the translated idioms")

    def bool_expr(self, n, env):
        if isinstance(n, ast.Constant) and isinstance(n.value, bool):
            return "true" if n.value else "false"
        if isinstance(n, ast.BoolOp):
            op = "&&" if isinstance(n.op, ast.And) else "||"
            return "(" + f" {op} ".join(self.bool_expr(v, env) for v in n.values) + ")"
        if isinstance(n, ast.UnaryOp) and isinstance(n.op, ast.Not):
            return f"negb ({self.bool_expr(n.operand, env)})"
        if isinstance(n, ast.IfExp):
            return f"(if {self.bool_expr(n.test, env)} then {self.bool_expr(n.body, env)} else {self.bool_expr(n.orelse, env)})"
        if is_self_attr(n, "strict_hints"):
            return "c_strict (getc s c)"
        if is_self_attr(n) and n.attr in self.PROPS:
            return f"gen_{n.attr} s c"
        if isinstance(n, ast.Compare) and len(n.ops) == 1 and isinstance(n.ops[0], (ast.Is, ast.IsNot)):
            l, r = n.left, n.comparators[0]
            neg = isinstance(n.ops[0], ast.Is)
            if isinstance(r, ast.Name) and r.id == "NOT_DATA":
                e = f"is_data {self.val_expr(l, env)}"
            elif isinstance(r, ast.Constant) and r.value is None and is_self_attr(l, "type_hint"):
                e = "c_hinted (getc s c)"
            else:
                bad(n, "identity test outside the translated idioms")
            return f"negb ({e})" if neg else e
        if (isinstance(n, ast.Call) and isinstance(n.func, ast.Name) and n.func.id == "valid_value" and len(n.args) == 2
                and not n.keywords and is_self_attr(n.args[1], "type_hint")):
            return f"(valid_slot {self.val_expr(n.args[0], env)})"
        if (isinstance(n, ast.Call) and not n.args and not n.keywords and isinstance(n.func, ast.Attribute)
                and n.func.attr == "data_input_locked" and is_self_attr(n.func.value, "owner")):
            return "locked s c"
        bad(n, "condition outside the translated idioms")

    def prop(self, cls, name):
        fn = find_method(self.tree, cls, name, "property")
        body = strip_doc(fn.body)
        if len(body) != 1 or not isinstance(body[0], ast.Return) or body[0].value is None:
            bad(fn, "property that is not a single return")
        return f"(* {cls}.{name} *)\nDefinition gen_{name} (s : store) (c : nat) : bool :=\n  {self.bool_expr(body[0].value, {'values': [], 'chans': []})}.\n"

    def raise_kind(self, st):
        if isinstance(st, ast.Raise) and st.exc is not None and st.cause is None:
            f = st.exc.func if isinstance(st.exc, ast.Call) else st.exc
            if isinstance(f, ast.Name) and f.id in EXC:
                return EXC[f.id]
        bad(st, "raise outside the translated idioms")

    def check(self, cls, name):
        """a method whose only effect is to raise: option err"""
        fn = find_method(self.tree, cls, name)
        args = [a.arg for a in fn.args.args]
        if len(args) != 2 or args[0] != "self":
            bad(fn, "check signature")
        env = {"values": [args[1]], "chans": []}
        lines = []
        for st in strip_doc(fn.body):
            if isinstance(st, ast.If) and not st.orelse and len(st.body) == 1:
                lines.append(f"if {self.bool_expr(st.test, env)} then Some {self.raise_kind(st.body[0])} else")
            else:
                bad(st, "statement outside the translated idioms")
        return (f"(* {cls}.{name}: Some e = raises e *)\nDefinition gen_{name} (s : store) (c : nat) ({args[1]} : slot) : option err :=\n  "
                + "\n  ".join(lines) + "\n  None.\n")

    def setter(self, cls, gname):
        fn = find_method(self.tree, cls, "value", "setter")
        args = [a.arg for a in fn.args.args]
        if len(args) != 2 or args[0] != "self":
            bad(fn, "setter signature")
        v = args[1]
        env = {"values": [v], "chans": []}
        lines, closers = [], 0
        for st in strip_doc(fn.body):
            if isinstance(st, ast.If) and not st.orelse and len(st.body) == 1 and isinstance(st.body[0], ast.Raise):
                lines.append(f"if {self.bool_expr(st.test, env)} then Err {self.raise_kind(st.body[0])} else")
                continue
            if (isinstance(st, ast.Expr) and isinstance(st.value, ast.Call) and is_self_attr(st.value.func, "_type_check_new_value")
                    and len(st.value.args) == 1 and not st.value.keywords):
                lines.append(f"match gen__type_check_new_value s c {self.val_expr(st.value.args[0], env)} with Some e => Err e | None =>")
                closers += 1
                continue
            if (isinstance(st, ast.If) and not st.orelse and len(st.body) == 1
                    and isinstance(st.test, ast.Compare) and len(st.test.ops) == 1 and isinstance(st.test.ops[0], ast.IsNot)
                    and is_self_attr(st.test.left, "value_receiver")
                    and isinstance(st.test.comparators[0], ast.Constant) and st.test.comparators[0].value is None):
                a = st.body[0]
                if (isinstance(a, ast.Assign) and len(a.targets) == 1 and isinstance(a.targets[0], ast.Attribute)
                        and a.targets[0].attr == "value" and is_self_attr(a.targets[0].value, "value_receiver")):
                    lines.append(f"match (match c_recv (getc s c) with Some r => {gname} fuel' s r {self.val_expr(a.value, env)} | None => Ok s end) "
                                 f"with Err e => Err e | Ok s =>")
                    closers += 1
                    continue
            if isinstance(st, ast.Assign) and len(st.targets) == 1 and is_self_attr(st.targets[0], "_value"):
                lines.append(f"let s := put s c {self.val_expr(st.value, env)} in")
                continue
            bad(st, "statement outside the translated idioms")
        return (f"(* {cls}.value (setter); the receiver chain is followed with fuel *)\n"
                f"Fixpoint {gname} (fuel : nat) (s : store) (c : nat) ({v} : slot) {{struct fuel}} : result store :=\n"
                f"  match fuel with O => Err Recursion | S fuel' =>\n  " + "\n  ".join(lines) + "\n  Ok s" + " end" * closers + " end.\n")

    def fetch(self):
        fn = find_method(self.tree, "InputData", "fetch")
        body = strip_doc(fn.body)
        if [a.arg for a in fn.args.args] != ["self"] or len(body) != 1:
            bad(fn, "fetch: signature or more than one statement")
        lp = body[0]
        if not (isinstance(lp, ast.For) and isinstance(lp.target, ast.Name) and is_self_attr(lp.iter, "connections")
                and not lp.orelse and len(lp.body) == 1 and isinstance(lp.body[0], ast.If) and not lp.body[0].orelse):
            bad(lp, "fetch: not a first-match loop over self.connections")
        x = lp.target.id
        cond = lp.body[0]
        env = {"values": [], "chans": [x]}
        if not (len(cond.body) == 2 and isinstance(cond.body[1], ast.Break) and isinstance(cond.body[0], ast.Assign)
                and len(cond.body[0].targets) == 1 and is_self_attr(cond.body[0].targets[0], "value")):
            bad(cond, "fetch: the match must assign self.value and break")
        return (f"(* InputData.fetch *)\nDefinition gen_fetch (fuel : nat) (s : store) (c : nat) : result store :=\n"
                f"  match find (fun {x} => {self.bool_expr(cond.test, env)}) (c_conns (getc s c)) with\n"
                f"  | Some {x} => gen_set_value_input fuel s c {self.val_expr(cond.body[0].value, env)}\n  | None => Ok s end.\n")

    def generate(self):
        parts = [self.prop("DataChannel", "_has_hint"), self.prop("DataChannel", "_value_is_data"),
                 self.prop("DataChannel", "ready"), self.check("DataChannel", "_type_check_new_value"),
                 self.setter("InputData", "gen_set_value_input"), self.setter("DataChannel", "gen_set_value_data"),
                 self.fetch()]
        return ("(* GENERATED by tools/py2gallina_chan.py from pyiron_workflow/channels.py -- do not edit *)\n"
                "From PW Require Import Base Trig Fetch ChanPrim.\n\n" + "\n".join(parts))


# ======================================================================== connections (state: Chan.cstore, self = channel a)
CONN_EXC = {"ChannelConnectionError": "ConnErr", "TypeError": "TypeErr"}


class Conn:
    """Channel.connect: the body of `for other in others:` as a function (state, self, other) -> state * res
    (Ok = go on with the next partner, Err e = e is raised with the state as it is then)"""

    def __init__(self, tree):
        self.tree = tree

    def cond(self, n, x):
        if (isinstance(n, ast.Compare) and len(n.ops) == 1 and isinstance(n.ops[0], (ast.In, ast.NotIn))
                and isinstance(n.left, ast.Name) and n.left.id == x and is_self_attr(n.comparators[0], "connections")):
            e = f"memn {x} (conns s a)"
            return f"negb ({e})" if isinstance(n.ops[0], ast.NotIn) else e
        if (isinstance(n, ast.Call) and isinstance(n.func, ast.Name) and n.func.id == "isinstance" and len(n.args) == 2
                and isinstance(n.args[0], ast.Name) and n.args[0].id == x
                and ast.unparse(n.args[1]) == "self.connection_conjugate()"):
            return f"conjb W a {x}"
        if (isinstance(n, ast.Call) and is_self_attr(n.func, "_valid_connection") and len(n.args) == 1 and not n.keywords
                and isinstance(n.args[0], ast.Name) and n.args[0].id == x):
            return f"validb W a {x}"
        if isinstance(n, ast.UnaryOp) and isinstance(n.op, ast.Not):
            return f"negb ({self.cond(n.operand, x)})"
        if isinstance(n, ast.BoolOp):
            op = "&&" if isinstance(n.op, ast.And) else "||"
            return "(" + f" {op} ".join(self.cond(v, x) for v in n.values) + ")"
        bad(n, "condition outside the translated idioms")

    def body(self, stmts, k, x):
        if not stmts:
            return k
        st, rest = stmts[0], stmts[1:]
        if isinstance(st, ast.Continue):
            return "(s, Ok)"
        if isinstance(st, ast.Raise) and st.exc is not None:
            f = st.exc.func if isinstance(st.exc, ast.Call) else st.exc
            if isinstance(f, ast.Name) and f.id in CONN_EXC:
                return f"(s, Err {CONN_EXC[f.id]})"
            bad(st, "raise outside the translated idioms")
        if isinstance(st, ast.If):
            kk = self.body(rest, k, x)
            return f"(if {self.cond(st.test, x)}\n   then {self.body(st.body, kk, x)}\n   else {self.body(st.orelse, kk, x)})"
        if isinstance(st, ast.Pass):
            return self.body(rest, k, x)
        if (isinstance(st, ast.Expr) and isinstance(st.value, ast.Call) and isinstance(st.value.func, ast.Attribute)
                and st.value.func.attr == "insert" and len(st.value.args) == 2 and not st.value.keywords
                and isinstance(st.value.args[0], ast.Constant) and st.value.args[0].value == 0):
            tgt, what = st.value.func.value, st.value.args[1]
            if is_self_attr(tgt, "connections") and isinstance(what, ast.Name) and what.id == x:
                return f"(let s := setc s a ({x} :: conns s a) in {self.body(rest, k, x)})"
            if (isinstance(tgt, ast.Attribute) and tgt.attr == "connections" and isinstance(tgt.value, ast.Name) and tgt.value.id == x
                    and isinstance(what, ast.Name) and what.id == "self"):
                return f"(let s := setc s {x} (a :: conns s {x}) in {self.body(rest, k, x)})"
        bad(st, "statement outside the translated idioms")

    def generate(self):
        fn = find_method(self.tree, "Channel", "connect")
        a = fn.args
        if [x.arg for x in a.args] != ["self"] or a.vararg is None or a.kwonlyargs or a.kwarg:
            bad(fn, "connect signature")
        body = strip_doc(fn.body)
        if not (len(body) == 1 and isinstance(body[0], ast.For) and isinstance(body[0].target, ast.Name)
                and isinstance(body[0].iter, ast.Name) and body[0].iter.id == a.vararg.arg and not body[0].orelse):
            bad(fn, "connect is not a single loop over its arguments")
        x = body[0].target.id
        one = self.body(body[0].body, "(s, Ok)", x)
        return ("(* GENERATED by tools/py2gallina_chan.py from pyiron_workflow/channels.py -- do not edit *)\n"
                "From PW Require Import Base Chan.\n\n"
                f"(* Channel.connect: the loop body for one partner *)\n"
                f"Definition gen_connect1 (W : world) (s : cstore) (a {x} : nat) : cstore * res :=\n  {one}.\n\n"
                f"(* Channel.connect( *others ): partners in the written order, stopping at the first exception *)\n"
                f"Fixpoint gen_connect (W : world) (s : cstore) (a : nat) (others : list nat) : cstore * res :=\n"
                f"  match others with\n  | [] => (s, Ok)\n  | {x} :: rest => match gen_connect1 W s a {x} with\n"
                f"                    | (s', Ok) => gen_connect W s' a rest\n                    | (s', Err e) => (s', Err e)\n"
                f"                    end\n  end.\n")


def main():
    src, outdir = Path(sys.argv[1]), Path(sys.argv[2])
    status = {}
    try:
        tree = ast.parse(src.read_text())
    except (OSError, SyntaxError) as e:
        tree, status = None, {k: f"cannot parse: {e}" for k in ("trig", "fetch", "conn")}
    for key, cls, fname in (("trig", Trig, "TrigGen.v"), ("fetch", Fetch, "FetchGen.v"), ("conn", Conn, "ConnGen.v")):
        out = outdir / fname
        if tree is None:
            continue
        try:
            text = cls(tree).generate()
        except Untranslatable as e:
            status[key] = f"untranslatable: {e}"
            if out.exists():
                out.unlink()
            continue
        if not out.exists() or out.read_text() != text:
            out.write_text(text)
        status[key] = "ok"
    print(json.dumps(status))


if __name__ == "__main__":
    main()
