#!/usr/bin/env python3
"""Fail-closed translator:  /repo/pyiron_workflow/storage.py :: PickleStorage._save  ->  StoreGen.v

usage: py2gallina_store.py <storage.py> <out dir>      (prints one JSON line: {"save": "ok"|reason})

The file-system steps of one save are regenerated over the step language of Store.v: the list of flavours tried
(gen_attacks), the steps of the try body when the dump succeeds (gen_try_ok), the steps up to a dump that raises and the
steps of the except handler (gen_try_fail), the loop with its early return (gen_loop).  coq/gen/StoreGenProofs.v proves
that  [mkdir] ++ gen_save_core ++ rmdir  is Store.save_steps, so the crash-safety theorems of Props/C19.v (every prefix of
the step list, incl. a partial write) are about the order of operations the source has now.
Idioms:  with open(T, "wb") as fh: save_method(node, fh)    SCreate T; SWrite T ..; SClose T   (the only statement that can raise
                                                            something other than an OS error: the dump, after g bytes)
         A.replace(B)   SRename A B        A.unlink(missing_ok=True)   SUnlink A
         filename.with_suffix(s)   fin l <flavour of s>      p.with_name(p.name + ".tmp")   tmp l <flavour>
         for other, _ in attacks: if other != suffix: <unlink>      flat_map over gen_attacks fb
         return   end of the save                            e = ee / e = None   bookkeeping of the exception to re-raise
Anything else raises Untranslatable (the tie is then reported as not applicable)."""
import ast
import json
import sys
from pathlib import Path


class Untranslatable(Exception):
    pass


def bad(node, why):
    raise Untranslatable(f"line {getattr(node, 'lineno', '?')}: {why}: {ast.unparse(node)[:90]}")


def nm(n):
    return n.id if isinstance(n, ast.Name) else None


class T:
    def __init__(self, fn):
        self.fn = fn
        self.paths = {}

    def path(self, n, fl):
        if nm(n) in self.paths:
            return self.paths[n.id]
        if (isinstance(n, ast.Call) and ast.unparse(n.func) == "filename.with_suffix" and len(n.args) == 1 and nm(n.args[0]) in fl):
            return f"(fin l {fl[n.args[0].id]})"
        bad(n, "path outside the translated idioms")

    def steps(self, body, fl, ok):
        """-> (list of step-list expressions, returned?)   ok: does the dump succeed"""
        out = []
        for st in body:
            if isinstance(st, ast.Return) and st.value is None:
                return out, True
            if isinstance(st, ast.With):
                it = st.items
                if not (len(it) == 1 and isinstance(it[0].context_expr, ast.Call) and nm(it[0].context_expr.func) == "open"
                        and len(it[0].context_expr.args) == 2 and ast.unparse(it[0].context_expr.args[1]) == "'wb'"
                        and isinstance(it[0].optional_vars, ast.Name) and len(st.body) == 1
                        and ast.unparse(st.body[0]) == f"save_method(node, {it[0].optional_vars.id})"):
                    bad(st, "with outside the translated idioms")
                t = self.path(it[0].context_expr.args[0], fl)
                if ok:
                    out.append(f"[SCreate {t}; SWrite {t} (Full c v) n; SClose {t}]")
                else:
                    out.append(f"[SCreate {t}; SWrite {t} (Partial g) g; SClose {t}]")
                    return out, False           # the dump raised: control goes to the handler
                continue
            if isinstance(st, ast.Expr) and isinstance(st.value, ast.Call) and isinstance(st.value.func, ast.Attribute):
                c = st.value
                if c.func.attr == "replace" and len(c.args) == 1 and not c.keywords:
                    out.append(f"[SRename {self.path(c.func.value, fl)} {self.path(c.args[0], fl)}]")
                    continue
                if c.func.attr == "unlink" and not c.args and [ast.unparse(k) for k in c.keywords] == ["missing_ok=True"]:
                    out.append(f"[SUnlink {self.path(c.func.value, fl)}]")
                    continue
            if (isinstance(st, ast.For) and isinstance(st.target, ast.Tuple) and len(st.target.elts) == 2 and nm(st.iter) == "attacks"
                    and not st.orelse and len(st.body) == 1 and isinstance(st.body[0], ast.If) and not st.body[0].orelse):
                o = nm(st.target.elts[0])
                t = st.body[0].test
                if not (o and isinstance(t, ast.Compare) and len(t.ops) == 1 and isinstance(t.ops[0], ast.NotEq)
                        and {nm(t.left), nm(t.comparators[0])} == {o, "suffix"}):
                    bad(st, "clean-up loop outside the translated idioms")
                inner, ret = self.steps(st.body[0].body, dict(fl, **{o: "o"}), ok)
                if ret or not inner:
                    bad(st, "clean-up loop outside the translated idioms")
                out.append(f"flat_map (fun o => if negb (fl_eqb o fl) then {' ++ '.join(inner)} else []) (gen_attacks fb)")
                continue
            if isinstance(st, ast.Assign) and len(st.targets) == 1 and nm(st.targets[0]) == "e" and ast.unparse(st.value) in ("None", "ee"):
                continue
            bad(st, "statement outside the translated idioms")
        return out, False

    def generate(self):
        body = self.fn.body
        if body and isinstance(body[0], ast.Expr) and isinstance(body[0].value, ast.Constant):
            body = body[1:]
        if (body and isinstance(body[0], ast.If) and not body[0].orelse and len(body[0].body) == 1 and isinstance(body[0].body[0], ast.Raise)
                and ast.unparse(body[0].body[0].exc).startswith("TypeNotFoundError(")):
            body = body[1:]         # the importability guard: no file-system step (Store.v: class checks)
        want = ["attacks = [(self._PICKLE, pickle.dump)]",
                "if self._fallback(cloudpickle_fallback):\n    attacks += [(self._CLOUDPICKLE, cloudpickle.dump)]",
                "e: Exception | None = None"]
        if [ast.unparse(s) for s in body[:3]] != want:
            bad(body[0], "the list of attacks is not built as expected")
        if not (len(body) == 5 and ast.unparse(body[4]) == "if e is not None:\n    raise e"):
            bad(self.fn, "the save must end by re-raising the last exception")
        lp = body[3]
        if not (isinstance(lp, ast.For) and ast.unparse(lp.target) == "(suffix, save_method)" and nm(lp.iter) == "attacks" and not lp.orelse):
            bad(lp, "the loop over attacks")
        fl = {"suffix": "fl"}
        tr = None
        for st in lp.body:
            if ast.unparse(st) == "e = None":
                continue
            if ast.unparse(st) == "p = filename.with_suffix(suffix)":
                self.paths["p"] = "(fin l fl)"
                continue
            if ast.unparse(st) == "tmp = p.with_name(p.name + '.tmp')" and "p" in self.paths:
                self.paths["tmp"] = "(tmp l fl)"
                continue
            if isinstance(st, ast.Try) and tr is None and st is lp.body[-1]:
                tr = st
                continue
            bad(st, "statement outside the translated idioms")
        if tr is None or tr.orelse or tr.finalbody or len(tr.handlers) != 1 or ast.unparse(tr.handlers[0].type) != "Exception":
            bad(lp, "try outside the translated idioms")
        ok_steps, ok_ret = self.steps(tr.body, fl, True)
        if not ok_ret:
            bad(tr, "a successful attempt must end the save (return)")
        fail_steps, _ = self.steps(tr.body, fl, False)
        h_steps, h_ret = self.steps(tr.handlers[0].body, fl, True)
        if h_ret:
            bad(tr, "the handler must fall through to the next attempt")
        j = lambda xs: " ++\n    ".join(xs) if xs else "[]"       # noqa: E731
        return ("(* GENERATED by tools/py2gallina_store.py from pyiron_workflow/storage.py -- do not edit *)\n"
                "From PW Require Import Base Store.\n\n"
                "(* attacks: plain pickle, then cloudpickle when the fallback is on *)\n"
                "Definition gen_attacks (fb : bool) : list flavour := [Pk] ++ (if fb then [Cp] else []).\n\n"
                "(* the try body when the dump succeeds (ends with `return`) *)\n"
                "Definition gen_try_ok (l : loc) (fb : bool) (c : cls) (v : Z) (n : nat) (fl : flavour) : list step :=\n    "
                + j(ok_steps) + ".\n\n"
                "(* the try body up to a dump that raises after g bytes, then the except handler *)\n"
                "Definition gen_try_fail (l : loc) (g : nat) (fl : flavour) : list step :=\n    " + j(fail_steps + h_steps) + ".\n\n"
                "Definition gen_attack (l : loc) (fb : bool) (c : cls) (v : Z) (k : kind) (n g : nat) (fl : flavour) : list step :=\n"
                "  if pickles k fl then gen_try_ok l fb c v n fl else gen_try_fail l g fl.\n\n"
                "(* for suffix, save_method in attacks: ... return on success *)\n"
                "Fixpoint gen_loop (l : loc) (fb : bool) (c : cls) (v : Z) (k : kind) (n g : nat) (fls : list flavour) : list step :=\n"
                "  match fls with\n  | [] => []\n  | fl :: r => gen_attack l fb c v k n g fl ++ (if pickles k fl then [] else gen_loop l fb c v k n g r)\n  end.\n\n"
                "Definition gen_save_core (l : loc) (fb : bool) (c : cls) (v : Z) (k : kind) (n g : nat) : list step :=\n"
                "  gen_loop l fb c v k n g (gen_attacks fb).\n")


def main():
    src, outdir = Path(sys.argv[1]), Path(sys.argv[2])
    out = outdir / "StoreGen.v"
    try:
        tree = ast.parse(src.read_text())
        fns = [m for n in tree.body if isinstance(n, ast.ClassDef) and n.name == "PickleStorage"
               for m in n.body if isinstance(m, ast.FunctionDef) and m.name == "_save"]
        if len(fns) != 1:
            raise Untranslatable(f"{len(fns)} definitions of PickleStorage._save")
        text = T(fns[0]).generate()
    except (OSError, SyntaxError, Untranslatable) as e:
        out.unlink(missing_ok=True)
        print(json.dumps({"save": f"untranslatable: {e}"}))
        return
    out.write_text(text)
    print(json.dumps({"save": "ok"}))


if __name__ == "__main__":
    main()
