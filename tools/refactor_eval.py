#!/usr/bin/env python3
"""refactor_eval.py SRC_DIR K NAME -- applies SRC_DIR/refactor_K.diff (a behaviour-preserving rewrite written by an
independent agent) in a scratch worktree, checks the pinned suite, and runs the quick checks of every property
anchored in a touched file with scratch output.  Records /verif/seeded/refactors/<NAME>.json: which checks stayed
quiet, which raised (and whether with a failing input).  Used to measure false alarms, not registered anywhere."""
import json, os, re, shutil, subprocess, sys
src, k, name = sys.argv[1], sys.argv[2], sys.argv[3]
V = "/verif"
wt = f"/tmp/refwt_{name}"
def sh(cmd, **kw):
    p = subprocess.run(cmd, stdout=subprocess.PIPE, stderr=subprocess.STDOUT, text=True, **kw)
    return p.returncode, p.stdout
subprocess.run(["git", "-C", "/repo", "worktree", "remove", "--force", wt], capture_output=True)
rc, out = sh(["git", "-C", "/repo", "worktree", "add", "--detach", wt]); assert rc == 0, out
rec = {"source": f"{src}/refactor_{k}.diff", "repo_head": sh(["git", "-C", "/repo", "log", "--format=%h", "-1"])[1].strip()}
try:
    diff = open(f"{src}/refactor_{k}.diff").read()
    rca, outa = sh(["git", "-C", wt, "apply", f"{src}/refactor_{k}.diff"])
    if rca != 0:
        rca, outa = sh(["git", "-C", wt, "apply", "-3", f"{src}/refactor_{k}.diff"])
    assert rca == 0, outa
    files = sorted(set(re.findall(r"^\+\+\+ b/(\S+)", diff, re.M)))
    rec["files"] = files
    rcb, outb = sh(["/venv/bin/python", f"{V}/tools/baseline.py"], env=dict(os.environ, BASELINE_REPO=wt), timeout=1800)
    rec["pinned_suite"] = outb.strip().splitlines()[:3]
    props = set()
    for l in open(f"{V}/properties.jsonl"):
        d = json.loads(l)
        if set(d["anchors"]["files"]) & set(files):
            props.add(d["id"])
    scratch = f"/tmp/refout_{name}"
    shutil.rmtree(scratch, ignore_errors=True)
    res = {}
    for p in sorted(props):
        try:
            rcc, outc = sh([f"{V}/bin/check", p], env=dict(os.environ, VERIF_REPO=wt, VERIF_OUT=scratch), timeout=2400)
        except subprocess.TimeoutExpired:
            rcc, outc = 124, "timeout"
        lines = [l for l in outc.splitlines() if l.startswith("VIOLATION")]
        whys = []
        for l in lines:
            m = re.search(r"replay=(\S+)", l)
            if m and os.path.exists(m.group(1)):
                r = json.load(open(m.group(1)))
                whys.append({"why": str(r.get("why"))[:240], "no_failing_input": "no-failing-input-found" in l, "case": r.get("case")})
        res[p] = {"exit": rcc, "violations": whys, "summary": outc.strip().splitlines()[-1][:200] if outc.strip() else ""}
    rec["checks"] = res
    rec["quiet"] = all(v["exit"] == 0 for v in res.values())
    os.makedirs(f"{V}/seeded/refactors", exist_ok=True)
    shutil.copy(f"{src}/refactor_{k}.diff", f"{V}/seeded/refactors/{name}.diff")
    json.dump(rec, open(f"{V}/seeded/refactors/{name}.json", "w"), indent=1)
    print(name, "suite:", rec["pinned_suite"][:1], "quiet" if rec["quiet"] else "ALARMS: " + ", ".join(f"{p}({'nfi' if all(w['no_failing_input'] for w in v['violations']) else 'input'})" for p, v in res.items() if v["exit"] != 0))
    shutil.rmtree(scratch, ignore_errors=True)
finally:
    subprocess.run(["git", "-C", "/repo", "worktree", "remove", "--force", wt], capture_output=True)
