#!/usr/bin/env python3
"""Fail-closed translator:  /repo/pyiron_workflow/mixin/injection.py :: OutputDataWithInjection._other_label,
_get_injection_label  ->  InjGen.v

usage: py2gallina_inj.py <injection.py> <out dir>      (prints one JSON line: {"inj": "ok"|reason})

The label arithmetic of operator injection is regenerated over the types of Inject.v; coq/gen/InjGenProofs.v proves
gen_injection_label = Inject.inj_label (and gen_other_label = Inject.other_label) for every state, request, repr and hash.
Idioms:  f"...{e}..."                          string concatenation (++)
         "_".join(f(x) for x in args)          join "_" (map f args)
         len(args) > 0                         Nat.ltb 0 (List.length args)
         X if C else Y                         if C then X else Y
         x.channel.scoped_label if isinstance(x, HasChannel) else repr(x)      match x with OC c => scoped st c | OR v => py_repr v end
         self.scoped_label                     scoped st self          cls.__name__          cname cls
         str(hash(s)).replace("-", "m")        hash s   (the Section variable of Inject.v: CPython's string hash, printed)
Anything else raises Untranslatable (the tie is then reported as not applicable)."""
import ast
import json
import sys
from pathlib import Path


class Untranslatable(Exception):
    pass


def bad(node, why):
    raise Untranslatable(f"line {getattr(node, 'lineno', '?')}: {why}: {ast.unparse(node)[:90]}")


def nm(n):
    return n.id if isinstance(n, ast.Name) else None


def cs(s):
    return '"' + s.replace('"', '""') + '"'


class T:
    def __init__(self, cls):
        self.m = {f.name: f for f in cls.body if isinstance(f, ast.FunctionDef)}

    def body1(self, fn):
        b = fn.body
        if b and isinstance(b[0], ast.Expr) and isinstance(b[0].value, ast.Constant):
            b = b[1:]
        return b

    def other_label(self):
        fn = self.m.get("_other_label")
        if fn is None or [ast.unparse(d) for d in fn.decorator_list] != ["staticmethod"] or len(fn.args.args) != 1:
            raise Untranslatable("_other_label: not a one-argument staticmethod")
        x = fn.args.args[0].arg
        b = self.body1(fn)
        if not (len(b) == 1 and isinstance(b[0], ast.Return) and isinstance(b[0].value, ast.IfExp)):
            bad(fn, "_other_label is not a single conditional return")
        e = b[0].value
        if ast.unparse(e.test) != f"isinstance({x}, HasChannel)":
            bad(e.test, "test outside the translated idioms")
        if ast.unparse(e.body) != f"{x}.channel.scoped_label":
            bad(e.body, "channel branch outside the translated idioms")
        if ast.unparse(e.orelse) != f"repr({x})":
            bad(e.orelse, "raw branch outside the translated idioms")
        return (f"  (* _other_label *)\n  Definition gen_other_label (st : state val) ({x} : operand val) : string :=\n"
                f"    match {x} with OC {x}_c => scoped val st {x}_c | OR {x}_v => py_repr {x}_v end.\n")

    def sexpr(self, n, env):
        """a string-valued expression"""
        if isinstance(n, ast.Constant) and isinstance(n.value, str):
            return cs(n.value)
        if nm(n) in env["strs"]:
            return n.id
        if isinstance(n, ast.JoinedStr):
            parts = []
            for v in n.values:
                if isinstance(v, ast.Constant):
                    parts.append(cs(v.value))
                elif isinstance(v, ast.FormattedValue) and v.conversion == -1 and v.format_spec is None:
                    parts.append(self.sexpr(v.value, env))
                else:
                    bad(v, "format outside the translated idioms")
            return "(" + " ++ ".join(parts) + ")" if parts else '""'
        if ast.unparse(n) == "self.scoped_label":
            return "scoped val st self"
        if isinstance(n, ast.Attribute) and n.attr == "__name__" and nm(n.value) == env["cls"]:
            return f"cname {env['cls']}"
        if isinstance(n, ast.IfExp):
            return f"(if {self.cond(n.test, env)} then {self.sexpr(n.body, env)} else {self.sexpr(n.orelse, env)})"
        if (isinstance(n, ast.Call) and isinstance(n.func, ast.Attribute) and n.func.attr == "join" and len(n.args) == 1
                and isinstance(n.func.value, ast.Constant) and isinstance(n.func.value.value, str)
                and isinstance(n.args[0], ast.GeneratorExp) and len(n.args[0].generators) == 1):
            g = n.args[0].generators[0]
            e = n.args[0].elt
            if (not g.ifs and isinstance(g.target, ast.Name) and nm(g.iter) == env["args"] and isinstance(e, ast.Call)
                    and ast.unparse(e.func) == "self._other_label" and len(e.args) == 1 and nm(e.args[0]) == g.target.id):
                return f"join {cs(n.func.value.value)} (map (gen_other_label st) {env['args']})"
        if (isinstance(n, ast.Call) and isinstance(n.func, ast.Attribute) and n.func.attr == "replace"
                and [ast.unparse(a) for a in n.args] == ["'-'", "'m'"] and isinstance(n.func.value, ast.Call)
                and nm(n.func.value.func) == "str" and len(n.func.value.args) == 1
                and isinstance(n.func.value.args[0], ast.Call) and nm(n.func.value.args[0].func) == "hash"
                and len(n.func.value.args[0].args) == 1):
            return f"hash {self.sexpr(n.func.value.args[0].args[0], env)}"
        bad(n, "string outside the translated idioms")

    def cond(self, n, env):
        if ast.unparse(n) == f"len({env['args']}) > 0":
            return f"Nat.ltb 0 (List.length {env['args']})"
        bad(n, "condition outside the translated idioms")

    def injection_label(self):
        fn = self.m.get("_get_injection_label")
        if fn is None or fn.decorator_list or [a.arg for a in fn.args.args][:1] != ["self"] or len(fn.args.args) != 2 or fn.args.vararg is None:
            raise Untranslatable("_get_injection_label: signature")
        env = {"cls": fn.args.args[1].arg, "args": fn.args.vararg.arg, "strs": set()}
        lines = []
        b = self.body1(fn)
        for st in b[:-1]:
            if not (isinstance(st, ast.Assign) and len(st.targets) == 1 and isinstance(st.targets[0], ast.Name)):
                bad(st, "statement outside the translated idioms")
            lines.append(f"    let {st.targets[0].id} := {self.sexpr(st.value, env)} in")
            env["strs"].add(st.targets[0].id)
        if not (b and isinstance(b[-1], ast.Return) and b[-1].value is not None):
            bad(fn, "no return")
        lines.append(f"    {self.sexpr(b[-1].value, env)}.")
        return (f"  (* _get_injection_label *)\n  Definition gen_injection_label (st : state val) (self : chan) ({env['cls']} : cls) "
                f"({env['args']} : list (operand val)) : string :=\n" + "\n".join(lines) + "\n")

    def generate(self):
        return ("(* GENERATED by tools/py2gallina_inj.py from pyiron_workflow/mixin/injection.py -- do not edit *)\n"
                "From PW Require Import Base Inject.\nOpen Scope string_scope.\n\nSection Gen.\n  Variable val : Type.\n"
                "  Variable py_repr : val -> string.\n  Variable hash : string -> string.\n\n"
                + self.other_label() + "\n" + self.injection_label() + "End Gen.\n")


def main():
    src, outdir = Path(sys.argv[1]), Path(sys.argv[2])
    out = outdir / "InjGen.v"
    try:
        tree = ast.parse(src.read_text())
        cl = [n for n in tree.body if isinstance(n, ast.ClassDef) and n.name == "OutputDataWithInjection"]
        if len(cl) != 1:
            raise Untranslatable("class OutputDataWithInjection not found")
        text = T(cl[0]).generate()
    except (OSError, SyntaxError, Untranslatable) as e:
        out.unlink(missing_ok=True)
        print(json.dumps({"inj": f"untranslatable: {e}"}))
        return
    out.write_text(text)
    print(json.dumps({"inj": "ok"}))


if __name__ == "__main__":
    main()
