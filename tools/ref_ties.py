import glob, json, os, subprocess, sys
sys.path.insert(0, '/verif')
WT = '/tmp/wt_ref'
os.environ['VERIF_REPO'] = WT
os.environ['PYTHONPATH'] = '/repo:/verif'
from harness import lib
subprocess.run(['git','-C','/repo','worktree','remove','--force',WT],capture_output=True)
subprocess.run(['git','-C','/repo','worktree','add','-q','--detach',WT],check=True)
files = {"C01":"topology.py","C02":"channels.py","C03":"channels.py","C12":"channels.py","C16":"for_loop.py","C15":"workflow.py","C18":"injection.py","C05":"node.py","C10":"node.py","C19":"storage.py","C17":"function.py","C08":"node.py","C11":"topology.py"}
res = {}
try:
    for d in sorted(glob.glob('/verif/seeded/refactors/*.diff')):
        txt = open(d).read()
        r = subprocess.run(['git','-C',WT,'apply',d],capture_output=True,text=True)
        if r.returncode: 
            print(os.path.basename(d),'does not apply'); continue
        for prop,f in files.items():
            if f not in txt: continue
            t = lib.generated_tie(prop)
            tag = 'n/a' if not t['applies'] else ('OK' if t['ok'] else 'BROKEN')
            print(os.path.basename(d), prop, tag, (t.get('translator') or '')[:110] if tag!='OK' else '', (t.get('error') or '')[-300:] if tag=='BROKEN' else '')
            res[(os.path.basename(d),prop)] = tag
        subprocess.run(['git','-C',WT,'checkout','-q','--','.'])
finally:
    subprocess.run(['git','-C','/repo','worktree','remove','--force',WT],capture_output=True)
from collections import Counter
print(Counter(res.values()))
