#!/usr/bin/env python3
"""Run /repo's pinned suite (guard OFF) and compare with /root/.vp/BASELINE.json stable_pass."""
import json, os, subprocess, sys, xml.etree.ElementTree as ET
out = "/tmp/verif_baseline.junit.xml"
env = {k: v for k, v in os.environ.items() if k != "PYIRON_WORKFLOW_VERIF"}
REPO = os.environ.get("BASELINE_REPO", "/repo")
env["PYTHONPATH"] = REPO
out = f"/tmp/verif_baseline_{os.getpid()}.junit.xml"
subprocess.run(["/venv/bin/python", "-m", "pytest", "-ra", "-q", "-p", "no:cacheprovider", "--timeout=900",
                "--continue-on-collection-errors", f"--junitxml={out}"], cwd=REPO, env=env,
               stdout=subprocess.DEVNULL, stderr=subprocess.DEVNULL)
passed = set()
for tc in ET.parse(out).getroot().iter("testcase"):
    if not any(ch.tag in ("failure", "error", "skipped") for ch in tc):
        passed.add(f"{tc.get('classname')}::{tc.get('name')}")
base = set(json.load(open("/root/.vp/BASELINE.json"))["stable_pass"])
missing = sorted(base - passed)
print(f"baseline {len(base)}; passed now {len(passed)}; baseline tests not passing: {len(missing)}")
for m in missing:
    print("  MISSING", m)
os.remove(out)
sys.exit(1 if missing else 0)
