#!/usr/bin/env python3
"""Fail-closed translator:  /repo/pyiron_workflow/workflow.py :: Workflow._build_io  ->  WfGen.v

usage: py2gallina_wf.py <workflow.py> <out dir>      (prints one JSON line: {"wf": "ok"|reason})

The method is regenerated over the state of WfIO.v: the body of the inner loop for ONE channel as gen_build_chan
(panel under construction -> panel, None = the assignment io[key] = channel raises), the two loops as folds in the
option monad.  coq/gen/WfGenProofs.v proves gen_build_io = WfIO.build_io for all states.
Idioms:  key_map = {} if key_map is None else key_map        identity (lookup_map treats "no map" as the empty map)
         io = Inputs() if i_or_o == "inputs" else Outputs..() the empty panel (the direction is the parameter d)
         for node in self.children.values(): panel = getattr(node, i_or_o); for channel in panel:   w_children / chans d
         try: x = key_map[channel.scoped_label]; BODY  except KeyError: HANDLER      match lookup_map .. with Some x => BODY | None => HANDLER
         isinstance(x, str)                                   x is a name (MName), otherwise the disabled marker (MOff)
         io[k] = channel                                      panel_set p k id
         channel.connected / channel.scoped_label             connected st id / scoped cl l
Anything else raises Untranslatable (the tie is then reported as not applicable)."""
import ast
import json
import sys
from pathlib import Path


class Untranslatable(Exception):
    pass


def bad(node, why):
    raise Untranslatable(f"line {getattr(node, 'lineno', '?')}: {why}: {ast.unparse(node)[:90]}")


def nm(n):
    return n.id if isinstance(n, ast.Name) else None


class T:
    def __init__(self, fn):
        self.fn = fn
        ps = [a.arg for a in fn.args.args]
        if len(ps) != 3 or ps[0] != "self":
            bad(fn, "signature")
        self.dirp, self.mapp = ps[1], ps[2]

    def is_scoped(self, n, ch):
        return isinstance(n, ast.Attribute) and nm(n.value) == ch and n.attr == "scoped_label"

    def key(self, n, ch, strs):
        if self.is_scoped(n, ch):
            return "(scoped cl l)"
        if nm(n) in strs:
            return strs[n.id]
        bad(n, "panel key outside the translated idioms")

    def cond(self, n, ch):
        if isinstance(n, ast.UnaryOp) and isinstance(n.op, ast.Not):
            return f"negb ({self.cond(n.operand, ch)})"
        if isinstance(n, ast.Attribute) and nm(n.value) == ch and n.attr == "connected":
            return "connected st id"
        bad(n, "condition outside the translated idioms")

    def stmts(self, body, ch, io, strs, mvals):
        """statements acting on the panel p -> an expression of type option panel"""
        if not body:
            return "Some p"
        st, rest = body[0], body[1:]
        if isinstance(st, ast.Pass):
            return self.stmts(rest, ch, io, strs, mvals)
        if (isinstance(st, ast.Assign) and len(st.targets) == 1 and isinstance(st.targets[0], ast.Subscript)
                and nm(st.targets[0].value) == io and nm(st.value) == ch):
            k = self.key(st.targets[0].slice, ch, strs)
            tail = self.stmts(rest, ch, io, strs, mvals)
            return f"panel_set p {k} id" if tail == "Some p" else f"(match panel_set p {k} id with Some p => {tail} | None => None end)"
        if isinstance(st, ast.If):
            if rest:
                bad(st, "statements after a conditional")
            t = st.test
            if (isinstance(t, ast.Call) and nm(t.func) == "isinstance" and len(t.args) == 2 and nm(t.args[0]) in mvals
                    and nm(t.args[1]) == "str"):
                x = t.args[0].id
                return (f"(match {x} with MName {x}_s => {self.stmts(st.body, ch, io, dict(strs, **{x: x + '_s'}), mvals)} "
                        f"| MOff _ => {self.stmts(st.orelse, ch, io, strs, mvals)} end)")
            return f"(if {self.cond(t, ch)} then {self.stmts(st.body, ch, io, strs, mvals)} else {self.stmts(st.orelse, ch, io, strs, mvals)})"
        if isinstance(st, ast.Try):
            if rest or st.orelse or st.finalbody or len(st.handlers) != 1 or nm(st.handlers[0].type) != "KeyError" or not st.body:
                bad(st, "try outside the translated idioms")
            a = st.body[0]
            if not (isinstance(a, ast.Assign) and len(a.targets) == 1 and isinstance(a.targets[0], ast.Name)
                    and isinstance(a.value, ast.Subscript) and nm(a.value.value) == self.mapp and self.is_scoped(a.value.slice, ch)):
                bad(a, "the try must start with the map lookup")
            x = a.targets[0].id
            return (f"match lookup_map m (scoped cl l) with\n  | Some {x} => {self.stmts(st.body[1:], ch, io, strs, mvals | {x})}\n"
                    f"  | None => {self.stmts(st.handlers[0].body, ch, io, strs, mvals)}\n  end")
        bad(st, "statement outside the translated idioms")

    def generate(self):
        body = self.fn.body
        if body and isinstance(body[0], ast.Expr) and isinstance(body[0].value, ast.Constant):
            body = body[1:]
        if len(body) != 4:
            bad(self.fn, "expected: map default, empty panel, the loops, return")
        s0, s1, lp, ret = body
        if ast.unparse(s0) != f"{self.mapp} = {{}} if {self.mapp} is None else {self.mapp}":
            bad(s0, "map default")
        if not (isinstance(s1, ast.Assign) and len(s1.targets) == 1 and isinstance(s1.targets[0], ast.Name)
                and isinstance(s1.value, ast.IfExp) and ast.unparse(s1.value.test) == f"{self.dirp} == 'inputs'"
                and all(isinstance(b, ast.Call) and not b.args and not b.keywords for b in (s1.value.body, s1.value.orelse))):
            bad(s1, "empty panel")
        io = s1.targets[0].id
        if not (isinstance(ret, ast.Return) and nm(ret.value) == io):
            bad(ret, "return")
        if not (isinstance(lp, ast.For) and isinstance(lp.target, ast.Name) and ast.unparse(lp.iter) == "self.children.values()"
                and not lp.orelse and len(lp.body) == 2):
            bad(lp, "outer loop")
        node = lp.target.id
        g, inner = lp.body
        if not (isinstance(g, ast.Assign) and len(g.targets) == 1 and isinstance(g.targets[0], ast.Name)
                and ast.unparse(g.value) == f"getattr({node}, {self.dirp})"):
            bad(g, "panel of the child")
        if not (isinstance(inner, ast.For) and isinstance(inner.target, ast.Name) and nm(inner.iter) == g.targets[0].id and not inner.orelse):
            bad(inner, "inner loop")
        one = self.stmts(inner.body, inner.target.id, io, {}, set())
        return ("(* GENERATED by tools/py2gallina_wf.py from pyiron_workflow/workflow.py -- do not edit *)\n"
                "From PW Require Import Base WfIO.\n\n"
                "(* Workflow._build_io: the body of the inner loop for one channel (label l, id) of the child labelled cl *)\n"
                "Definition gen_build_chan (st : wf) (m : kmap) (cl l : string) (id : nat) (p : panel) : option panel :=\n  "
                + one + ".\n\n"
                "(* for channel in panel *)\n"
                "Fixpoint gen_build_chans (st : wf) (m : kmap) (cl : string) (chs : list (string * nat)) (p : panel) : option panel :=\n"
                "  match chs with\n  | [] => Some p\n  | (l, id) :: r => match gen_build_chan st m cl l id p with\n"
                "                    | Some p' => gen_build_chans st m cl r p'\n                    | None => None\n                    end\n  end.\n\n"
                "(* for node in self.children.values() *)\n"
                "Fixpoint gen_build_children (st : wf) (d : dir) (m : kmap) (cs : list child) (p : panel) : option panel :=\n"
                "  match cs with\n  | [] => Some p\n  | c :: r => match gen_build_chans st m (c_label c) (chans d c) p with\n"
                "              | Some p' => gen_build_children st d m r p'\n              | None => None\n              end\n  end.\n\n"
                "Definition gen_build_io (st : wf) (d : dir) : option panel :=\n  gen_build_children st d (kmap_of st d) (w_children st) [].\n")


def main():
    src, outdir = Path(sys.argv[1]), Path(sys.argv[2])
    out = outdir / "WfGen.v"
    try:
        tree = ast.parse(src.read_text())
        fns = [m for n in tree.body if isinstance(n, ast.ClassDef) and n.name == "Workflow"
               for m in n.body if isinstance(m, ast.FunctionDef) and m.name == "_build_io"]
        if len(fns) != 1:
            raise Untranslatable(f"{len(fns)} definitions of Workflow._build_io")
        text = T(fns[0]).generate()
    except (OSError, SyntaxError, Untranslatable) as e:
        out.unlink(missing_ok=True)
        print(json.dumps({"wf": f"untranslatable: {e}"}))
        return
    out.write_text(text)
    print(json.dumps({"wf": "ok"}))


if __name__ == "__main__":
    main()
