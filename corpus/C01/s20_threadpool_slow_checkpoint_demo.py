import time, threading, os, tempfile
from concurrent.futures import ThreadPoolExecutor
os.chdir(tempfile.mkdtemp())
from pyiron_workflow import Workflow
from pyiron_workflow.storage import StorageInterface
from pyiron_workflow.channels import NOT_DATA
class Slow(StorageInterface):
    def _save(self, node, filename, /, **kw): time.sleep(0.3)
    def _load(self, filename, /, **kw): raise FileNotFoundError
    def _has_saved_content(self, filename, /, **kw): return False
    def _delete(self, filename, /, **kw): pass
@Workflow.wrap.as_function_node
def Inc(x=1):
    y = x + 1
    return y
wf = Workflow("w", autoload=None)
wf.a = Inc(1); wf.b = Inc(wf.a)
wf.a.executor = ThreadPoolExecutor(1)
wf.a.checkpoint = Slow()
out = wf.run()
print("returned:", dict(out), "b ran:", wf.b.outputs.y.value is not NOT_DATA, "prov:", wf.provenance_by_execution)
time.sleep(0.6)
print("later: b.y =", wf.b.outputs.y.value, "prov:", wf.provenance_by_execution)
wf.a.executor.shutdown()
