(* C16, proof tie by regeneration: ForGen.v is regenerated from /repo's nodes/for_loop.py on every run
   (tools/py2gallina_for.py); dictionary_to_index_maps AS THE SOURCE SAYS NOW is ForLoop.index_maps, the function the
   enumeration theorems of Props/C16.v are about.  Only Theorem / exact / Print Assumptions. *)
From PW Require Import Base ForLoop ForLoopProofs ForPrim.
From PWGen Require Import ForGen ForGenProofs.
Open Scope nat_scope.

Theorem C16_generated_index_maps_is_model : forall data nk zk, gen_index_maps data nk zk = index_maps data nk zk.
Proof. exact gen_index_maps_is_model. Qed.
Print Assumptions C16_generated_index_maps_is_model.

(* the enumeration theorem of Props/C16.v, stated of the regenerated function itself *)
Theorem C16_generated_index_maps_partial : forall data nk zk nls zls,
  lengths data (okeys nk) = Ok nls -> lengths data (okeys zk) = Ok zls ->
  NoDup (okeys nk ++ okeys zk) ->
  mixed_zero (okeys nk) nls (okeys zk) zls = false ->
  gen_index_maps data nk zk =
    if isnil (okeys nk) && isnil (okeys zk) then
      (if isnone nk && isnone zk then Err ValueErrorNoKeys else Err ValueErrorAllZero)
    else if prod nls * zfac (okeys zk) zls =? 0 then Err ValueErrorAllZero
    else Ok (spec_maps (okeys nk) nls (okeys zk) zls).
Proof. exact gen_index_maps_spec. Qed.
Print Assumptions C16_generated_index_maps_partial.
