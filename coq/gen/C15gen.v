(* C15, proof tie by regeneration: WfGen.v is regenerated from /repo's workflow.py on every run
   (tools/py2gallina_wf.py); Workflow._build_io AS THE SOURCE SAYS NOW is WfIO.build_io, the function the
   characterisation theorems of Props/C15.v are about.  Only Theorem / exact / Print Assumptions. *)
From PW Require Import Base WfIO WfIOProofs.
From PWGen Require Import WfGen WfGenProofs.

Theorem C15_generated_build_io_is_model : forall st d, gen_build_io st d = build_io st d.
Proof. exact gen_build_io_is_model. Qed.
Print Assumptions C15_generated_build_io_is_model.

(* C15_io_char of the regenerated function: the panel holds exactly the open / exposed, not hidden child channels *)
Theorem C15_generated_io_char : forall st d p, gen_build_io st d = Some p ->
  forall k id, In (k, id) p <-> exposes st d k id.
Proof. exact gen_io_char. Qed.
Print Assumptions C15_generated_io_char.
