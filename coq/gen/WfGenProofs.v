(* WfGenProofs.v -- Workflow._build_io regenerated from workflow.py IS WfIO.build_io. *)
From PW Require Import Base WfIO WfIOProofs.
From PWGen Require Import WfGen.

Lemma gen_build_chans_is_model st m cl : forall chs p, gen_build_chans st m cl chs p = build_chans st m cl chs p.
Proof.
  induction chs as [|[l id] r IH]; intros p; [reflexivity|].
  cbn [gen_build_chans build_chans]. unfold gen_build_chan.
  destruct (lookup_map m (scoped cl l)) as [[s|s]|].
  - destruct (panel_set p s id); [apply IH|reflexivity].
  - apply IH.
  - destruct (connected st id); cbn [negb]; [apply IH|].
    destruct (panel_set p (scoped cl l) id); [apply IH|reflexivity].
Qed.

Lemma gen_build_children_is_model st d m : forall cs p, gen_build_children st d m cs p = build_children st d m cs p.
Proof.
  induction cs as [|c r IH]; intros p; [reflexivity|].
  cbn [gen_build_children build_children]. rewrite gen_build_chans_is_model.
  destruct (build_chans st m (c_label c) (chans d c) p); [apply IH|reflexivity].
Qed.

Theorem gen_build_io_is_model : forall st d, gen_build_io st d = build_io st d.
Proof. intros st d. unfold gen_build_io, build_io. apply gen_build_children_is_model. Qed.

(* the characterisation theorem, stated of the regenerated function itself *)
Theorem gen_io_char : forall st d p, gen_build_io st d = Some p -> forall k id, In (k, id) p <-> exposes st d k id.
Proof. intros st d p H. rewrite gen_build_io_is_model in H. now apply io_char. Qed.
