(* C17, proof tie by regeneration: FnGen.v is regenerated from /repo's nodes/function.py on every run
   (tools/py2gallina_fn.py); how a function node stores what its function returned and what run() hands back -- also on a
   cache hit -- AS THE SOURCE SAYS NOW are Wrap.process_run_result / Wrap.fn_return, the functions C17_run and
   C17_output_store are about.  Only Theorem / exact / Print Assumptions. *)
From PW Require Import Base Wrap WrapProofs.
From PWGen Require Import FnGen FnGenProofs.

Theorem C17_generated_run_return_is_model : forall outs, gen_outputs_to_run_return outs = fn_return outs.
Proof. exact gen_outputs_to_run_return_is_model. Qed.
Print Assumptions C17_generated_run_return_is_model.

Theorem C17_generated_process_run_result_is_model : forall outs v,
  gen_process_run_result outs v = process_run_result KFunction outs v.
Proof. exact gen_process_run_result_is_model. Qed.
Print Assumptions C17_generated_process_run_result_is_model.
