(* C01, proof tie by regeneration: TopoGen.v is regenerated from /repo's topology.py on every run
   (tools/py2gallina_topo.py); the all-of trigger wiring that _set_run_connections_according_to_dag derives AS THE
   SOURCE SAYS NOW has exactly the members of Dag.g_ups -- every data upstream, each once, nothing else -- which is the
   wiring the schedule theorems of Props/C01.v assume.  Only Theorem / exact / Print Assumptions. *)
From PW Require Import Base Dag DagProofs DagGraph.
From PWGen Require Import TopoGen TopoGenProofs.

Theorem C01_generated_trigger_wiring_is_model : forall g n x, In x (gen_trigger_sources g n) <-> In x (g_ups g n).
Proof. exact gen_trigger_sources_is_model. Qed.
Print Assumptions C01_generated_trigger_wiring_is_model.

Theorem C01_generated_trigger_wiring_once : forall g n, NoDup (gen_trigger_sources g n).
Proof. exact gen_trigger_sources_nodup. Qed.
Print Assumptions C01_generated_trigger_wiring_once.

Theorem C01_generated_trigger_wiring_exact : forall g n u,
  In u (gen_trigger_sources g n) <-> exists i, In i (n_ins (g_node g n)) /\ In u (in_conns i).
Proof. exact gen_trigger_sources_exact. Qed.
Print Assumptions C01_generated_trigger_wiring_exact.
