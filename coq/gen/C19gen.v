(* C19, proof tie by regeneration: StoreGen.v is regenerated from /repo's storage.py on every run
   (tools/py2gallina_store.py); the ORDER of file-system operations of PickleStorage._save AS THE SOURCE SAYS NOW is
   Store.save_steps, the step list whose every prefix (crash point, incl. a partial write) the theorems of Props/C19.v
   quantify over.  Only Theorem / exact / Print Assumptions. *)
From PW Require Import Base Store StoreProofs.
From PWGen Require Import StoreGen StoreGenProofs.

Theorem C19_generated_attack_is_model : forall l fb c v k n g fl, In fl (gen_attacks fb) ->
  gen_attack l fb c v k n g fl = attack l fb c v k n g fl.
Proof. exact gen_attack_is_model. Qed.
Print Assumptions C19_generated_attack_is_model.

Theorem C19_generated_save_steps_is_model : forall l fb c v k n g,
  [SMkdir (fst l)] ++ gen_save_core l fb c v k n g ++ rmdir_steps (fst l) = save_steps l fb c v k n g.
Proof. exact gen_save_steps_is_model. Qed.
Print Assumptions C19_generated_save_steps_is_model.
