(* StoreGenProofs.v -- the step list of PickleStorage._save regenerated from storage.py IS Store.save_steps. *)
From PW Require Import Base Store StoreProofs.
From PWGen Require Import StoreGen.

Theorem gen_attack_is_model : forall l fb c v k n g fl, In fl (gen_attacks fb) ->
  gen_attack l fb c v k n g fl = attack l fb c v k n g fl.
Proof.
  intros l fb c v k n g fl Hin. unfold gen_attack, attack, gen_try_ok, gen_try_fail, gen_attacks in *.
  destruct fb, fl; cbn in Hin; try (destruct Hin as [H|[H|[]]]; try discriminate);
    try (destruct Hin as [H|[]]; try discriminate);
    destruct (pickles k _); reflexivity.
Qed.

Theorem gen_save_core_is_model : forall l fb c v k n g,
  gen_save_core l fb c v k n g =
  attack l fb c v k n g Pk ++ (if pickles k Pk then [] else if fb then attack l fb c v k n g Cp else []).
Proof.
  intros l fb c v k n g. unfold gen_save_core.
  destruct fb; cbn [gen_attacks app gen_loop].
  - rewrite !gen_attack_is_model by (cbn; auto).
    destruct (pickles k Pk); [reflexivity|]. destruct (pickles k Cp); rewrite ?app_nil_r; reflexivity.
  - rewrite !gen_attack_is_model by (cbn; auto).
    destruct (pickles k Pk); rewrite ?app_nil_r; reflexivity.
Qed.

(* the whole save as StorageInterface.save performs it: mkdir, the regenerated core, the directory clean-up *)
Theorem gen_save_steps_is_model : forall l fb c v k n g,
  [SMkdir (fst l)] ++ gen_save_core l fb c v k n g ++ rmdir_steps (fst l) = save_steps l fb c v k n g.
Proof.
  intros l fb c v k n g. unfold save_steps. rewrite gen_save_core_is_model. now rewrite <- !app_assoc.
Qed.
