(* InjGenProofs.v -- the injection label regenerated from injection.py IS Inject.inj_label. *)
From PW Require Import Base Inject InjectProofs.
From PWGen Require Import InjGen.
Open Scope string_scope.

Section P.
  Variable val : Type.
  Variable py_repr : val -> string.
  Variable hash : string -> string.

  Theorem gen_other_label_is_model : forall st o, gen_other_label val py_repr st o = other_label val py_repr st o.
  Proof. intros st [c|v]; reflexivity. Qed.

  Lemma map_gen_other st l : map (gen_other_label val py_repr st) l = map (other_label val py_repr st) l.
  Proof. apply map_ext. apply gen_other_label_is_model. Qed.

  Theorem gen_injection_label_is_model : forall st c self others inject_self,
    gen_injection_label val py_repr hash st self c others =
    inj_label val py_repr hash st (mkQ c self others inject_self).
  Proof.
    intros st c self others inject_self. unfold gen_injection_label, inj_label, label_of, nominal.
    cbn [q_cls q_self q_others]. rewrite map_gen_other.
    destruct others as [|o r]; [reflexivity|]. cbn [List.length Nat.ltb Nat.leb].
    rewrite ?append_assoc. reflexivity.
  Qed.
End P.

Section Q.
  Variable val : Type.
  Variable py_repr : val -> string.
  Variable hash : string -> string.
  Hypothesis hash_inj : forall a b, hash a = hash b -> a = b.
  Hypothesis repr_inj : forall v1 v2, py_repr v1 = py_repr v2 -> v1 = v2.

  Theorem gen_distinct_raw : forall st c self v1 v2,
    gen_injection_label val py_repr hash st self c [OR v1] = gen_injection_label val py_repr hash st self c [OR v2] -> v1 = v2.
  Proof.
    intros st c self v1 v2 H. rewrite !(gen_injection_label_is_model val py_repr hash st c self _ true) in H.
    exact (one_raw_operand_inj val py_repr hash hash_inj repr_inj st c self v1 v2 H).
  Qed.
End Q.
