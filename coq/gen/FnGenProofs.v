(* FnGenProofs.v -- Function.process_run_result / _outputs_to_run_return regenerated from function.py ARE Wrap.v's. *)
From PW Require Import Base Wrap WrapProofs.
From PWGen Require Import FnGen.

(* `output[0]` is only evaluated when len(output) == 1: the default of nth is never reached *)
Theorem gen_outputs_to_run_return_is_model : forall outs, gen_outputs_to_run_return outs = fn_return outs.
Proof. intros [|c [|d r]]; reflexivity. Qed.

Theorem gen_process_run_result_is_model : forall outs v,
  gen_process_run_result outs v = process_run_result KFunction outs v.
Proof.
  intros outs v. unfold gen_process_run_result, process_run_result.
  destruct (if Nat.eqb (List.length outs) 1 then Ok [v] else iterate v) as [vs|e]; [|reflexivity].
  destruct (store_zip outs vs) as [outs' [e|]]; [reflexivity|].
  now rewrite gen_outputs_to_run_return_is_model.
Qed.
