(* ConnGenProofs.v -- Channel.connect regenerated from channels.py IS the function Chan.v's theorems are about. *)
From PW Require Import Base Chan ChanProofs.
From PWGen Require Import ConnGen.

Theorem gen_connect1_is_model : forall W s a b, gen_connect1 W s a b = connect1 W s a b.
Proof.
  intros W s a b. unfold gen_connect1, connect1.
  (* case analysis on the three tests themselves, so that guard-clause and nested spellings are both covered *)
  destruct (memn b (conns s a)); destruct (conjb W a b); destruct (validb W a b); reflexivity.
Qed.

Theorem gen_connect_is_model : forall W bs s a, gen_connect W s a bs = connect W s a bs.
Proof.
  intros W bs. induction bs as [|b r IH]; intros s a; [reflexivity|].
  cbn [gen_connect connect]. rewrite gen_connect1_is_model.
  destruct (connect1 W s a b) as [s' [|e]]; [apply IH|reflexivity].
Qed.

Theorem gen_connect_Inv : forall W s a bs, Inv W s -> Inv W (fst (gen_connect W s a bs)).
Proof.
  intros W s a bs H. rewrite gen_connect_is_model.
  apply (connect_P W (Inv W)); [|exact H]. intros s0 a0 b0. apply connect1_Inv.
Qed.

Theorem gen_connect1_refused : forall W s a b s' e, gen_connect1 W s a b = (s', Err e) -> s' = s.
Proof. intros W s a b s' e H. rewrite gen_connect1_is_model in H. eapply connect1_err; eauto. Qed.
