(* TrigGenProofs.v -- the trigger methods regenerated from channels.py ARE the model Trig.v is about. *)
From PW Require Import Base Trig Fetch ChanPrim.
From PWGen Require Import TrigGen.

Lemma pyset_add_mems x y s : mems x (pyset_add s y) = String.eqb x y || mems x s.
Proof.
  unfold pyset_add. destruct (mems y s) eqn:E; [|reflexivity].
  destruct (String.eqb x y) eqn:Exy; [|reflexivity].
  apply String.eqb_eq in Exy. subst. exact E.
Qed.

Lemma pyset_of_acc_mems l : forall s x, mems x (fold_left pyset_add l s) = mems x s || mems x l.
Proof.
  induction l as [|y r IH]; intros s x; cbn [fold_left].
  - change (mems x []) with false. now rewrite orb_false_r.
  - rewrite IH, pyset_add_mems. change (mems x (y :: r)) with (String.eqb x y || mems x r).
    destruct (String.eqb x y), (mems x s), (mems x r); reflexivity.
Qed.

Lemma filter_nil_forallb {A} (p : A -> bool) l :
  Nat.eqb (List.length (filter (fun x => negb (p x)) l)) 0 = forallb p l.
Proof. induction l as [|x r IH]; cbn; [reflexivity|]. destruct (p x); cbn; [exact IH|reflexivity]. Qed.

Lemma forallb_mems_ext (p : string -> bool) a b :
  (forall x, mems x a = mems x b) -> (forall x y, String.eqb x y = true -> p x = p y) ->
  forallb p a = forallb p b.
Proof.
  intros Hm Hp. apply eq_true_iff_eq. rewrite !forallb_forall. split; intros H x Hx.
  - apply mems_In in Hx. rewrite <- Hm in Hx. apply mems_In in Hx. auto.
  - apply mems_In in Hx. rewrite Hm in Hx. apply mems_In in Hx. auto.
Qed.

Lemma forallb_map_comp {A B} (f : A -> B) (p : B -> bool) l :
  forallb p (map f l) = forallb (fun x => p (f x)) l.
Proof. induction l as [|x r IH]; cbn; [reflexivity|]. now rewrite IH. Qed.

(* "no connected emitter's label is missing from the received set", as the code computes it
   (length of a set difference) = as the model states it (every connection's label received) *)
Lemma difference_empty_iff_complete conns recv :
  Nat.eqb (pyset_len (pyset_difference (pyset_of (map (fun c => e_key c) conns)) recv)) 0 =
  forallb (fun c => mems (e_key c) recv) conns.
Proof.
  unfold pyset_len, pyset_difference. rewrite filter_nil_forallb.
  rewrite <- (forallb_map_comp (fun c => e_key c) (fun k => mems k recv) conns).
  apply forallb_mems_ext.
  - intros x. unfold pyset_of. rewrite pyset_of_acc_mems. reflexivity.
  - intros x y E. apply String.eqb_eq in E. now subst.
Qed.

Lemma subset_iff_complete conns recv :
  pyset_subset (pyset_of (map (fun c => e_key c) conns)) recv = forallb (fun c => mems (e_key c) recv) conns.
Proof.
  unfold pyset_subset. rewrite <- (forallb_map_comp (fun c => e_key c) (fun k => mems k recv) conns).
  apply forallb_mems_ext.
  - intros x. unfold pyset_of. rewrite pyset_of_acc_mems. reflexivity.
  - intros x y E. apply String.eqb_eq in E. now subst.
Qed.

(* AccumulatingInputSignal.__call__ / reset as regenerated from the source = Trig.acc_call, and the callback is
   invoked exactly once when the model says "fired", not at all otherwise *)
Theorem gen_acc_call_is_model : forall s other,
  gen_acc_call s other = (fst (acc_call s other), if snd (acc_call s other) then 1 else 0).
Proof.
  intros s other. unfold gen_acc_call, acc_call, gen_acc_reset, complete.
  destruct other as [e|].
  - unfold pyset_update. cbn [fold_left]. unfold pyset_add, set_recv. cbn [a_conns a_recv].
    rewrite ?difference_empty_iff_complete, ?subset_iff_complete.
    destruct (mems (e_key e) (a_recv s)); cbn [a_conns a_recv];
      match goal with |- context [forallb ?p ?l] => destruct (forallb p l) end; reflexivity.
  - unfold set_recv. rewrite ?difference_empty_iff_complete, ?subset_iff_complete.
    match goal with |- context [forallb ?p ?l] => destruct (forallb p l) end; destruct s; reflexivity.
Qed.

Theorem gen_acc_step_is_tstep : forall s e,
  gen_acc_call s (Some e) = (fst (tstep s (Arrive e)), if snd (tstep s (Arrive e)) then 1 else 0) /\
  gen_acc_call s None = (fst (tstep s Bare), if snd (tstep s Bare) then 1 else 0) /\
  gen_acc_reset s = fst (tstep s Reset).
Proof. intros s e. repeat split; try apply gen_acc_call_is_model. Qed.

(* InputSignal.__call__: every call invokes the callback exactly once, whoever called *)
Theorem gen_sig_call_is_anyof : forall s calls,
  map (fun o => snd (gen_sig_call s o)) calls = map (fun b : bool => if b then 1 else 0) (anyof_call calls).
Proof. intros s calls. unfold anyof_call. rewrite map_map. reflexivity. Qed.

Theorem gen_acc_fresh : forall s other s', gen_acc_call s other = (s', 1) -> a_recv s' = [].
Proof.
  intros s other s' H. rewrite gen_acc_call_is_model in H.
  unfold acc_call in H.
  match type of H with context [if complete ?x then _ else _] => destruct (complete x) end;
    cbn in H; [|discriminate]. injection H as H. subst s'. reflexivity.
Qed.
