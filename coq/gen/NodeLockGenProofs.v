(* Node.data_input_locked regenerated from node.py is the flag Remote.locked reads. *)
From PW Require Import Base CacheKeys NodePrim Remote RemoteProofs.
From PWGen Require Import NodeLockGen.

Theorem gen_lock_is_model : forall h c,
  locked h c = is_data_in (ch h c) &&
               gen_data_input_locked (n_running (nd h (c_owner (ch h c)))) (n_failed (nd h (c_owner (ch h c)))).
Proof. intros h c. reflexivity. Qed.

(* a failed flag does not unlock a node that is still out *)
Theorem gen_lock_ignores_failed : forall running failed, gen_data_input_locked running failed = running.
Proof. intros running failed. reflexivity. Qed.
