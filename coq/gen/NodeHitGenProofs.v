(* Node.cache_hit regenerated from node.py IS CacheKeys.cache_hit. *)
From PW Require Import Base CacheKeys CacheKeysProofs NodePrim.
From PWGen Require Import NodeHitGen.

Theorem gen_cache_hit_is_model : forall running failed now cached,
  gen_cache_hit running failed now cached = cache_hit running failed now cached.
Proof. intros [|] [|] now cached; reflexivity. Qed.

Theorem gen_no_hit_while_running_or_failed : forall running failed now cached,
  running || failed = true -> gen_cache_hit running failed now cached = false.
Proof. intros [|] [|] now cached H; try reflexivity; discriminate. Qed.
