(* TreeGenProofs.v -- get_nodes_in_data_tree regenerated from topology.py IS Pull.closure. *)
From PW Require Import Base Pull PullProofs.
From PWGen Require Import TreeGen.

Theorem gen_tree_is_model : forall fuel up k, gen_tree fuel up k = closure fuel up k.
Proof.
  induction fuel as [|f IH]; intros up k; [reflexivity|].
  cbn [gen_tree closure]. generalize (Some [k]). induction (up k) as [|u r IHr]; intros acc; [reflexivity|].
  cbn [fold_left]. rewrite IH. apply IHr.
Qed.

(* on an acyclic graph the regenerated function returns exactly the nodes reachable upstream *)
Theorem gen_tree_acyclic : forall up (rank : nat -> nat),
  (forall v u, In u (up v) -> rank u < rank v) ->
  forall fuel k, rank k < fuel -> exists D, gen_tree fuel up k = Some D /\ (forall x, In x D <-> reach up k x).
Proof.
  intros up rank H fuel k Hk. rewrite gen_tree_is_model.
  destruct (closure_acyclic up rank H fuel k Hk) as [D HD]. exists D. split; auto. apply (closure_sound _ _ _ _ HD).
Qed.
