(* C06, proof tie by regeneration (same regenerated method as C08gen.v: Node._run_finally, tools/py2gallina_epi.py):
   after every run -- success or failure -- the node's signals leave exactly once when asked for (through the running
   parent's queue or directly, never both), not at all otherwise, and a child that hands signals to its parent also
   un-registers from it (nothing is left "running").  Only Theorem / exact / Print Assumptions. *)
From PW Require Import Base Epilogue EpilogueProofs.
From PWGen Require Import EpiGen EpiGenProofs.

Theorem C06_generated_signals_leave_once : forall f,
  emit_ran f = true -> xorb (mem EEnqueue (gen_epilogue f)) (mem EEmit (gen_epilogue f)) = true.
Proof. intros f. rewrite gen_epilogue_is_model. apply signals_leave_once. Qed.
Print Assumptions C06_generated_signals_leave_once.

Theorem C06_generated_no_signal_unless_asked : forall f,
  emit_ran f = false -> mem EEnqueue (gen_epilogue f) = false /\ mem EEmit (gen_epilogue f) = false.
Proof. intros f. rewrite gen_epilogue_is_model. apply no_signal_unless_asked. Qed.
Print Assumptions C06_generated_no_signal_unless_asked.

Theorem C06_generated_enqueued_is_unregistered : forall f,
  mem EEnqueue (gen_epilogue f) = true -> mem EUnregister (gen_epilogue f) = true.
Proof. intros f. rewrite gen_epilogue_is_model. apply enqueued_is_unregistered. Qed.
Print Assumptions C06_generated_enqueued_is_unregistered.
