(* C03, proof tie by regeneration: FetchGen.v is regenerated from /repo's channels.py on every run
   (tools/py2gallina_chan.py); readiness, the type check of new values, both value setters and InputData.fetch AS THE
   SOURCE SAYS NOW are the functions the theorems of Props/C03.v are about.  Only Theorem / exact / Print Assumptions. *)
From PW Require Import Base Trig Fetch FetchProofs ChanPrim.
From PWGen Require Import FetchGen FetchGenProofs.

Theorem C03_generated_ready_is_model : forall s c, gen_ready s c = ready (getc s c).
Proof. exact gen_ready_is_model. Qed.
Print Assumptions C03_generated_ready_is_model.

Theorem C03_generated_type_check_is_model : forall s c v,
  gen__type_check_new_value s c v = if type_ok (getc s c) v then None else Some TypeErr.
Proof. exact gen_type_check_is_model. Qed.
Print Assumptions C03_generated_type_check_is_model.

Theorem C03_generated_input_setter_is_model : forall fuel s c v,
  gen_set_value_input fuel s c v = set_value fuel s c v.
Proof. exact gen_set_value_input_is_model. Qed.
Print Assumptions C03_generated_input_setter_is_model.

Theorem C03_generated_output_setter_is_model : forall fuel s c v,
  (forall c', locked s c' = false) -> gen_set_value_data fuel s c v = set_value fuel s c v.
Proof. exact gen_set_value_data_is_model. Qed.
Print Assumptions C03_generated_output_setter_is_model.

Theorem C03_generated_fetch_is_model : forall fuel s c, gen_fetch fuel s c = fetch fuel s c.
Proof. exact gen_fetch_is_model. Qed.
Print Assumptions C03_generated_fetch_is_model.

(* the priority theorem of Props/C03.v, stated of the regenerated fetch itself *)
Theorem C03_generated_fetch_priority : forall fuel s c s', gen_fetch fuel s c = Ok s' -> c < List.length (chans s) ->
  c_val (getc s' c) = match first_data_spec (map (fun u => c_val (getc s u)) (c_conns (getc s c))) with
                      | Some v => Some v
                      | None => c_val (getc s c)
                      end /\
  (forall d, ~ In d (chain fuel s c) -> getc s' d = getc s d).
Proof. exact gen_fetch_priority. Qed.
Print Assumptions C03_generated_fetch_priority.
