(* FetchGenProofs.v -- the data-delivery methods regenerated from channels.py ARE the functions Fetch.v's theorems
   are about: DataChannel.ready, _type_check_new_value, both value setters, InputData.fetch. *)
From PW Require Import Base Trig Fetch ChanPrim.
From PWGen Require Import FetchGen.

Theorem gen_ready_is_model : forall s c, gen_ready s c = ready (getc s c).
Proof.
  intros s c. unfold gen_ready, gen__value_is_data, gen__has_hint, ready, is_data, valid_slot.
  destruct (c_val (getc s c)); [|reflexivity]. cbn [andb]. reflexivity.
Qed.

Theorem gen_type_check_is_model : forall s c v,
  gen__type_check_new_value s c v = if type_ok (getc s c) v then None else Some TypeErr.
Proof.
  intros s c v. unfold gen__type_check_new_value, gen__has_hint, type_ok, is_data, valid_slot.
  destruct v as [x|]; [|now rewrite andb_false_r].
  destruct (c_strict (getc s c)), (c_hinted (getc s c)), (admits x); reflexivity.
Qed.

(* InputData.value = v (lock test, own type check, push to the value receiver, then store) *)
Theorem gen_set_value_input_is_model : forall fuel s c v,
  gen_set_value_input fuel s c v = set_value fuel s c v.
Proof.
  induction fuel as [|fuel IH]; intros s c v; [reflexivity|].
  cbn [gen_set_value_input set_value]. rewrite gen_type_check_is_model.
  destruct (locked s c); [reflexivity|].
  destruct (type_ok (getc s c) v); cbn [negb]; [|reflexivity].
  destruct (c_recv (getc s c)) as [r|]; [|reflexivity].
  rewrite IH. destruct (set_value fuel s r v); reflexivity.
Qed.

(* DataChannel.value = v (output channels: no lock test) agrees wherever nothing on the receiver chain is locked;
   output channels have no owner to lock them (c_owner = None) *)
Theorem gen_set_value_data_is_model : forall fuel s c v,
  (forall c', locked s c' = false) ->
  gen_set_value_data fuel s c v = set_value fuel s c v.
Proof.
  induction fuel as [|fuel IH]; intros s c v HL; [reflexivity|].
  cbn [gen_set_value_data set_value]. rewrite gen_type_check_is_model, HL.
  destruct (type_ok (getc s c) v); cbn [negb]; [|reflexivity].
  destruct (c_recv (getc s c)) as [r|]; [|reflexivity].
  rewrite (IH s r v HL). destruct (set_value fuel s r v); reflexivity.
Qed.

Lemma find_data_is_first_data s conns :
  option_map (fun out => c_val (getc s out)) (find (fun out => is_data (c_val (getc s out))) conns) =
  match first_data s conns with Some v => Some (Some v) | None => None end.
Proof.
  induction conns as [|u r IH]; [reflexivity|]. cbn [find first_data].
  destruct (c_val (getc s u)) eqn:E; cbn [is_data]; [cbn; now rewrite E|exact IH].
Qed.

(* InputData.fetch: the first connection (newest first) that holds data is assigned through the setter *)
Theorem gen_fetch_is_model : forall fuel s c, gen_fetch fuel s c = fetch fuel s c.
Proof.
  intros fuel s c. unfold gen_fetch, fetch.
  pose proof (find_data_is_first_data s (c_conns (getc s c))) as H.
  destruct (find _ (c_conns (getc s c))) as [out|]; destruct (first_data s (c_conns (getc s c))) as [v|];
    cbn in H; try discriminate; [|reflexivity].
  injection H as H. rewrite H. apply gen_set_value_input_is_model.
Qed.

From PW Require Import FetchProofs.
(* the priority theorem, stated of the regenerated function itself *)
Theorem gen_fetch_priority : forall fuel s c s', gen_fetch fuel s c = Ok s' -> c < List.length (chans s) ->
  c_val (getc s' c) = match first_data_spec (map (fun u => c_val (getc s u)) (c_conns (getc s c))) with
                      | Some v => Some v
                      | None => c_val (getc s c)
                      end /\
  (forall d, ~ In d (chain fuel s c) -> getc s' d = getc s d).
Proof. intros fuel s c s' H. rewrite gen_fetch_is_model in H. now apply fetch_priority. Qed.
