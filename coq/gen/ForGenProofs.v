(* ForGenProofs.v -- dictionary_to_index_maps regenerated from for_loop.py IS ForLoop.index_maps. *)
From PW Require Import Base ForLoop ForPrim.
From PWGen Require Import ForGen.
Open Scope nat_scope.

Lemma product_length ls : forall ixs, In ixs (product ls) -> List.length ixs = List.length ls.
Proof.
  induction ls as [|n r IH]; intros ixs H; cbn in H.
  - destruct H as [<-|[]]. reflexivity.
  - apply in_flat_map in H. destruct H as [i [_ H]]. apply in_map_iff in H. destruct H as [t [<- Ht]].
    cbn. f_equal. now apply IH.
Qed.

Lemma combine_enum (k : list string) : forall (xs : list nat) (o : nat) (pre : list string),
  List.length xs <= List.length k ->
  map (fun p : nat * nat => (nth (fst p) (pre ++ k) "", snd p)) (combine (seq (List.length pre) (List.length xs)) xs) =
  combine k xs.
Proof.
  induction k as [|a k IH]; intros xs o pre H.
  - destruct xs; [reflexivity|cbn in H; inversion H].
  - destruct xs as [|x xs]; [reflexivity|]. cbn [List.length seq combine map fst snd].
    rewrite app_nth2 by auto. rewrite Nat.sub_diag. cbn [nth]. f_equal.
    specialize (IH xs o (pre ++ [a])). rewrite app_length in IH. cbn [List.length] in IH.
    rewrite Nat.add_1_r in IH. rewrite <- app_assoc in IH. cbn [app] in IH. apply IH. cbn in H. auto with arith.
Qed.

Lemma fold_left_map {A B C} (f : C -> B -> C) (g : A -> B) l : forall c,
  fold_left f (map g l) c = fold_left (fun c a => f c (g a)) l c.
Proof. induction l as [|a l IH]; intros c; cbn; auto. Qed.

Lemma dict_enum_is_nmap k xs : List.length xs <= List.length k -> dict_enum k xs = nmap k xs.
Proof.
  intros H. unfold dict_enum, nmap, enumerate, key_at.
  rewrite <- (combine_enum k xs 0 [] H). cbn [List.length app]. rewrite fold_left_map. reflexivity.
Qed.

Lemma map_py_product2 {A B C} (f : A -> B -> C) a b :
  map (fun p => f (fst p) (snd p)) (py_product2 a b) = flat_map (fun x => map (fun y => f x y) b) a.
Proof.
  unfold py_product2. induction a as [|x a IH]; [reflexivity|]. cbn [flat_map].
  rewrite map_app, IH, map_map. reflexivity.
Qed.

Lemma flat_map_ext_in' {A B} (f g : A -> list B) l : (forall x, In x l -> f x = g x) -> flat_map f l = flat_map g l.
Proof.
  induction l as [|a l IH]; intros H; [reflexivity|]. cbn [flat_map].
  rewrite (H a (or_introl eq_refl)), IH; [reflexivity|]. intros x Hx. apply H. now right.
Qed.

Lemma lengths_length data ks : forall ns, lengths data ks = Ok ns -> List.length ns = List.length ks.
Proof.
  induction ks as [|k r IH]; intros ns H; cbn in H.
  - now inversion H.
  - destruct (sassoc k data) as [[n|]|]; try discriminate.
    destruct (lengths data r) as [ms|]; try discriminate. inversion H. cbn. f_equal. now apply IH.
Qed.

Theorem gen_index_maps_is_model : forall data nk zk, gen_index_maps data nk zk = index_maps data nk zk.
Proof.
  intros data nk zk. unfold gen_index_maps, index_maps.
  assert (Hn : (if isnone nk || Nat.eqb (List.length (okeys nk)) 0 then Ok [] else lengths data (okeys nk)) = lengths data (okeys nk)).
  { destruct nk as [[|k r]|]; reflexivity. }
  assert (Hz : (if isnone zk || Nat.eqb (List.length (okeys zk)) 0 then Ok 0 else rmap minl (lengths data (okeys zk))) =
               rmap (fun zls => match zls with [] => 0 | _ => minl zls end) (lengths data (okeys zk))).
  { destruct zk as [[|k r]|]; try reflexivity.
    all: cbn [isnone okeys List.length Nat.eqb orb];
      destruct (lengths data (k :: r)) as [[|z zs]|] eqn:E; try reflexivity;
      apply lengths_length in E; discriminate. }
  rewrite Hn, Hz. clear Hn Hz.
  destruct (lengths data (okeys nk)) as [nls|e] eqn:En; [|reflexivity]. cbn [bind].
  destruct (lengths data (okeys zk)) as [zls|e] eqn:Ez; [|reflexivity]. cbn [bind rmap].
  assert (Hp : (if Nat.ltb 0 (List.length nls) then prod nls else 0) = match nls with [] => 0 | _ => prod nls end).
  { destruct nls; reflexivity. }
  rewrite Hp. clear Hp.
  set (n_nest := match nls with [] => 0 | _ => prod nls end).
  set (n_zip := match zls with [] => 0 | _ => minl zls end).
  assert (Hmap : forall ixs, In ixs (product nls) -> dict_enum (okeys nk) ixs = nmap (okeys nk) ixs).
  { intros ixs Hin. apply dict_enum_is_nmap. apply product_length in Hin. apply lengths_length in En. lia. }
  destruct (Nat.ltb 0 n_nest && Nat.ltb 0 n_zip) eqn:E1.
  - f_equal. rewrite (map_py_product2 (fun ni zi => dict_update (dict_enum (okeys nk) ni) (dict_fromkeys (okeys zk) zi))).
    apply flat_map_ext_in'. intros ixs Hin. rewrite (Hmap ixs Hin). reflexivity.
  - destruct (Nat.ltb 0 n_nest) eqn:E2.
    + f_equal. apply map_ext_in. exact Hmap.
    + destruct (Nat.ltb 0 n_zip); reflexivity.
Qed.

From PW Require Import ForLoopProofs.
Theorem gen_index_maps_spec : forall data nk zk nls zls,
  lengths data (okeys nk) = Ok nls -> lengths data (okeys zk) = Ok zls ->
  NoDup (okeys nk ++ okeys zk) ->
  mixed_zero (okeys nk) nls (okeys zk) zls = false ->
  gen_index_maps data nk zk =
    if isnil (okeys nk) && isnil (okeys zk) then
      (if isnone nk && isnone zk then Err ValueErrorNoKeys else Err ValueErrorAllZero)
    else if prod nls * zfac (okeys zk) zls =? 0 then Err ValueErrorAllZero
    else Ok (spec_maps (okeys nk) nls (okeys zk) zls).
Proof. intros. rewrite gen_index_maps_is_model. now apply index_maps_spec. Qed.
