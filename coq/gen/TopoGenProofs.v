(* TopoGenProofs.v -- the trigger wiring regenerated from topology.py is the wiring Dag.v's theorems assume. *)
From PW Require Import Base Dag DagProofs DagGraph.
From PWGen Require Import TopoGen.

Theorem gen_trigger_sources_is_model : forall g n x, In x (gen_trigger_sources g n) <-> In x (g_ups g n).
Proof. intros g n x. unfold gen_trigger_sources, py_set_of, g_ups. reflexivity. Qed.

Theorem gen_trigger_sources_nodup : forall g n, NoDup (gen_trigger_sources g n).
Proof. intros g n. unfold gen_trigger_sources, py_set_of. apply nodup_nat_NoDup. Qed.

(* every data upstream of n, and nothing else, is wired to n's all-of trigger *)
Theorem gen_trigger_sources_exact : forall g n u,
  In u (gen_trigger_sources g n) <-> exists i, In i (n_ins (g_node g n)) /\ In u (in_conns i).
Proof.
  intros g n u. unfold gen_trigger_sources, py_set_of. rewrite nodup_nat_In, in_flat_map. reflexivity.
Qed.
