(* C05, proof tie by regeneration: NodeHitGen.v is regenerated from /repo's node.py on every run
   (tools/py2gallina_node.py); Node.cache_hit AS THE SOURCE SAYS NOW is CacheKeys.cache_hit, the function the
   dictionary-key theorems of Props/C05.v are about.  Only Theorem / exact / Print Assumptions. *)
From PW Require Import Base CacheKeys CacheKeysProofs NodePrim.
From PWGen Require Import NodeHitGen NodeHitGenProofs.

Theorem C05_generated_cache_hit_is_model : forall running failed now cached,
  gen_cache_hit running failed now cached = cache_hit running failed now cached.
Proof. exact gen_cache_hit_is_model. Qed.
Print Assumptions C05_generated_cache_hit_is_model.

Theorem C05_generated_no_hit_while_running_or_failed : forall running failed now cached,
  running || failed = true -> gen_cache_hit running failed now cached = false.
Proof. exact gen_no_hit_while_running_or_failed. Qed.
Print Assumptions C05_generated_no_hit_while_running_or_failed.
