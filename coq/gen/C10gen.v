(* C10, proof tie by regeneration: NodeLockGen.v is regenerated from /repo's node.py on every run
   (tools/py2gallina_node.py); Node.data_input_locked AS THE SOURCE SAYS NOW is the flag that Remote.locked -- and with
   it every lock theorem of Props/C10.v -- reads.  Only Theorem / exact / Print Assumptions. *)
From PW Require Import Base CacheKeys NodePrim Remote RemoteProofs.
From PWGen Require Import NodeLockGen NodeLockGenProofs.

Theorem C10_generated_lock_is_model : forall h c,
  locked h c = is_data_in (ch h c) &&
               gen_data_input_locked (n_running (nd h (c_owner (ch h c)))) (n_failed (nd h (c_owner (ch h c)))).
Proof. exact gen_lock_is_model. Qed.
Print Assumptions C10_generated_lock_is_model.

Theorem C10_generated_lock_ignores_failed : forall running failed, gen_data_input_locked running failed = running.
Proof. exact gen_lock_ignores_failed. Qed.
Print Assumptions C10_generated_lock_ignores_failed.
