(* C11, proof tie by regeneration: TreeGen.v is regenerated from /repo's topology.py on every run
   (tools/py2gallina_tree.py); get_nodes_in_data_tree AS THE SOURCE SAYS NOW is Pull.closure, the upstream closure the
   theorems of Props/C11.v say a pull runs (and refuses when cyclic).  Only Theorem / exact / Print Assumptions. *)
From PW Require Import Base Pull PullProofs.
From PWGen Require Import TreeGen TreeGenProofs.

Theorem C11_generated_closure_is_model : forall fuel up k, gen_tree fuel up k = closure fuel up k.
Proof. exact gen_tree_is_model. Qed.
Print Assumptions C11_generated_closure_is_model.

Theorem C11_generated_acyclic_closure : forall up (rank : nat -> nat),
  (forall v u, In u (up v) -> rank u < rank v) ->
  forall fuel k, rank k < fuel -> exists D, gen_tree fuel up k = Some D /\ (forall x, In x D <-> reach up k x).
Proof. exact gen_tree_acyclic. Qed.
Print Assumptions C11_generated_acyclic_closure.
