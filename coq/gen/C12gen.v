(* C12, proof tie by regeneration: ConnGen.v is regenerated from /repo's channels.py on every run
   (tools/py2gallina_chan.py); Channel.connect AS THE SOURCE SAYS NOW is the function the theorems of Props/C12.v
   are about (the hint test _valid_connection stays the model's validb: the hint calculus is C04's).
   Only Theorem / exact / Print Assumptions. *)
From PW Require Import Base Chan ChanProofs.
From PWGen Require Import ConnGen ConnGenProofs.

Theorem C12_generated_connect1_is_model : forall W s a b, gen_connect1 W s a b = connect1 W s a b.
Proof. exact gen_connect1_is_model. Qed.
Print Assumptions C12_generated_connect1_is_model.

Theorem C12_generated_connect_is_model : forall W bs s a, gen_connect W s a bs = connect W s a bs.
Proof. exact gen_connect_is_model. Qed.
Print Assumptions C12_generated_connect_is_model.

(* the regenerated connect keeps the connection invariant (mutual, conjugate, duplicate-free, hint-valid) *)
Theorem C12_generated_connect_keeps_invariant : forall W s a bs,
  Inv W s -> Inv W (fst (gen_connect W s a bs)).
Proof. exact gen_connect_Inv. Qed.
Print Assumptions C12_generated_connect_keeps_invariant.

(* ... and a refused single connection changes nothing *)
Theorem C12_generated_refused_noop : forall W s a b s' e, gen_connect1 W s a b = (s', Err e) -> s' = s.
Proof. exact gen_connect1_refused. Qed.
Print Assumptions C12_generated_refused_noop.
