(* EpiGenProofs.v -- Node._run_finally regenerated from node.py IS Epilogue.epilogue (all 2^10 flag vectors). *)
From PW Require Import Base Epilogue EpilogueProofs.
From PWGen Require Import EpiGen.

Theorem gen_epilogue_is_model : forall f, gen_epilogue f = epilogue f.
Proof. apply same_on_all_flags. vm_compute. reflexivity. Qed.
