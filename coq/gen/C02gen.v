(* C02, proof tie by regeneration: TrigGen.v is regenerated from /repo's channels.py on every run
   (tools/py2gallina_chan.py); the all-of / any-of trigger methods AS THE SOURCE SAYS NOW are the functions the
   theorems of Props/C02.v are about.  Only Theorem / exact / Print Assumptions. *)
From PW Require Import Base Trig Fetch ChanPrim TrigProofs.
From PWGen Require Import TrigGen TrigGenProofs.

(* AccumulatingInputSignal.__call__ (with reset): same next state as the model, and the owner's callback is invoked
   exactly once when the model fires, not at all otherwise *)
Theorem C02_generated_allof_is_model : forall s other,
  gen_acc_call s other = (fst (acc_call s other), if snd (acc_call s other) then 1 else 0).
Proof. exact gen_acc_call_is_model. Qed.
Print Assumptions C02_generated_allof_is_model.

Theorem C02_generated_allof_steps : forall s e,
  gen_acc_call s (Some e) = (fst (tstep s (Arrive e)), if snd (tstep s (Arrive e)) then 1 else 0) /\
  gen_acc_call s None = (fst (tstep s Bare), if snd (tstep s Bare) then 1 else 0) /\
  gen_acc_reset s = fst (tstep s Reset).
Proof. exact gen_acc_step_is_tstep. Qed.
Print Assumptions C02_generated_allof_steps.

(* InputSignal.__call__: one callback invocation per call, whoever calls *)
Theorem C02_generated_anyof_is_model : forall s calls,
  map (fun o => snd (gen_sig_call s o)) calls = map (fun b : bool => if b then 1 else 0) (anyof_call calls).
Proof. exact gen_sig_call_is_anyof. Qed.
Print Assumptions C02_generated_anyof_is_model.

(* hence the fresh-round theorem holds of the regenerated function itself *)
Theorem C02_generated_allof_fresh : forall s other s', gen_acc_call s other = (s', 1) -> a_recv s' = [].
Proof. exact gen_acc_fresh. Qed.
Print Assumptions C02_generated_allof_fresh.
