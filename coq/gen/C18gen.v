(* C18, proof tie by regeneration: InjGen.v is regenerated from /repo's mixin/injection.py on every run
   (tools/py2gallina_inj.py); the label under which an injected operator node is looked up and created, AS THE SOURCE
   SAYS NOW, is Inject.inj_label -- the function the reuse / distinctness theorems of Props/C18.v are about.
   Only Theorem / exact / Print Assumptions. *)
From PW Require Import Base Inject InjectProofs.
From PWGen Require Import InjGen InjGenProofs.

Theorem C18_generated_other_label_is_model : forall val py_repr st o,
  gen_other_label val py_repr st o = other_label val py_repr st o.
Proof. exact gen_other_label_is_model. Qed.
Print Assumptions C18_generated_other_label_is_model.

Theorem C18_generated_label_is_model : forall val py_repr hash st c self others inject_self,
  gen_injection_label val py_repr hash st self c others = inj_label val py_repr hash st (mkQ c self others inject_self).
Proof. exact gen_injection_label_is_model. Qed.
Print Assumptions C18_generated_label_is_model.

(* C18_distinct_raw of the regenerated function: x + 1 and x + '1' never share a label *)
Theorem C18_generated_distinct_raw : forall val py_repr hash,
  (forall a b, hash a = hash b -> a = b) -> (forall v1 v2 : val, py_repr v1 = py_repr v2 -> v1 = v2) ->
  forall st c self v1 v2,
    gen_injection_label val py_repr hash st self c [OR v1] = gen_injection_label val py_repr hash st self c [OR v2] -> v1 = v2.
Proof. exact gen_distinct_raw. Qed.
Print Assumptions C18_generated_distinct_raw.
