(* C08 (and the clauses of C01 / C05 that rest on the same method), proof tie by regeneration: EpiGen.v is regenerated
   from /repo's node.py on every run (tools/py2gallina_epi.py); Node._run_finally AS THE SOURCE SAYS NOW performs the
   effects of Epilogue.epilogue in that order under those guards.  Only Theorem / exact / Print Assumptions. *)
From PW Require Import Base Epilogue EpilogueProofs.
From PWGen Require Import EpiGen EpiGenProofs.

Theorem C08_generated_epilogue_is_model : forall f, gen_epilogue f = epilogue f.
Proof. exact gen_epilogue_is_model. Qed.
Print Assumptions C08_generated_epilogue_is_model.

(* the recovery file is written exactly by a failed graph root whose exception is going to be raised and that has a
   recovery back end -- never by a child, never after a success, never when the failure is suppressed *)
Theorem C08_generated_recovery_saved_iff : forall f,
  mem ERecoverySave (gen_epilogue f) = failed f && raise_exc f && has_recovery f && is_root f.
Proof. intros f. rewrite gen_epilogue_is_model. apply recovery_saved_iff. Qed.
Print Assumptions C08_generated_recovery_saved_iff.

(* what a checkpoint image remembers is settled before the image is written: the inputs of a success are stored, those
   of a failure forgotten, ahead of save_checkpoint *)
Theorem C08_generated_cache_before_checkpoint : forall f,
  before ECacheWrite ECheckpoint (gen_epilogue f) /\ before ECacheClear ECheckpoint (gen_epilogue f).
Proof. intros f. rewrite gen_epilogue_is_model. apply cache_before_checkpoint. Qed.
Print Assumptions C08_generated_cache_before_checkpoint.

Theorem C08_generated_cache_written_iff : forall f,
  mem ECacheWrite (gen_epilogue f) = use_cache f && negb (failed f) /\ mem ECacheClear (gen_epilogue f) = failed f.
Proof. intros f. rewrite gen_epilogue_is_model. apply cache_written_iff. Qed.
Print Assumptions C08_generated_cache_written_iff.

(* C01 (Poll.v, C01_callback_write_order_needed): signals are handed to the parent before the child un-registers *)
Theorem C08_generated_enqueue_before_unregister : forall f, before EEnqueue EUnregister (gen_epilogue f).
Proof. intros f. rewrite gen_epilogue_is_model. apply enqueue_before_unregister. Qed.
Print Assumptions C08_generated_enqueue_before_unregister.
