(* Trig.v -- the two trigger flavours of channels.py.
   InputSignal.__call__            : any-of  -- every call fires the owner's callback.
   AccumulatingInputSignal.__call__: all-of  -- a call from an OutputSignal adds the
     emitter's scoped label (STRING: owner.label ++ "__" ++ channel.label) to
     received_signals; if every current connection's scoped label is in the set, the set
     is reset and the callback fires.  Emitters carry an identity beside their key so
     that theorems can talk about identities while the code only sees keys. *)
From PW Require Import Base.

Record emitter := { e_id : nat; e_key : string }.

Record acc := { a_conns : list emitter;       (* connections, newest first *)
                a_recv : list string }.       (* received_signals (a set) *)

Inductive top :=
| Arrive (e : emitter)        (* receiving(firing): __call__(other = an OutputSignal) *)
| Bare                        (* __call__() with no emitter                           *)
| Connect (e : emitter)
| Disconnect (e : emitter)
| Reset.

Definition emitter_eqb (a b : emitter) : bool := Nat.eqb (e_id a) (e_id b).

Definition complete (s : acc) : bool :=
  forallb (fun c => mems (e_key c) (a_recv s)) (a_conns s).

(* returns the new state and whether the callback fired *)
Definition acc_call (s : acc) (from : option emitter) : acc * bool :=
  let s1 := match from with
            | Some e => {| a_conns := a_conns s;
                           a_recv := if mems (e_key e) (a_recv s) then a_recv s else e_key e :: a_recv s |}
            | None => s
            end in
  if complete s1 then ({| a_conns := a_conns s1; a_recv := [] |}, true) else (s1, false).

Definition tstep (s : acc) (o : top) : acc * bool :=
  match o with
  | Arrive e => acc_call s (Some e)
  | Bare => acc_call s None
  | Connect e => (if memb emitter_eqb e (a_conns s) then s
                  else {| a_conns := e :: a_conns s; a_recv := a_recv s |}, false)
  | Disconnect e => ({| a_conns := remove1 emitter_eqb e (a_conns s); a_recv := a_recv s |}, false)
  | Reset => ({| a_conns := a_conns s; a_recv := [] |}, false)
  end.

Fixpoint trun (s : acc) (ops : list top) : acc * list bool :=
  match ops with
  | [] => (s, [])
  | o :: r => let '(s1, f) := tstep s o in let '(s2, fs) := trun s1 r in (s2, f :: fs)
  end.

Definition acc0 : acc := {| a_conns := []; a_recv := [] |}.

(* any-of: the state is irrelevant, every call fires *)
Definition anyof_call (calls : list (option emitter)) : list bool := map (fun _ => true) calls.

(* observation for the correspondence check *)
Definition obs_trun (ops : list top) : obs :=
  let '(s, fs) := trun acc0 ops in
  OL [OL (map ob fs); OL (map (fun c => on (e_id c)) (a_conns s)); on (List.length (a_recv s))].

(* per-step observation: fired?, size of the received set after the step *)
Fixpoint trun_steps (s : acc) (ops : list top) : list (bool * nat) :=
  match ops with
  | [] => []
  | o :: r => let '(s1, f) := tstep s o in (f, List.length (a_recv s1)) :: trun_steps s1 r
  end.
Definition obs_trun_steps (ops : list top) : obs :=
  OL [OL (map (fun p : bool * nat => OL [ob (fst p); on (snd p)]) (trun_steps acc0 ops));
      OL (map (fun c => on (e_id c)) (a_conns (fst (trun acc0 ops))))].
