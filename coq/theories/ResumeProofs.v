(* ResumeProofs.v -- proofs about Resume.v (C08).

   Vocabulary.  [reset n] is the graph as built (no outputs, keys or flags; connected and linked
   inputs empty).  [den] is the value every output is MEANT to have once all causes are removed
   (negative unconnected inputs replaced by [fixv] of them); it only reads what [reset] keeps.
   [Good] says that whatever a leaf remembers is right: a cache key is the inputs it is meant to
   see, the function succeeded on them and the output is its result; linked inputs mirror the
   enclosing macro's inputs.  [Start] = a graph between runs: well-formed, no flags, no composite
   keys (fresh, or loaded from a file), Good.  The main lemma [visit_sem] follows one run through
   the tree. *)
From PW Require Import Base Resume.

Local Open Scope Z_scope.

(* ---- generic list facts ---------------------------------------------------------------------------- *)
Section AllK.
  Context {A : Type}.
  Variable P : A -> Prop.
  Fixpoint allk (ks : list A) : Prop := match ks with [] => True | k :: r => P k /\ allk r end.
  Lemma allk_Forall ks : allk ks <-> Forall P ks.
  Proof. induction ks as [|k r IH]; cbn; [split; auto|]. rewrite IH. split; [intros [? ?]; constructor; auto|inversion 1; auto]. Qed.
  Lemma allk_app a b : allk (a ++ b) <-> allk a /\ allk b.
  Proof. induction a as [|k r IH]; cbn; [tauto|]. rewrite IH. tauto. Qed.
  Lemma allk_In ks x : allk ks -> In x ks -> P x.
  Proof. rewrite allk_Forall, Forall_forall. auto. Qed.
End AllK.

Lemma allk_impl {A} (P Q : A -> Prop) ks : (forall x, In x ks -> P x -> Q x) -> allk P ks -> allk Q ks.
Proof. induction ks as [|k r IH]; cbn; [auto|]. intros H [H1 H2]. split; [apply H; auto|apply IH; auto]. Qed.
Lemma allk_map {A B} (P : B -> Prop) (f : A -> B) ks : allk P (map f ks) <-> allk (fun x => P (f x)) ks.
Proof. induction ks as [|k r IH]; cbn; [tauto|]. rewrite IH. tauto. Qed.

Lemma node_ind' (P : node -> Prop) :
  (forall k i st, P (Leaf k i st)) ->
  (forall i r st kids, allk P kids -> P (Macro i r st kids)) ->
  forall n, P n.
Proof.
  intros HL HM. fix F 1. intros [k i st|i r st kids]; [apply HL|apply HM].
  induction kids as [|kid rest IH]; cbn; [exact I|split; [apply F|exact IH]].
Qed.

Lemma slots_eqb_refl a : slots_eqb a a = true.
Proof. induction a as [|[x|] r IH]; cbn; [reflexivity| |exact IH]. rewrite Z.eqb_refl. exact IH. Qed.

Lemma all_some_forallb l : forallb is_some l = true -> exists args, all_some l = Some args.
Proof.
  induction l as [|[v|] r IH]; cbn; [eauto| |discriminate].
  intros H. destruct (IH H) as [a ->]. eauto.
Qed.
Lemma all_some_map l args : all_some l = Some args -> l = map Some args.
Proof.
  revert args. induction l as [|[v|] r IH]; cbn; intros args H; [inversion H; reflexivity| |discriminate].
  destruct (all_some r) eqn:E; [|discriminate]. inversion H; subst. cbn. f_equal. auto.
Qed.

Lemma nth_app_l {A} (l m : list A) n d : (n < List.length l)%nat -> nth n (l ++ m) d = nth n l d.
Proof. intros. apply app_nth1. assumption. Qed.
Lemma nth_app_here {A} (l : list A) x d : nth (List.length l) (l ++ [x]) d = x.
Proof. rewrite app_nth2 by lia. rewrite Nat.sub_diag. reflexivity. Qed.

(* ---- the node function ----------------------------------------------------------------------------- *)
Lemma chk_val_nonneg k args v : chk k args = RVal v -> 0 <= v.
Proof.
  unfold chk. destruct (existsb (fun a => a <? 0) args); [repeat destruct (existsb _ args); discriminate|]. intros H. inversion H.
  apply Z.mod_pos_bound. reflexivity.
Qed.
Lemma chk_val_args k args v : chk k args = RVal v -> forall a, In a args -> 0 <= a.
Proof.
  unfold chk. destruct (existsb (fun a => a <? 0) args) eqn:E; [repeat destruct (existsb _ args); discriminate|]. intros _ a Ha.
  destruct (Z.ltb_spec a 0); [|assumption].
  assert (existsb (fun a => a <? 0) args = true); [|congruence].
  apply existsb_exists. exists a. split; [assumption|]. apply Z.ltb_lt. assumption.
Qed.
Lemma chk_nonneg_val k args : (forall a, In a args -> 0 <= a) -> exists v, chk k args = RVal v.
Proof.
  intros H. unfold chk. destruct (existsb (fun a => a <? 0) args) eqn:E; [|eauto].
  apply existsb_exists in E. destruct E as [a [Ha Hl]]. apply Z.ltb_lt in Hl. specialize (H a Ha). lia.
Qed.

(* ---- specification vocabulary ---------------------------------------------------------------------- *)
Definition st0 : nst := {| outv := None; cached := None; failed := false; running := false |}.
Definition raw1 (x : input) : input := match fst x with SOwn => x | s => (s, None) end.
Fixpoint reset (n : node) : node :=
  match n with
  | Leaf k i _ => Leaf k (map raw1 i) st0
  | Macro i r _ kids => Macro (map raw1 i) r st0 (map reset kids)
  end.

Section Spec.
  Variable fixv : Z -> Z.
  Hypothesis fixv_nonneg : forall v, v < 0 -> 0 <= fixv v.

  Definition own_fix (v : Z) : Z := if v <? 0 then fixv v else v.
  Lemma own_fix_nonneg v : 0 <= own_fix v.
  Proof. unfold own_fix. destruct (Z.ltb_spec v 0); [auto|assumption]. Qed.
  Lemma own_fix_id v : 0 <= v -> own_fix v = v.
  Proof. unfold own_fix. destruct (Z.ltb_spec v 0); [lia|reflexivity]. Qed.
  Lemma own_fix_idem v : own_fix (own_fix v) = own_fix v.
  Proof. apply own_fix_id, own_fix_nonneg. Qed.

  (* the value an input is meant to see: penv = the enclosing macro's meant inputs, douts = the meant
     outputs of the siblings listed before *)
  Definition dval (penv douts : list (option Z)) (x : input) : option Z :=
    match fst x with SOwn => option_map own_fix (snd x) | SUp u => nth u douts None | SPar g => nth g penv None end.
  (* the same, with the unconnected inputs as they are now *)
  Definition cval (penv douts : list (option Z)) (x : input) : option Z :=
    match fst x with SOwn => snd x | SUp u => nth u douts None | SPar g => nth g penv None end.

  Section DK.
    Variable D : list (option Z) -> node -> option Z.
    Fixpoint dkidsF (ks : list node) (acc : list (option Z)) : list (option Z) :=
      match ks with [] => acc | kid :: rest => dkidsF rest (acc ++ [D acc kid]) end.
  End DK.

  Fixpoint den (penv douts : list (option Z)) (n : node) {struct n} : option Z :=
    match n with
    | Leaf k i _ =>
        match all_some (map (dval penv douts) i) with
        | Some args => match chk k args with RVal v => Some v | RRaise _ => None end
        | None => None
        end
    | Macro i r _ kids =>
        let di := map (dval penv douts) i in
        if forallb is_some di then nth r (dkidsF (fun acc kid => den di acc kid) kids []) None else None
    end.
  Definition dkids (di : list (option Z)) := dkidsF (fun acc kid => den di acc kid).

  (* the meant outputs of a whole subtree, in the order of [outputs] *)
  Section DT.
    Variable T : list (option Z) -> node -> list (option Z).
    Variable D : list (option Z) -> node -> option Z.
    Fixpoint dtkF (ks : list node) (acc : list (option Z)) : list (option Z) :=
      match ks with [] => [] | kid :: rest => T acc kid ++ dtkF rest (acc ++ [D acc kid]) end.
  End DT.
  Fixpoint dtree (penv douts : list (option Z)) (n : node) {struct n} : list (option Z) :=
    match n with
    | Leaf _ _ _ => [den penv douts n]
    | Macro i r _ kids =>
        let di := map (dval penv douts) i in
        den penv douts n :: dtkF (fun acc kid => dtree di acc kid) (fun acc kid => den di acc kid) kids []
    end.

  Definition mirror (pcur : list (option Z)) (n : node) : Prop :=
    Forall (fun x => match fst x with SPar g => snd x = nth g pcur None | _ => True end) (inp_of n).

  Section GK.
    Variable G : list (option Z) -> node -> Prop.
    Variable D : list (option Z) -> node -> option Z.
    Variable pcur : list (option Z).
    Fixpoint goodkF (ks : list node) (acc : list (option Z)) : Prop :=
      match ks with
      | [] => True
      | kid :: rest => mirror pcur kid /\ G acc kid /\ goodkF rest (acc ++ [D acc kid])
      end.
  End GK.
  Fixpoint Good (penv douts : list (option Z)) (n : node) {struct n} : Prop :=
    match n with
    | Leaf k i st =>
        match cached st with
        | None => True
        | Some c => c = map (cval penv douts) i /\
                    exists args v, all_some c = Some args /\ chk k args = RVal v /\ outv st = Some v
        end
    | Macro i r st kids =>
        let di := map (dval penv douts) i in
        goodkF (fun acc kid => Good di acc kid) (fun acc kid => den di acc kid) (vals i) kids []
    end.
  Definition goodk (di pcur : list (option Z)) :=
    goodkF (fun acc kid => Good di acc kid) (fun acc kid => den di acc kid) pcur.

  (* flags *)
  Definition flags0 (st : nst) : Prop := failed st = false /\ running st = false.
  Fixpoint clean (n : node) : Prop :=
    match n with Leaf _ _ st => flags0 st | Macro _ _ st kids => flags0 st /\ allk clean kids end.
  Fixpoint norun (n : node) : Prop :=
    match n with Leaf _ _ st => running st = false | Macro _ _ st kids => running st = false /\ allk norun kids end.
  Fixpoint nofail (n : node) : Prop :=
    match n with Leaf _ _ st => failed st = false | Macro _ _ st kids => failed st = false /\ allk nofail kids end.
  (* no composite holds a cache key (fresh, or just loaded) *)
  Fixpoint nocc (n : node) : Prop :=
    match n with Leaf _ _ _ => True | Macro _ _ st kids => cached st = None /\ allk nocc kids end.
  (* every leaf holds a cache key *)
  Fixpoint complete (n : node) : Prop :=
    match n with Leaf _ _ st => is_some (cached st) = true | Macro _ _ _ kids => allk complete kids end.
  (* failure flags are consistent: a failed leaf holds no key, a failed composite has a failed child *)
  Fixpoint failed_ok (n : node) : Prop :=
    match n with
    | Leaf _ _ st => failed st = true -> cached st = None
    | Macro _ _ st kids => (failed st = true -> existsb (fun k => failed (st_of k)) kids = true) /\ allk failed_ok kids
    end.

  (* well-formed: unconnected inputs hold data (non-negative on macros), links refer to inputs of the
     enclosing macro ([np] of them) *)
  Definition okin (leaf : bool) (np : nat) (x : input) : Prop :=
    match x with
    | (SOwn, v) => exists z, v = Some z /\ (leaf = false -> 0 <= z)
    | (SPar g, _) => (g < np)%nat
    | (SUp _, _) => True
    end.
  (* ... data connections point to siblings listed before, the returned child exists *)
  Fixpoint upsk (idx : nat) (ks : list node) : Prop :=
    match ks with
    | [] => True
    | kid :: r => Forall (fun u => (u < idx)%nat) (ups_of (inp_of kid)) /\ upsk (S idx) r
    end.
  Fixpoint WF (np : nat) (n : node) {struct n} : Prop :=
    match n with
    | Leaf _ i _ => Forall (okin true np) i
    | Macro i r _ kids => Forall (okin false np) i /\ allk (WF (List.length i)) kids /\
                          (r < List.length kids)%nat /\ upsk 0 kids
    end.

  (* a leaf whose unconnected inputs hold a negative value: the cause of a failure *)
  Definition isbad (i : list input) : bool :=
    existsb (fun x => match x with (SOwn, Some v) => v <? 0 | _ => false end) i.
  Fixpoint nbad (n : node) : nat :=
    match n with
    | Leaf _ i _ => if isbad i then 1 else 0
    | Macro _ _ _ kids => fold_right (fun k a => nbad k + a)%nat 0%nat kids
    end.
  (* ... of which marked failed *)
  Fixpoint nbf (n : node) : nat :=
    match n with
    | Leaf _ i st => if isbad i && failed st then 1 else 0
    | Macro _ _ _ kids => fold_right (fun k a => nbf k + a)%nat 0%nat kids
    end.

  Definition Start (t : node) : Prop :=
    WF 0 t /\ clean t /\ nocc t /\ Good [] [] t /\ mirror [] t /\ ups_of (inp_of t) = [].

  (* ---- inputs: what fetching and receiving do ---------------------------------------------------- *)
  Lemma fetch1_fst outs x : fst (fetch1 outs x) = fst x.
  Proof. unfold fetch1. destruct x as [[|u|g] v]; cbn; try reflexivity. destruct (nth u outs None); reflexivity. Qed.
  Lemma recv1_fst pu x : fst (recv1 pu x) = fst x.
  Proof. unfold recv1. destruct x as [[|u|g] v]; cbn; try reflexivity. destruct (nth g pu None); reflexivity. Qed.
  Lemma raw1_fetch outs x : raw1 (fetch1 outs x) = raw1 x.
  Proof. unfold raw1, fetch1. destruct x as [[|u|g] v]; cbn; try reflexivity. destruct (nth u outs None); reflexivity. Qed.
  Lemma raw1_recv pu x : raw1 (recv1 pu x) = raw1 x.
  Proof. unfold raw1, recv1. destruct x as [[|u|g] v]; cbn; try reflexivity. destruct (nth g pu None); reflexivity. Qed.
  Lemma raw1_relink pv x : raw1 (relink1 pv x) = raw1 x.
  Proof. unfold raw1, relink1. destruct x as [[|u|g] v]; reflexivity. Qed.
  Lemma map_raw1_fr outs pu i : map raw1 (map (fetch1 outs) (map (recv1 pu) i)) = map raw1 i.
  Proof. rewrite !map_map. apply map_ext. intros x. rewrite raw1_fetch, raw1_recv. reflexivity. Qed.

  Lemma dval_raw penv douts x : dval penv douts (raw1 x) = dval penv douts x.
  Proof. unfold dval, raw1. destruct x as [[|u|g] v]; reflexivity. Qed.
  Lemma ups_of_raw i : ups_of (map raw1 i) = ups_of i.
  Proof.
    unfold ups_of. induction i as [|x r IH]; cbn; [reflexivity|]. rewrite IH.
    destruct x as [[|u|g] v]; reflexivity.
  Qed.

  (* ---- [reset] forgets exactly what a run, a load or a flag change touch ------------------------- *)
  Lemma reset_recv_push n : forall pu, reset (recv_push pu n) = reset n.
  Proof.
    induction n as [k i st|i r st kids IH] using node_ind'; intros pu; cbn.
    - f_equal. rewrite map_map. apply map_ext. intros x. apply raw1_recv.
    - f_equal.
      + rewrite map_map. apply map_ext. intros x. apply raw1_recv.
      + rewrite map_map. induction kids as [|kid rest IHk]; cbn; [reflexivity|].
        destruct IH as [H1 H2]. f_equal; [apply H1|apply IHk, H2].
  Qed.

  Lemma loopF_reset V R resume p ks :
    (forall kid, In kid ks -> forall q os, reset (fst (fst (V q os kid))) = reset kid) ->
    (forall kid, reset (R kid) = reset kid) ->
    forall idx os oks errs, map reset (fst (fst (loopF V R resume p idx ks os oks errs))) = map reset ks.
  Proof.
    intros HV HR. induction ks as [|kid rest IH]; intros idx os oks errs; cbn [loopF]; [reflexivity|].
    assert (HVk := HV kid (or_introl eq_refl) (p ++ [idx]) os).
    assert (IH' := IH (fun k Hk => HV k (or_intror Hk))). clear IH.
    assert (Hrest : map reset (map R rest) = map reset rest).
    { rewrite map_map. apply map_ext. exact HR. }
    destruct (if resume then _ else _).
    - destruct (V (p ++ [idx]) os kid) as [[kid' e1] x]. cbn in HVk.
      destruct x as [|e|].
      + specialize (IH' (S idx) (os ++ [out_of kid']) (oks ++ [true]) errs).
        destruct (loopF V R resume p (S idx) rest _ _ errs) as [[rest' e2] lr]. cbn in *. congruence.
      + destruct (resume || _ || _).
        * cbn. congruence.
        * specialize (IH' (S idx) (os ++ [out_of kid']) (oks ++ [false]) true).
          destruct (loopF V R resume p (S idx) rest _ _ true) as [[rest' e2] lr]. cbn in *. congruence.
      + cbn. congruence.
    - specialize (IH' (S idx) (os ++ [out_of kid]) (oks ++ [false]) errs).
      destruct (loopF V R resume p (S idx) rest _ _ errs) as [[rest' e2] lr]. cbn in *. rewrite HR. congruence.
  Qed.

  Lemma visit_reset n : forall cut p outs pu, reset (fst (fst (visit cut p outs pu n))) = reset n.
  Proof.
    induction n as [k i st|i r st kids IH] using node_ind'; intros cut p outs pu.
    - cbn [visit]. destruct (running st && fetchable outs i); [apply reset_recv_push|].
      destruct (hitb _ _); [cbn; f_equal; apply map_raw1_fr|].
      destruct (negb _); [cbn; f_equal; apply map_raw1_fr|].
      destruct (all_some _); [|cbn; f_equal; apply map_raw1_fr].
      destruct (chk k l); [cbn; f_equal; apply map_raw1_fr|].
      destruct (cut_here cut p); cbn; f_equal; apply map_raw1_fr.
    - cbn [visit]. destruct (running st && fetchable outs i); [apply reset_recv_push|].
      assert (Hk : forall pu', map reset (map (recv_push pu') kids) = map reset kids).
      { intros pu'. rewrite map_map. apply map_ext. intros x. apply reset_recv_push. }
      destruct (hitb _ _); [cbn; f_equal; [apply map_raw1_fr|apply Hk]|].
      destruct (negb _); [cbn; f_equal; [apply map_raw1_fr|apply Hk]|].
      match goal with |- context [loopF ?V ?R ?re p 0 kids [] [] false] =>
        assert (HL := loopF_reset V R re p kids); destruct (loopF V R re p 0 kids [] [] false) as [[kids1 evs] lr] eqn:EL end.
      assert (HL' : map reset kids1 = map reset kids).
      { specialize (HL (fun kid Hin q os => allk_In _ _ _ IH Hin cut q os _) (fun kid => reset_recv_push kid _) 0%nat [] [] false).
        rewrite EL in HL. exact HL. }
      destruct lr as [[|]|e|]; cbn; try destruct (cut_here cut p); cbn; f_equal; try apply map_raw1_fr; exact HL'.
  Qed.

  (* ---- [den], [dtree], [nbad], [WF] only read what [reset] keeps ---------------------------------- *)
  Lemma dkidsF_map D1 D2 (f : node -> node) ks :
    (forall kid, In kid ks -> forall acc, D1 acc kid = D2 acc (f kid)) ->
    forall acc, dkidsF D1 ks acc = dkidsF D2 (map f ks) acc.
  Proof.
    induction ks as [|kid rest IH]; intros H acc; cbn; [reflexivity|].
    rewrite <- (H kid (or_introl eq_refl)). apply IH. intros k Hk. apply H. right. exact Hk.
  Qed.
  Lemma dtkF_map T1 T2 D1 D2 (f : node -> node) ks :
    (forall kid, In kid ks -> forall acc, D1 acc kid = D2 acc (f kid) /\ T1 acc kid = T2 acc (f kid)) ->
    forall acc, dtkF T1 D1 ks acc = dtkF T2 D2 (map f ks) acc.
  Proof.
    induction ks as [|kid rest IH]; intros H acc; cbn; [reflexivity|].
    destruct (H kid (or_introl eq_refl) acc) as [<- <-]. f_equal. apply IH. intros k Hk. apply H. right. exact Hk.
  Qed.

  Lemma map_dval_raw penv douts i : map (dval penv douts) (map raw1 i) = map (dval penv douts) i.
  Proof. rewrite map_map. apply map_ext. intros x. apply dval_raw. Qed.

  Lemma den_reset n : forall penv douts, den penv douts (reset n) = den penv douts n.
  Proof.
    induction n as [k i st|i r st kids IH] using node_ind'; intros penv douts; cbn [reset den].
    - rewrite map_dval_raw. reflexivity.
    - rewrite map_dval_raw. destruct (forallb is_some _); [|reflexivity]. f_equal.
      symmetry. apply dkidsF_map. intros kid Hin acc. symmetry. apply (allk_In _ _ _ IH Hin).
  Qed.
  Lemma dtree_reset n : forall penv douts, dtree penv douts (reset n) = dtree penv douts n.
  Proof.
    induction n as [k i st|i r st kids IH] using node_ind'; intros penv douts.
    - cbn [reset dtree]. f_equal. apply (den_reset (Leaf k i st)).
    - change (dtree penv douts (reset (Macro i r st kids))) with
        (den penv douts (reset (Macro i r st kids)) ::
           dtkF (fun acc kid => dtree (map (dval penv douts) (map raw1 i)) acc kid)
                (fun acc kid => den (map (dval penv douts) (map raw1 i)) acc kid) (map reset kids) []).
      rewrite den_reset, map_dval_raw. cbn [dtree]. f_equal.
      symmetry. apply dtkF_map. intros kid Hin acc. split; symmetry; [apply den_reset|apply (allk_In _ _ _ IH Hin)].
  Qed.
  Lemma den_same n m penv douts : reset n = reset m -> den penv douts n = den penv douts m.
  Proof. intros H. rewrite <- (den_reset n), <- (den_reset m), H. reflexivity. Qed.
  Lemma dtree_same n m penv douts : reset n = reset m -> dtree penv douts n = dtree penv douts m.
  Proof. intros H. rewrite <- (dtree_reset n), <- (dtree_reset m), H. reflexivity. Qed.

  Lemma isbad_raw i : isbad (map raw1 i) = isbad i.
  Proof.
    unfold isbad. induction i as [|x r IH]; cbn; [reflexivity|]. rewrite IH.
    destruct x as [[|u|g] v]; reflexivity.
  Qed.
  Lemma nbad_reset n : nbad (reset n) = nbad n.
  Proof.
    induction n as [k i st|i r st kids IH] using node_ind'; cbn [reset nbad].
    - rewrite isbad_raw. reflexivity.
    - induction kids as [|kid rest IHk]; cbn; [reflexivity|]. destruct IH as [H1 H2]. rewrite H1, (IHk H2). reflexivity.
  Qed.
  Lemma nbad_same n m : reset n = reset m -> nbad n = nbad m.
  Proof. intros H. rewrite <- (nbad_reset n), <- (nbad_reset m), H. reflexivity. Qed.

  Lemma okin_raw leaf np x : okin leaf np (raw1 x) <-> okin leaf np x.
  Proof. destruct x as [[|u|g] v]; cbn; tauto. Qed.
  Lemma WF_reset n : forall np, WF np (reset n) <-> WF np n.
  Proof.
    induction n as [k i st|i r st kids IH] using node_ind'; intros np; cbn [reset WF].
    - rewrite Forall_map. split; apply Forall_impl; intros x; apply okin_raw.
    - rewrite Forall_map, !map_length.
      assert (H : allk (WF (List.length i)) (map reset kids) <-> allk (WF (List.length i)) kids).
      { induction kids as [|kid rest IHk]; cbn; [tauto|]. destruct IH as [H1 H2]. rewrite H1, (IHk H2). tauto. }
      assert (U : forall idx, upsk idx (map reset kids) <-> upsk idx kids).
      { clear. induction kids as [|kid rest IHk]; intros idx; cbn; [tauto|]. rewrite IHk.
        replace (ups_of (inp_of (reset kid))) with (ups_of (inp_of kid)); [tauto|].
        destruct kid; cbn; symmetry; apply ups_of_raw. }
      rewrite H, U. split; intros [A B]; (split; [|exact B]); revert A; apply Forall_impl; intros x; apply okin_raw.
  Qed.
  Lemma WF_same n m np : reset n = reset m -> WF np n -> WF np m.
  Proof. intros H. rewrite <- (WF_reset n), <- (WF_reset m), H. auto. Qed.

  (* ---- values pushed along links and fetched from siblings ------------------------------------------ *)
  Definition updl (pu pcur : list (option Z)) : list (option Z) :=
    map (fun ab => match fst ab with Some v => Some v | None => snd ab end) (combine pu pcur).
  Definition nonneg (l : list (option Z)) : Prop := forall v, In (Some v) l -> 0 <= v.
  Definition feed (outs douts : list (option Z)) (i : list input) : Prop :=
    Forall (fun x => match fst x with
                     | SUp u => nth u outs None = nth u douts None /\ is_some (nth u douts None) = true
                     | _ => True end) i.

  Lemma updl_length pu pcur : List.length pu = List.length pcur -> List.length (updl pu pcur) = List.length pcur.
  Proof. intros H. unfold updl. rewrite map_length, combine_length, H. apply Nat.min_id. Qed.
  Lemma nth_updl pu pcur g : List.length pu = List.length pcur -> (g < List.length pcur)%nat ->
    nth g (updl pu pcur) None = match nth g pu None with Some v => Some v | None => nth g pcur None end.
  Proof.
    intros HL Hg. unfold updl.
    change (@None Z) with ((fun ab : option Z * option Z => match fst ab with Some v => Some v | None => snd ab end) (None, None)) at 1.
    rewrite map_nth, combine_nth by assumption. reflexivity.
  Qed.
  Lemma pushed_upd outs pu i : updl (pushed outs pu i) (vals i) = vals (map (fetch1 outs) (map (recv1 pu) i)).
  Proof.
    unfold updl, pushed, vals. induction i as [|x r IH]; cbn; [reflexivity|]. rewrite IH. f_equal.
    destruct x as [[|u|g] v]; cbn; unfold fetch1, recv1; cbn; try reflexivity.
    - destruct (nth u outs None); reflexivity.
    - destruct (nth g pu None); reflexivity.
  Qed.
  Lemma pushed_length outs pu i : List.length (pushed outs pu i) = List.length (vals i).
  Proof. unfold pushed, vals. rewrite !map_length. reflexivity. Qed.
  Lemma fetch1_nil x : fetch1 [] x = x.
  Proof. unfold fetch1. destruct x as [[|u|g] v]; cbn; try reflexivity. destruct u; reflexivity. Qed.
  Lemma pushed_upd_recv pu i : updl (pushed [] pu i) (vals i) = vals (map (recv1 pu) i).
  Proof. rewrite pushed_upd. f_equal. rewrite <- (map_id (map (recv1 pu) i)) at 2. apply map_ext. apply fetch1_nil. Qed.

  Lemma nth_In_some (l : list (option Z)) g v : nth g l None = Some v -> In (Some v) l.
  Proof.
    intros H. destruct (Nat.lt_ge_cases g (List.length l)) as [Hl|Hl].
    - rewrite <- H. apply nth_In. exact Hl.
    - rewrite nth_overflow in H by assumption. discriminate.
  Qed.

  (* what one input holds after receiving and fetching, under the preconditions of a visit *)
  Lemma elem_fr leaf outs pu pcur penv douts x :
    okin leaf (List.length pcur) x ->
    match fst x with SPar g => snd x = nth g pcur None | _ => True end ->
    match fst x with SUp u => nth u outs None = nth u douts None /\ is_some (nth u douts None) = true | _ => True end ->
    List.length pu = List.length pcur -> penv = updl pu pcur -> forallb is_some penv = true ->
    let x' := fetch1 outs (recv1 pu x) in
    fst x' = fst x /\ snd x' = cval penv douts x /\ is_some (snd x') = true.
  Proof.
    intros Hok Hm Hf HL Hp Hs. destruct x as [[|u|g] v]; cbn in *.
    - destruct Hok as [z [-> _]]. unfold fetch1, recv1, cval; cbn. auto.
    - destruct Hf as [Hf1 Hf2]. unfold fetch1, recv1, cval; cbn. rewrite Hf1.
      destruct (nth u douts None); [cbn; auto|discriminate].
    - assert (E : nth g penv None = match nth g pu None with Some w => Some w | None => nth g pcur None end).
      { subst penv. apply nth_updl; assumption. }
      assert (S : is_some (nth g penv None) = true).
      { rewrite forallb_forall in Hs. apply Hs. apply nth_In. subst penv. rewrite updl_length; assumption. }
      unfold fetch1, recv1, cval; cbn. destruct (nth g pu None) as [w|]; cbn.
      + rewrite E. auto.
      + rewrite E in *. rewrite <- Hm in *. auto.
  Qed.

  Lemma cval_fr penv douts outs pu x : cval penv douts (fetch1 outs (recv1 pu x)) = cval penv douts x.
  Proof.
    unfold cval, fetch1, recv1. destruct x as [[|u|g] v]; cbn; try reflexivity.
    - destruct (nth u outs None); reflexivity.
    - destruct (nth g pu None); reflexivity.
  Qed.
  Lemma cval_recv penv douts pu x : cval penv douts (recv1 pu x) = cval penv douts x.
  Proof. unfold cval, recv1. destruct x as [[|u|g] v]; cbn; try reflexivity. destruct (nth g pu None); reflexivity. Qed.
  Lemma dval_fr penv douts outs pu x : dval penv douts (fetch1 outs (recv1 pu x)) = dval penv douts x.
  Proof.
    unfold dval, fetch1, recv1. destruct x as [[|u|g] v]; cbn; try reflexivity.
    - destruct (nth u outs None); reflexivity.
    - destruct (nth g pu None); reflexivity.
  Qed.
  Lemma dval_recv penv douts pu x : dval penv douts (recv1 pu x) = dval penv douts x.
  Proof. unfold dval, recv1. destruct x as [[|u|g] v]; cbn; try reflexivity. destruct (nth g pu None); reflexivity. Qed.
  Lemma okin_fr leaf np outs pu x : okin leaf np x -> okin leaf np (fetch1 outs (recv1 pu x)).
  Proof.
    unfold fetch1, recv1. destruct x as [[|u|g] v]; cbn; try tauto.
    - destruct (nth u outs None); cbn; tauto.
    - destruct (nth g pu None); cbn; tauto.
  Qed.
  Lemma okin_recv leaf np pu x : okin leaf np x -> okin leaf np (recv1 pu x).
  Proof. unfold recv1. destruct x as [[|u|g] v]; cbn; try tauto. destruct (nth g pu None); cbn; tauto. Qed.
  Lemma isbad_fr outs pu i : isbad (map (fetch1 outs) (map (recv1 pu) i)) = isbad i.
  Proof. rewrite <- (isbad_raw (map _ _)), map_raw1_fr. apply isbad_raw. Qed.
  Lemma ups_of_fr outs pu i : ups_of (map (fetch1 outs) (map (recv1 pu) i)) = ups_of i.
  Proof. rewrite <- (ups_of_raw (map _ _)), map_raw1_fr. apply ups_of_raw. Qed.

  Record fetched (leaf : bool) (np : nat) (penv douts : list (option Z)) (i0 i : list input) : Prop := {
    f_vals : vals i = map (cval penv douts) i0;
    f_cval : map (cval penv douts) i = map (cval penv douts) i0;
    f_dval : map (dval penv douts) i = map (dval penv douts) i0;
    f_ready : forallb is_some (vals i) = true;
    f_mirror : Forall (fun x => match fst x with SPar g => snd x = nth g penv None | _ => True end) i;
    f_ok : Forall (okin leaf np) i;
    f_bad : isbad i = isbad i0;
    f_len : List.length i = List.length i0 }.

  Lemma fetched_fr leaf outs pu pcur penv douts i0 :
    Forall (okin leaf (List.length pcur)) i0 ->
    Forall (fun x => match fst x with SPar g => snd x = nth g pcur None | _ => True end) i0 ->
    feed outs douts i0 ->
    List.length pu = List.length pcur -> penv = updl pu pcur -> forallb is_some penv = true ->
    fetched leaf (List.length pcur) penv douts i0 (map (fetch1 outs) (map (recv1 pu) i0)).
  Proof.
    intros Hok Hm Hf HL Hp Hs.
    assert (E : Forall (fun x => let x' := fetch1 outs (recv1 pu x) in
                         fst x' = fst x /\ snd x' = cval penv douts x /\ is_some (snd x') = true) i0).
    { unfold feed in Hf. rewrite Forall_forall in *. intros x Hx. apply (elem_fr leaf outs pu pcur); auto; [apply Hm|apply Hf]; exact Hx. }
    constructor.
    - unfold vals. rewrite !map_map. apply map_ext_in. intros x Hx. rewrite Forall_forall in E. apply (E x Hx).
    - rewrite !map_map. apply map_ext. intros x. apply cval_fr.
    - rewrite !map_map. apply map_ext. intros x. apply dval_fr.
    - unfold vals. rewrite !map_map. apply forallb_forall. intros o Ho. apply in_map_iff in Ho.
      destruct Ho as [x [<- Hx]]. rewrite Forall_forall in E. apply (E x Hx).
    - rewrite map_map, Forall_map. rewrite Forall_forall in *. intros x Hx. destruct (E x Hx) as [E1 [E2 _]].
      cbv zeta in *. rewrite E1. destruct (fst x) eqn:F; auto. rewrite E2. unfold cval. rewrite F. reflexivity.
    - rewrite map_map, Forall_map. revert Hok. apply Forall_impl. intros x. apply okin_fr.
    - apply isbad_fr.
    - rewrite !map_length. reflexivity.
  Qed.

  Lemma cval_dval_mac np penv douts i : Forall (okin false np) i -> map (cval penv douts) i = map (dval penv douts) i.
  Proof.
    intros H. apply map_ext_in. intros x Hx. rewrite Forall_forall in H. specialize (H x Hx).
    destruct x as [[|u|g] v]; cbn in *; try reflexivity. destruct H as [z [-> Hz]]. unfold cval, dval; cbn.
    rewrite own_fix_id; auto.
  Qed.
  Lemma cval_dval_args penv douts i args :
    all_some (map (cval penv douts) i) = Some args -> (forall a, In a args -> 0 <= a) ->
    map (dval penv douts) i = map (cval penv douts) i.
  Proof.
    intros HA Hn. apply all_some_map in HA. apply map_ext_in. intros x Hx.
    destruct x as [[|u|g] v]; try reflexivity. unfold cval, dval; cbn.
    destruct v as [v|]; [|reflexivity]. cbn. rewrite own_fix_id; [reflexivity|]. apply Hn.
    assert (In (Some v) (map (cval penv douts) i)) as Hi.
    { apply in_map_iff. exists (SOwn, Some v). split; [reflexivity|exact Hx]. }
    rewrite HA in Hi. apply in_map_iff in Hi. destruct Hi as [a [Ea Ha]]. inversion Ea; subst. exact Ha.
  Qed.

  (* a raising call has a negative unconnected input: everything else it sees is a function result *)
  Lemma raise_isbad penv douts k i args :
    nonneg penv -> nonneg douts -> forall e, all_some (map (cval penv douts) i) = Some args -> chk k args = RRaise e -> isbad i = true.
  Proof.
    intros Np Nd e HA HR. apply all_some_map in HA.
    unfold chk in HR. destruct (existsb (fun a => a <? 0) args) eqn:E; [|discriminate]. clear HR. apply existsb_exists in E.
    destruct E as [a [Ha Hl]]. apply Z.ltb_lt in Hl.
    assert (In (Some a) (map (cval penv douts) i)) as Hi by (rewrite HA; apply in_map; exact Ha).
    apply in_map_iff in Hi. destruct Hi as [x [Ex Hx]]. unfold isbad. apply existsb_exists. exists x. split; [exact Hx|].
    destruct x as [[|u|g] v]; unfold cval in Ex; cbn in Ex.
    - subst v. apply Z.ltb_lt. exact Hl.
    - apply nth_In_some in Ex. specialize (Nd _ Ex). lia.
    - apply nth_In_some in Ex. specialize (Np _ Ex). lia.
  Qed.
  Lemma notbad_ok penv douts k i args :
    nonneg penv -> nonneg douts -> all_some (map (cval penv douts) i) = Some args -> isbad i = false ->
    exists v, chk k args = RVal v.
  Proof.
    intros Np Nd HA Hb. destruct (chk k args) eqn:E; [eauto|].
    rewrite (raise_isbad penv douts k i args Np Nd e HA E) in Hb. discriminate.
  Qed.

  Lemma den_nonneg n : forall penv douts v, den penv douts n = Some v -> 0 <= v.
  Proof.
    induction n as [k i st|i r st kids IH] using node_ind'; intros penv douts v; cbn [den].
    - destruct (all_some _); [|discriminate]. destruct (chk k l) eqn:E; [|discriminate].
      intros H. inversion H; subst. eapply chk_val_nonneg; eauto.
    - destruct (forallb _ _); [|discriminate]. intros H. apply nth_In_some in H.
      set (di := map (dval penv douts) i) in *.
      assert (G : forall ks acc, allk (fun n => forall penv douts v, den penv douts n = Some v -> 0 <= v) ks ->
                    nonneg acc -> nonneg (dkidsF (fun acc kid => den di acc kid) ks acc)).
      { induction ks as [|kid rest IHk]; intros acc Hk Ha; cbn; [exact Ha|]. destruct Hk as [H1 H2].
        apply IHk; [exact H2|]. intros w Hw. apply in_app_or in Hw. destruct Hw as [Hw|[Hw|[]]]; [auto|]. eapply H1; eauto. }
      apply (G kids [] IH); [intros w []|exact H].
  Qed.
  Lemma nonneg_snoc acc o : nonneg acc -> (forall v, o = Some v -> 0 <= v) -> nonneg (acc ++ [o]).
  Proof. intros Ha Ho v Hv. apply in_app_or in Hv. destruct Hv as [Hv|[Hv|[]]]; auto. Qed.
  Lemma nonneg_dvals penv douts i : nonneg penv -> nonneg douts -> nonneg (map (dval penv douts) i).
  Proof.
    intros Np Nd v Hv. apply in_map_iff in Hv. destruct Hv as [x [Ex Hx]].
    destruct x as [[|u|g] w]; unfold dval in Ex; cbn in Ex.
    - destruct w; [|discriminate]. inversion Ex. apply own_fix_nonneg.
    - apply nth_In_some in Ex. auto.
    - apply nth_In_some in Ex. auto.
  Qed.

  (* ---- a child that only receives pushed values -------------------------------------------------------- *)
  Lemma st_recv_push pu n : st_of (recv_push pu n) = st_of n.
  Proof. destruct n; reflexivity. Qed.
  Lemma clean_recv_push n : forall pu, clean (recv_push pu n) <-> clean n.
  Proof.
    induction n as [k i st|i r st kids IH] using node_ind'; intros pu; cbn; [tauto|].
    assert (H : allk clean (map (recv_push (pushed [] pu i)) kids) <-> allk clean kids).
    { generalize (pushed [] pu i). intros q. induction kids as [|kid rest IHk]; cbn; [tauto|].
      destruct IH as [H1 H2]. rewrite H1, (IHk H2). tauto. }
    rewrite H. tauto.
  Qed.
  Lemma nocc_recv_push n : forall pu, nocc (recv_push pu n) <-> nocc n.
  Proof.
    induction n as [k i st|i r st kids IH] using node_ind'; intros pu; cbn; [tauto|].
    assert (H : allk nocc (map (recv_push (pushed [] pu i)) kids) <-> allk nocc kids).
    { generalize (pushed [] pu i). intros q. induction kids as [|kid rest IHk]; cbn; [tauto|].
      destruct IH as [H1 H2]. rewrite H1, (IHk H2). tauto. }
    rewrite H. tauto.
  Qed.
  Lemma kids_where_map W1 W2 (f : node -> node) ks :
    (forall kid, In kid ks -> forall q, W1 q (f kid) = W2 q kid) ->
    forall p idx, kids_where W1 p idx (map f ks) = kids_where W2 p idx ks.
  Proof.
    induction ks as [|kid rest IH]; intros H p idx; cbn; [reflexivity|].
    rewrite (H kid (or_introl eq_refl)). f_equal. apply IH. intros k Hk. apply H. right. exact Hk.
  Qed.
  Lemma lw_recv_push f n : forall pu p, leaves_where f p (recv_push pu n) = leaves_where f p n.
  Proof.
    induction n as [k i st|i r st kids IH] using node_ind'; intros pu p; cbn; [reflexivity|].
    apply kids_where_map. intros kid Hin q. apply (allk_In _ _ _ IH Hin).
  Qed.

  Lemma goodk_map di pcur pcur' (f : node -> node) ks :
    (forall kid, In kid ks -> forall acc, mirror pcur kid -> Good di acc kid -> mirror pcur' (f kid) /\ Good di acc (f kid)) ->
    (forall kid acc, den di acc (f kid) = den di acc kid) ->
    forall acc, goodk di pcur ks acc -> goodk di pcur' (map f ks) acc.
  Proof.
    intros H HR. induction ks as [|kid rest IH]; intros acc; cbn; [auto|]. intros [M [G K]].
    destruct (H kid (or_introl eq_refl) acc M G) as [M' G']. split; [exact M'|]. split; [exact G'|].
    rewrite HR. apply IH; [|exact K]. intros k Hk. apply H. right. exact Hk.
  Qed.

  Lemma mirror_recv pu pcur i np :
    Forall (okin np (List.length pcur)) i -> List.length pu = List.length pcur ->
    Forall (fun x => match fst x with SPar g => snd x = nth g pcur None | _ => True end) i ->
    Forall (fun x => match fst x with SPar g => snd x = nth g (updl pu pcur) None | _ => True end) (map (recv1 pu) i).
  Proof.
    intros Hok HL Hm. rewrite Forall_map. rewrite Forall_forall in *. intros x Hx.
    specialize (Hok x Hx). specialize (Hm x Hx). rewrite recv1_fst. destruct x as [[|u|g] v]; auto.
    cbn [fst snd] in *. rewrite nth_updl by (auto; apply Hok). unfold recv1; cbn.
    destruct (nth g pu None); cbn; [reflexivity|exact Hm].
  Qed.

  Lemma WF_recv_push np pu n : WF np n -> WF np (recv_push pu n).
  Proof. apply WF_same. symmetry. apply reset_recv_push. Qed.
  Lemma vals_length (i : list input) : List.length (vals i) = List.length i.
  Proof. unfold vals. apply map_length. Qed.

  Lemma recv_push_sem n : forall pu pcur penv douts,
    WF (List.length pcur) n -> List.length pu = List.length pcur -> mirror pcur n -> Good penv douts n ->
    mirror (updl pu pcur) (recv_push pu n) /\ Good penv douts (recv_push pu n).
  Proof.
    induction n as [k i st|i r st kids IH] using node_ind'; intros pu pcur penv douts HW HL HM HG.
    - cbn in *. split.
      + apply (mirror_recv pu pcur i true); assumption.
      + destruct (cached st); [|exact I]. destruct HG as [-> HG]. split; [|exact HG].
        rewrite map_map. apply map_ext. intros x. symmetry. apply cval_recv.
    - cbn [WF] in HW. destruct HW as [HW1 [HW2 _]]. split.
      + apply (mirror_recv pu pcur i false); assumption.
      + cbn [recv_push Good] in *.
        assert (E : map (dval penv douts) (map (recv1 pu) i) = map (dval penv douts) i).
        { rewrite map_map. apply map_ext. intros x. apply dval_recv. }
        rewrite E. fold (goodk (map (dval penv douts) i) (vals (map (recv1 pu) i))).
        apply (goodk_map _ (vals i)); [|intros kid a; apply den_same, reset_recv_push|exact HG].
        intros kid Hin acc Mk Gk. rewrite <- pushed_upd_recv.
        apply (allk_In _ _ _ IH Hin); auto.
        * rewrite vals_length. apply (allk_In _ _ _ HW2 Hin).
        * apply pushed_length.
  Qed.

  (* ---- the main lemma: one run through the tree -------------------------------------------------------- *)
  Definition undone (st : nst) : bool := negb (is_some (cached st)).
  Definition done (st : nst) : bool := is_some (cached st).
  Definition lwk (f : nst -> bool) := kids_where (fun q kid => leaves_where f q kid).
  Definition nbfs (ks : list node) : nat := fold_right (fun k a => nbf k + a)%nat 0%nat ks.

  Lemma clean_norun n : clean n -> norun n.
  Proof.
    induction n as [k i st|i r st kids IH] using node_ind'; cbn; [intros [_ H]; exact H|].
    intros [[_ H] K]. split; [exact H|]. revert K. clear H. induction kids as [|kid rest IHk]; cbn; [auto|].
    destruct IH as [H1 H2]. intros [A B]. split; [apply H1, A|apply IHk; auto].
  Qed.
  Lemma clean_failed_ok n : clean n -> failed_ok n.
  Proof.
    induction n as [k i st|i r st kids IH] using node_ind'; cbn; [intros [H _]; congruence|].
    intros [[H _] K]. split; [congruence|]. revert K. clear H. induction kids as [|kid rest IHk]; cbn; [auto|].
    destruct IH as [H1 H2]. intros [A B]. split; [apply H1, A|apply IHk; auto].
  Qed.
  Lemma clean_st n : clean n -> flags0 (st_of n).
  Proof. destruct n; cbn; tauto. Qed.
  Lemma clean_no_running ks : allk clean ks -> existsb (fun kid => running (st_of kid)) ks = false.
  Proof.
    induction ks as [|kid rest IH]; cbn; [reflexivity|]. intros [A B]. destruct (clean_st _ A) as [_ ->]. apply IH, B.
  Qed.

  Definition Pre (outs pu pcur penv douts : list (option Z)) (n : node) : Prop :=
    WF (List.length pcur) n /\ clean n /\ nocc n /\ Good penv douts n /\ mirror pcur n /\ feed outs douts (inp_of n) /\
    List.length pu = List.length pcur /\ penv = updl pu pcur /\ forallb is_some penv = true /\ nonneg penv /\ nonneg douts.

  Definition Post (cut : option path) (p : path) (penv douts : list (option Z)) (n : node)
             (res : node * list ev * vres) : Prop :=
    let '(n', evs, r) := res in
    Good penv douts n' /\ mirror penv n' /\ failed_ok n' /\
    (r = ROk -> clean n' /\ complete n' /\ out_of n' = den penv douts n /\ is_some (out_of n') = true /\
                outputs n' = dtree penv douts n /\ calls evs = leaves_where undone p n) /\
    (forall e, r = RExc e -> failed (st_of n') = true /\ norun n' /\ (1 <= nbf n')%nat) /\
    (r = RCut -> cut <> None /\ (cut_here cut p = true \/ running (st_of n') = true)) /\
    saves evs = (match r with RExc _ => if is_root p then [(p, n')] else [] | _ => [] end) /\
    incl (calls evs) (leaves_where undone p n) /\
    incl (leaves_where done p n') (leaves_where done p n ++ calls evs).

  Definition LInv (os : list (option Z)) (oks : list bool) (acc : list (option Z)) (errs : bool) (idx : nat) : Prop :=
    List.length os = List.length acc /\ List.length oks = List.length acc /\ idx = List.length acc /\
    (forall u, nth u oks false = true -> nth u os None = nth u acc None /\ is_some (nth u acc None) = true) /\
    (errs = false -> forallb (fun b : bool => b) oks = true /\ os = acc) /\ nonneg acc.

  Lemma linv_snoc os oks acc errs idx o b d errs' :
    LInv os oks acc errs idx ->
    (b = true -> o = d /\ is_some d = true) -> (forall v, d = Some v -> 0 <= v) ->
    (errs' = false -> errs = false /\ b = true /\ o = d) ->
    LInv (os ++ [o]) (oks ++ [b]) (acc ++ [d]) errs' (S idx).
  Proof.
    intros (L1 & L2 & L3 & L4 & L5 & L6) Hb Hd He. unfold LInv. rewrite !app_length. cbn.
    split; [lia|]. split; [lia|]. split; [lia|]. split; [|split].
    - intros u Hu. destruct (Nat.lt_trichotomy u (List.length acc)) as [Hlt|[Heq|Hgt]].
      + rewrite app_nth1 in Hu by lia. rewrite !app_nth1 by lia. apply L4. exact Hu.
      + subst u. rewrite <- L2 in Hu at 1. rewrite nth_app_here in Hu. rewrite <- L1 at 1. rewrite !nth_app_here.
        destruct (Hb Hu) as [-> ?]. split; [reflexivity|assumption].
      + rewrite nth_overflow in Hu by (rewrite app_length; cbn; lia). discriminate.
    - intros H. destruct (He H) as (E1 & E2 & E3). destruct (L5 E1) as [F1 F2]. split.
      + rewrite forallb_app, F1, E2. reflexivity.
      + rewrite F2, E3. reflexivity.
    - apply nonneg_snoc; assumption.
  Qed.

  Lemma calls_app a b : calls (a ++ b) = calls a ++ calls b.
  Proof. unfold calls. apply flat_map_app. Qed.
  Lemma saves_app a b : saves (a ++ b) = saves a ++ saves b.
  Proof. unfold saves. apply flat_map_app. Qed.
  Lemma is_root_snoc (p : path) idx : is_root (p ++ [idx]) = false.
  Proof. destruct p; reflexivity. Qed.
  Lemma all_triggered oks ups :
    forallb (fun b : bool => b) oks = true -> Forall (fun u => (u < List.length oks)%nat) ups ->
    forallb (fun u => nth u oks false) ups = true.
  Proof.
    intros H U. apply forallb_forall. intros u Hu. rewrite Forall_forall in U. rewrite forallb_forall in H.
    apply H. apply nth_In. apply U. exact Hu.
  Qed.
  Lemma lwk_map_recv f pu ks : forall p idx, lwk f p idx (map (recv_push pu) ks) = lwk f p idx ks.
  Proof. intros. apply kids_where_map. intros kid _ q. apply lw_recv_push. Qed.

  Section LoopSem.
    Variable cut : option path.
    Variable V : path -> list (option Z) -> node -> node * list ev * vres.
    Variables pu' pcur di : list (option Z).
    Variable p : path.
    Hypothesis HLpu : List.length pu' = List.length pcur.
    Hypothesis Hdi : di = updl pu' pcur.
    Hypothesis Hdis : forallb is_some di = true.
    Hypothesis Hdin : nonneg di.

    Definition LPost (idx : nat) (ks : list node) (os acc : list (option Z)) (errs : bool)
               (res : list node * list ev * lres) : Prop :=
      let '(ks', evs, lr) := res in
      (lr = LCut -> cut <> None) /\
      goodk di di ks' acc /\ allk failed_ok ks' /\ saves evs = [] /\
      incl (calls evs) (lwk undone p idx ks) /\
      incl (lwk done p idx ks') (lwk done p idx ks ++ calls evs) /\
      (lr = LGo false -> errs = false /\ allk clean ks' /\ allk complete ks' /\ os ++ map out_of ks' = dkids di ks acc /\
                         forallb is_some (map out_of ks') = true /\
                         flat_map outputs ks' = dtkF (fun a k => dtree di a k) (fun a k => den di a k) ks acc /\
                         calls evs = lwk undone p idx ks) /\
      (lr <> LGo false -> lr <> LCut ->
         allk norun ks' /\ (errs = false -> existsb (fun k => failed (st_of k)) ks' = true /\ (1 <= nbfs ks')%nat)).

    Lemma rest_pushed rest acc :
      allk (WF (List.length pcur)) rest -> allk clean rest -> goodk di pcur rest acc ->
      goodk di di (map (recv_push pu') rest) acc /\ allk failed_ok (map (recv_push pu') rest) /\
      allk norun (map (recv_push pu') rest).
    Proof.
      intros HW HC HG. split; [|split].
      - apply (goodk_map di pcur); [|intros kid a; apply den_same, reset_recv_push|exact HG].
        intros kid Hin a Mk Gk.
        destruct (recv_push_sem kid pu' pcur di a (allk_In _ _ _ HW Hin) HLpu Mk Gk) as [A B].
        rewrite <- Hdi in A. split; assumption.
      - rewrite allk_map. revert HC. apply allk_impl. intros kid _ H. apply clean_failed_ok, clean_recv_push, H.
      - rewrite allk_map. revert HC. apply allk_impl. intros kid _ H. apply clean_norun, clean_recv_push, H.
    Qed.

    Lemma loop_sem ks :
      (forall kid, In kid ks -> forall q os acc, Pre os pu' pcur di acc kid ->
            Post cut q di acc kid (V q os kid) /\ reset (fst (fst (V q os kid))) = reset kid) ->
      forall idx os oks errs acc,
        allk (WF (List.length pcur)) ks -> allk clean ks -> allk nocc ks -> goodk di pcur ks acc -> upsk idx ks ->
        LInv os oks acc errs idx ->
        LPost idx ks os acc errs (loopF V (recv_push pu') false p idx ks os oks errs).
    Proof.
      induction ks as [|kid rest IH]; intros HV idx os oks errs acc HW HC HN HG HU HI.
      - cbn. split; [discriminate|]. split; [exact I|]. split; [exact I|]. split; [reflexivity|]. split; [apply incl_nil_l|].
        split; [apply incl_nil_l|]. split.
        + intros H. inversion H; subst. destruct HI as (_ & _ & _ & _ & L5 & _). destruct (L5 eq_refl) as [_ ->].
          rewrite app_nil_r. repeat split; reflexivity.
        + intros H _. split; [exact I|]. intros E. subst errs. congruence.
      - cbn [loopF].
        destruct HW as [HWk HWr]. destruct HC as [HCk HCr]. destruct HN as [HNk HNr]. destruct HG as (HMk & HGk & HGr).
        destruct HU as [HUk HUr].
        assert (IH' := IH (fun k Hk => HV k (or_intror Hk))). clear IH.
        assert (Hacc : nonneg acc) by apply HI.
        assert (Hden : forall v, den di acc kid = Some v -> 0 <= v) by (intros v; apply den_nonneg).
        destruct (forallb (fun u => nth u oks false) (ups_of (inp_of kid))) eqn:Eb.
        + (* triggered *)
          assert (HP : Pre os pu' pcur di acc kid).
          { unfold Pre. repeat (split; [assumption|]). split; [|repeat split; assumption].
            unfold feed. apply Forall_forall. intros x Hx. destruct (fst x) eqn:F; auto.
            destruct HI as (_ & _ & _ & L4 & _). apply L4. rewrite forallb_forall in Eb. apply Eb.
            unfold ups_of. apply in_flat_map. exists x. split; [exact Hx|]. rewrite F. left. reflexivity. }
          destruct (HV kid (or_introl eq_refl) (p ++ [idx]) os acc HP) as [HPost HR]. clear HV.
          destruct (V (p ++ [idx]) os kid) as [[kid' e1] x]. cbn [fst] in HR.
          destruct HPost as (PG & PM & PF & POk & PEx & PCut & PS & PIc & PId).
          rewrite is_root_snoc in PS.
          assert (Hden' : den di acc kid' = den di acc kid) by (apply den_same; exact HR).
          destruct x as [|e|].
          * (* the child ran or answered from its cache *)
            destruct (POk eq_refl) as (K1 & K2 & K3 & K4 & K5 & K6).
            assert (HI' : LInv (os ++ [out_of kid']) (oks ++ [true]) (acc ++ [den di acc kid]) errs (S idx)).
            { apply (linv_snoc os oks acc errs idx); auto; intros _; rewrite <- K3; auto. }
            specialize (IH' (S idx) _ _ errs _ HWr HCr HNr HGr HUr HI').
            destruct (loopF V (recv_push pu') false p (S idx) rest _ _ errs) as [[rest' e2] lr].
            destruct IH' as (I0 & I1 & I2 & I3 & I4 & I5 & I6 & I7).
            unfold LPost. rewrite calls_app, saves_app, PS, I3. cbn [goodkF goodk allk lwk kids_where map flat_map].
            fold (lwk undone p (S idx) rest) (lwk done p (S idx) rest) (lwk done p (S idx) rest').
            split; [exact I0|].
            split; [split; [exact PM|split; [exact PG|rewrite Hden'; exact I1]]|].
            split; [split; assumption|]. split; [reflexivity|].
            split; [apply incl_app; [apply incl_appl; exact PIc|apply incl_appr; exact I4]|].
            split.
            { apply incl_app.
              - intros a Ha. apply PId in Ha. apply in_app_or in Ha. rewrite !in_app_iff. tauto.
              - intros a Ha. apply I5 in Ha. apply in_app_or in Ha. rewrite !in_app_iff. tauto. }
            split.
            { intros E. destruct (I6 E) as (J1 & J2 & J3 & J4 & J5 & J6 & J7).
              split; [exact J1|]. split; [split; assumption|]. split; [split; assumption|].
              split; [change (dkids di (kid :: rest) acc) with (dkids di rest (acc ++ [den di acc kid]));
                      rewrite <- J4, <- app_assoc; reflexivity|].
              split; [cbn; rewrite K4, J5; reflexivity|].
              split; [cbn [dtkF]; rewrite K5, J6; reflexivity|]. rewrite K6, J7. reflexivity. }
            { intros E1 E2. destruct (I7 E1 E2) as [J1 J2]. split; [split; [apply clean_norun, K1|exact J1]|].
              intros E. destruct (J2 E) as [J3 J4]. split; [cbn; rewrite J3; apply orb_true_r|].
              unfold nbfs in *. cbn. lia. }
          * (* the child raised *)
            destruct (PEx e eq_refl) as (K1 & K2 & K3).
            destruct (rest_pushed rest (acc ++ [den di acc kid]) HWr HCr HGr) as (R1 & R2 & R3).
            cbn [orb].
            destruct (is_intr e || match ups_of (inp_of kid) with [] => true | _ :: _ => false end) eqn:Eu.
            -- (* a starting node: the exception leaves at once *)
               unfold LPost. cbn [goodkF goodk allk lwk kids_where].
               fold (lwk done p (S idx) (map (recv_push pu') rest)). rewrite lwk_map_recv.
               fold (lwk undone p (S idx) rest) (lwk done p (S idx) rest).
               split; [discriminate|].
               split; [split; [exact PM|split; [exact PG|rewrite Hden'; exact R1]]|].
               split; [split; assumption|]. split; [exact PS|].
               split; [apply incl_appl; exact PIc|].
               split.
               { apply incl_app.
                 - intros a Ha. apply PId in Ha. apply in_app_or in Ha. rewrite !in_app_iff. tauto.
                 - intros a Ha. rewrite !in_app_iff. tauto. }
               split; [discriminate|]. intros _ _. split; [split; assumption|].
               intros _. split; [cbn; rewrite K1; reflexivity|]. unfold nbfs. cbn. lia.
            -- (* a triggered node: collected by the signal loop *)
               assert (HI' : LInv (os ++ [out_of kid']) (oks ++ [false]) (acc ++ [den di acc kid]) true (S idx)).
               { apply (linv_snoc os oks acc errs idx); auto; discriminate. }
               specialize (IH' (S idx) _ _ true _ HWr HCr HNr HGr HUr HI').
               destruct (loopF V (recv_push pu') false p (S idx) rest _ _ true) as [[rest' e2] lr].
               destruct IH' as (I0 & I1 & I2 & I3 & I4 & I5 & I6 & I7).
               unfold LPost. rewrite calls_app, saves_app, PS, I3. cbn [goodkF goodk allk lwk kids_where].
               fold (lwk undone p (S idx) rest) (lwk done p (S idx) rest) (lwk done p (S idx) rest').
               split; [exact I0|].
            split; [split; [exact PM|split; [exact PG|rewrite Hden'; exact I1]]|].
               split; [split; assumption|]. split; [reflexivity|].
               split; [apply incl_app; [apply incl_appl; exact PIc|apply incl_appr; exact I4]|].
               split.
               { apply incl_app.
                 - intros a Ha. apply PId in Ha. apply in_app_or in Ha. rewrite !in_app_iff. tauto.
                 - intros a Ha. apply I5 in Ha. apply in_app_or in Ha. rewrite !in_app_iff. tauto. }
               split; [intros E; destruct (I6 E) as [J _]; discriminate|].
               intros E1 E2. destruct (I7 E1 E2) as [J1 _]. split; [split; assumption|].
               intros _. split; [cbn; rewrite K1; reflexivity|]. unfold nbfs. cbn. lia.
          * (* the process dies inside the child *)
            destruct (rest_pushed rest (acc ++ [den di acc kid]) HWr HCr HGr) as (R1 & R2 & R3).
            unfold LPost. cbn [goodkF goodk allk lwk kids_where].
            fold (lwk done p (S idx) (map (recv_push pu') rest)). rewrite lwk_map_recv.
            fold (lwk undone p (S idx) rest) (lwk done p (S idx) rest).
            split; [intros _; apply PCut; reflexivity|].
            split; [split; [exact PM|split; [exact PG|rewrite Hden'; exact R1]]|].
            split; [split; assumption|]. split; [exact PS|].
            split; [apply incl_appl; exact PIc|].
            split.
            { apply incl_app.
              - intros a Ha. apply PId in Ha. apply in_app_or in Ha. rewrite !in_app_iff. tauto.
              - intros a Ha. rewrite !in_app_iff. tauto. }
            split; [discriminate|]. intros _ E. congruence.
        + (* not triggered: some upstream sibling did not emit `ran` *)
          assert (Ee : errs = true).
          { destruct errs; [reflexivity|]. destruct HI as (_ & L2 & L3 & _ & L5 & _). destruct (L5 eq_refl) as [F _].
            rewrite all_triggered in Eb; [discriminate|exact F|]. rewrite L2, <- L3. exact HUk. }
          subst errs.
          assert (HI' : LInv (os ++ [out_of kid]) (oks ++ [false]) (acc ++ [den di acc kid]) true (S idx)).
          { apply (linv_snoc os oks acc true idx); auto; discriminate. }
          specialize (IH' (S idx) _ _ true _ HWr HCr HNr HGr HUr HI').
          destruct (loopF V (recv_push pu') false p (S idx) rest _ _ true) as [[rest' e2] lr].
          destruct IH' as (I0 & I1 & I2 & I3 & I4 & I5 & I6 & I7).
          destruct (recv_push_sem kid pu' pcur di acc HWk HLpu HMk HGk) as [RM RG]. rewrite <- Hdi in RM.
          unfold LPost. cbn [goodkF goodk allk lwk kids_where]. rewrite !lw_recv_push.
          fold (lwk undone p (S idx) rest) (lwk done p (S idx) rest) (lwk done p (S idx) rest').
          split; [exact I0|].
          split; [split; [exact RM|split; [exact RG|rewrite (den_same (recv_push pu' kid) kid) by apply reset_recv_push; exact I1]]|].
          split; [split; [apply clean_failed_ok, clean_recv_push, HCk|exact I2]|]. split; [exact I3|].
          split; [apply incl_appr; exact I4|].
          split.
          { apply incl_app.
            - intros a Ha. rewrite !in_app_iff. tauto.
            - intros a Ha. apply I5 in Ha. apply in_app_or in Ha. rewrite !in_app_iff. tauto. }
          split; [intros E; destruct (I6 E) as [J _]; discriminate|].
          intros E1 E2. destruct (I7 E1 E2) as [J1 _]. split; [|discriminate].
          split; [apply clean_norun, clean_recv_push, HCk|exact J1].
    Qed.
  End LoopSem.

  Lemma cut_here_some cut p : cut_here cut p = true -> cut <> None.
  Proof. destruct cut; [discriminate|]. cbn. discriminate. Qed.
  Lemma hitb_some st c : flags0 st -> cached st = Some c -> hitb st c = true.
  Proof. intros [F R] C. unfold hitb. rewrite F, R, C. cbn. apply slots_eqb_refl. Qed.
  Lemma hitb_none st c : cached st = None -> hitb st c = false.
  Proof. intros C. unfold hitb. rewrite C. apply andb_false_r. Qed.
  Lemma readyb_true st c : flags0 st -> forallb is_some c = true -> readyb st c = true.
  Proof. intros [F R] C. unfold readyb. rewrite F, R, C. reflexivity. Qed.

  Lemma loopF_length V R resume p ks : forall idx os oks errs,
    List.length (fst (fst (loopF V R resume p idx ks os oks errs))) = List.length ks.
  Proof.
    induction ks as [|kid rest IH]; intros idx os oks errs; cbn [loopF]; [reflexivity|].
    destruct (if resume then _ else _).
    - destruct (V (p ++ [idx]) os kid) as [[kid' e1] x]. destruct x as [|e|].
      + specialize (IH (S idx) (os ++ [out_of kid']) (oks ++ [true]) errs).
        destruct (loopF V R resume p (S idx) rest _ _ errs) as [[rest' e2] lr]. cbn in *. congruence.
      + destruct (resume || _ || _).
        * cbn. rewrite map_length. reflexivity.
        * specialize (IH (S idx) (os ++ [out_of kid']) (oks ++ [false]) true).
          destruct (loopF V R resume p (S idx) rest _ _ true) as [[rest' e2] lr]. cbn in *. congruence.
      + cbn. rewrite map_length. reflexivity.
    - specialize (IH (S idx) (os ++ [out_of kid]) (oks ++ [false]) errs).
      destruct (loopF V R resume p (S idx) rest _ _ errs) as [[rest' e2] lr]. cbn in *. congruence.
  Qed.
  Lemma nth_map_error {A B} (f : A -> B) l r x d : nth_error l r = Some x -> nth r (map f l) d = f x.
  Proof. intros H. rewrite (nth_error_nth (map f l) r d (map_nth_error f r l H)). reflexivity. Qed.

  Lemma visit_sem n : forall cut p outs pu pcur penv douts,
    Pre outs pu pcur penv douts n -> Post cut p penv douts n (visit cut p outs pu n).
  Proof.
    induction n as [k i0 st|i0 r st kids IH] using node_ind';
      intros cut p outs pu pcur penv douts (HW & HC & HN & HG & HM & HF & HL & Hp & Hs & Np & Nd).
    - (* a function node *)
      cbn [WF clean Good mirror inp_of] in *. destruct HC as [Cf Cr].
      destruct (fetched_fr true outs pu pcur penv douts i0 HW HM HF HL Hp Hs) as [Fv Fc Fd Fr Fm Fo Fb Fl].
      cbn [visit]. rewrite Cr. cbn [andb].
      set (i := map (fetch1 outs) (map (recv1 pu) i0)) in *.
      destruct (cached st) as [c|] eqn:EC.
      + (* it holds a key: the inputs are the ones it ran with *)
        destruct HG as [-> (args & v & HA & HK & HO)].
        rewrite hitb_some; [|split; assumption|rewrite EC, Fv; reflexivity].
        assert (Hd : map (dval penv douts) i0 = map (cval penv douts) i0).
        { apply (cval_dval_args penv douts i0 args HA). eapply chk_val_args; eauto. }
        assert (HD : den penv douts (Leaf k i0 st) = Some v).
        { cbn [den]. rewrite Hd, HA, HK. reflexivity. }
        unfold Post, out_of, mirror. cbn [Good inp_of failed_ok clean complete st_of outputs dtree leaves_where calls flat_map saves].
        rewrite EC. unfold undone, done. rewrite EC. cbn [is_some negb].
        split; [split; [rewrite Fc; reflexivity|eauto]|]. split; [exact Fm|]. split; [congruence|].
        split; [intros _; rewrite HD, HO; repeat split; auto|].
        split; [discriminate|]. split; [discriminate|]. split; [reflexivity|].
        split; [apply incl_nil_l|]. intros a Ha. apply in_or_app. left. exact Ha.
      + (* no key: the gate, then the function *)
        rewrite hitb_none by assumption. rewrite readyb_true by (try split; assumption). cbn [negb].
        destruct (all_some_forallb _ Fr) as [args HA]. rewrite HA.
        assert (HA0 : all_some (map (cval penv douts) i0) = Some args) by (rewrite <- Fv; exact HA).
        destruct (chk k args) as [v|] eqn:HK.
        * assert (Hd : map (dval penv douts) i0 = map (cval penv douts) i0).
          { apply (cval_dval_args penv douts i0 args HA0). eapply chk_val_args; eauto. }
          assert (HD : den penv douts (Leaf k i0 st) = Some v).
          { cbn [den]. rewrite Hd, HA0, HK. reflexivity. }
          unfold Post, out_of, mirror. cbn [Good inp_of failed_ok clean complete st_of outputs dtree leaves_where st_ok
                               cached failed running outv calls flat_map saves app].
          unfold undone, done. rewrite EC. cbn [is_some negb cached].
          split; [split; [rewrite Fc; exact Fv|exists args, v; rewrite Fv; auto]|]. split; [exact Fm|]. split; [discriminate|].
          split; [intros _; rewrite HD; repeat split; auto|].
          split; [destruct (cut_here cut p); discriminate|].
          split; [destruct (cut_here cut p) eqn:Ecut; [intros _; split; [apply (cut_here_some _ _ Ecut)|auto]|discriminate]|].
          split; [destruct (cut_here cut p); reflexivity|].
          split; [apply incl_refl|]. intros a Ha. exact Ha.
        * assert (Hb : isbad i0 = true) by (apply (raise_isbad penv douts k i0 args Np Nd e HA0 HK)).
          assert (HP : forall ev r, calls ev = [p] ->
                       (r = RCut /\ cut_here cut p = true /\ saves ev = []) \/
                       (r = RExc e /\ saves ev = if is_root p then [(p, Leaf k i (st_failed st (outv st)))] else []) ->
                       Post cut p penv douts (Leaf k i0 st) (Leaf k i (st_failed st (outv st)), ev, r)).
          { intros ev r Hc Hr. unfold Post, out_of, mirror, st_failed. cbn [Good inp_of failed_ok clean complete st_of outputs dtree leaves_where
                                             cached failed running outv nbf norun].
            unfold undone, done. rewrite EC, Hc, Fb, Hb. cbn [is_some negb andb].
            split; [exact I|]. split; [exact Fm|]. split; [auto|].
            split; [destruct Hr as [[-> _]|[-> _]]; discriminate|].
            split; [intros e1 _; repeat split; auto|].
            split; [destruct Hr as [[-> [Hc' _]]|[-> _]]; [intros _; split; [apply (cut_here_some _ _ Hc')|auto]|discriminate]|].
            split; [destruct Hr as [[-> [_ Hs']]|[-> Hs']]; rewrite Hs'; unfold st_failed; rewrite ?EC; reflexivity|].
            split; [apply incl_refl|]. apply incl_nil_l. }
          destruct (cut_here cut p) eqn:Ecut; apply HP.
          -- reflexivity.
          -- left. auto.
          -- cbn. destruct (is_root p); reflexivity.
          -- right. split; [reflexivity|]. cbn. destruct (is_root p); reflexivity.
    - (* a macro *)
      unfold mirror in HM. cbn [WF clean nocc Good inp_of] in *.
      destruct HW as (HW1 & HW2 & HW3 & HW4). destruct HC as [[Cf Cr] HCk]. destruct HN as [EC HNk].
      destruct (fetched_fr false outs pu pcur penv douts i0 HW1 HM HF HL Hp Hs) as [Fv Fc Fd Fr Fm Fo Fb Fl].
      cbn [visit]. rewrite Cr. cbn [andb].
      set (i := map (fetch1 outs) (map (recv1 pu) i0)) in *. set (pu' := pushed outs pu i0) in *.
      rewrite hitb_none by assumption. rewrite readyb_true by (try split; assumption). cbn [negb].
      rewrite (clean_no_running kids HCk).
      set (di := map (dval penv douts) i0) in *.
      assert (Evd : vals i = di) by (rewrite Fv; apply (cval_dval_mac (List.length pcur)); exact HW1).
      assert (Edi : di = updl pu' (vals i0)) by (rewrite <- Evd; symmetry; apply pushed_upd).
      assert (Hdis : forallb is_some di = true) by (rewrite <- Evd; exact Fr).
      assert (Hdin : nonneg di) by (apply nonneg_dvals; assumption).
      assert (HLp : List.length pu' = List.length (vals i0)) by apply pushed_length.
      assert (HVk : forall kid, In kid kids -> forall q os acc, Pre os pu' (vals i0) di acc kid ->
                Post cut q di acc kid (visit cut q os pu' kid) /\ reset (fst (fst (visit cut q os pu' kid))) = reset kid).
      { intros kid Hin q os acc HP. split; [exact (allk_In _ _ _ IH Hin cut q os pu' (vals i0) di acc HP)|apply visit_reset]. }
      assert (HWk : allk (WF (List.length (vals i0))) kids) by (rewrite vals_length; exact HW2).
      assert (HI0 : LInv [] [] [] false 0).
      { unfold LInv. cbn. split; [reflexivity|]. split; [reflexivity|]. split; [reflexivity|].
        split; [intros u Hu; destruct u; discriminate|]. split; [auto|]. intros v []. }
      pose proof (loop_sem cut (fun q os kid => visit cut q os pu' kid) pu' (vals i0) di p HLp Edi Hdis Hdin kids HVk
                           0%nat [] [] false [] HWk HCk HNk HG HW4 HI0) as HLoop.
      pose proof (loopF_length (fun q os kid => visit cut q os pu' kid) (recv_push pu') false p kids 0 [] [] false) as HLen.
      destruct (loopF (fun q os kid => visit cut q os pu' kid) (recv_push pu') false p 0 kids [] [] false)
        as [[kids1 evs] lr]. cbn [fst] in HLen.
      destruct HLoop as (I0 & I1 & I2 & I3 & I4 & I5 & I6 & I7).
      set (o := match nth_error kids1 r with
                | Some kid => match out_of kid with Some v => Some v | None => outv st end
                | None => outv st end).
      assert (HGood : forall st', Good penv douts (Macro i r st' kids1)).
      { intros st'. cbn [Good]. rewrite Fd. fold di. rewrite Evd. exact I1. }
      (* the epilogue after a failure of a child *)
      assert (HPfail : forall e, lr <> LGo false -> lr <> LCut ->
                Post cut p penv douts (Macro i0 r st kids)
                  (let n' := Macro i r (st_failed st o) kids1 in
                   if cut_here cut p then (n', evs, RCut)
                   else (n', evs ++ (if is_root p then [ESave p n'] else []), RExc e))).
      { intros e E1 E2. destruct (I7 E1 E2) as [J1 J2]. destruct (J2 eq_refl) as [J3 J4]. cbv zeta.
        assert (HC' : forall ev r', calls ev = calls evs ->
                  (r' = RCut /\ cut_here cut p = true /\ saves ev = []) \/
                  (r' = RExc e /\ saves ev = if is_root p then [(p, Macro i r (st_failed st o) kids1)] else []) ->
                  Post cut p penv douts (Macro i0 r st kids) (Macro i r (st_failed st o) kids1, ev, r')).
        { intros ev r' Hc Hr. unfold Post, out_of, mirror, st_failed.
          cbn [inp_of failed_ok st_of failed running norun nbf leaves_where]. rewrite Hc.
          split; [apply HGood|]. split; [exact Fm|]. split; [split; [intros _; exact J3|exact I2]|].
          split; [destruct Hr as [[-> _]|[-> _]]; discriminate|].
          split; [intros e' _; split; [reflexivity|split; [split; [reflexivity|exact J1]|exact J4]]|].
          split; [destruct Hr as [[-> [Hc' _]]|[-> _]]; [intros _; split; [apply (cut_here_some _ _ Hc')|auto]|discriminate]|].
          split; [destruct Hr as [[-> [_ Hs']]|[-> Hs']]; exact Hs'|].
          split; [exact I4|exact I5]. }
        destruct (cut_here cut p) eqn:Ecut; apply HC'.
        - reflexivity.
        - left. auto.
        - rewrite calls_app. destruct (is_root p); cbn; rewrite app_nil_r; reflexivity.
        - right. split; [reflexivity|]. rewrite saves_app, I3. destruct (is_root p); reflexivity. }
      destruct lr as [[|]|e|].
      + apply (HPfail EChild); discriminate.
      + (* every child emitted `ran` *)
        destruct (I6 eq_refl) as (_ & J2 & J3 & J4 & J5 & J6 & J7). cbn [app] in J4.
        assert (HD : den penv douts (Macro i0 r st kids) = nth r (map out_of kids1) None).
        { cbn [den]. fold di. rewrite Hdis, J4. reflexivity. }
        assert (Ho : o = den penv douts (Macro i0 r st kids) /\ is_some o = true).
        { rewrite HD. subst o. destruct (nth_error kids1 r) as [kid|] eqn:En.
          - rewrite (nth_map_error out_of kids1 r kid None En).
            assert (Hs1 : is_some (out_of kid) = true).
            { rewrite forallb_forall in J5. apply J5. apply in_map. eapply nth_error_In; eauto. }
            destruct (out_of kid); [auto|discriminate].
          - apply nth_error_None in En. lia. }
        destruct Ho as [Ho1 Ho2].
        unfold Post, out_of, mirror, st_ok. cbn [inp_of failed_ok st_of failed running outv clean complete outputs leaves_where].
        split; [apply HGood|]. split; [exact Fm|]. split; [split; [discriminate|exact I2]|].
        split.
        { intros _. split; [split; [split; reflexivity|exact J2]|]. split; [exact J3|]. split; [exact Ho1|].
          split; [exact Ho2|]. split; [|exact J7]. rewrite J6, Ho1. reflexivity. }
        split; [destruct (cut_here cut p); discriminate|].
        split; [destruct (cut_here cut p) eqn:Ecut; [intros _; split; [apply (cut_here_some _ _ Ecut)|auto]|discriminate]|].
        split; [rewrite I3; destruct (cut_here cut p); reflexivity|].
        split; [exact I4|exact I5].
      + apply (HPfail e); discriminate.
      + (* the process died inside a child *)
        unfold Post, out_of, mirror, st_running. cbn [inp_of failed_ok st_of failed running leaves_where].
        split; [apply HGood|]. split; [exact Fm|]. split; [split; [congruence|exact I2]|].
        split; [discriminate|]. split; [discriminate|]. split; [intros _; split; [apply I0; reflexivity|auto]|].
        split; [exact I3|]. split; [exact I4|exact I5].
  Qed.

  (* ---- the protocol steps: loading, clearing flags, removing the cause ------------------------------------ *)
  (* a change of states only *)
  Fixpoint tmap (fl fm : nst -> nst) (n : node) : node :=
    match n with
    | Leaf k i st => Leaf k i (fl st)
    | Macro i r st kids => Macro i r (fm st) (map (tmap fl fm) kids)
    end.
  (* the cause removed on the selected leaves, and a change of states *)
  Fixpoint fixsel (sel : nst -> bool) (fl fm : nst -> nst) (n : node) : node :=
    match n with
    | Leaf k i st => if sel st then Leaf k (map (fix1 fixv) i) (fl st) else n
    | Macro i r st kids => Macro i r (fm st) (map (fixsel sel fl fm) kids)
    end.

  Lemma clear_running_tmap n : clear_running n = tmap clear_run clear_run n.
  Proof.
    induction n as [k i st|i r st kids IH] using node_ind'; cbn; [reflexivity|]. f_equal.
    induction kids as [|kid rest IHk]; cbn; [reflexivity|]. destruct IH as [H1 H2]. rewrite H1, (IHk H2). reflexivity.
  Qed.
  Lemma recover_fixsel n : recover fixv n = fixsel failed clear_failed clear_failed n.
  Proof.
    induction n as [k i st|i r st kids IH] using node_ind'; cbn; [reflexivity|]. f_equal.
    induction kids as [|kid rest IHk]; cbn; [reflexivity|]. destruct IH as [H1 H2]. rewrite H1, (IHk H2). reflexivity.
  Qed.
  Lemma fixall_fixsel n : fixall fixv n = fixsel (fun _ => true) (fun st => st) (fun st => st) n.
  Proof.
    induction n as [k i st|i r st kids IH] using node_ind'; cbn; [reflexivity|]. f_equal.
    induction kids as [|kid rest IHk]; cbn; [reflexivity|]. destruct IH as [H1 H2]. rewrite H1, (IHk H2). reflexivity.
  Qed.

  (* loading a graph whose linked inputs mirror their macro's inputs only resets the composites' keys *)
  Lemma relink_id pv i :
    Forall (fun x : input => match fst x with SPar g => snd x = nth g pv None | _ => True end) i -> map (relink1 pv) i = i.
  Proof.
    intros H. rewrite <- (map_id i) at 2. apply map_ext_in. intros x Hx. rewrite Forall_forall in H. specialize (H x Hx).
    unfold relink1. destruct x as [[|u|g] v]; cbn in *; congruence.
  Qed.
  Lemma load_p_tmap n : forall pv penv douts, mirror pv n -> Good penv douts n ->
    load_p pv n = tmap (fun st => st) clear_cache n.
  Proof.
    induction n as [k i st|i r st kids IH] using node_ind'; intros pv penv douts HM HG; unfold mirror in HM; cbn [inp_of] in HM.
    - cbn. rewrite relink_id by assumption. reflexivity.
    - cbn [load_p tmap]. rewrite relink_id by assumption. f_equal. cbn [Good] in HG.
      revert HG. generalize (@nil (option Z)). induction kids as [|kid rest IHk]; intros acc HG; cbn; [reflexivity|].
      destruct IH as [H1 H2]. destruct HG as (M & G & K). f_equal; [eapply H1; eauto|eapply IHk; eauto].
  Qed.

  Section TMap.
    Variables fl fm : nst -> nst.
    Lemma reset_tmap n : reset (tmap fl fm n) = reset n.
    Proof.
      induction n as [k i st|i r st kids IH] using node_ind'; cbn; [reflexivity|]. f_equal. rewrite map_map.
      induction kids as [|kid rest IHk]; cbn; [reflexivity|]. destruct IH as [H1 H2]. rewrite H1, (IHk H2). reflexivity.
    Qed.
    Lemma mirror_tmap pv n : mirror pv (tmap fl fm n) <-> mirror pv n.
    Proof. destruct n; cbn; tauto. Qed.
    Hypothesis fl_cached : forall st, cached (fl st) = cached st.
    Hypothesis fl_outv : forall st, outv (fl st) = outv st.
    Lemma good_tmap n : forall penv douts, Good penv douts n -> Good penv douts (tmap fl fm n).
    Proof.
      induction n as [k i st|i r st kids IH] using node_ind'; intros penv douts HG.
      - cbn in *. rewrite fl_cached, fl_outv. exact HG.
      - cbn [Good tmap] in *. apply (goodk_map _ (vals i)); [|intros kid a; apply den_same, reset_tmap|exact HG].
        intros kid Hin acc M G. split; [apply mirror_tmap; exact M|apply (allk_In _ _ _ IH Hin); exact G].
    Qed.
    Lemma lw_tmap f n : (forall st, f (fl st) = f st) -> forall p, leaves_where f p (tmap fl fm n) = leaves_where f p n.
    Proof.
      intros Hf. induction n as [k i st|i r st kids IH] using node_ind'; intros p; cbn; [rewrite Hf; reflexivity|].
      apply kids_where_map. intros kid Hin q. apply (allk_In _ _ _ IH Hin).
    Qed.
  End TMap.

  Lemma nocc_clearcc fl n : nocc (tmap fl clear_cache n).
  Proof.
    induction n as [k i st|i r st kids IH] using node_ind'; cbn; [exact I|]. split; [reflexivity|].
    rewrite allk_map. revert IH. apply allk_impl. auto.
  Qed.
  Lemma nocc_tmap fl fm n : (forall st, cached (fm st) = cached st) -> nocc n -> nocc (tmap fl fm n).
  Proof.
    intros Hf. induction n as [k i st|i r st kids IH] using node_ind'; cbn; [auto|]. intros [A B]. rewrite Hf. split; [exact A|].
    rewrite allk_map. revert B. clear A. induction kids as [|kid rest IHk]; cbn; [auto|]. destruct IH as [H1 H2].
    intros [B1 B2]. split; [apply H1, B1|apply IHk; auto].
  Qed.
  Lemma norun_tmap fl fm n : (forall st, running (fl st) = running st) -> (forall st, running (fm st) = running st) ->
    norun n -> norun (tmap fl fm n).
  Proof.
    intros Hl Hm. induction n as [k i st|i r st kids IH] using node_ind'; cbn; [rewrite Hl; auto|]. rewrite Hm. intros [A B].
    split; [exact A|]. rewrite allk_map. revert B. clear A. induction kids as [|kid rest IHk]; cbn; [auto|]. destruct IH as [H1 H2].
    intros [B1 B2]. split; [apply H1, B1|apply IHk; auto].
  Qed.
  Lemma nofail_tmap fl fm n : (forall st, failed (fl st) = failed st) -> (forall st, failed (fm st) = failed st) ->
    nofail n -> nofail (tmap fl fm n).
  Proof.
    intros Hl Hm. induction n as [k i st|i r st kids IH] using node_ind'; cbn; [rewrite Hl; auto|]. rewrite Hm. intros [A B].
    split; [exact A|]. rewrite allk_map. revert B. clear A. induction kids as [|kid rest IHk]; cbn; [auto|]. destruct IH as [H1 H2].
    intros [B1 B2]. split; [apply H1, B1|apply IHk; auto].
  Qed.
  Lemma norun_clear n : norun (tmap clear_run clear_run n).
  Proof.
    induction n as [k i st|i r st kids IH] using node_ind'; cbn; [reflexivity|]. split; [reflexivity|].
    rewrite allk_map. revert IH. apply allk_impl. auto.
  Qed.
  Lemma clean_iff n : clean n <-> nofail n /\ norun n.
  Proof.
    induction n as [k i st|i r st kids IH] using node_ind'; cbn; unfold flags0; [tauto|].
    assert (H : allk clean kids <-> allk nofail kids /\ allk norun kids).
    { induction kids as [|kid rest IHk]; cbn; [tauto|]. destruct IH as [H1 H2]. rewrite H1, (IHk H2). tauto. }
    rewrite H. tauto.
  Qed.

  Section FixSel.
    Variable sel : nst -> bool.
    Variables fl fm : nst -> nst.
    Lemma dval_fix1 penv douts x : dval penv douts (fix1 fixv x) = dval penv douts x.
    Proof.
      destruct x as [[|u|g] [v|]]; try reflexivity. unfold dval, fix1; cbn. f_equal. fold (own_fix v). apply own_fix_idem.
    Qed.
    Lemma map_dval_fix1 penv douts i : map (dval penv douts) (map (fix1 fixv) i) = map (dval penv douts) i.
    Proof. rewrite map_map. apply map_ext. intros x. apply dval_fix1. Qed.
    Lemma den_fixsel n : forall penv douts, den penv douts (fixsel sel fl fm n) = den penv douts n.
    Proof.
      induction n as [k i st|i r st kids IH] using node_ind'; intros penv douts.
      - cbn [fixsel]. destruct (sel st); [|reflexivity]. cbn [den]. rewrite map_dval_fix1. reflexivity.
      - cbn [fixsel den]. destruct (forallb is_some _); [|reflexivity]. f_equal.
        symmetry. apply dkidsF_map. intros kid Hin acc. symmetry. apply (allk_In _ _ _ IH Hin).
    Qed.
    Lemma dtree_fixsel n : forall penv douts, dtree penv douts (fixsel sel fl fm n) = dtree penv douts n.
    Proof.
      induction n as [k i st|i r st kids IH] using node_ind'; intros penv douts.
      - cbn [fixsel]. destruct (sel st); [|reflexivity]. cbn [dtree den]. rewrite map_dval_fix1. reflexivity.
      - change (dtree penv douts (fixsel sel fl fm (Macro i r st kids))) with
          (den penv douts (fixsel sel fl fm (Macro i r st kids)) ::
             dtkF (fun acc kid => dtree (map (dval penv douts) i) acc kid)
                  (fun acc kid => den (map (dval penv douts) i) acc kid) (map (fixsel sel fl fm) kids) []).
        rewrite den_fixsel. cbn [dtree]. f_equal.
        symmetry. apply dtkF_map. intros kid Hin acc. split; symmetry; [apply den_fixsel|apply (allk_In _ _ _ IH Hin)].
    Qed.
    Lemma okin_fix1 np x : okin true np x -> okin true np (fix1 fixv x).
    Proof. destruct x as [[|u|g] [v|]]; cbn; try tauto. intros _. eexists. split; [reflexivity|discriminate]. Qed.
    Lemma inp_fixsel_ups n : ups_of (inp_of (fixsel sel fl fm n)) = ups_of (inp_of n).
    Proof.
      destruct n as [k i st|i r st kids]; cbn; [|reflexivity]. destruct (sel st); [|reflexivity]. cbn.
      unfold ups_of. induction i as [|x rest IH]; cbn; [reflexivity|]. rewrite IH. destruct x as [[|u|g] [v|]]; reflexivity.
    Qed.
    Lemma WF_fixsel n : forall np, WF np n -> WF np (fixsel sel fl fm n).
    Proof.
      induction n as [k i st|i r st kids IH] using node_ind'; intros np HW.
      - cbn [fixsel]. destruct (sel st); [|exact HW]. cbn in *. rewrite Forall_map. revert HW. apply Forall_impl. apply okin_fix1.
      - cbn [WF fixsel] in *. destruct HW as (H1 & H2 & H3 & H4). rewrite map_length. split; [exact H1|].
        split; [|split; [exact H3|]].
        + rewrite allk_map. revert H2. clear H3 H4. induction kids as [|kid rest IHk]; cbn; [auto|]. destruct IH as [I1 I2].
          intros [A B]. split; [apply I1, A|apply IHk; auto].
        + revert H4. clear. generalize 0%nat. induction kids as [|kid rest IHk]; intros idx; cbn; [auto|].
          rewrite inp_fixsel_ups. intros [A B]. split; [exact A|apply IHk, B].
    Qed.
    Lemma mirror_fixsel pv n : mirror pv n -> mirror pv (fixsel sel fl fm n).
    Proof.
      destruct n as [k i st|i r st kids]; cbn; [|auto]. destruct (sel st); [|auto]. unfold mirror. cbn.
      rewrite Forall_map. apply Forall_impl. intros x. destruct x as [[|u|g] [v|]]; cbn; auto.
    Qed.
    Hypothesis fl_cached : forall st, cached (fl st) = cached st.
    Hypothesis fl_outv : forall st, outv (fl st) = outv st.
    Lemma cval_fix1_ok penv douts i args :
      all_some (map (cval penv douts) i) = Some args -> (forall a, In a args -> 0 <= a) -> map (fix1 fixv) i = i.
    Proof.
      intros HA Hn. apply all_some_map in HA. rewrite <- (map_id i) at 2. apply map_ext_in. intros x Hx.
      destruct x as [[|u|g] [v|]]; try reflexivity. unfold fix1.
      assert (In (Some v) (map (cval penv douts) i)) as Hi.
      { apply in_map_iff. exists (SOwn, Some v). split; [reflexivity|exact Hx]. }
      rewrite HA in Hi. apply in_map_iff in Hi. destruct Hi as [a [Ea Ha]]. inversion Ea; subst.
      specialize (Hn _ Ha). destruct (Z.ltb_spec v 0); [lia|reflexivity].
    Qed.
    Lemma vals_fixsel_mac n : match n with Macro _ _ _ _ => vals (inp_of (fixsel sel fl fm n)) = vals (inp_of n) | _ => True end.
    Proof. destruct n; cbn; auto. Qed.
    Lemma good_fixsel n : forall penv douts, Good penv douts n -> Good penv douts (fixsel sel fl fm n).
    Proof.
      induction n as [k i st|i r st kids IH] using node_ind'; intros penv douts HG.
      - cbn [fixsel]. destruct (sel st); [|exact HG]. cbn [Good] in *. rewrite fl_cached, fl_outv.
        destruct (cached st); [|exact I]. destruct HG as [-> (args & v & HA & HK & HO)].
        assert (E : map (fix1 fixv) i = i).
        { apply (cval_fix1_ok penv douts i args HA). intros a Ha. eapply chk_val_args; eauto. }
        rewrite E. split; [reflexivity|]. exists args, v. auto.
      - cbn [Good fixsel] in *. apply (goodk_map _ (vals i)); [| |exact HG].
        + intros kid Hin acc M G. split; [apply mirror_fixsel; exact M|apply (allk_In _ _ _ IH Hin); exact G].
        + intros kid a. apply den_fixsel.
    Qed.
  End FixSel.

  Section FixSel2.
    Variable sel : nst -> bool.
    Variables fl fm : nst -> nst.
    Lemma lw_fixsel f n : (forall st, f (fl st) = f st) -> forall p, leaves_where f p (fixsel sel fl fm n) = leaves_where f p n.
    Proof.
      intros Hf. induction n as [k i st|i r st kids IH] using node_ind'; intros p.
      - cbn. destruct (sel st); cbn; [rewrite Hf|]; reflexivity.
      - cbn. apply kids_where_map. intros kid Hin q. apply (allk_In _ _ _ IH Hin).
    Qed.
    Lemma nocc_fixsel n : (forall st, cached (fm st) = cached st) -> nocc n -> nocc (fixsel sel fl fm n).
    Proof.
      intros Hf. induction n as [k i st|i r st kids IH] using node_ind'.
      - cbn. destruct (sel st); cbn; auto.
      - cbn. intros [A B]. rewrite Hf. split; [exact A|].
        rewrite allk_map. revert B. clear A. induction kids as [|kid rest IHk]; cbn; [auto|]. destruct IH as [H1 H2].
        intros [B1 B2]. split; [apply H1, B1|apply IHk; auto].
    Qed.
    Lemma norun_fixsel n : (forall st, running (fl st) = running st) -> (forall st, running (fm st) = running st) ->
      norun n -> norun (fixsel sel fl fm n).
    Proof.
      intros Hl Hm. induction n as [k i st|i r st kids IH] using node_ind'.
      - cbn. destruct (sel st); cbn; [rewrite Hl|]; auto.
      - cbn. rewrite Hm. intros [A B]. split; [exact A|].
        rewrite allk_map. revert B. clear A. induction kids as [|kid rest IHk]; cbn; [auto|]. destruct IH as [H1 H2].
        intros [B1 B2]. split; [apply H1, B1|apply IHk; auto].
    Qed.
  End FixSel2.

  Lemma nofail_recover n : nofail (recover fixv n).
  Proof.
    induction n as [k i st|i r st kids IH] using node_ind'; cbn.
    - destruct (failed st) eqn:E; cbn; [reflexivity|exact E].
    - split; [reflexivity|]. rewrite allk_map. revert IH. apply allk_impl. auto.
  Qed.

  (* counting causes *)
  Lemma isbad_fixed i : isbad (map (fix1 fixv) i) = false.
  Proof.
    unfold isbad. induction i as [|x r IH]; cbn; [reflexivity|]. rewrite IH, orb_false_r.
    destruct x as [[|u|g] [v|]]; cbn; try reflexivity.
    destruct (Z.ltb_spec v 0) as [H|H]; apply Z.ltb_ge; [apply fixv_nonneg|]; assumption.
  Qed.
  Lemma nbad_recover n : (nbad (recover fixv n) + nbf n = nbad n)%nat.
  Proof.
    induction n as [k i st|i r st kids IH] using node_ind'; cbn [recover nbad nbf].
    - destruct (failed st); cbn [nbad]; [rewrite isbad_fixed, andb_true_r|rewrite andb_false_r]; destruct (isbad i); reflexivity.
    - induction kids as [|kid rest IHk]; cbn; [reflexivity|]. destruct IH as [H1 H2]. specialize (IHk H2). lia.
  Qed.
  Lemma nbad_fixall n : nbad (fixall fixv n) = 0%nat.
  Proof.
    induction n as [k i st|i r st kids IH] using node_ind'; cbn [fixall nbad].
    - rewrite isbad_fixed. reflexivity.
    - induction kids as [|kid rest IHk]; cbn; [reflexivity|]. destruct IH as [H1 H2]. rewrite H1, (IHk H2). reflexivity.
  Qed.
  Lemma nbf_le_nbad n : (nbf n <= nbad n)%nat.
  Proof.
    induction n as [k i st|i r st kids IH] using node_ind'; cbn [nbad nbf].
    - destruct (isbad i), (failed st); cbn; lia.
    - induction kids as [|kid rest IHk]; cbn; [lia|]. destruct IH as [H1 H2]. specialize (IHk H2). lia.
  Qed.
  Lemma nbf_tmap fl fm n : (forall st, failed (fl st) = failed st) -> nbf (tmap fl fm n) = nbf n.
  Proof.
    intros Hf. induction n as [k i st|i r st kids IH] using node_ind'; cbn [tmap nbf]; [rewrite Hf; reflexivity|].
    induction kids as [|kid rest IHk]; cbn; [reflexivity|]. destruct IH as [H1 H2]. rewrite H1, (IHk H2). reflexivity.
  Qed.
  (* a graph in which every leaf holds a right key has no cause left *)
  Lemma complete_nobad n : forall penv douts, Good penv douts n -> complete n -> nbad n = 0%nat.
  Proof.
    induction n as [k i st|i r st kids IH] using node_ind'; intros penv douts HG HC.
    - cbn in *. destruct (cached st) as [c|]; [|discriminate]. destruct HG as [-> (args & v & HA & HK & _)].
      destruct (isbad i) eqn:Eb; [|reflexivity]. exfalso.
      unfold isbad in Eb. apply existsb_exists in Eb. destruct Eb as [x [Hx Hb]].
      destruct x as [[|u|g] [w|]]; try discriminate. apply Z.ltb_lt in Hb.
      apply all_some_map in HA.
      assert (In (Some w) (map (cval penv douts) i)) as Hi.
      { apply in_map_iff. exists (SOwn, Some w). split; [reflexivity|exact Hx]. }
      rewrite HA in Hi. apply in_map_iff in Hi. destruct Hi as [a [Ea Ha]]. inversion Ea; subst.
      pose proof (chk_val_args _ _ _ HK _ Ha). lia.
    - cbn [Good complete nbad] in *. revert HG HC. generalize (@nil (option Z)).
      induction kids as [|kid rest IHk]; intros acc HG HC; cbn; [reflexivity|].
      destruct IH as [H1 H2]. destruct HG as (_ & G & K). destruct HC as [C1 C2].
      rewrite (H1 _ _ G C1). cbn. eapply IHk; eauto.
  Qed.

  (* ---- between two runs ---------------------------------------------------------------------------------- *)
  Lemma ups_reset n : ups_of (inp_of (reset n)) = ups_of (inp_of n).
  Proof. destruct n; cbn; apply ups_of_raw. Qed.
  Lemma ups_same n m : reset n = reset m -> ups_of (inp_of n) = ups_of (inp_of m).
  Proof. intros H. rewrite <- (ups_reset n), <- (ups_reset m), H. reflexivity. Qed.
  Lemma feed_noups outs douts i : ups_of i = [] -> feed outs douts i.
  Proof.
    intros H. unfold feed. apply Forall_forall. intros x Hx. destruct (fst x) eqn:F; auto.
    assert (In u (ups_of i)) as Hi. { unfold ups_of. apply in_flat_map. exists x. rewrite F. split; [exact Hx|left; reflexivity]. }
    rewrite H in Hi. destruct Hi.
  Qed.
  Lemma start_pre t : Start t -> Pre [] [] [] [] [] t.
  Proof.
    intros (HW & HC & HN & HG & HM & HU). unfold Pre. repeat (split; [assumption|]).
    split; [apply feed_noups; exact HU|]. repeat split; auto; intros v [].
  Qed.

  (* an image (the graph as a file holds it) turned into a graph that can be run again *)
  Definition Image (x : node) : Prop := WF 0 x /\ Good [] [] x /\ mirror [] x /\ ups_of (inp_of x) = [].

  Lemma load_image x : Image x -> load x = tmap (fun st => st) clear_cache x.
  Proof. intros (_ & HG & HM & _). unfold load. eapply load_p_tmap; eauto. Qed.

  Lemma image_restart x : Image x ->
    let y := recover fixv (load x) in
    (norun x -> Start y) /\ Start (clear_running y) /\
    dtree [] [] y = dtree [] [] x /\ dtree [] [] (clear_running y) = dtree [] [] x /\
    (forall p, leaves_where done p y = leaves_where done p x) /\ (forall p, leaves_where undone p y = leaves_where undone p x) /\
    (forall p, leaves_where done p (clear_running y) = leaves_where done p x) /\
    (forall p, leaves_where undone p (clear_running y) = leaves_where undone p x) /\
    (nbad y + nbf x = nbad x)%nat /\ nbad (clear_running y) = nbad y.
  Proof.
    intros HI. pose proof (load_image x HI) as EL. destruct HI as (HW & HG & HM & HU). cbv zeta. rewrite EL. clear EL.
    set (l := tmap (fun st => st) clear_cache x).
    assert (Wl : WF 0 l) by (apply (WF_same x); [symmetry; apply reset_tmap|exact HW]).
    assert (Gl : Good [] [] l) by (apply good_tmap; auto).
    assert (Ml : mirror [] l) by (apply mirror_tmap; exact HM).
    assert (Ul : ups_of (inp_of l) = []) by (rewrite (ups_same l x) by apply reset_tmap; exact HU).
    assert (Nl : nocc l) by apply nocc_clearcc.
    rewrite recover_fixsel. set (y := fixsel failed clear_failed clear_failed l).
    assert (Wy : WF 0 y) by (apply WF_fixsel; exact Wl).
    assert (Gy : Good [] [] y) by (apply good_fixsel; auto).
    assert (My : mirror [] y) by (apply mirror_fixsel; exact Ml).
    assert (Uy : ups_of (inp_of y) = []) by (unfold y; rewrite inp_fixsel_ups; exact Ul).
    assert (Ny : nocc y) by (apply nocc_fixsel; auto).
    assert (Fy : nofail y) by (unfold y; rewrite <- recover_fixsel; apply nofail_recover).
    rewrite clear_running_tmap. set (z := tmap clear_run clear_run y).
    split; [|split; [|split; [|split; [|split; [|split; [|split; [|split; [|split]]]]]]]].
    - intros Rx. repeat split; auto. apply clean_iff. split; [exact Fy|].
      apply norun_fixsel; auto. apply norun_tmap; auto.
    - repeat split.
      + apply (WF_same y); [symmetry; apply reset_tmap|exact Wy].
      + apply clean_iff. split; [apply nofail_tmap; auto|apply norun_clear].
      + apply nocc_tmap; auto.
      + apply good_tmap; auto.
      + apply mirror_tmap; exact My.
      + rewrite (ups_same z y) by apply reset_tmap. exact Uy.
    - unfold y. rewrite dtree_fixsel. apply dtree_same, reset_tmap.
    - rewrite (dtree_same z y) by apply reset_tmap. unfold y. rewrite dtree_fixsel. apply dtree_same, reset_tmap.
    - intros p. unfold y. rewrite lw_fixsel by reflexivity. apply lw_tmap. reflexivity.
    - intros p. unfold y. rewrite lw_fixsel by reflexivity. apply lw_tmap. reflexivity.
    - intros p. unfold z. rewrite lw_tmap by reflexivity. unfold y. rewrite lw_fixsel by reflexivity. apply lw_tmap. reflexivity.
    - intros p. unfold z. rewrite lw_tmap by reflexivity. unfold y. rewrite lw_fixsel by reflexivity. apply lw_tmap. reflexivity.
    - unfold y. rewrite <- recover_fixsel. rewrite <- (nbf_tmap (fun st => st) clear_cache x) by reflexivity. fold l.
      rewrite (nbad_same x l) by (symmetry; apply reset_tmap). apply nbad_recover.
    - apply nbad_same, reset_tmap.
  Qed.

  (* ---- the theorems ------------------------------------------------------------------------------------------ *)
  Lemma path_eqb_nil c : path_eqb c [] = true -> c = [].
  Proof. destruct c; [reflexivity|discriminate]. Qed.

  Theorem attempt_sem t cut t1 evs r : Start t -> attempt cut t = (t1, evs, r) ->
    Image t1 /\ failed_ok t1 /\ reset t1 = reset t /\
    (r = ROk -> clean t1 /\ complete t1 /\ outputs t1 = dtree [] [] t /\ calls evs = undone_leaves t) /\
    (forall e, r = RExc e -> failed (st_of t1) = true /\ norun t1 /\ (1 <= nbf t1)%nat) /\
    (r = RCut -> exists c, cut = Some c /\ (c = [] \/ running (st_of t1) = true)) /\
    saves evs = (match r with RExc _ => [([], t1)] | _ => [] end) /\
    incl (calls evs) (undone_leaves t) /\ incl (done_leaves t1) (done_leaves t ++ calls evs).
  Proof.
    intros HS HA. pose proof (start_pre t HS) as HP. destruct HS as (HW & HC & HN & HG & HM & HU).
    pose proof (visit_sem t cut [] [] [] [] [] [] HP) as HPost.
    pose proof (visit_reset t cut [] [] []) as HR.
    unfold attempt in HA. rewrite HA in HPost, HR. cbn [fst] in HR.
    destruct HPost as (PG & PM & PF & POk & PEx & PCut & PS & PIc & PId).
    split; [repeat split; auto|].
    - apply (WF_same t); [symmetry; exact HR|exact HW].
    - rewrite (ups_same t1 t HR). exact HU.
    - split; [exact PF|]. split; [exact HR|]. split.
      + intros E. destruct (POk E) as (K1 & K2 & _ & _ & K5 & K6). auto.
      + split; [exact PEx|]. split.
        * intros E. destruct (PCut E) as [C1 C2]. destruct cut as [c|]; [|congruence]. exists c. split; [reflexivity|].
          destruct C2 as [C2|C2]; [left; apply path_eqb_nil; exact C2|right; exact C2].
        * split; [exact PS|]. split; [exact PIc|exact PId].
  Qed.

  Lemma norun_loadable n : norun n -> loadable n = true.
  Proof.
    induction n as [k i st|i r st kids IH] using node_ind'; cbn; [reflexivity|]. intros [_ HK].
    apply forallb_forall. intros kid Hin. pose proof (allk_In _ _ _ HK Hin) as Hn. rewrite (allk_In _ _ _ IH Hin Hn).
    destruct kid; cbn in *; [rewrite Hn|destruct Hn as [-> _]]; reflexivity.
  Qed.

  (* a run without causes succeeds *)
  Theorem nobad_ok t : Start t -> nbad t = 0%nat -> exists t1 evs, attempt None t = (t1, evs, ROk).
  Proof.
    intros HS Hb. destruct (attempt None t) as [[t1 evs] r] eqn:HA.
    destruct (attempt_sem t None t1 evs r HS HA) as (_ & _ & HR & _ & HE & HC & _).
    destruct r as [|e|]; [eauto| |].
    - destruct (HE e eq_refl) as (_ & _ & Hn). pose proof (nbf_le_nbad t1). rewrite (nbad_same t1 t HR) in *. lia.
    - destruct (HC eq_refl) as [c [E _]]. discriminate.
  Qed.

  Lemma clean_fixall n : clean n -> clean (fixall fixv n).
  Proof.
    induction n as [k i st|i r st kids IH] using node_ind'; cbn; [auto|]. intros [A B]. split; [exact A|].
    rewrite allk_map. revert B. clear A. induction kids as [|kid rest IHk]; cbn; [auto|]. destruct IH as [H1 H2].
    intros [B1 B2]. split; [apply H1, B1|apply IHk; auto].
  Qed.
  Lemma start_fixall t : Start t -> Start (fixall fixv t).
  Proof.
    intros (HW & HC & HN & HG & HM & HU). repeat split.
    - rewrite fixall_fixsel. apply WF_fixsel. exact HW.
    - apply clean_fixall. exact HC.
    - rewrite fixall_fixsel. apply nocc_fixsel; auto.
    - rewrite fixall_fixsel. apply good_fixsel; auto.
    - rewrite fixall_fixsel. apply mirror_fixsel. exact HM.
    - rewrite fixall_fixsel, inp_fixsel_ups. exact HU.
  Qed.
  (* the uninterrupted twin: the same graph without the causes runs to the meant outputs, calling what holds no key *)
  Theorem twin_ok t : Start t -> exists U evU, attempt None (fixall fixv t) = (U, evU, ROk) /\
    outputs U = dtree [] [] t /\ calls evU = undone_leaves t.
  Proof.
    intros HS. pose proof (start_fixall t HS) as HS'.
    destruct (nobad_ok _ HS' (nbad_fixall t)) as (U & evU & HA). exists U, evU. split; [exact HA|].
    destruct (attempt_sem _ None U evU ROk HS' HA) as (_ & _ & _ & HOk & _). destruct (HOk eq_refl) as (_ & _ & H1 & H2).
    split.
    - rewrite H1, fixall_fixsel. apply dtree_fixsel.
    - rewrite H2. unfold undone_leaves. rewrite fixall_fixsel. apply lw_fixsel. reflexivity.
  Qed.

  (* one failed attempt: the recovery image can be loaded, and fixing + clearing gives a graph between runs again *)
  Theorem resume_step t t1 evs e : Start t -> attempt None t = (t1, evs, RExc e) ->
    load_file t1 = Some (load t1) /\
    let t2 := recover fixv (load t1) in
    Start t2 /\ dtree [] [] t2 = dtree [] [] t /\ done_leaves t2 = done_leaves t1 /\ undone_leaves t2 = undone_leaves t1 /\
    (nbad t2 < nbad t)%nat.
  Proof.
    intros HS HA. destruct (attempt_sem t None t1 evs _ HS HA) as (HI & _ & HR & _ & HE & _).
    destruct (HE e eq_refl) as (_ & Hn & Hb).
    split; [unfold load_file; rewrite (norun_loadable _ Hn); reflexivity|].
    destruct (image_restart t1 HI) as (I1 & _ & I3 & _ & I5 & I6 & _ & _ & I9 & _). cbv zeta in *.
    split; [apply I1, Hn|]. split; [rewrite I3; apply dtree_same, HR|]. split; [apply I5|]. split; [apply I6|].
    rewrite <- (nbad_same t1 t HR). lia.
  Qed.

  (* ... repeated until a run returns: at most one recovery per cause *)
  Fixpoint final (fuel : nat) (t : node) : option node :=
    match fuel with
    | O => None
    | S f => let '(t1, evs, r) := attempt None t in
             match r with
             | ROk => Some t1
             | RExc _ => match load_file t1 with Some l => final f (recover fixv l) | None => None end
             | RCut => None
             end
    end.
  Theorem final_ok : forall n t, Start t -> (nbad t <= n)%nat ->
    exists t', final (S n) t = Some t' /\ outputs t' = dtree [] [] t /\ complete t' /\ clean t'.
  Proof.
    induction n as [|n IH]; intros t HS Hn.
    - destruct (nobad_ok t HS ltac:(lia)) as (t1 & evs & HA). exists t1. cbn. rewrite HA.
      destruct (attempt_sem t None t1 evs ROk HS HA) as (_ & _ & _ & HOk & _). destruct (HOk eq_refl) as (K1 & K2 & K3 & _). auto.
    - destruct (attempt None t) as [[t1 evs] r] eqn:HA. cbn [final]. rewrite HA.
      destruct r as [|e|].
      + destruct (attempt_sem t None t1 evs ROk HS HA) as (_ & _ & _ & HOk & _). destruct (HOk eq_refl) as (K1 & K2 & K3 & _).
        exists t1. auto.
      + destruct (resume_step t t1 evs e HS HA) as (HL & H2 & H3 & _ & _ & H6). rewrite HL.
        destruct (IH _ H2 ltac:(lia)) as (t' & F1 & F2 & F3 & F4). exists t'. rewrite <- H3. auto.
      + destruct (attempt_sem t None t1 evs RCut HS HA) as (_ & _ & _ & _ & _ & HC & _). destruct (HC eq_refl) as [c [E _]]. discriminate.
  Qed.

  (* paths: leaves holding a key and leaves holding none are different leaves *)
  Lemma lw_prefix f n : forall p q, In q (leaves_where f p n) -> exists s, q = p ++ s.
  Proof.
    induction n as [k i st|i r st kids IH] using node_ind'; intros p q; cbn.
    - destruct (f st); [intros [<-|[]]; exists []; rewrite app_nil_r; reflexivity|intros []].
    - generalize 0%nat. induction kids as [|kid rest IHk]; intros idx; cbn; [intros []|]. destruct IH as [H1 H2].
      intros H. apply in_app_or in H. destruct H as [H|H]; [|eapply IHk; eauto].
      destruct (H1 _ _ H) as [s ->]. exists (idx :: s). rewrite <- app_assoc. reflexivity.
  Qed.
  Lemma lwk_prefix f ks : forall p idx q, In q (lwk f p idx ks) -> exists j s, (idx <= j)%nat /\ q = p ++ j :: s.
  Proof.
    induction ks as [|kid rest IH]; intros p idx q; cbn; [intros []|]. intros H. apply in_app_or in H. destruct H as [H|H].
    - destruct (lw_prefix f kid _ _ H) as [s ->]. exists idx, s. rewrite <- app_assoc. split; [lia|reflexivity].
    - destruct (IH _ _ _ H) as (j & s & Hj & ->). exists j, s. split; [lia|reflexivity].
  Qed.
  Lemma lw_disjoint f g n : (forall st, f st = true -> g st = true -> False) ->
    forall p q, In q (leaves_where f p n) -> In q (leaves_where g p n) -> False.
  Proof.
    intros Hfg. induction n as [k i st|i r st kids IH] using node_ind'; intros p q; cbn.
    - destruct (f st) eqn:Ef, (g st) eqn:Eg; try (intros []; fail); try (intros _ []; fail). intros _ _. eauto.
    - fold (lwk f p 0 kids) (lwk g p 0 kids). generalize 0%nat.
      induction kids as [|kid rest IHk]; intros idx; cbn; [intros []|]. destruct IH as [H1 H2].
      fold (lwk f p (S idx) rest) (lwk g p (S idx) rest).
      intros Hf Hg. apply in_app_or in Hf. apply in_app_or in Hg.
      destruct Hf as [Hf|Hf], Hg as [Hg|Hg].
      + eapply H1; eauto.
      + destruct (lw_prefix f kid _ _ Hf) as [s ->]. destruct (lwk_prefix g rest _ _ _ Hg) as (j & s' & Hj & E).
        rewrite <- app_assoc in E. apply app_inv_head in E. inversion E. lia.
      + destruct (lw_prefix g kid _ _ Hg) as [s ->]. destruct (lwk_prefix f rest _ _ _ Hf) as (j & s' & Hj & E).
        rewrite <- app_assoc in E. apply app_inv_head in E. inversion E. lia.
      + eapply IHk; eauto.
  Qed.
  Theorem done_undone_disjoint n q : In q (done_leaves n) -> In q (undone_leaves n) -> False.
  Proof.
    apply (lw_disjoint (fun st => is_some (cached st)) (fun st => negb (is_some (cached st)))).
    intros st H1 H2. rewrite H1 in H2. discriminate.
  Qed.

  (* ---- the property, assembled ---------------------------------------------------------------------------------- *)
  (* a graph as built: no state at all, linked inputs mirror the macro inputs they are linked to *)
  Fixpoint blank (n : node) : Prop :=
    match n with Leaf _ _ st => st = st0 | Macro _ _ st kids => st = st0 /\ allk blank kids end.
  Fixpoint mirrors (n : node) : Prop :=
    match n with
    | Leaf _ _ _ => True
    | Macro i _ _ kids => allk (fun kid => mirror (vals i) kid) kids /\ allk mirrors kids
    end.
  Definition Fresh (t : node) : Prop := WF 0 t /\ blank t /\ mirrors t /\ inp_of t = [].

  Lemma blank_good n : forall penv douts, blank n -> mirrors n -> Good penv douts n.
  Proof.
    induction n as [k i st|i r st kids IH] using node_ind'; intros penv douts HB HM.
    - cbn in *. subst st. exact I.
    - cbn [Good blank mirrors] in *. destruct HB as [_ HB]. destruct HM as [M1 M2].
      generalize (@nil (option Z)). induction kids as [|kid rest IHk]; intros acc; cbn; [exact I|].
      destruct IH as [H1 H2]. destruct HB as [B1 B2]. destruct M1 as [M11 M12]. destruct M2 as [M21 M22].
      split; [exact M11|]. split; [apply H1; assumption|]. apply IHk; assumption.
  Qed.
  Lemma blank_clean n : blank n -> clean n /\ nocc n /\ done_leaves n = [] .
  Proof.
    unfold done_leaves. generalize (@nil nat).
    induction n as [k i st|i r st kids IH] using node_ind'; intros p HB.
    - cbn in *. subst st. repeat split.
    - cbn [blank clean nocc leaves_where] in *. destruct HB as [-> HB].
      assert (H : allk clean kids /\ allk nocc kids /\ forall idx, kids_where (fun q kid => leaves_where (fun st => is_some (cached st)) q kid) p idx kids = []).
      { induction kids as [|kid rest IHk]; cbn; [auto|]. destruct IH as [H1 H2]. destruct HB as [B1 B2].
        destruct (IHk H2 B2) as (K1 & K2 & K3). split; [split; [apply H1; assumption|exact K1]|].
        split; [split; [eapply H1; eauto|exact K2]|]. intros idx. rewrite K3.
        destruct (H1 (p ++ [idx]) B1) as (_ & _ & ->). reflexivity. }
      destruct H as (K1 & K2 & K3). repeat split; auto.
  Qed.
  Theorem fresh_start t : Fresh t -> Start t /\ done_leaves t = [].
  Proof.
    intros (HW & HB & HM & HI). destruct (blank_clean t HB) as (C1 & C2 & C3). split; [|exact C3].
    repeat split; auto.
    - apply blank_good; assumption.
    - unfold mirror. rewrite HI. constructor.
    - rewrite HI. reflexivity.
  Qed.

  (* no function of a node that holds a key is called, in any run from a graph between runs *)
  Theorem no_recall t cut t1 evs r : Start t -> attempt cut t = (t1, evs, r) ->
    forall q, In q (calls evs) -> ~ In q (done_leaves t).
  Proof.
    intros HS HA q Hq Hd. destruct (attempt_sem t cut t1 evs r HS HA) as (_ & _ & _ & _ & _ & _ & _ & HI & _).
    apply (done_undone_disjoint t q Hd). apply HI. exact Hq.
  Qed.

  (* (2) one failing node: recovery image at the root, resumed to the uninterrupted end, calling exactly the unfinished *)
  Theorem resume_single t0 : Start t0 -> nbad t0 = 1%nat ->
    exists t1 ev1 e, attempt None t0 = (t1, ev1, RExc e) /\ saves ev1 = [([], t1)] /\ load_file t1 = Some (load t1) /\
    exists t3 ev2, attempt None (recover fixv (load t1)) = (t3, ev2, ROk) /\
    exists U evU, attempt None (fixall fixv t0) = (U, evU, ROk) /\
      outputs t3 = outputs U /\ calls ev2 = undone_leaves t1 /\ (forall q, In q (calls ev2) -> ~ In q (done_leaves t1)).
  Proof.
    intros HS Hb. destruct (attempt None t0) as [[t1 ev1] r] eqn:HA.
    destruct (attempt_sem t0 None t1 ev1 r HS HA) as ((_ & HG & _) & _ & HR & HOk & _ & HC & HSv & _).
    destruct r as [|e|].
    - destruct (HOk eq_refl) as (_ & K2 & _). pose proof (complete_nobad t1 [] [] HG K2) as E.
      rewrite (nbad_same t1 t0 HR) in E. lia.
    - exists t1, ev1, e. split; [reflexivity|]. split; [exact HSv|].
      destruct (resume_step t0 t1 ev1 e HS HA) as (HL & S2 & D2 & Dn & Un & Nb). split; [exact HL|].
      destruct (nobad_ok _ S2 ltac:(lia)) as (t3 & ev2 & HA2). exists t3, ev2. split; [exact HA2|].
      destruct (twin_ok t0 HS) as (U & evU & HU & OU & _). exists U, evU. split; [exact HU|].
      destruct (attempt_sem _ None t3 ev2 ROk S2 HA2) as (_ & _ & _ & HOk2 & _). destruct (HOk2 eq_refl) as (_ & _ & O3 & C3).
      split; [rewrite O3, OU; exact D2|]. split; [rewrite C3; exact Un|].
      intros q Hq. rewrite <- Dn. eapply no_recall; eauto.
    - destruct (HC eq_refl) as [c [E _]]. discriminate.
  Qed.

  (* (2') any number of failing nodes, one recovery after the other *)
  Theorem resume_sequence t : Start t ->
    exists t' U evU, final (S (nbad t)) t = Some t' /\ attempt None (fixall fixv t) = (U, evU, ROk) /\ outputs t' = outputs U.
  Proof.
    intros HS. destruct (final_ok (nbad t) t HS (le_n _)) as (t' & F1 & F2 & _).
    destruct (twin_ok t HS) as (U & evU & HU & OU & _). exists t', U, evU. repeat split; auto. congruence.
  Qed.

  (* (3) a checkpoint image: loadable + `running` cleared => a graph between runs with the same keys *)
  Theorem checkpoint_restart t c t1 evs l : Start t -> attempt (Some c) t = (t1, evs, RCut) -> load_file t1 = Some l ->
    let t2 := clear_running (recover fixv l) in
    Start t2 /\ dtree [] [] t2 = dtree [] [] t /\ done_leaves t2 = done_leaves t1 /\ undone_leaves t2 = undone_leaves t1 /\
    (nbad t2 <= nbad t)%nat /\
    (forall q, In q (calls evs) -> ~ In q (done_leaves t)) /\ incl (done_leaves t1) (done_leaves t ++ calls evs).
  Proof.
    intros HS HA HL. unfold load_file in HL. destruct (loadable t1); [|discriminate]. inversion HL; subst l. clear HL.
    destruct (attempt_sem t (Some c) t1 evs _ HS HA) as (HI & _ & HR & _ & _ & _ & _ & _ & HId).
    destruct (image_restart t1 HI) as (_ & I2 & _ & I4 & _ & _ & I7 & I8 & I9 & I10). cbv zeta in *.
    split; [exact I2|]. split; [rewrite I4; apply dtree_same, HR|]. split; [apply I7|]. split; [apply I8|].
    split; [rewrite I10, <- (nbad_same t1 t HR); lia|]. split; [eapply no_recall; eauto|exact HId].
  Qed.

  (* ... but with the protocol as stated (failure flags only) the restored graph refuses to run *)
  Lemma fetchable_nil i : fetchable [] i = false.
  Proof.
    unfold fetchable. induction i as [|x r IH]; cbn [existsb]; [reflexivity|]. rewrite IH, orb_false_r.
    destruct x as [[|u|g] v]; cbn; try reflexivity. destruct u; reflexivity.
  Qed.
  Lemma running_refuses x : running (st_of x) = true -> exists x', attempt None x = (x', [], RExc EReady).
  Proof.
    unfold attempt. destruct x as [k i st|i r st kids]; cbn [st_of visit]; intros Hr; rewrite fetchable_nil, andb_false_r;
      unfold hitb, readyb; rewrite Hr; cbn; eauto.
  Qed.
  Lemma st_recover_running x : running (st_of (recover fixv x)) = running (st_of x).
  Proof. destruct x as [k i st|i r st kids]; cbn; [destruct (failed st)|]; reflexivity. Qed.
  Lemma st_load_running x : running (st_of (load x)) = running (st_of x).
  Proof. destruct x; reflexivity. Qed.
  Theorem checkpoint_stated_refused t c t1 evs l : Start t -> attempt (Some c) t = (t1, evs, RCut) -> c <> [] ->
    load_file t1 = Some l -> exists x', attempt None (recover fixv l) = (x', [], RExc EReady).
  Proof.
    intros HS HA Hc HL. unfold load_file in HL. destruct (loadable t1); [|discriminate]. inversion HL; subst l. clear HL.
    destruct (attempt_sem t (Some c) t1 evs _ HS HA) as (_ & _ & _ & _ & _ & HC & _).
    destruct (HC eq_refl) as (c' & E & [E'|Hr]); inversion E; subst c'; [contradiction|].
    apply running_refuses. rewrite st_recover_running, st_load_running. exact Hr.
  Qed.

  (* (1) the recovery image: exactly one, for the root, the graph as it stands when the run has ended *)
  Theorem recovery_root_only t t1 evs r : Start t -> attempt None t = (t1, evs, r) ->
    r <> RCut /\
    saves evs = (match r with RExc _ => [([], t1)] | _ => [] end) /\
    WF 0 t1 /\ Good [] [] t1 /\ failed_ok t1 /\ reset t1 = reset t /\
    (forall e, r = RExc e -> failed (st_of t1) = true /\ norun t1 /\ load_file t1 = Some (load t1)) /\
    incl (done_leaves t1) (done_leaves t ++ calls evs) /\ incl (calls evs) (undone_leaves t).
  Proof.
    intros HS HA. destruct (attempt_sem t None t1 evs r HS HA) as ((HW & HG & _) & HF & HR & _ & HE & HC & HSv & HI & HD).
    split; [intros ->; destruct (HC eq_refl) as [c [E _]]; discriminate|].
    split; [exact HSv|]. split; [exact HW|]. split; [exact HG|]. split; [exact HF|]. split; [exact HR|].
    split; [|split; assumption]. intros e E. destruct (HE e E) as (K1 & K2 & _). split; [exact K1|]. split; [exact K2|].
    unfold load_file. rewrite (norun_loadable _ K2). reflexivity.
  Qed.

  (* (3'), composed: under the two guards the checkpoint image resumes to the uninterrupted end of the ORIGINAL graph *)
  Theorem checkpoint_resume t c t1 evs l : Start t -> attempt (Some c) t = (t1, evs, RCut) -> load_file t1 = Some l ->
    let t2 := clear_running (recover fixv l) in
    exists t' U evU, final (S (nbad t)) t2 = Some t' /\ attempt None (fixall fixv t) = (U, evU, ROk) /\ outputs t' = outputs U /\
      forall t3 ev2 r2, attempt None t2 = (t3, ev2, r2) ->
        (forall q, In q (calls ev2) -> ~ In q (done_leaves t1)) /\ (r2 = ROk -> calls ev2 = undone_leaves t1).
  Proof.
    intros HS HA HL. destruct (checkpoint_restart t c t1 evs l HS HA HL) as (S2 & D2 & Dn & Un & Nb & _). cbv zeta in *.
    destruct (final_ok (nbad t) _ S2 Nb) as (t' & F1 & F2 & _).
    destruct (twin_ok t HS) as (U & evU & HU & OU & _). exists t', U, evU.
    split; [exact F1|]. split; [exact HU|]. split; [congruence|].
    intros t3 ev2 r2 HA2. split.
    - rewrite <- Dn. eapply no_recall; eauto.
    - intros ->. destruct (attempt_sem _ None t3 ev2 ROk S2 HA2) as (_ & _ & _ & HOk & _).
      destruct (HOk eq_refl) as (_ & _ & _ & C3). rewrite C3. exact Un.
  Qed.
End Spec.

(* the recovery file: whatever the directory held before, after a save a load returns what was saved *)
Theorem store_latest s img : store_read (store_save s img) = Some img.
Proof. unfold store_save, store_read. destruct (needs_cloud img); reflexivity. Qed.
Theorem store_one_file s img :
  let s' := store_save s img in (f_pckl s' = None /\ f_cpckl s' = Some img) \/ (f_pckl s' = Some img /\ f_cpckl s' = None).
Proof. unfold store_save. destruct (needs_cloud img); cbn; auto. Qed.
