(* WfIOProofs.v -- lemmas about WfIO.v (C15).  No axioms. *)
From Coq Require Import Ascii Permutation Setoid Morphisms.
From PW Require Import Base WfIO.
Open Scope string_scope.
Open Scope list_scope.

(* ---- generic list facts -------------------------------------------------------------------- *)
Lemma nodup_app_iff {A} (a b : list A) :
  NoDup (a ++ b) <-> NoDup a /\ NoDup b /\ (forall x, In x a -> ~ In x b).
Proof.
  induction a as [|x a IH]; simpl.
  - split; [intros H; repeat split; [constructor|exact H|tauto]|tauto].
  - split.
    + intros H. inversion H as [|? ? Hn Hd]; subst. apply IH in Hd as (Ha & Hb & Hab).
      repeat split; [constructor; [intros Hi; apply Hn, in_or_app; now left|exact Ha]|exact Hb|].
      intros y [->|Hy] Hb'; [apply Hn, in_or_app; now right|exact (Hab y Hy Hb')].
    + intros (Ha & Hb & Hab). inversion Ha as [|? ? Hn Hd]; subst. constructor.
      * intros Hi. apply in_app_or in Hi as [Hi|Hi]; [tauto|exact (Hab x (or_introl eq_refl) Hi)].
      * apply IH. repeat split; [exact Hd|exact Hb|]. intros y Hy. apply Hab. now right.
Qed.

Lemma mems_iff x l : mems x l = true <-> In x l.
Proof. apply mems_In. Qed.

Lemma mems_false x l : mems x l = false <-> ~ In x l.
Proof. rewrite <- mems_In. destruct (mems x l); split; congruence. Qed.

Lemma assoc_In {B} k (l : list (string * B)) v : assoc String.eqb k l = Some v -> In (k, v) l.
Proof.
  induction l as [|[k' v'] r IH]; simpl; [discriminate|].
  destruct (String.eqb k k') eqn:E.
  - apply String.eqb_eq in E. subst. intros [= ->]. now left.
  - intros H. right. exact (IH H).
Qed.

Lemma assoc_None_notin {B} k (l : list (string * B)) : assoc String.eqb k l = None -> ~ In k (map fst l).
Proof.
  induction l as [|[k' v'] r IH]; simpl; [tauto|].
  destruct (String.eqb k k') eqn:E; [discriminate|].
  apply String.eqb_neq in E. intros H [Hk|Hk]; [congruence|exact (IH H Hk)].
Qed.

Lemma In_assoc_nodup {B} k v (l : list (string * B)) :
  NoDup (map fst l) -> In (k, v) l -> assoc String.eqb k l = Some v.
Proof.
  induction l as [|[k' v'] r IH]; simpl; [tauto|].
  intros Hn [H|H]; inversion Hn as [|? ? Hx Hr]; subst.
  - inversion H; subst. now rewrite String.eqb_refl.
  - destruct (String.eqb k k') eqn:E.
    + apply String.eqb_eq in E. subst. exfalso. apply Hx. change k' with (fst (k', v)). now apply in_map.
    + exact (IH Hr H).
Qed.

(* two keys with one value in a list whose values are pairwise distinct *)
Lemma assoc_values_inj {B} (l : list (string * B)) k1 k2 v :
  NoDup (map snd l) -> assoc String.eqb k1 l = Some v -> assoc String.eqb k2 l = Some v -> k1 = k2.
Proof.
  induction l as [|[k' v'] r IH]; simpl; [discriminate|].
  intros Hn H1 H2. inversion Hn as [|? ? Hx Hr]; subst.
  destruct (String.eqb k1 k') eqn:E1, (String.eqb k2 k') eqn:E2.
  - apply String.eqb_eq in E1, E2. congruence.
  - inversion H1; subst. exfalso. apply Hx. apply assoc_In in H2. change v with (snd (k2, v)). now apply in_map.
  - inversion H2; subst. exfalso. apply Hx. apply assoc_In in H1. change v with (snd (k1, v)). now apply in_map.
  - exact (IH Hr H1 H2).
Qed.

Lemma nodup_snd_inj {A B} (l : list (A * B)) a b x :
  NoDup (map snd l) -> In (a, x) l -> In (b, x) l -> a = b.
Proof.
  induction l as [|[a' x'] r IH]; simpl; [tauto|].
  intros Hn H1 H2. inversion Hn as [|? ? Hx Hr]; subst.
  destruct H1 as [H1|H1], H2 as [H2|H2].
  - congruence.
  - inversion H1; subst. exfalso. apply Hx. change x with (snd (b, x)). now apply in_map.
  - inversion H2; subst. exfalso. apply Hx. change x with (snd (a, x)). now apply in_map.
  - exact (IH Hr H1 H2).
Qed.

Lemma nodup_fst_inj {A B} (l : list (A * B)) a x y :
  NoDup (map fst l) -> In (a, x) l -> In (a, y) l -> x = y.
Proof.
  induction l as [|[a' x'] r IH]; simpl; [tauto|].
  intros Hn H1 H2. inversion Hn as [|? ? Hx Hr]; subst.
  destruct H1 as [H1|H1], H2 as [H2|H2].
  - congruence.
  - inversion H1; subst. exfalso. apply Hx. change a with (fst (a, y)). now apply in_map.
  - inversion H2; subst. exfalso. apply Hx. change a with (fst (a, x)). now apply in_map.
  - exact (IH Hr H1 H2).
Qed.

Lemma nodup_map_elem_inj {A B} (f : A -> B) (l : list A) a b :
  NoDup (map f l) -> In a l -> In b l -> f a = f b -> a = b.
Proof.
  induction l as [|x r IH]; simpl; [tauto|].
  intros Hn Ha Hb E. inversion Hn as [|? ? Hx Hr]; subst.
  destruct Ha as [Ha|Ha], Hb as [Hb|Hb].
  - congruence.
  - subst. exfalso. apply Hx. rewrite E. now apply in_map.
  - subst. exfalso. apply Hx. rewrite <- E. now apply in_map.
  - exact (IH Hr Ha Hb E).
Qed.

Lemma nodup_flat_map_owner {A B} (f : A -> list B) (l : list A) a b x :
  NoDup (flat_map f l) -> In a l -> In b l -> In x (f a) -> In x (f b) -> a = b.
Proof.
  induction l as [|y r IH]; simpl; [tauto|].
  intros Hn Ha Hb Xa Xb. apply nodup_app_iff in Hn as (H1 & H2 & H3).
  destruct Ha as [Ha|Ha], Hb as [Hb|Hb].
  - congruence.
  - subst. exfalso. apply (H3 x Xa). apply in_flat_map. now exists b.
  - subst. exfalso. apply (H3 x Xb). apply in_flat_map. now exists a.
  - exact (IH H2 Ha Hb Xa Xb).
Qed.

Lemma nodup_flat_map_inner {A B} (f : A -> list B) (l : list A) a :
  NoDup (flat_map f l) -> In a l -> NoDup (f a).
Proof.
  induction l as [|y r IH]; simpl; [tauto|].
  intros Hn [->|Ha]; apply nodup_app_iff in Hn as (H1 & H2 & H3); [exact H1|exact (IH H2 Ha)].
Qed.

Lemma nodup_flat_map_sub {A B} (f g : A -> list B) (l : list A) :
  (forall a, In a l -> incl (g a) (f a) /\ NoDup (g a)) ->
  NoDup (flat_map f l) -> NoDup (flat_map g l).
Proof.
  induction l as [|y r IH]; simpl; [constructor|].
  intros Hs Hn. apply nodup_app_iff in Hn as (H1 & H2 & H3). apply nodup_app_iff.
  repeat split.
  - apply Hs. now left.
  - apply IH; [intros a Ha; apply Hs; now right|exact H2].
  - intros x Hx Hx'. apply (H3 x); [now apply (proj1 (Hs y (or_introl eq_refl)))|].
    apply in_flat_map in Hx' as (a & Ha & Hxa). apply in_flat_map. exists a. split; [exact Ha|].
    now apply (proj1 (Hs a (or_intror Ha))).
Qed.

Lemma nodup_filter_map {A B} (f : A -> B) (p : A -> bool) (l : list A) :
  NoDup (map f l) -> NoDup (map f (filter p l)).
Proof.
  induction l as [|x r IH]; simpl; [constructor|].
  intros Hn. inversion Hn as [|? ? Hx Hr]; subst.
  destruct (p x); simpl; [constructor|]; auto.
  intros Hi. apply Hx. apply in_map_iff in Hi as (y & E & Hy). apply filter_In in Hy as [Hy _].
  apply in_map_iff. now exists y.
Qed.

Lemma nodup_flat_map_filter {A B} (f : A -> list B) (p : A -> bool) (l : list A) :
  NoDup (flat_map f l) -> NoDup (flat_map f (filter p l)).
Proof.
  induction l as [|x r IH]; simpl; [constructor|].
  intros Hn. apply nodup_app_iff in Hn as (H1 & H2 & H3).
  destruct (p x); simpl; [|auto]. apply nodup_app_iff. repeat split; auto.
  intros y Hy Hy'. apply (H3 y Hy). apply in_flat_map in Hy' as (a & Ha & Hya).
  apply filter_In in Ha as [Ha _]. apply in_flat_map. now exists a.
Qed.

Lemma nodupb_NoDup {A} (eqb : A -> A -> bool) (l : list A) :
  (forall a b, eqb a b = true <-> a = b) -> (nodupb eqb l = true <-> NoDup l).
Proof.
  intros He. assert (Hm : forall x l, memb eqb x l = true <-> In x l).
  { intros x l0. induction l0 as [|y r IH]; simpl; [split; [discriminate|tauto]|].
    rewrite orb_true_iff, IH, He. split; intros [H|H]; auto. }
  induction l as [|x r IH]; simpl.
  - split; [constructor|reflexivity].
  - rewrite andb_true_iff, negb_true_iff, IH. split.
    + intros [Hx Hr]. constructor; [|exact Hr]. intros Hi. apply Hm in Hi. congruence.
    + intros Hn. inversion Hn as [|? ? Hx Hr]; subst. split; [|exact Hr].
      destruct (memb eqb x r) eqn:E; [|reflexivity]. apply Hm in E. tauto.
Qed.

Lemma mval_eqb_eq a b : mval_eqb a b = true <-> a = b.
Proof.
  destruct a as [x|x], b as [y|y]; simpl; try (split; [discriminate|congruence]);
    rewrite String.eqb_eq; split; congruence.
Qed.

(* ---- the keys: child.label ++ "__" ++ channel.label ------------------------------------------ *)
(* a label is GOOD when it neither contains "__" nor ends in "_" *)
Definition us (a : Ascii.ascii) : bool := Ascii.eqb a "_"%char.

Fixpoint good (s : string) : bool :=
  match s with
  | EmptyString => true
  | String a r =>
      match r with
      | EmptyString => negb (us a)
      | String b _ => negb (us a && us b) && good r
      end
  end.

Lemma us_true a : us a = true -> a = "_"%char.
Proof. unfold us. apply Ascii.eqb_eq. Qed.

Lemma good_tail a r : good (String a r) = true -> good r = true.
Proof. simpl. destruct r as [|b r']; [reflexivity|]. rewrite andb_true_iff. tauto. Qed.

(* the first "__" of c ++ "__" ++ l sits right after a good c *)
Lemma scoped_inj_good c c' l l' :
  good c = true -> good c' = true -> scoped c l = scoped c' l' -> c = c' /\ l = l'.
Proof.
  unfold scoped. revert c'. induction c as [|a r IH]; intros c' G G' E.
  - destruct c' as [|a' r'].
    + simpl in E. inversion E. auto.
    + exfalso. simpl in E. inversion E as [[Ea Er]]. subst a'.
      destruct r' as [|b' r''].
      * simpl in G'. discriminate.
      * simpl in Er. inversion Er as [[Eb Er']]. subst b'. simpl in G'. discriminate.
  - destruct c' as [|a' r'].
    + exfalso. simpl in E. inversion E as [[Ea Er]]. subst a.
      destruct r as [|b r''].
      * simpl in G. discriminate.
      * simpl in Er. inversion Er as [[Eb Er']]. subst b. simpl in G. discriminate.
    + simpl in E. inversion E as [[Ea Er]]. subst a'.
      destruct (IH r' (good_tail _ _ G) (good_tail _ _ G') Er) as [-> ->]. auto.
Qed.

(* ---- _build_io: insertion view ------------------------------------------------------------------ *)
Definition ekey (st : wf) (m : kmap) (cl : string) (e : string * nat) : option string :=
  match lookup_map m (scoped cl (fst e)) with
  | Some (MName s) => Some s
  | Some (MOff _) => None
  | None => if connected st (snd e) then None else Some (scoped cl (fst e))
  end.

Fixpoint entries_chans (st : wf) (m : kmap) (cl : string) (chs : list (string * nat)) : panel :=
  match chs with
  | [] => []
  | e :: r => match ekey st m cl e with
              | Some k => (k, snd e) :: entries_chans st m cl r
              | None => entries_chans st m cl r
              end
  end.

Definition entries_children (st : wf) (d : dir) (m : kmap) (cs : list child) : panel :=
  flat_map (fun c => entries_chans st m (c_label c) (chans d c)) cs.

(* the channels the property names, in the order of the two loops *)
Definition entries (st : wf) (d : dir) : panel := entries_children st d (kmap_of st d) (w_children st).

Fixpoint insert_all (p : panel) (es : panel) : option panel :=
  match es with
  | [] => Some p
  | (k, id) :: r => match panel_set p k id with Some p' => insert_all p' r | None => None end
  end.

Lemma build_chans_insert st m cl chs p :
  build_chans st m cl chs p = insert_all p (entries_chans st m cl chs).
Proof.
  revert p. induction chs as [|[l id] r IH]; intros p; simpl; [reflexivity|].
  unfold ekey; simpl. destruct (lookup_map m (scoped cl l)) as [[s|k]|].
  - simpl. destruct (panel_set p s id); [apply IH|reflexivity].
  - apply IH.
  - destruct (connected st id); [apply IH|]. simpl.
    destruct (panel_set p (scoped cl l) id); [apply IH|reflexivity].
Qed.

Lemma insert_all_app p a b :
  insert_all p (a ++ b) = match insert_all p a with Some p' => insert_all p' b | None => None end.
Proof.
  revert p. induction a as [|[k id] r IH]; intros p; simpl; [reflexivity|].
  destruct (panel_set p k id); [apply IH|reflexivity].
Qed.

Lemma build_children_insert st d m cs p :
  build_children st d m cs p = insert_all p (entries_children st d m cs).
Proof.
  revert p. induction cs as [|c r IH]; intros p; simpl; [reflexivity|].
  rewrite insert_all_app, build_chans_insert.
  destruct (insert_all p (entries_chans st m (c_label c) (chans d c))); [apply IH|reflexivity].
Qed.

Lemma insert_all_some p es q : insert_all p es = Some q -> q = (p ++ es)%list.
Proof.
  revert p. induction es as [|[k id] r IH]; intros p; simpl.
  - intros [= <-]. now rewrite app_nil_r.
  - unfold panel_set. destruct (mems k (map fst p)); [discriminate|].
    intros H. apply IH in H. rewrite H, <- app_assoc. reflexivity.
Qed.

Lemma insert_all_nodup p es q :
  insert_all p es = Some q -> NoDup (map fst p) -> NoDup (map fst q).
Proof.
  revert p. induction es as [|[k id] r IH]; intros p; simpl.
  - now intros [= <-].
  - unfold panel_set. destruct (mems k (map fst p)) eqn:E; [discriminate|].
    intros H Hn. apply (IH _ H). rewrite map_app. apply nodup_app_iff. simpl.
    repeat split; [exact Hn|constructor; [tauto|constructor]|].
    intros x Hx [<-|[]]. apply mems_false in E. tauto.
Qed.

Lemma insert_all_complete p es :
  NoDup (map fst (p ++ es)) -> insert_all p es = Some (p ++ es)%list.
Proof.
  revert p. induction es as [|[k id] r IH]; intros p; simpl.
  - now rewrite app_nil_r.
  - intros Hn. unfold panel_set.
    assert (E : mems k (map fst p) = false).
    { apply mems_false. rewrite map_app in Hn. apply nodup_app_iff in Hn as (_ & _ & H).
      intros Hi. apply (H k Hi). now left. }
    rewrite E. replace (p ++ (k, id) :: r)%list with ((p ++ [(k, id)]) ++ r)%list in *
      by (rewrite <- app_assoc; reflexivity).
    now apply IH.
Qed.

Lemma build_io_entries st d : build_io st d = insert_all [] (entries st d).
Proof. apply build_children_insert. Qed.

(* the panel, when the access succeeds, is the entry list; it fails exactly on a repeated key *)
Lemma build_io_some st d p :
  build_io st d = Some p <-> p = entries st d /\ NoDup (map fst (entries st d)).
Proof.
  rewrite build_io_entries. split.
  - intros H. pose proof (insert_all_some _ _ _ H) as E. simpl in E. subst p. split; [reflexivity|].
    apply (insert_all_nodup _ _ _ H). constructor.
  - intros [-> Hn]. exact (insert_all_complete [] _ Hn).
Qed.

Lemma build_io_none st d : build_io st d = None <-> ~ NoDup (map fst (entries st d)).
Proof.
  split.
  - intros H Hn. pose proof (proj2 (build_io_some st d _) (conj eq_refl Hn)). congruence.
  - intros H. destruct (build_io st d) eqn:E; [|reflexivity].
    apply build_io_some in E as [_ Hn]. tauto.
Qed.

(* ---- the characterisation ------------------------------------------------------------------------ *)
Definition exposes (st : wf) (d : dir) (k : string) (id : nat) : Prop :=
  exists c l, In c (w_children st) /\ In (l, id) (chans d c) /\
    (lookup_map (kmap_of st d) (scoped (c_label c) l) = Some (MName k)
     \/ (lookup_map (kmap_of st d) (scoped (c_label c) l) = None /\ connected st id = false
         /\ k = scoped (c_label c) l)).

Lemma entries_chans_in st m cl chs k id :
  In (k, id) (entries_chans st m cl chs) <-> exists l, In (l, id) chs /\ ekey st m cl (l, id) = Some k.
Proof.
  induction chs as [|[l0 id0] r IH]; simpl.
  - split; [tauto|intros (l & [] & _)].
  - destruct (ekey st m cl (l0, id0)) as [k0|] eqn:E; simpl.
    + rewrite IH. split.
      * intros [H|(l & Hl & Hk)]; [inversion H; subst; exists l0; auto|exists l; auto].
      * intros (l & [H|Hl] & Hk); [inversion H; subst; left; congruence|right; exists l; auto].
    + rewrite IH. split.
      * intros (l & Hl & Hk). exists l; auto.
      * intros (l & [H|Hl] & Hk); [inversion H; subst; congruence|exists l; auto].
Qed.

Lemma ekey_spec st m cl l id k :
  ekey st m cl (l, id) = Some k <->
  (lookup_map m (scoped cl l) = Some (MName k)
   \/ (lookup_map m (scoped cl l) = None /\ connected st id = false /\ k = scoped cl l)).
Proof.
  unfold ekey; simpl. destruct (lookup_map m (scoped cl l)) as [[s|s]|].
  - split; [intros [= ->]; now left|intros [[= ->]|(H & _)]; [reflexivity|discriminate]].
  - split; [discriminate|intros [H|(H & _)]; discriminate].
  - destruct (connected st id).
    + split; [discriminate|intros [H|(_ & H & _)]; discriminate].
    + split; [intros [= <-]; right; auto|intros [H|(_ & _ & ->)]; [discriminate|reflexivity]].
Qed.

Lemma entries_char st d k id : In (k, id) (entries st d) <-> exposes st d k id.
Proof.
  unfold entries, entries_children, exposes. rewrite in_flat_map. split.
  - intros (c & Hc & Hi). apply entries_chans_in in Hi as (l & Hl & Hk). apply ekey_spec in Hk.
    exists c, l. auto.
  - intros (c & l & Hc & Hl & Hk). exists c. split; [exact Hc|]. apply entries_chans_in.
    exists l. split; [exact Hl|]. now apply ekey_spec.
Qed.

Theorem io_char st d p :
  build_io st d = Some p -> forall k id, In (k, id) p <-> exposes st d k id.
Proof. intros H k id. apply build_io_some in H as [-> _]. apply entries_char. Qed.

(* ---- reachable states ------------------------------------------------------------------------------ *)
Definition all_ids (st : wf) : list nat := flat_map child_ids (w_children st).

Definition map_ok (m : kmap) : Prop := match m with None => True | Some l => NoDup (map snd l) end.

(* the node objects alive in a history: the children and the removed nodes the user still holds;
   what matters of each is its two channel lists (relabelling leaves them alone) *)
Definition nodes (st : wf) : list child := w_children st ++ w_shelf st.
Definition body (c : child) : list (string * nat) * list (string * nat) := (c_ins c, c_outs c).
Definition body_ids (b : list (string * nat) * list (string * nat)) : list nat :=
  map snd (fst b) ++ map snd (snd b).
Definition body_ok (b : list (string * nat) * list (string * nat)) : Prop :=
  NoDup (map fst (fst b)) /\ NoDup (map fst (snd b)).
Definition bodies (st : wf) : list (list (string * nat) * list (string * nat)) := map body (nodes st).

Record wfs (st : wf) : Prop := {
  wf_labels : NoDup (map c_label (w_children st));
  wf_idsA : NoDup (flat_map body_ids (bodies st));
  wf_ltA : forall id, In id (flat_map body_ids (bodies st)) -> id < w_next st;
  wf_chlA : Forall body_ok (bodies st);
  wf_im : map_ok (w_imap st);
  wf_om : map_ok (w_omap st) }.

Lemma flat_body_ids l : flat_map body_ids (map body l) = flat_map child_ids l.
Proof. induction l as [|c r IH]; simpl; [reflexivity|]. now rewrite IH. Qed.

Lemma bodies_split st :
  flat_map body_ids (bodies st) = all_ids st ++ flat_map child_ids (w_shelf st).
Proof. unfold bodies, nodes, all_ids. now rewrite map_app, flat_map_app, !flat_body_ids. Qed.

Lemma wf_ids st : wfs st -> NoDup (all_ids st).
Proof. intros W. pose proof (wf_idsA _ W) as H. rewrite bodies_split in H. now apply nodup_app_iff in H. Qed.

Lemma wf_chl st : wfs st -> forall c, In c (w_children st) ->
  NoDup (map fst (c_ins c)) /\ NoDup (map fst (c_outs c)).
Proof.
  intros W c Hc. pose proof (wf_chlA _ W) as H. rewrite Forall_forall in H.
  apply (H (body c)). unfold bodies, nodes. apply in_map, in_or_app. now left.
Qed.

Definition same_struct (a b : wf) : Prop :=
  w_children b = w_children a /\ w_next b = w_next a /\ w_imap b = w_imap a /\ w_omap b = w_omap a
  /\ w_shelf b = w_shelf a.

Definition same_graph (a b : wf) : Prop := same_struct a b /\ w_conns b = w_conns a.

Lemma wfs_same a b : same_struct a b -> wfs a -> wfs b.
Proof.
  intros (E1 & E2 & E3 & E4 & E5) [H1 H2 H3 H4 H5 H6].
  constructor; unfold bodies, nodes in *; rewrite ?E1, ?E2, ?E3, ?E4, ?E5; assumption.
Qed.

Lemma same_struct_refl a : same_struct a a.
Proof. repeat split. Qed.

Lemma same_struct_trans a b c : same_struct a b -> same_struct b c -> same_struct a c.
Proof. intros (A1 & A2 & A3 & A4 & A5) (B1 & B2 & B3 & B4 & B5). repeat split; congruence. Qed.

Lemma same_graph_refl a : same_graph a a.
Proof. split; [apply same_struct_refl|reflexivity]. Qed.

Lemma same_graph_trans a b c : same_graph a b -> same_graph b c -> same_graph a c.
Proof. intros [A B] [C D]. split; [eapply same_struct_trans; eauto|congruence]. Qed.

Lemma build_io_same a b d : same_graph a b -> build_io b d = build_io a d.
Proof.
  intros ((E1 & E2 & E3 & E4 & _) & E5). unfold build_io, kmap_of. rewrite E1.
  assert (Hk : match d with DIn => w_imap b | DOut => w_omap b end =
               match d with DIn => w_imap a | DOut => w_omap a end) by (destruct d; assumption).
  rewrite Hk. clear E1 Hk. generalize (@nil (string * nat)).
  generalize (match d with DIn => w_imap a | DOut => w_omap a end). intros m.
  generalize (w_children a). intros cs.
  induction cs as [|c r IH]; intros p; simpl; [reflexivity|].
  assert (Hc : forall chs q, build_chans b m (c_label c) chs q = build_chans a m (c_label c) chs q).
  { induction chs as [|[l id] r' IH']; intros q; simpl; [reflexivity|].
    unfold connected. rewrite E5.
    destruct (lookup_map m (scoped (c_label c) l)) as [[s|s]|].
    - destruct (panel_set q s id); [apply IH'|reflexivity].
    - apply IH'.
    - destruct (existsb (touches id) (w_conns a)); [apply IH'|].
      destruct (panel_set q (scoped (c_label c) l) id); [apply IH'|reflexivity]. }
  rewrite Hc. destruct (build_chans a m (c_label c) (chans d c) p); [apply IH|reflexivity].
Qed.

Lemma exposes_same a b d k id : same_graph a b -> (exposes b d k id <-> exposes a d k id).
Proof.
  intros ((E1 & E2 & E3 & E4 & _) & E5). unfold exposes, kmap_of, connected. rewrite E1, E5.
  assert (Hk : match d with DIn => w_imap b | DOut => w_omap b end =
               match d with DIn => w_imap a | DOut => w_omap a end) by (destruct d; assumption).
  rewrite Hk. tauto.
Qed.

(* the kind table gives every node distinct argument names and distinct output labels *)
Lemma kind_labels_nodup k :
  NoDup (map fst (k_ins (kind_spec k))) /\ NoDup (k_outs (kind_spec k)).
Proof.
  do 11 (destruct k as [|k]; [simpl; split; repeat (constructor; [simpl; intuition discriminate|]); constructor|]).
  simpl. split; constructor.
Qed.

Lemma number_fst n ls : map fst (number n ls) = ls.
Proof. revert n. induction ls as [|l r IH]; intros n; simpl; [reflexivity|]. now rewrite IH. Qed.

Lemma number_snd n ls : map snd (number n ls) = seq n (List.length ls).
Proof. revert n. induction ls as [|l r IH]; intros n; simpl; [reflexivity|]. now rewrite IH. Qed.

Lemma in_all_ids st id :
  In id (all_ids st) <-> exists c, In c (w_children st) /\ In id (child_ids c).
Proof. unfold all_ids. apply in_flat_map. Qed.

(* the body of a node made now, from kind k *)
Definition fresh_body (st : wf) (k : nat) : list (string * nat) * list (string * nat) :=
  (number (w_next st) (map fst (k_ins (kind_spec k))),
   number (w_next st + List.length (k_ins (kind_spec k))) (k_outs (kind_spec k))).

Definition fresh_next (st : wf) (k : nat) : nat :=
  w_next st + List.length (k_ins (kind_spec k)) + List.length (k_outs (kind_spec k)).

Lemma fresh_body_ids st k :
  body_ids (fresh_body st k) =
  seq (w_next st) (List.length (k_ins (kind_spec k)) + List.length (k_outs (kind_spec k))).
Proof. unfold body_ids, fresh_body; simpl. now rewrite !number_snd, map_length, seq_app. Qed.

Lemma fresh_body_ok st k : body_ok (fresh_body st k).
Proof. unfold body_ok, fresh_body; simpl. rewrite !number_fst. apply kind_labels_nodup. Qed.

(* the general preservation step: the node objects are the old ones, in any order, plus
   possibly nodes created now *)
Lemma wfs_step a b extra :
  wfs a ->
  NoDup (map c_label (w_children b)) ->
  Permutation (bodies b) (extra ++ bodies a) ->
  (extra = [] /\ w_next a <= w_next b \/
   exists k, extra = [fresh_body a k] /\ w_next b = fresh_next a k) ->
  map_ok (w_imap b) -> map_ok (w_omap b) -> wfs b.
Proof.
  intros [H1 H2 H3 H4 H5 H6] L P E Mi Mo.
  assert (PF : Permutation (flat_map body_ids (bodies b)) (flat_map body_ids extra ++ flat_map body_ids (bodies a))).
  { rewrite <- flat_map_app. now apply Permutation_flat_map. }
  constructor; try assumption.
  - apply (Permutation_NoDup (Permutation_sym PF)). apply nodup_app_iff.
    destruct E as [[-> _]|(k & -> & _)]; simpl.
    + repeat split; [constructor|exact H2|tauto].
    + rewrite app_nil_r, fresh_body_ids. repeat split; [apply seq_NoDup|exact H2|].
      intros x Hx Hx'. apply in_seq in Hx. apply H3 in Hx'. lia.
  - intros id Hi. apply (Permutation_in _ PF) in Hi. apply in_app_or in Hi.
    destruct E as [[-> Hle]|(k & -> & ->)]; simpl in Hi.
    + destruct Hi as [[]|Hi]. apply H3 in Hi. lia.
    + rewrite app_nil_r, fresh_body_ids in Hi. unfold fresh_next. destruct Hi as [Hi|Hi].
      * apply in_seq in Hi. lia.
      * apply H3 in Hi. lia.
  - apply (Permutation_Forall (Permutation_sym P)). apply Forall_app. split; [|exact H4].
    destruct E as [[-> _]|(k & -> & _)]; [constructor|]. constructor; [apply fresh_body_ok|constructor].
Qed.

Lemma take_perm l cs c r : take_child l cs = Some (c, r) -> Permutation cs (c :: r).
Proof.
  revert c r. induction cs as [|x xs IH]; intros c r; simpl; [discriminate|].
  destruct (String.eqb l (c_label x)); [intros [= <- <-]; apply Permutation_refl|].
  destruct (take_child l xs) as [[y ys]|]; [|discriminate]. intros [= <- <-].
  eapply Permutation_trans; [apply perm_skip, (IH _ _ eq_refl)|apply perm_swap].
Qed.

Lemma take_labels l cs c r :
  take_child l cs = Some (c, r) -> NoDup (map c_label cs) ->
  NoDup (map c_label r) /\ ~ In (c_label c) (map c_label r) /\ incl (map c_label r) (map c_label cs).
Proof.
  intros T Hn. pose proof (Permutation_map c_label (take_perm _ _ _ _ T)) as P. simpl in P.
  pose proof (Permutation_NoDup P Hn) as Hn'. inversion Hn'; subst. repeat split; try assumption.
  intros x Hx. apply (Permutation_in _ (Permutation_sym P)). now right.
Qed.

Lemma body_relabel c l : body (relabel c l) = body c.
Proof. reflexivity. Qed.

Lemma nodup_snoc {A} (l : list A) x : NoDup l -> ~ In x l -> NoDup (l ++ [x]).
Proof.
  intros Hn Hx. apply nodup_app_iff. repeat split; [exact Hn|constructor; [tauto|constructor]|].
  intros y Hy [<-|[]]. tauto.
Qed.

Lemma add_child_wfs st k l : wfs st -> wfs (fst (add_child st k l)).
Proof.
  intros W. unfold add_child. destruct (mems l (map c_label (w_children st))) eqn:E.
  - simpl. eapply wfs_same; [|exact W]. repeat split.
  - simpl. apply mems_false in E.
    apply (wfs_step st _ [fresh_body st k] W); simpl.
    + rewrite map_app. simpl. apply nodup_snoc; [apply (wf_labels _ W)|exact E].
    + unfold bodies, nodes; simpl. rewrite <- app_assoc, !map_app. simpl.
      apply Permutation_sym, Permutation_middle.
    + right. exists k. split; reflexivity.
    + apply (wf_im _ W).
    + apply (wf_om _ W).
Qed.

Lemma remove_child_wfs st l : wfs st -> wfs (fst (remove_child st l)).
Proof.
  intros W. unfold remove_child. destruct (take_child l (w_children st)) as [[c cs]|] eqn:T; [|exact W]. simpl.
  apply (wfs_step st _ [] W); simpl.
  - apply (take_labels _ _ _ _ T (wf_labels _ W)).
  - unfold bodies, nodes; simpl. rewrite !map_app. simpl.
    eapply Permutation_trans; [apply Permutation_sym, Permutation_middle|].
    apply (Permutation_app_tail _ (Permutation_sym (Permutation_map body (take_perm _ _ _ _ T)))).
  - left. split; [reflexivity|lia].
  - apply (wf_im _ W).
  - apply (wf_om _ W).
Qed.

Lemma readd_wfs st sl nl : wfs st -> wfs (fst (readd st sl nl)).
Proof.
  intros W. unfold readd. destruct (take_child sl (w_shelf st)) as [[c rest]|] eqn:T; [|exact W].
  set (l := match nl with Some x => x | None => c_label c end).
  destruct (mems l (map c_label (w_children st))) eqn:E; simpl.
  - eapply wfs_same; [|exact W]. repeat split.
  - apply mems_false in E. apply (wfs_step st _ [] W); simpl.
    + rewrite map_app. simpl. apply nodup_snoc; [apply (wf_labels _ W)|exact E].
    + unfold bodies, nodes; simpl. rewrite <- app_assoc, !map_app. simpl.
      apply Permutation_app_head. apply (Permutation_sym (Permutation_map body (take_perm _ _ _ _ T))).
    + left. split; [reflexivity|lia].
    + apply (wf_im _ W).
    + apply (wf_om _ W).
Qed.

Lemma relabel_child_wfs st cur new : wfs st -> wfs (fst (relabel_child st cur new)).
Proof.
  intros W. unfold relabel_child. destruct (take_child cur (w_children st)) as [[c rest]|] eqn:T; [|exact W].
  destruct (String.eqb cur new); simpl; [eapply wfs_same; [|exact W]; repeat split|].
  destruct (mems new (map c_label (w_children st))) eqn:E; simpl.
  - eapply wfs_same; [|exact W]. repeat split.
  - apply mems_false in E. destruct (take_labels _ _ _ _ T (wf_labels _ W)) as (Hn & _ & Hi).
    apply (wfs_step st _ [] W); simpl.
    + rewrite map_app. simpl. apply nodup_snoc; [exact Hn|]. intros Hx. apply E, Hi, Hx.
    + unfold bodies, nodes; simpl. rewrite <- app_assoc, !map_app. simpl.
      eapply Permutation_trans; [apply Permutation_sym, Permutation_middle|].
      apply (Permutation_app_tail _ (Permutation_sym (Permutation_map body (take_perm _ _ _ _ T)))).
    + left. split; [reflexivity|lia].
    + apply (wf_im _ W).
    + apply (wf_om _ W).
Qed.

Lemma replace_child_wfs st cur src : wfs st -> wfs (fst (replace_child st cur src)).
Proof.
  intros W. unfold replace_child. destruct (take_child cur (w_children st)) as [[c rest]|] eqn:T; [|exact W].
  destruct (take_labels _ _ _ _ T (wf_labels _ W)) as (Hn & Hc & _).
  assert (HL : NoDup (map c_label (rest ++ [relabel c (c_label c)]))).
  { rewrite map_app. simpl. now apply nodup_snoc. }
  pose proof (Permutation_map body (take_perm _ _ _ _ T)) as PB. simpl in PB.
  destruct src as [sl|].
  - destruct (take_child sl (w_shelf st)) as [[r sh]|] eqn:T2; [|exact W].
    pose proof (Permutation_map body (take_perm _ _ _ _ T2)) as PS. simpl in PS.
    match goal with |- context [if negb ?b then _ else _] => destruct b end; simpl; [|exact W].
    apply (wfs_step st _ [] W); simpl.
    + rewrite map_app in *. exact HL.
    + unfold bodies, nodes; simpl. rewrite <- app_assoc, !map_app. simpl.
      rewrite PB, PS. simpl.
      eapply Permutation_trans; [apply Permutation_sym, Permutation_middle|].
      eapply Permutation_trans; [apply perm_skip, Permutation_sym, Permutation_middle|].
      eapply Permutation_trans; [apply perm_swap|]. apply perm_skip, Permutation_middle.
    + left. split; [reflexivity|lia].
    + apply (wf_im _ W).
    + apply (wf_om _ W).
  - match goal with |- context [if negb ?b then _ else _] => destruct b end; simpl; [|exact W].
    apply (wfs_step st _ [fresh_body st (c_kind c)] W); simpl.
    + rewrite map_app in *. exact HL.
    + unfold bodies, nodes; simpl. rewrite <- app_assoc, !map_app. simpl. rewrite PB. simpl.
      change (body {| c_label := c_label c; c_kind := c_kind c;
                      c_ins := number (w_next st) (map fst (k_ins (kind_spec (c_kind c))));
                      c_outs := number (w_next st + List.length (k_ins (kind_spec (c_kind c))))
                                  (k_outs (kind_spec (c_kind c))) |})
        with (fresh_body st (c_kind c)).
      eapply Permutation_trans; [apply Permutation_sym, Permutation_middle|]. apply perm_skip.
      apply Permutation_sym, Permutation_middle.
    + right. exists (c_kind c). split; reflexivity.
    + apply (wf_im _ W).
    + apply (wf_om _ W).
Qed.

Lemma dedup_nones_snd_nodup m :
  nodupb mval_eqb (map snd (dedup_nones m)) = true -> NoDup (map snd (dedup_nones m)).
Proof. apply nodupb_NoDup. exact mval_eqb_eq. Qed.

Lemma sanitize_ok m km : sanitize m = Some km -> map_ok km.
Proof.
  unfold sanitize. destruct m as [l|]; [|intros [= <-]; exact I].
  destruct (nodupb mval_eqb (map snd (dedup_nones l))) eqn:E; [|discriminate].
  intros [= <-]. simpl. now apply dedup_nones_snd_nodup.
Qed.

Lemma set_map_wfs st d m : wfs st -> wfs (fst (set_map st d m)).
Proof.
  intros W. unfold set_map. destruct (sanitize m) as [km|] eqn:E; [|exact W]. simpl.
  apply sanitize_ok in E. destruct W as [H1 H2 H3 H4 H5 H6].
  destruct d; constructor; simpl; assumption.
Qed.

(* in-place edits keep the stored values pairwise distinct *)
Lemma del_snd_incl {B} k (l : list (string * B)) x : In x (map snd (del String.eqb k l)) -> In x (map snd l).
Proof.
  induction l as [|[k' v'] r IH]; simpl; [tauto|].
  destruct (String.eqb k k'); simpl; [intros H; right; exact (IH H)|intros [H|H]; [now left|right; exact (IH H)]].
Qed.

Lemma del_snd_nodup {B} k (l : list (string * B)) : NoDup (map snd l) -> NoDup (map snd (del String.eqb k l)).
Proof.
  induction l as [|[k' v'] r IH]; simpl; [constructor|]. intros Hn. inversion Hn as [|? ? Hx Hr]; subst.
  destruct (String.eqb k k'); simpl; [exact (IH Hr)|]. constructor; [|exact (IH Hr)].
  intros Hi. apply Hx. exact (del_snd_incl _ _ _ Hi).
Qed.

Lemma put_at_snd_in l k v x : In x (map snd (put_at l k v)) -> x = v \/ In x (map snd l).
Proof.
  induction l as [|[k' v'] r IH]; simpl; [intros [H|[]]; now left|].
  destruct (String.eqb k k'); simpl.
  - intros [H|H]; [now left|right; right; exact (del_snd_incl _ _ _ H)].
  - intros [H|H]; [right; now left|]. destruct (IH H) as [E|E]; [now left|right; now right].
Qed.

Lemma memb_mval v l : memb mval_eqb v l = true <-> In v l.
Proof.
  induction l as [|y r IH]; simpl; [split; [discriminate|tauto]|].
  rewrite orb_true_iff, IH, mval_eqb_eq. split; intros [H|H]; auto.
Qed.

Lemma put_at_nodup l k v :
  NoDup (map snd l) -> ~ In v (map snd (del String.eqb k l)) -> NoDup (map snd (put_at l k v)).
Proof.
  induction l as [|[k' v'] r IH]; simpl; intros Hn Hv; [constructor; [tauto|constructor]|].
  inversion Hn as [|? ? Hx Hr]; subst. destruct (String.eqb k k') eqn:E; simpl in *.
  - constructor; [exact Hv|now apply del_snd_nodup].
  - constructor; [|apply IH; [exact Hr|tauto]].
    intros Hi. apply put_at_snd_in in Hi as [->|Hi]; [apply Hv; now left|tauto].
Qed.

Lemma put_ok l k v l' : NoDup (map snd l) -> put l k v = inl l' -> NoDup (map snd l').
Proof.
  unfold put. destruct (memb mval_eqb v (map snd (del String.eqb k l))) eqn:E; [discriminate|].
  intros Hn [= <-]. apply put_at_nodup; [exact Hn|]. intros Hi. apply memb_mval in Hi. congruence.
Qed.

Lemma put_all_ok ps : forall l l', NoDup (map snd l) -> put_all l ps = inl l' -> NoDup (map snd l').
Proof.
  induction ps as [|[k v] r IH]; intros l l' Hn; simpl; [now intros [= <-]|].
  destruct (put l k (mv k v)) as [l1|b] eqn:E; [|discriminate]. apply IH. exact (put_ok _ _ _ _ Hn E).
Qed.

Lemma set_kmap_wfs st d km : wfs st -> map_ok km -> wfs (set_kmap st d km).
Proof. intros [H1 H2 H3 H4 H5 H6] Hk. destruct d; constructor; simpl; assumption. Qed.

Lemma kmap_of_ok st d : wfs st -> map_ok (kmap_of st d).
Proof. intros W. destruct d; [apply (wf_im _ W)|apply (wf_om _ W)]. Qed.

Lemma map_setitem_wfs st d k v : wfs st -> wfs (fst (map_setitem st d k v)).
Proof.
  intros W. unfold map_setitem. pose proof (kmap_of_ok st d W) as Hm.
  destruct (kmap_of st d) as [l|]; [|exact W].
  destruct (put l k (mv k v)) as [l'|b] eqn:E; [|exact W]. simpl.
  apply set_kmap_wfs; [exact W|]. exact (put_ok _ _ _ _ Hm E).
Qed.

Lemma map_delitem_wfs st d k : wfs st -> wfs (fst (map_delitem st d k)).
Proof.
  intros W. unfold map_delitem. pose proof (kmap_of_ok st d W) as Hm.
  destruct (kmap_of st d) as [l|]; [|exact W].
  destruct (mems k (map fst l)); [|exact W]. simpl.
  apply set_kmap_wfs; [exact W|]. now apply del_snd_nodup.
Qed.

Lemma map_update_wfs st d ps : wfs st -> wfs (fst (map_update st d ps)).
Proof.
  intros W. unfold map_update. pose proof (kmap_of_ok st d W) as Hm.
  destruct (kmap_of st d) as [l|]; [|exact W].
  destruct (put_all l ps) as [l'|b] eqn:E; [|exact W]. simpl.
  apply set_kmap_wfs; [exact W|]. exact (put_all_ok _ _ _ Hm E).
Qed.

Lemma connect_ids_struct st i o : same_struct st (connect_ids st i o).
Proof. unfold connect_ids. destruct (memb pair_eqb (i, o) (w_conns st)); repeat split. Qed.

Lemma assign_all_graph st p kw : same_graph st (assign_all st p kw).
Proof.
  revert st. induction kw as [|[k v] r IH]; intros st; simpl; [apply same_graph_refl|].
  destruct (assoc String.eqb k p); [|apply IH].
  eapply same_graph_trans; [|apply IH]. repeat split.
Qed.

Lemma execute_graph st : same_graph st (execute st).
Proof. repeat split. Qed.

Lemma run_wf_graph st kw : same_graph st (fst (run_wf st kw)).
Proof.
  unfold run_wf. destruct (build_io st DIn) as [p|]; [|apply same_graph_refl].
  destruct (negb (forallb (fun kv => mems (fst kv) (map fst p)) kw)); [apply same_graph_refl|].
  pose proof (assign_all_graph st p kw) as G1. set (st1 := assign_all st p kw) in *.
  destruct (cyclic st1); [exact G1|].
  destruct (match w_cache st1 with Some c => dict_eqb (value_dict st1 p) c | None => false end).
  - destruct (build_io st1 DOut); exact G1.
  - pose proof (execute_graph st1) as G2.
    destruct (build_io (execute st1) DOut); simpl;
      (eapply same_graph_trans; [exact G1|]; eapply same_graph_trans; [exact G2|]; repeat split).
Qed.

Lemma pull_graph st l wp : same_graph st (fst (pull st l wp)).
Proof.
  unfold pull. destruct (find_child l (w_children st)) as [c|]; [|apply same_graph_refl].
  destruct (build_io st DIn) as [pin|]; [|apply same_graph_refl].
  destruct (build_io st DOut); [|apply same_graph_refl].
  destruct (cyclic st); [apply same_graph_refl|].
  set (st0 := if wp then fetch_ids st (map snd pin) else st).
  assert (G0 : same_graph st st0) by (unfold st0; destruct wp; repeat split).
  match goal with |- same_graph st (fst (set_cache (run_self ?s1 c) None, ROk)) =>
    assert (G1 : same_graph st0 s1) end.
  { destruct (filter _ (w_children st0)); [apply same_graph_refl|].
    match goal with |- context [if ?h then _ else _] => destruct h end; repeat split. }
  simpl. eapply same_graph_trans; [exact G0|]. eapply same_graph_trans; [exact G1|]. repeat split.
Qed.

Lemma step_wfs st o : wfs st -> wfs (fst (step st o)).
Proof.
  intros W. destruct o; simpl.
  - now apply add_child_wfs.
  - now apply remove_child_wfs.
  - unfold connect. destruct (find_chan st DIn ic il), (find_chan st DOut oc ol); simpl; try exact W.
    eapply wfs_same; [apply connect_ids_struct|exact W].
  - unfold disconnect. destruct (find_chan st DIn ic il), (find_chan st DOut oc ol); simpl; try exact W.
    eapply wfs_same; [|exact W]. repeat split.
  - unfold disconnect_all. destruct (find_chan st d c l); simpl; [|exact W].
    eapply wfs_same; [|exact W]. repeat split.
  - now apply set_map_wfs.
  - unfold assign. destruct (build_io st DIn) as [p|]; [|exact W].
    destruct (assoc String.eqb key p); simpl; [|exact W]. eapply wfs_same; [|exact W]. repeat split.
  - unfold wconnect. destruct (find_chan st DOut oc ol); [|exact W].
    destruct (build_io st DIn) as [p|]; [|exact W].
    destruct (assoc String.eqb key p); simpl; [|exact W].
    eapply wfs_same; [apply connect_ids_struct|exact W].
  - eapply wfs_same; [apply run_wf_graph|exact W].
  - now apply readd_wfs.
  - now apply relabel_child_wfs.
  - now apply replace_child_wfs.
  - now apply map_setitem_wfs.
  - now apply map_delitem_wfs.
  - now apply map_update_wfs.
  - unfold leave. destruct (take_child label (w_children st)); [now apply remove_child_wfs|exact W].
  - unfold leave. destruct (take_child label (w_children st)); [now apply remove_child_wfs|exact W].
  - unfold set_inputs. destruct (build_io st DIn) as [p|]; [|exact W].
    destruct (negb (forallb (fun kv => mems (fst kv) (map fst p)) kw)); [exact W|].
    eapply wfs_same; [apply assign_all_graph|exact W].
  - eapply wfs_same; [apply pull_graph|exact W].
  - unfold item_assign. destruct (build_io st DIn) as [p|]; [|exact W].
    destruct (assoc String.eqb key p); simpl; [|exact W]. eapply wfs_same; [|exact W]. repeat split.
  - unfold wconnect2. destruct (build_io st DOut) as [po|]; [|exact W].
    destruct (assoc String.eqb okey po); [|exact W].
    destruct (build_io st DIn) as [p|]; [|exact W].
    destruct (assoc String.eqb key p); simpl; [|exact W].
    eapply wfs_same; [apply connect_ids_struct|exact W].
Qed.

Lemma run_ops_wfs ops : forall st, wfs st -> wfs (run_ops st ops).
Proof. induction ops as [|o r IH]; intros st W; simpl; [exact W|]. apply IH. now apply step_wfs. Qed.

Lemma init_wfs i o : map_ok i -> map_ok o -> wfs (init_wf i o).
Proof.
  intros Hi Ho. constructor; simpl;
    [constructor|constructor|intros id []|constructor|assumption|assumption].
Qed.

(* every state a history can produce *)
Definition reachable (st : wf) : Prop :=
  exists im om i o ops, sanitize im = Some i /\ sanitize om = Some o /\ st = run_ops (init_wf i o) ops.

Theorem reachable_wfs st : reachable st -> wfs st.
Proof.
  intros (im & om & i & o & ops & Hi & Ho & ->).
  apply run_ops_wfs, init_wfs; eapply sanitize_ok; eauto.
Qed.

(* ---- identity ------------------------------------------------------------------------------------ *)
Lemma chan_in_ids d c l id : In (l, id) (chans d c) -> In id (child_ids c).
Proof.
  intros H. unfold child_ids. apply in_or_app. destruct d; [left|right];
    change id with (snd (l, id)); now apply in_map.
Qed.

(* an id names one channel of one child, in one direction *)
Lemma id_unique st c c' d d' l l' id :
  wfs st -> In c (w_children st) -> In c' (w_children st) ->
  In (l, id) (chans d c) -> In (l', id) (chans d' c') -> c = c' /\ d = d' /\ l = l'.
Proof.
  intros W Hc Hc' Hl Hl'. pose proof (wf_ids _ W) as Hn. unfold all_ids in Hn.
  assert (c = c').
  { eapply nodup_flat_map_owner; eauto using chan_in_ids. }
  subst c'. split; [reflexivity|].
  pose proof (nodup_flat_map_inner _ _ _ Hn Hc) as Hcn. unfold child_ids in Hcn.
  apply nodup_app_iff in Hcn as (Hi & Ho & Hio).
  assert (Hin : forall l0, In (l0, id) (c_ins c) -> In id (map snd (c_ins c)))
    by (intros l0 H; change id with (snd (l0, id)); now apply in_map).
  assert (Hout : forall l0, In (l0, id) (c_outs c) -> In id (map snd (c_outs c)))
    by (intros l0 H; change id with (snd (l0, id)); now apply in_map).
  destruct d, d'; simpl in *.
  - split; [reflexivity|]. exact (nodup_snd_inj _ _ _ _ Hi Hl Hl').
  - exfalso. exact (Hio id (Hin _ Hl) (Hout _ Hl')).
  - exfalso. exact (Hio id (Hin _ Hl') (Hout _ Hl)).
  - split; [reflexivity|]. exact (nodup_snd_inj _ _ _ _ Ho Hl Hl').
Qed.

Theorem panel_identity st d p k id :
  wfs st -> build_io st d = Some p -> In (k, id) p ->
  exists c l, In c (w_children st) /\ In (l, id) (chans d c) /\
    (forall c' d' l', In c' (w_children st) -> In (l', id) (chans d' c') -> c' = c /\ d' = d /\ l' = l).
Proof.
  intros W H Hi. apply (io_char _ _ _ H) in Hi as (c & l & Hc & Hl & _).
  exists c, l. repeat split; try assumption;
    destruct (id_unique st c' c d' d l' l id W H0 Hc H1 Hl) as (? & ? & ?); assumption.
Qed.

(* a channel switched off by the map is never exposed, under any key *)
Theorem hidden_never st d p c l id off :
  wfs st -> build_io st d = Some p -> In c (w_children st) -> In (l, id) (chans d c) ->
  lookup_map (kmap_of st d) (scoped (c_label c) l) = Some (MOff off) ->
  forall k, ~ In (k, id) p.
Proof.
  intros W H Hc Hl Hoff k Hi. apply (io_char _ _ _ H) in Hi as (c' & l' & Hc' & Hl' & Hk).
  destruct (id_unique st c' c d d l' l id W Hc' Hc Hl' Hl) as (-> & _ & ->).
  destruct Hk as [Hk|(Hk & _)]; congruence.
Qed.

(* a connected channel appears only when the map names it *)
Theorem connected_only_by_map st d p c l id k :
  wfs st -> build_io st d = Some p -> In c (w_children st) -> In (l, id) (chans d c) ->
  connected st id = true -> In (k, id) p ->
  lookup_map (kmap_of st d) (scoped (c_label c) l) = Some (MName k).
Proof.
  intros W H Hc Hl Hcon Hi. apply (io_char _ _ _ H) in Hi as (c' & l' & Hc' & Hl' & Hk).
  destruct (id_unique st c' c d d l' l id W Hc' Hc Hl' Hl) as (-> & _ & ->).
  destruct Hk as [Hk|(_ & Hk & _)]; [exact Hk|congruence].
Qed.

Lemma assoc_upd_same id (v : Z) (vs : list (nat * Z)) : assoc Nat.eqb id (upd Nat.eqb id v vs) = Some v.
Proof.
  induction vs as [|[k x] r IH]; simpl; [now rewrite Nat.eqb_refl|].
  destruct (Nat.eqb id k) eqn:E; simpl; [now rewrite Nat.eqb_refl|now rewrite E].
Qed.

Lemma assoc_upd_other id id' (v : Z) (vs : list (nat * Z)) : id' <> id -> assoc Nat.eqb id' (upd Nat.eqb id v vs) = assoc Nat.eqb id' vs.
Proof.
  intros Hne. induction vs as [|[k x] r IH]; simpl.
  - destruct (Nat.eqb id' id) eqn:E; [apply Nat.eqb_eq in E; tauto|reflexivity].
  - destruct (Nat.eqb id k) eqn:E; simpl.
    + apply Nat.eqb_eq in E. subst k. destruct (Nat.eqb id' id) eqn:E'; [apply Nat.eqb_eq in E'; tauto|reflexivity].
    + destruct (Nat.eqb id' k); [reflexivity|exact IH].
Qed.

(* assigning through the workflow panel IS assigning to the child's channel *)
Theorem assign_through st key v st' :
  assign st key v = (st', ROk) ->
  exists p id, build_io st DIn = Some p /\ In (key, id) p /\
    val st' id = Some v /\ (forall id', id' <> id -> val st' id' = val st id') /\ same_graph st st'.
Proof.
  unfold assign. destruct (build_io st DIn) as [p|] eqn:E; [|discriminate].
  destruct (assoc String.eqb key p) as [id|] eqn:A; [|discriminate].
  intros [= <-]. exists p, id. split; [reflexivity|]. split; [now apply assoc_In|].
  unfold val, set_val; simpl. split; [apply assoc_upd_same|]. split; [|repeat split].
  intros id' Hne. now apply assoc_upd_other.
Qed.

Theorem assign_absent st key v p :
  build_io st DIn = Some p -> ~ In key (map fst p) -> assign st key v = (st, RExc TypeErr).
Proof.
  intros E Hn. unfold assign. rewrite E. destruct (assoc String.eqb key p) as [id|] eqn:A; [|reflexivity].
  exfalso. apply Hn. apply assoc_In in A. change key with (fst (key, id)). now apply in_map.
Qed.

(* ---- the run return --------------------------------------------------------------------------------- *)
Theorem run_return st kw st' ret :
  run_wf st kw = (st', RRet ret) ->
  same_graph st st' /\ exists po, build_io st' DOut = Some po /\ ret = value_dict st' po.
Proof.
  intros H. split; [pose proof (run_wf_graph st kw) as G; now rewrite H in G|].
  revert H. unfold run_wf. destruct (build_io st DIn) as [p|]; [|discriminate].
  destruct (negb (forallb (fun kv => mems (fst kv) (map fst p)) kw)); [discriminate|].
  set (st1 := assign_all st p kw). destruct (cyclic st1); [discriminate|].
  destruct (match w_cache st1 with Some c => dict_eqb (value_dict st1 p) c | None => false end).
  - destruct (build_io st1 DOut) as [po|] eqn:E; [|discriminate]. intros [= <- <-]. now exists po.
  - destruct (build_io (execute st1) DOut) as [po|] eqn:E; [|discriminate]. intros [= <- <-].
    exists po. split; [|reflexivity]. rewrite <- E. apply build_io_same. repeat split.
Qed.

Theorem run_return_char st kw st' ret :
  run_wf st kw = (st', RRet ret) ->
  forall k v, In (k, v) ret <-> exists id, exposes st' DOut k id /\ v = val st' id.
Proof.
  intros H. apply run_return in H as (_ & po & Hp & ->). intros k v. unfold value_dict. rewrite in_map_iff. split.
  - intros ([k' id] & E & Hi). simpl in E. inversion E; subst. exists id. split; [|reflexivity].
    now apply (io_char _ _ _ Hp).
  - intros (id & He & ->). exists (k, id). split; [reflexivity|]. now apply (io_char _ _ _ Hp).
Qed.

(* ---- one-to-one maps --------------------------------------------------------------------------------- *)
Definition names (m : list (string * option string)) : list string :=
  flat_map (fun kv => match snd kv with Some s => [s] | None => [] end) m.

Lemma in_dedup_name m s : In (MName s) (map snd (dedup_nones m)) <-> In s (names m).
Proof.
  induction m as [|[k [x|]] r IH]; simpl; [tauto| |].
  - rewrite IH. split; intros [H|H]; auto; left; congruence.
  - rewrite IH. split; [intros [H|H]; [discriminate|exact H]|auto].
Qed.

Lemma in_dedup_off m k : In (MOff k) (map snd (dedup_nones m)) -> In k (map fst m).
Proof.
  induction m as [|[k' [x|]] r IH]; simpl; [tauto| |].
  - intros [H|H]; [discriminate|right; exact (IH H)].
  - intros [H|H]; [left; congruence|right; exact (IH H)].
Qed.

Lemma dedup_nodup_names m : NoDup (map snd (dedup_nones m)) -> NoDup (names m).
Proof.
  induction m as [|[k [x|]] r IH]; simpl; [constructor| |]; intros Hn; inversion Hn as [|? ? Hx Hr]; subst.
  - constructor; [|exact (IH Hr)]. intros Hi. apply Hx. now apply in_dedup_name.
  - exact (IH Hr).
Qed.

Lemma names_nodup_dedup m : NoDup (map fst m) -> NoDup (names m) -> NoDup (map snd (dedup_nones m)).
Proof.
  induction m as [|[k [x|]] r IH]; simpl; [constructor| |]; intros Hk Hn; inversion Hk as [|? ? Hkx Hkr]; subst.
  - inversion Hn as [|? ? Hx Hr]; subst. constructor; [|exact (IH Hkr Hr)].
    intros Hi. apply Hx. now apply in_dedup_name.
  - constructor; [|exact (IH Hkr Hn)]. intros Hi. apply Hkx. now apply in_dedup_off.
Qed.

(* two keys, one name: refused, and the workflow is untouched *)
Theorem set_map_rejects st d m :
  ~ NoDup (names m) -> set_map st d (Some m) = (st, RExc DupErr).
Proof.
  intros H. unfold set_map, sanitize.
  destruct (nodupb mval_eqb (map snd (dedup_nones m))) eqn:E; [|reflexivity].
  exfalso. apply H. apply dedup_nodup_names. now apply dedup_nones_snd_nodup.
Qed.

(* distinct names -- with as many None as one likes -- are accepted and stored as given *)
Theorem set_map_accepts st d m :
  NoDup (map fst m) -> NoDup (names m) ->
  set_map st d (Some m) = (set_kmap st d (Some (dedup_nones m)), ROk).
Proof.
  intros Hk Hn. unfold set_map, sanitize.
  assert (E : nodupb mval_eqb (map snd (dedup_nones m)) = true).
  { apply (nodupb_NoDup mval_eqb _ mval_eqb_eq). now apply names_nodup_dedup. }
  now rewrite E.
Qed.

Theorem set_map_none st d : set_map st d None = (set_kmap st d None, ROk).
Proof. reflexivity. Qed.

Theorem set_map_total st d m :
  set_map st d m = (st, RExc DupErr) \/ exists km, sanitize m = Some km /\ set_map st d m = (set_kmap st d km, ROk).
Proof. unfold set_map. destruct (sanitize m) as [km|]; [right; now exists km|now left]. Qed.

(* what a stored map does to a key *)
Lemma lookup_dedup m k :
  NoDup (map fst m) ->
  lookup_map (Some (dedup_nones m)) k =
  match assoc String.eqb k m with
  | Some (Some s) => Some (MName s)
  | Some None => Some (MOff k)
  | None => None
  end.
Proof.
  intros _. simpl. induction m as [|[k' v] r IH]; simpl; [reflexivity|].
  destruct (String.eqb k k') eqn:E; [|exact IH].
  apply String.eqb_eq in E. subst. now destruct v.
Qed.

(* ---- availability: when is the panel a dictionary at all? -------------------------------------------- *)
Definition good_labels (st : wf) : Prop := forall c, In c (w_children st) -> good (c_label c) = true.

(* no name handed out by the map is also the default key of an exposed, unmapped channel *)
Definition no_shadow (st : wf) (d : dir) : Prop :=
  forall c l id c' l' id' s,
    In c (w_children st) -> In (l, id) (chans d c) ->
    lookup_map (kmap_of st d) (scoped (c_label c) l) = Some (MName s) ->
    In c' (w_children st) -> In (l', id') (chans d c') ->
    lookup_map (kmap_of st d) (scoped (c_label c') l') = None -> connected st id' = false ->
    s <> scoped (c_label c') l'.

Definition triples (st : wf) (d : dir) : list (string * (string * nat)) :=
  flat_map (fun c => map (fun e => (c_label c, e)) (chans d c)) (w_children st).

Definition tkey (st : wf) (d : dir) (t : string * (string * nat)) : option (string * nat) :=
  match ekey st (kmap_of st d) (fst t) (snd t) with Some k => Some (k, snd (snd t)) | None => None end.

Fixpoint filter_map {A B} (f : A -> option B) (l : list A) : list B :=
  match l with [] => [] | x :: r => match f x with Some y => y :: filter_map f r | None => filter_map f r end end.

Lemma filter_map_app {A B} (f : A -> option B) a b : filter_map f (a ++ b) = (filter_map f a ++ filter_map f b)%list.
Proof. induction a as [|x r IH]; simpl; [reflexivity|]. destruct (f x); simpl; now rewrite IH. Qed.

Lemma in_filter_map {A B} (f : A -> option B) l y : In y (filter_map f l) <-> exists x, In x l /\ f x = Some y.
Proof.
  induction l as [|x r IH]; simpl; [split; [tauto|intros (x & [] & _)]|].
  destruct (f x) as [y0|] eqn:E; simpl; rewrite IH; split.
  - intros [<-|(x' & Hx & Hf)]; [exists x; auto|exists x'; auto].
  - intros (x' & [<-|Hx] & Hf); [left; congruence|right; exists x'; auto].
  - intros (x' & Hx & Hf). exists x'; auto.
  - intros (x' & [<-|Hx] & Hf); [congruence|exists x'; auto].
Qed.

Lemma entries_as_filter_map st d : entries st d = filter_map (tkey st d) (triples st d).
Proof.
  unfold entries, entries_children, triples. induction (w_children st) as [|c r IH]; simpl; [reflexivity|].
  rewrite filter_map_app, IH. f_equal.
  induction (chans d c) as [|e r' IH']; simpl; [reflexivity|].
  unfold tkey at 1; simpl. destruct (ekey st (kmap_of st d) (c_label c) e); simpl; now rewrite IH'.
Qed.

Lemma nodup_filter_map_keys {A K V} (f : A -> option (K * V)) (l : list A) :
  NoDup l ->
  (forall x y k v v', In x l -> In y l -> f x = Some (k, v) -> f y = Some (k, v') -> x = y) ->
  NoDup (map fst (filter_map f l)).
Proof.
  induction l as [|x r IH]; simpl; [constructor|].
  intros Hn Hinj. inversion Hn as [|? ? Hx Hr]; subst.
  assert (Hrec : NoDup (map fst (filter_map f r))).
  { apply IH; [exact Hr|]. intros a b k v v' Ha Hb. apply Hinj; now right. }
  destruct (f x) as [[k v]|] eqn:E; simpl; [|exact Hrec].
  constructor; [|exact Hrec]. intros Hi. apply in_map_iff in Hi as ([k' v'] & Ek & Hi). simpl in Ek. subst k'.
  apply in_filter_map in Hi as (y & Hy & Hf).
  assert (x = y) by (eapply Hinj; eauto). subst y. tauto.
Qed.

Lemma triples_in st d cl l id :
  In (cl, (l, id)) (triples st d) <-> exists c, In c (w_children st) /\ c_label c = cl /\ In (l, id) (chans d c).
Proof.
  unfold triples. rewrite in_flat_map. split.
  - intros (c & Hc & Hi). apply in_map_iff in Hi as (e & E & He). inversion E; subst. exists c. auto.
  - intros (c & Hc & <- & Hl). exists c. split; [exact Hc|]. apply in_map_iff. now exists (l, id).
Qed.

Lemma triples_nodup st d : wfs st -> NoDup (triples st d).
Proof.
  intros W. apply (NoDup_map_inv (fun t => snd (snd t))).
  unfold triples. rewrite flat_map_concat_map, concat_map, map_map, <- flat_map_concat_map.
  apply (nodup_flat_map_sub child_ids); [|exact (wf_ids _ W)].
  intros c Hc. rewrite map_map; simpl. pose proof (nodup_flat_map_inner _ _ _ (wf_ids _ W) Hc) as Hn.
  unfold child_ids in *. apply nodup_app_iff in Hn as (Hi & Ho & _).
  destruct d; simpl; (split; [intros x Hx; apply in_or_app; auto|assumption]).
Qed.

(* with good child labels and no shadowing name the access always succeeds *)
Theorem available st d :
  wfs st -> good_labels st -> no_shadow st d -> exists p, build_io st d = Some p.
Proof.
  intros W G S. exists (entries st d). apply build_io_some. split; [reflexivity|].
  rewrite entries_as_filter_map. apply nodup_filter_map_keys; [now apply triples_nodup|].
  intros [cl [l id]] [cl' [l' id']] k v v' Hx Hy Fx Fy.
  apply triples_in in Hx as (c & Hc & <- & Hl). apply triples_in in Hy as (c' & Hc' & <- & Hl').
  unfold tkey in Fx, Fy; simpl in Fx, Fy.
  destruct (ekey st (kmap_of st d) (c_label c) (l, id)) as [k1|] eqn:E1; [|discriminate].
  destruct (ekey st (kmap_of st d) (c_label c') (l', id')) as [k2|] eqn:E2; [|discriminate].
  inversion Fx; inversion Fy; subst. clear Fx Fy.
  apply ekey_spec in E1, E2.
  assert (Hsame : scoped (c_label c) l = scoped (c_label c') l' -> (c_label c, (l, v)) = (c_label c', (l', v'))).
  { intros E. destruct (scoped_inj_good _ _ _ _ (G c Hc) (G c' Hc') E) as [El ->].
    assert (c = c') by (eapply nodup_map_elem_inj; eauto using wf_labels). subst c'.
    assert (v = v'); [|now subst].
    destruct (wf_chl _ W c Hc) as [Hi Ho].
    destruct d; simpl in Hl, Hl'; [exact (nodup_fst_inj _ _ _ _ Hi Hl Hl')|exact (nodup_fst_inj _ _ _ _ Ho Hl Hl')]. }
  destruct E1 as [E1|(E1 & C1 & K1)], E2 as [E2|(E2 & C2 & K2)].
  - apply Hsame. assert (Hm : map_ok (kmap_of st d)) by (destruct d; [apply (wf_im _ W)|apply (wf_om _ W)]).
    unfold lookup_map in *. destruct (kmap_of st d) as [lm|]; [|discriminate].
    exact (assoc_values_inj lm _ _ _ Hm E1 E2).
  - exfalso. exact (S c l v c' l' v' k Hc Hl E1 Hc' Hl' E2 C2 K2).
  - exfalso. exact (S c' l' v' c l v k Hc' Hl' E2 Hc Hl E1 C1 K1).
  - apply Hsame. congruence.
Qed.

(* without a map, good labels alone are enough *)
Corollary available_nomap st d :
  wfs st -> good_labels st -> kmap_of st d = None -> exists p, build_io st d = Some p.
Proof.
  intros W G N. apply available; try assumption.
  intros c l id c' l' id' s _ _ H. rewrite N in H. discriminate.
Qed.

(* ---- the access fails exactly when two different channels claim one key ------------------------------ *)
Lemma dup_key_witness {V} (l : list (string * V)) :
  NoDup (map snd l) -> ~ NoDup (map fst l) ->
  exists k a b, a <> b /\ In (k, a) l /\ In (k, b) l.
Proof.
  induction l as [|[k a] r IH]; simpl; intros Hs Hf.
  - exfalso. apply Hf. constructor.
  - inversion Hs as [|? ? Ha Hr]; subst.
    destruct (in_dec string_dec k (map fst r)) as [Hk|Hk].
    + apply in_map_iff in Hk as ([k' b] & E & Hb). simpl in E. subst k'.
      exists k, a, b. repeat split; [|now left|now right].
      intros ->. apply Ha. change b with (snd (k, b)). now apply in_map.
    + destruct (IH Hr) as (k0 & x & y & Hxy & Hx & Hy).
      * intros Hn. apply Hf. now constructor.
      * exists k0, x, y. auto.
Qed.

Lemma nodup_map_filter_map {A B C} (f : A -> option B) (g : A -> C) (h : B -> C) (l : list A) :
  (forall x y, f x = Some y -> h y = g x) -> NoDup (map g l) -> NoDup (map h (filter_map f l)).
Proof.
  intros Hfg. induction l as [|x r IH]; simpl; [constructor|].
  intros Hn. inversion Hn as [|? ? Hx Hr]; subst.
  destruct (f x) as [y|] eqn:E; simpl; [|exact (IH Hr)].
  constructor; [|exact (IH Hr)]. rewrite (Hfg _ _ E). intros Hi. apply Hx.
  apply in_map_iff in Hi as (y' & Ey & Hy'). apply in_filter_map in Hy' as (x' & Hx' & Fx').
  rewrite (Hfg _ _ Fx') in Ey. rewrite <- Ey. now apply in_map.
Qed.

Lemma entries_ids_nodup st d : wfs st -> NoDup (map snd (entries st d)).
Proof.
  intros W. rewrite entries_as_filter_map.
  apply (nodup_map_filter_map (tkey st d) (fun t => snd (snd t)) snd).
  - intros [cl [l id]] [k id'] H. unfold tkey in H; simpl in H.
    destruct (ekey st (kmap_of st d) cl (l, id)); [|discriminate]. now inversion H.
  - unfold triples. rewrite flat_map_concat_map, concat_map, map_map, <- flat_map_concat_map.
    apply (nodup_flat_map_sub child_ids); [|exact (wf_ids _ W)].
    intros c Hc. rewrite map_map; simpl. pose proof (nodup_flat_map_inner _ _ _ (wf_ids _ W) Hc) as Hn.
    unfold child_ids in *. apply nodup_app_iff in Hn as (Hi & Ho & _).
    destruct d; simpl; (split; [intros x Hx; apply in_or_app; auto|assumption]).
Qed.

Theorem unavailable_iff_collision st d :
  wfs st ->
  (build_io st d = None <->
   exists k id id', id <> id' /\ exposes st d k id /\ exposes st d k id').
Proof.
  intros W. rewrite build_io_none. split.
  - intros H. destruct (dup_key_witness _ (entries_ids_nodup st d W) H) as (k & a & b & Hab & Ha & Hb).
    exists k, a, b. repeat split; [exact Hab| |]; now apply entries_char.
  - intros (k & a & b & Hab & Ha & Hb) Hn. apply entries_char in Ha, Hb.
    apply Hab. exact (nodup_fst_inj _ _ _ _ Hn Ha Hb).
Qed.

(* histories on a workflow built without maps (used by the witnesses of Props/C15.v) *)
Definition hist (ops : list op) : wf := run_ops (init_wf None None) ops.

Lemma hist_reachable ops : reachable (hist ops).
Proof. exists None, None, None, None, ops. repeat split. Qed.

(* ---- connecting through the panel, and when run does return ------------------------------------------- *)
Lemma memb_pair_In p l : memb pair_eqb p l = true -> In p l.
Proof.
  induction l as [|q r IH]; simpl; [discriminate|]. rewrite orb_true_iff. intros [H|H]; [left|right; exact (IH H)].
  unfold pair_eqb in H. apply andb_true_iff in H as [H1 H2]. apply Nat.eqb_eq in H1, H2.
  destruct p, q; simpl in *; congruence.
Qed.

Lemma connect_ids_in st i o : In (i, o) (w_conns (connect_ids st i o)).
Proof.
  unfold connect_ids. destruct (memb pair_eqb (i, o) (w_conns st)) eqn:E; [now apply memb_pair_In|now left].
Qed.

Theorem wconnect_through st key oc ol st' :
  wconnect st key oc ol = (st', ROk) ->
  exists p id o, build_io st DIn = Some p /\ In (key, id) p /\ find_chan st DOut oc ol = Some o /\
    In (id, o) (w_conns st') /\ connected st' id = true /\ same_struct st st'.
Proof.
  unfold wconnect. destruct (find_chan st DOut oc ol) as [o|]; [|discriminate].
  destruct (build_io st DIn) as [p|]; [|discriminate].
  destruct (assoc String.eqb key p) as [id|] eqn:A; [|discriminate].
  intros [= <-]. exists p, id, o. repeat split; try reflexivity; try apply connect_ids_struct.
  - now apply assoc_In.
  - apply connect_ids_in.
  - unfold connected. apply existsb_exists. exists (id, o). split; [apply connect_ids_in|].
    unfold touches; simpl. now rewrite Nat.eqb_refl.
Qed.

Lemma cyclic_same a b : same_graph a b -> cyclic b = cyclic a.
Proof. intros ((E1 & _) & E5). unfold cyclic, edges. now rewrite E1, E5. Qed.

(* run returns a dictionary whenever both panels can be read, the keywords name inputs and the
   data graph of the children is acyclic *)
Theorem run_returns st kw p :
  build_io st DIn = Some p -> (forall kv, In kv kw -> In (fst kv) (map fst p)) ->
  cyclic st = false -> build_io st DOut <> None ->
  exists st' ret, run_wf st kw = (st', RRet ret).
Proof.
  intros Hp Hk Hc Ho. unfold run_wf. rewrite Hp.
  assert (E : forallb (fun kv => mems (fst kv) (map fst p)) kw = true).
  { apply forallb_forall. intros kv Hi. apply mems_In. now apply Hk. }
  rewrite E; simpl. pose proof (assign_all_graph st p kw) as G1. set (st1 := assign_all st p kw) in *.
  rewrite (cyclic_same _ _ G1), Hc.
  destruct (match w_cache st1 with Some c => dict_eqb (value_dict st1 p) c | None => false end).
  - rewrite (build_io_same _ _ DOut G1). destruct (build_io st DOut) as [po|]; [|tauto]. eauto.
  - rewrite (build_io_same _ _ DOut (same_graph_trans _ _ _ G1 (execute_graph st1))).
    destruct (build_io st DOut) as [po|]; [|tauto]. eauto.
Qed.

(* ---- in-place edits of a stored map ---------------------------------------------------------------- *)
Lemma del_in {B} k (l : list (string * B)) k' v :
  In (k', v) (del String.eqb k l) <-> In (k', v) l /\ k' <> k.
Proof.
  induction l as [|[k0 v0] r IH]; simpl; [tauto|].
  destruct (String.eqb k k0) eqn:E.
  - apply String.eqb_eq in E. subst k0. rewrite IH. split; [tauto|].
    intros [[H|H] Hn]; [inversion H; subst; tauto|tauto].
  - apply String.eqb_neq in E. simpl. rewrite IH. split.
    + intros [H|H]; [inversion H; subst; split; [now left|congruence]|tauto].
    + tauto.
Qed.

Lemma assoc_del_other {B} k k' (l : list (string * B)) :
  k' <> k -> assoc String.eqb k' (del String.eqb k l) = assoc String.eqb k' l.
Proof.
  intros Hn. induction l as [|[k0 v0] r IH]; simpl; [reflexivity|].
  destruct (String.eqb k k0) eqn:E.
  - apply String.eqb_eq in E. subst k0. destruct (String.eqb k' k) eqn:E'; [apply String.eqb_eq in E'; tauto|exact IH].
  - simpl. destruct (String.eqb k' k0); [reflexivity|exact IH].
Qed.

Lemma assoc_put_at_same l k v : assoc String.eqb k (put_at l k v) = Some v.
Proof.
  induction l as [|[k0 v0] r IH]; simpl; [now rewrite String.eqb_refl|].
  destruct (String.eqb k k0) eqn:E; simpl; [now rewrite String.eqb_refl|now rewrite E].
Qed.

Lemma assoc_put_at_other l k k' v : k' <> k -> assoc String.eqb k' (put_at l k v) = assoc String.eqb k' l.
Proof.
  intros Hn. induction l as [|[k0 v0] r IH]; simpl.
  - destruct (String.eqb k' k) eqn:E; [apply String.eqb_eq in E; tauto|reflexivity].
  - destruct (String.eqb k k0) eqn:E; simpl.
    + apply String.eqb_eq in E. subst k0.
      destruct (String.eqb k' k) eqn:E'; [apply String.eqb_eq in E'; tauto|now apply assoc_del_other].
    + destruct (String.eqb k' k0); [reflexivity|exact IH].
Qed.

(* a name another key already carries: refused, nothing changes *)
Theorem map_setitem_rejects st d l k k' s :
  kmap_of st d = Some l -> In (k', MName s) l -> k' <> k ->
  exists e, map_setitem st d k (Some s) = (st, RExc e) /\ (e = DupErr \/ e = KVDupErr).
Proof.
  intros Hm Hi Hn. unfold map_setitem, put. rewrite Hm. simpl.
  assert (E : memb mval_eqb (MName s) (map snd (del String.eqb k l)) = true).
  { apply memb_mval. change (MName s) with (snd (k', MName s)). apply in_map. now apply del_in. }
  rewrite E. eexists. split; [reflexivity|]. unfold dup_exc. destruct (mems k (map fst l)); auto.
Qed.

(* otherwise the key now carries the value, where it stood or at the end, and no other key moves *)
Theorem map_setitem_accepts st d l k v :
  kmap_of st d = Some l -> (forall k', k' <> k -> ~ In (k', mv k v) l) ->
  map_setitem st d k v = (set_kmap st d (Some (put_at l k (mv k v))), ROk) /\
  lookup_map (Some (put_at l k (mv k v))) k = Some (mv k v) /\
  (forall k', k' <> k -> lookup_map (Some (put_at l k (mv k v))) k' = lookup_map (Some l) k').
Proof.
  intros Hm Hfree. unfold map_setitem, put. rewrite Hm.
  assert (E : memb mval_eqb (mv k v) (map snd (del String.eqb k l)) = false).
  { destruct (memb mval_eqb (mv k v) (map snd (del String.eqb k l))) eqn:E; [|reflexivity].
    apply memb_mval, in_map_iff in E as ([k' v'] & Ev & Hi). simpl in Ev. subst v'.
    apply del_in in Hi as [Hi Hn]. exfalso. exact (Hfree k' Hn Hi). }
  rewrite E. split; [reflexivity|]. split; [apply assoc_put_at_same|].
  intros k' Hn. now apply assoc_put_at_other.
Qed.

(* whatever an in-place edit is given, a refusal leaves the workflow untouched *)
Theorem map_edit_refused_unchanged st d :
  (forall k v st' e, map_setitem st d k v = (st', RExc e) -> st' = st) /\
  (forall k st' e, map_delitem st d k = (st', RExc e) -> st' = st) /\
  (forall ps st' e, map_update st d ps = (st', RExc e) -> st' = st).
Proof.
  unfold map_setitem, map_delitem, map_update. repeat split; intros *.
  - destruct (kmap_of st d) as [l|]; [|now intros [= <-]].
    destruct (put l k (mv k v)); [discriminate|now intros [= <-]].
  - destruct (kmap_of st d) as [l|]; [|now intros [= <-]].
    destruct (mems k (map fst l)); [discriminate|now intros [= <-]].
  - destruct (kmap_of st d) as [l|]; [|now intros [= <-]].
    destruct (put_all l ps); [discriminate|now intros [= <-]].
Qed.

(* ---- leaving by parent assignment; keyword assignment ------------------------------------------------ *)
(* whichever way a child leaves (remove_child, parent = None, parent = another workflow), it is
   gone from the children and no connection of the workflow touches its channels any more *)
Theorem leave_disconnects st l c cs :
  take_child l (w_children st) = Some (c, cs) ->
  leave st l = remove_child st l /\
  snd (leave st l) = ROk /\
  w_children (fst (leave st l)) = cs /\
  (forall p, In p (w_conns (fst (leave st l))) <->
             In p (w_conns st) /\ ~ In (fst p) (child_ids c) /\ ~ In (snd p) (child_ids c)) /\
  (forall id, In id (child_ids c) -> connected (fst (leave st l)) id = false).
Proof.
  intros T. unfold leave, remove_child. rewrite T. simpl. repeat split; try tauto.
  - apply filter_In in H as [H _]. exact H.
  - apply filter_In in H as [_ H]. apply negb_true_iff, orb_false_iff in H as [H _].
    intros Hi. apply memn_In in Hi. congruence.
  - apply filter_In in H as [_ H]. apply negb_true_iff, orb_false_iff in H as [_ H].
    intros Hi. apply memn_In in Hi. congruence.
  - intros (H1 & H2 & H3). apply filter_In. split; [exact H1|]. apply negb_true_iff, orb_false_iff.
    split; [destruct (memn (fst p) (child_ids c)) eqn:E|destruct (memn (snd p) (child_ids c)) eqn:E];
      try reflexivity; apply memn_In in E; tauto.
  - intros id Hid. unfold connected; simpl.
    destruct (existsb (touches id) _) eqn:E; [|reflexivity]. exfalso.
    apply existsb_exists in E as (p & Hp & Ht). apply filter_In in Hp as [_ Hp].
    apply negb_true_iff, orb_false_iff in Hp as [Ha Hb].
    unfold touches in Ht. apply orb_true_iff in Ht as [Ht|Ht]; apply Nat.eqb_eq in Ht; subst id;
      apply memn_In in Hid; congruence.
Qed.

Lemma assign_all_keeps st p kw id :
  (forall k v, In (k, v) kw -> assoc String.eqb k p <> Some id) ->
  val (assign_all st p kw) id = val st id.
Proof.
  revert st. induction kw as [|[k v] r IH]; intros st H; simpl; [reflexivity|].
  assert (Hr : forall k0 v0, In (k0, v0) r -> assoc String.eqb k0 p <> Some id)
    by (intros k0 v0 Hi; apply (H k0 v0); now right).
  destruct (assoc String.eqb k p) as [id0|] eqn:A; [|now apply IH].
  rewrite (IH _ Hr). unfold val, set_val; simpl. apply assoc_upd_other.
  intros ->. exact (H k v (or_introl eq_refl) A).
Qed.

(* every keyword reaches the child channel under that key: the very value (number AND type) *)
Lemma assign_all_reaches st p kw k v id :
  NoDup (map fst kw) -> NoDup (map snd p) -> In (k, v) kw -> assoc String.eqb k p = Some id ->
  val (assign_all st p kw) id = Some v.
Proof.
  revert st. induction kw as [|[k0 v0] r IH]; intros st Hk Hp Hi A; simpl; [destruct Hi|].
  inversion Hk as [|? ? Hx Hr]; subst. destruct Hi as [Hi|Hi].
  - inversion Hi; subst. rewrite A. rewrite assign_all_keeps.
    + unfold val, set_val; simpl. apply assoc_upd_same.
    + intros k' v' Hi' A'. apply Hx.
      assert (k' = k) by (exact (nodup_snd_inj _ _ _ _ Hp (assoc_In _ _ _ A') (assoc_In _ _ _ A))).
      subst k'. change k with (fst (k, v')). now apply in_map.
  - destruct (assoc String.eqb k0 p); now apply IH.
Qed.

Theorem set_inputs_through st kw st' :
  wfs st -> NoDup (map fst kw) -> set_inputs st kw = (st', ROk) ->
  same_graph st st' /\
  exists p, build_io st DIn = Some p /\
    forall k v, In (k, v) kw -> exists id, In (k, id) p /\ val st' id = Some v.
Proof.
  intros W Hk. unfold set_inputs. destruct (build_io st DIn) as [p|] eqn:E; [|discriminate].
  destruct (forallb (fun kv => mems (fst kv) (map fst p)) kw) eqn:F; simpl; [|discriminate].
  intros [= <-]. split; [apply assign_all_graph|]. exists p. split; [reflexivity|].
  intros k v Hi. rewrite forallb_forall in F. pose proof (F _ Hi) as Hm. simpl in Hm.
  apply mems_In, in_map_iff in Hm as ([k' id] & Ek & Hp). simpl in Ek. subst k'.
  apply build_io_some in E as [-> Hn]. exists id. split; [exact Hp|].
  apply assign_all_reaches with (k := k); try assumption.
  - now apply entries_ids_nodup.
  - now apply In_assoc_nodup.
Qed.

(* ---- item access: panel[key] ------------------------------------------------------------------------ *)
(* wf.inputs[key].value = v reaches exactly the channel the panel holds under key, whatever the key
   is called (a name of one of the panel's own attributes included) *)
Theorem item_assign_through st key v st' :
  item_assign st key v = (st', ROk) ->
  exists p id, build_io st DIn = Some p /\ In (key, id) p /\
    val st' id = Some v /\ (forall id', id' <> id -> val st' id' = val st id') /\ same_graph st st'.
Proof.
  unfold item_assign. destruct (build_io st DIn) as [p|] eqn:E; [|discriminate].
  destruct (assoc String.eqb key p) as [id|] eqn:A; [|discriminate].
  intros [= <-]. exists p, id. split; [reflexivity|]. split; [now apply assoc_In|].
  unfold val, set_val; simpl. split; [apply assoc_upd_same|]. split; [|repeat split].
  intros id' Hne. now apply assoc_upd_other.
Qed.

Theorem wconnect2_through st key okey st' :
  wconnect2 st key okey = (st', ROk) ->
  exists p po id o, build_io st DIn = Some p /\ build_io st DOut = Some po /\
    In (key, id) p /\ In (okey, o) po /\ In (id, o) (w_conns st') /\
    connected st' id = true /\ connected st' o = true /\ same_struct st st'.
Proof.
  unfold wconnect2. destruct (build_io st DOut) as [po|]; [|discriminate].
  destruct (assoc String.eqb okey po) as [o|] eqn:B; [|discriminate].
  destruct (build_io st DIn) as [p|]; [|discriminate].
  destruct (assoc String.eqb key p) as [id|] eqn:A; [|discriminate].
  intros [= <-]. exists p, po, id, o. repeat split; try reflexivity; try apply connect_ids_struct.
  - now apply assoc_In.
  - now apply assoc_In.
  - apply connect_ids_in.
  - unfold connected. apply existsb_exists. exists (id, o). split; [apply connect_ids_in|].
    unfold touches; simpl. now rewrite Nat.eqb_refl.
  - unfold connected. apply existsb_exists. exists (id, o). split; [apply connect_ids_in|].
    unfold touches; simpl. rewrite Nat.eqb_refl. apply orb_true_r.
Qed.
