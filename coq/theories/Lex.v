(* Lex.v -- executable model of the ownership code of pyiron_workflow (property C13):
     mixin/lexical.py   Lexical._set_parent, lexical_path, _ensure_path_is_not_cyclic,
                        LexicalParent.add_child / remove_child / _get_unique_label /
                        _add_suffix_to_label and the bidict holding the children
     nodes/composite.py Composite.add_child / remove_child / replace_child / __setattr__
     workflow.py        Workflow.parent (setter refuses everything but None)
     node.py            Node(label=, parent=) construction
   The functions follow the Python statement by statement, in source order, so that
   a state left behind by an exception raised half way is the state the code leaves.
   Node identities are [nat], labels are [string]s (suffixing and lexical_path are string
   arithmetic); the cyclic test walks the parent pointers looking for the child object
   itself.  Stdlib only. *)
From PW Require Import Base.
From Coq Require Import DecimalString Ascii.
Open Scope nat_scope.
Notation "a +++ b" := (String.append a b) (right associativity, at level 60).

Inductive kind := Leaf | Macro | Wf.

(* Python exception classes the anchored code can raise *)
Inductive err :=
| ECyclic      (* CyclicPathError *)
| EValue       (* ValueError *)
| EAttribute   (* AttributeError *)
| EKey         (* KeyError *)
| EParentMost  (* ParentMostError *)
| ERecursion   (* RecursionError; in the model: fuel exhausted *)
| EValDup      (* bidict.ValueDuplicationError *)
| EKeyValDup.  (* bidict.KeyAndValueDuplicationError *)

Inductive result := Ok | Err (e : err) | Skip.

Definition bd := list (string * nat).   (* a bidict label <-> child, in iteration order *)

Record state := mkS {
  lbl  : nat -> string;          (* node._label *)
  par  : nat -> option nat;      (* node._parent *)
  kids : nat -> bd;              (* composite._children *)
  strt : nat -> list nat         (* composite.starting_nodes *)
}.

Definition set_lbl (s : state) (n : nat) (v : string) : state :=
  mkS (fun m => if m =? n then v else lbl s m) (par s) (kids s) (strt s).
Definition set_par (s : state) (n : nat) (v : option nat) : state :=
  mkS (lbl s) (fun m => if m =? n then v else par s m) (kids s) (strt s).
Definition set_kids (s : state) (n : nat) (v : bd) : state :=
  mkS (lbl s) (par s) (fun m => if m =? n then v else kids s m) (strt s).
Definition set_strt (s : state) (n : nat) (v : list nat) : state :=
  mkS (lbl s) (par s) (kids s) (fun m => if m =? n then v else strt s m).

(* ---- the bidict ----------------------------------------------------------------- *)
Fixpoint key_get (k : string) (l : bd) : option nat :=
  match l with [] => None | (k', v) :: r => if String.eqb k k' then Some v else key_get k r end.
Fixpoint val_key (c : nat) (l : bd) : option string :=
  match l with [] => None | (k, v) :: r => if v =? c then Some k else val_key c r end.
Definition key_mem (k : string) (l : bd) : bool := match key_get k l with Some _ => true | None => false end.
Definition val_mem (c : nat) (l : bd) : bool := match val_key c l with Some _ => true | None => false end.
Fixpoint key_pop (k : string) (l : bd) : bd :=
  match l with [] => [] | (k', v) :: r => if String.eqb k k' then r else (k', v) :: key_pop k r end.
Fixpoint val_pop (c : nat) (l : bd) : bd :=
  match l with [] => [] | (k, v) :: r => if v =? c then r else (k, v) :: val_pop c r end.
Fixpoint key_set (k : string) (c : nat) (l : bd) : bd :=
  match l with [] => [] | (k', v) :: r => if String.eqb k k' then (k, c) :: r else (k', v) :: key_set k c r end.

(* bidict.__setitem__ with the default on_dup (key: DROP_OLD, value: RAISE) *)
Definition bd_put (k : string) (c : nat) (l : bd) : bd + err :=
  match key_get k l, val_key c l with
  | Some _, Some k0 => if String.eqb k k0 then inl l else inr EKeyValDup
  | Some _, None => inl (key_set k c l)
  | None, Some _ => inr EValDup
  | None, None => inl (l ++ [(k, c)])
  end.

Fixpoint has_slash (s : string) : bool :=
  match s with EmptyString => false | String ch r => Ascii.eqb ch "/"%char || has_slash r end.

Definition nat_str (i : nat) : string := NilEmpty.string_of_uint (Nat.to_uint i).

Definition oeqb (a b : option nat) : bool :=
  match a, b with None, None => true | Some x, Some y => x =? y | _, _ => false end.

(* ---- operations of a history ------------------------------------------------------ *)
Inductive op :=
| AddChild (p c : nat) (lb : option string) (sn : option bool)   (* p.add_child(c, label=, strict_naming=) *)
| SetAttr (p : nat) (k : string) (c : nat)                       (* setattr(p, k, c) *)
| NewNode (c : nat) (l : string) (p : nat)                       (* c = Cls(label=l, parent=p) *)
| SetParent (c : nat) (np : option nat)                          (* c.parent = np *)
| RemoveI (p c : nat)                                            (* p.remove_child(c) *)
| RemoveL (p : nat) (l : string)                                 (* p.remove_child(l) *)
| ReplaceI (p o r : nat)                                         (* p.replace_child(o, r) *)
| ReplaceL (p : nat) (l : string) (r : nat)                      (* p.replace_child(l, r) *)
| SetStart (p c : nat).                                          (* p.starting_nodes.append(c) for a child c *)

Section Lex.
Variable kindof : nat -> kind.                 (* class of each object *)
Variable strictof : nat -> bool.               (* composite.strict_naming *)
Variable reserved : kind -> string -> bool.    (* label is an attribute of the composite (instance __dict__ or class), children aside *)
Variable N : nat.                              (* objects 0..N-1 are observed *)
Variable pfuel : nat.                          (* bound for the ancestor walk, the suffix search, lexical_path *)

Definition is_comp (n : nat) : bool := match kindof n with Leaf => false | _ => true end.
Definition is_wf (n : nat) : bool := match kindof n with Wf => true | _ => false end.

(* Lexical.lexical_path *)
Fixpoint path (g : nat) (s : state) (n : nat) : option string :=
  match g with
  | 0 => None
  | S g' =>
      match par s n with
      | None => Some ("/" +++ lbl s n)
      | Some p => match path g' s p with
                  | Some pp => Some (pp +++ "/" +++ lbl s n)
                  | None => None
                  end
      end
  end.

(* _ensure_path_is_not_cyclic(parent, child): walk from [a] up the parents looking for the
   object [c] itself.  Some true = found, Some false = reached a root, None = bound g hit
   (a cyclic parent chain: the Python loop would not end) *)
Fixpoint walk (g : nat) (s : state) (a : option nat) (c : nat) : option bool :=
  match a with
  | None => Some false
  | Some x =>
      match g with
      | 0 => None
      | S g' => if x =? c then Some true else walk g' s (par s x) c
      end
  end.

(* None = passes *)
Definition cyclic (s : state) (a : option nat) (c : nat) : option err :=
  match walk pfuel s a c with
  | Some true => Some ECyclic
  | Some false => None
  | None => Some ERecursion
  end.

(* label in self.__dir__() *)
Definition in_dir (s : state) (p : nat) (l : string) : bool :=
  reserved (kindof p) l || key_mem l (kids s p).

(* self.child_labels *)
Definition child_labels (s : state) (p : nat) : list string :=
  map (fun kc => lbl s (snd kc)) (kids s p).

(* _add_suffix_to_label: i = 0; new = label; while new in dir: new = f"{label}{i}"; i += 1 *)
Fixpoint suffix (g : nat) (s : state) (p : nat) (l : string) (i : nat) (cur : string) : option string :=
  match g with
  | 0 => if in_dir s p cur then None else Some cur
  | S g' => if in_dir s p cur then suffix g' s p l (S i) (l +++ nat_str i) else Some cur
  end.

(* _get_unique_label *)
Definition unique_label (s : state) (p : nat) (l : string) (st : bool) : string + err :=
  if in_dir s p l then
    if mems l (child_labels s p) then
      if st then inr EAttribute
      else match suffix pfuel s p l 0 l with Some l' => inl l' | None => inr ERecursion end
    else inr EAttribute
  else inl l.

(* _this_child_is_already_at_this_label *)
Definition already_here (s : state) (p c : nat) (l : string) : bool + err :=
  if String.eqb l (lbl s c) && mems l (child_labels s p) then
    match key_get l (kids s p) with Some v => inl (v =? c) | None => inr EKey end
  else inl false.

(* Lexical._set_parent (Workflow.parent for workflows), LexicalParent/Composite.add_child,
   LexicalParent/Composite.remove_child call each other; each body is written against the
   functions it calls (RC/AC/SP), the knot is tied below with a bound f on the nesting. *)
Definition sp_body (RC : state -> nat -> string + nat -> state * result)
                   (AC : state -> nat -> nat -> option string -> option bool -> state * result)
                   (s : state) (c : nat) (np : option nat) : state * result :=
  if is_wf c then                                     (* Workflow.parent setter = Workflow._check_parent *)
    match np with None => (s, Ok) | Some _ => (s, Err EParentMost) end
  else if oeqb np (par s c) then (s, Ok)              (* new_parent is self._parent *)
  else if (match np with Some q => negb (is_comp q) | None => false end) then (s, Err EValue)   (* _check_parent *)
  else
    match cyclic s np c with
    | Some e => (s, Err e)
    | None =>
      (* fail before mutating anything: the new parent must accept our label *)
      match (match np with
             | Some q => if val_mem c (kids s q) then None
                         else match unique_label s q (lbl s c) (strictof q) with inr e => Some e | inl _ => None end
             | None => None
             end) with
      | Some e => (s, Err e)
      | None =>
        let '(s1, r1) :=                                (* release from the old parent *)
          match par s c with
          | Some o => if val_mem c (kids s o) then RC s o (inr c) else (s, Ok)
          | None => (s, Ok)
          end in
        match r1 with
        | Err e => (s1, Err e)
        | _ =>
          let s2 := set_par s1 c np in                  (* self._parent = new_parent *)
          match np with
          | None => (s2, Ok)
          | Some q => AC s2 q c None None               (* self._parent.add_child(self) *)
          end
        end
      end
    end.

Definition ac_body (SP : state -> nat -> option nat -> state * result)
                   (s : state) (p c : nat) (lb : option string) (sn : option bool) : state * result :=
  if is_wf c then (s, Err EParentMost)                (* child._check_parent(self) *)
  else
  match cyclic s (Some p) c with
  | Some e => (s, Err e)
  | None =>
    if (match par s c with Some o => negb (o =? p) | None => false end) then (s, Err EValue)
    else
      let l := match lb with Some l => l | None => lbl s c end in
      let st := match sn with Some b => b | None => strictof p end in
      match already_here s p c l with
      | inr e => (s, Err e)
      | inl true => (s, Ok)
      | inl false =>
        match unique_label s p l st with
        | inr e => (s, Err e)
        | inl l' =>
          if has_slash l' then (s, Err EValue)        (* child._check_label(label) *)
          else
            (* child in self.children.inv and label != child.label *)
            let pop := val_mem c (kids s p) && negb (String.eqb l' (lbl s c)) in
            let s1 := if pop then set_kids s p (val_pop c (kids s p)) else s in
            let s2 := set_lbl s1 c l' in              (* child.label = label *)
            match bd_put l' c (kids s2 p) with        (* self.children[child.label] = child *)
            | inr e => (s2, Err e)
            | inl ch => SP (set_kids s2 p ch) c (Some p)   (* child.parent = self *)
            end
        end
      end
  end.

Definition rc_body (SP : state -> nat -> option nat -> state * result)
                   (s : state) (p : nat) (x : string + nat) : state * result :=
  match (match x with
         | inl l => match key_get l (kids s p) with
                    | Some c => Some (c, key_pop l (kids s p))
                    | None => None
                    end
         | inr c => if val_mem c (kids s p) then Some (c, val_pop c (kids s p)) else None
         end) with
  | None => (s, Err EKey)
  | Some (c, ch) =>
    let '(s1, r1) := SP (set_kids s p ch) c None in   (* child_instance.parent = None *)
    match r1 with
    | Err e => (s1, Err e)
    | _ => (set_strt s1 p (remove1 Nat.eqb c (strt s1 p)), Ok)
    end
  end.

Fixpoint sp (f : nat) (s : state) (c : nat) (np : option nat) {struct f} : state * result :=
  match f with
  | 0 => (s, Err ERecursion)
  | S f' => sp_body (rc f') (ac f') s c np
  end
with ac (f : nat) (s : state) (p c : nat) (lb : option string) (sn : option bool) {struct f} : state * result :=
  match f with
  | 0 => (s, Err ERecursion)
  | S f' => ac_body (sp f') s p c lb sn
  end
with rc (f : nat) (s : state) (p : nat) (x : string + nat) {struct f} : state * result :=
  match f with
  | 0 => (s, Err ERecursion)
  | S f' => rc_body (sp f') s p x
  end.

(* Composite.replace_child for unconnected nodes (copy_io and the value links have
   nothing to do; Workflow._rebuild_data_io succeeds) *)
Definition rp (f : nat) (s : state) (p : nat) (x : string + nat) (r : nat) : state * result :=
  match (match x with inl l => key_get l (kids s p) | inr o => Some o end) with
  | None => (s, Err EKey)
  | Some o =>
    if negb (oeqb (par s o) (Some p)) then (s, Err EValue)
    else if negb (oeqb (par s r) None) then (s, Err EValue)
    else if is_wf r then (s, Err EParentMost)           (* replacement_node._check_parent(self) *)
    else match cyclic s (Some p) r with                 (* _ensure_path_is_not_cyclic(self, replacement_node) *)
    | Some e => (s, Err e)
    | None =>
      let is_st := memn o (strt s p) in
      let '(s1, r1) := rc f s p (inr o) in
      match r1 with
      | Err e => (s1, Err e)
      | _ =>
        let s2 := set_lbl (set_lbl s1 r (lbl s1 o)) o (lbl s1 r) in
        let '(s3, r3) := ac f s2 p r None None in
        match r3 with
        | Err e => (s3, Err e)
        | _ => ((if is_st then set_strt s3 p (strt s3 p ++ [r]) else s3), Ok)
        end
      end
    end
  end.

(* is object c free to be thrown away and built anew?  (harness-level guard of NewNode) *)
Definition unlisted (s : state) (c : nat) : bool :=
  forallb (fun i => negb (val_mem c (kids s i)) && negb (memn c (strt s i))) (seq 0 N).

Definition fresh_ok (s : state) (c : nat) : bool :=
  negb (is_wf c) && oeqb (par s c) None
  && match kids s c with [] => true | _ => false end
  && match strt s c with [] => true | _ => false end
  && unlisted s c.

Definition step (f : nat) (s : state) (o : op) : state * result :=
  match o with
  | AddChild p c lb sn => if is_comp p then ac f s p c lb sn else (s, Skip)
  | SetAttr p k c =>
      if negb (is_comp p) then (s, Skip)
      else if is_comp c && String.eqb k "parent" then sp f s p (Some c)
      else if is_comp c && String.eqb k "_parent" then (s, Skip)
      else ac f s p c (Some k) None
  | NewNode c l p =>
      (* a composite built with a non-composite parent= fails inside its own half-built __init__:
         not an ownership operation, the harness skips it *)
      if fresh_ok s c && negb (Nat.eqb p c) && negb (is_comp c && negb (is_comp p)) then
        if has_slash l then (s, Err EValue)
        else
          let '(s1, r1) := sp f (set_lbl s c l) c (Some p) in
          match r1 with Ok => (s1, Ok) | _ => (s, r1) end   (* the failed object is garbage *)
      else (s, Skip)
  | SetParent c np =>
      (* a composite's attribute assignment goes through Composite.__setattr__ *)
      match np with
      | Some q => if is_comp c && negb (is_comp q) then ac f s c q (Some "parent") None else sp f s c np
      | None => sp f s c np
      end
  | RemoveI p c => if is_comp p then rc f s p (inr c) else (s, Skip)
  | RemoveL p l => if is_comp p then rc f s p (inl l) else (s, Skip)
  | ReplaceI p o r => if is_comp p then rp f s p (inr o) r else (s, Skip)
  | ReplaceL p l r => if is_comp p then rp f s p (inl l) r else (s, Skip)
  | SetStart p c =>
      if is_comp p && val_mem c (kids s p) && negb (memn c (strt s p))
      then (set_strt s p (strt s p ++ [c]), Ok) else (s, Skip)
  end.

Fixpoint run (f : nat) (s : state) (ops : list op) : state :=
  match ops with [] => s | o :: r => run f (fst (step f s o)) r end.

(* ---- observation ------------------------------------------------------------------- *)
Definition err_name (e : err) : string :=
  match e with
  | ECyclic => "CyclicPathError" | EValue => "ValueError" | EAttribute => "AttributeError"
  | EKey => "KeyError" | EParentMost => "ParentMostError" | ERecursion => "RecursionError"
  | EValDup => "ValueDuplicationError" | EKeyValDup => "KeyAndValueDuplicationError"
  end.

Definition obs_result (r : result) : obs :=
  match r with Ok => OS "ok" | Skip => OS "skip" | Err e => OS (err_name e) end.

Definition obs_node (s : state) (n : nat) : obs :=
  OL [ OS (lbl s n);
       OZ (match par s n with Some p => Z.of_nat p | None => (-1)%Z end);
       OL (map (fun kc => OL [OS (fst kc); on (snd kc)]) (kids s n));
       OL (map on (strt s n));
       OS (match path pfuel s n with Some x => x | None => "REC" end) ].

Definition snapshot (s : state) : obs := OL (map (obs_node s) (seq 0 N)).

Fixpoint run_obs (f : nat) (s : state) (ops : list op) : list obs :=
  match ops with
  | [] => []
  | o :: r => let '(s', res) := step f s o in
              OL [obs_result res; snapshot s'] :: run_obs f s' r
  end.

Definition history_obs (f : nat) (s : state) (ops : list op) : obs :=
  OL (snapshot s :: run_obs f s ops).

(* ---- specification: the tree invariant, "nothing changed", and the guard ------------- *)
Inductive rooted (s : state) : nat -> Prop :=
| rooted_root n : par s n = None -> rooted s n
| rooted_step n p : par s n = Some p -> rooted s p -> rooted s n.

Record Inv (s : state) : Prop := mkInv {
  (* a composite lists c under k exactly when c names it as parent and carries label k *)
  inv_agree : forall p k c, In (k, c) (kids s p) <-> (par s c = Some p /\ lbl s c = k);
  (* sibling labels are unique *)
  inv_keys : forall p, NoDup (map fst (kids s p));
  (* ... and never collide with the composite's own attributes *)
  inv_reserved : forall p k c, In (k, c) (kids s p) -> reserved (kindof p) k = false;
  (* following parents always ends at a root *)
  inv_rooted : forall n, rooted s n;
  (* a workflow never acquires a parent *)
  inv_wf : forall n, kindof n = Wf -> par s n = None;
  (* starting nodes are current children (and are not repeated) *)
  inv_start : forall p c, In c (strt s p) -> exists k, In (k, c) (kids s p);
  inv_start_nodup : forall p, NoDup (strt s p);
  (* only composites own anything *)
  inv_leaf : forall p, kindof p = Leaf -> kids s p = [] /\ strt s p = [];
  (* every label passed _check_label *)
  inv_slash : forall n, has_slash (lbl s n) = false
}.

End Lex.

(* all objects orphans, nothing owned *)
Definition init_state (labels : nat -> string) : state :=
  mkS labels (fun _ => None) (fun _ => []) (fun _ => []).
