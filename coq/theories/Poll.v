(* Poll.v -- the wait loop of Composite._run_while_children_or_signals_exist against the done-callbacks
   of executor children, at the granularity of single accesses to the two shared lists.

     parent (thread P)                               worker of job j (the future's done-callback)
       loop:  r := len(running_children)               for each connection of an emitting channel:
              if r = 0 then q := len(signal_queue)         signal_queue.append(..)      (register_child_emitting)
                            if q = 0 then EXIT          running_children.remove(j)      (register_child_finished)
              body: pop(0) and deliver  |  sleep
              goto loop

   Any interleaving of the parent's steps with the workers' steps is an op list.  What delivering a
   signal does (how many signals the parent itself enqueues, which jobs it hands out, and how many
   signals each of those will enqueue when it comes back) is a parameter of the body op, so the
   theorems hold whatever the children are.  The two flags select the code's orders (false, false)
   or the two orders a careless rewrite would produce; the refutations in PollProofs.v show that
   each of those loses a signal. *)
From PW Require Import Base.

Inductive ppc := PRun | PQueue | PBody | PExit.

Record pstate := { pc : ppc;
                   running : list nat;           (* running_children (jobs that are out)          *)
                   queue : nat;                  (* len(signal_queue)                             *)
                   workers : list (nat * nat);   (* job -> appends still to do before un-registering *)
                   gone : list nat;              (* [unreg_first] only: un-registered, appends left  *)
                   bad : bool }.                 (* an op that was not enabled was offered        *)

Inductive pop :=
| ORead                                         (* the parent's next read of a list length       *)
| OBody (enq : nat) (starts : list (nat * nat)) (* pop+deliver (or sleep when the queue is empty) *)
| OW (j : nat).                                 (* the next list operation of job j's callback   *)

Definition set_pc (s : pstate) (p : ppc) : pstate :=
  {| pc := p; running := running s; queue := queue s; workers := workers s; gone := gone s; bad := bad s |}.
Definition set_bad (s : pstate) : pstate :=
  {| pc := pc s; running := running s; queue := queue s; workers := workers s; gone := gone s; bad := true |}.

Definition fresh (s : pstate) (starts : list (nat * nat)) : bool :=
  nodupb Nat.eqb (map fst starts) && forallb (fun j => negb (memn j (map fst (workers s)))) (map fst starts).

Section Variant.
  Variable qfirst : bool.        (* the loop reads the queue before the running list   *)
  Variable unreg_first : bool.   (* the callback un-registers before it enqueues       *)

  (* what the read shows, for the correspondence check: (which list, its length) *)
  Definition read_obs (s : pstate) : option (bool * nat) :=
    match pc s with
    | PRun => Some (false, List.length (running s))
    | PQueue => Some (true, queue s)
    | _ => None
    end.

  Definition first_pc : ppc := if qfirst then PQueue else PRun.

  Definition pstep (s : pstate) (o : pop) : pstate :=
    match o with
    | ORead =>
        match pc s with
        | PRun => match running s with
                  | [] => set_pc s (if qfirst then PExit else PQueue)
                  | _ => set_pc s PBody
                  end
        | PQueue => match queue s with
                    | O => set_pc s (if qfirst then PRun else PExit)
                    | _ => set_pc s PBody
                    end
        | _ => set_bad s
        end
    | OBody enq starts =>
        match pc s with
        | PBody =>
            match queue s with
            | O => match enq, starts with
                   | O, [] => set_pc s first_pc                              (* IndexError -> sleep *)
                   | _, _ => set_bad s
                   end
            | S q => if fresh s starts
                     then {| pc := first_pc; running := running s ++ map fst starts; queue := q + enq;
                             workers := workers s ++ starts; gone := gone s; bad := bad s |}
                     else set_bad s
            end
        | _ => set_bad s
        end
    | OW j =>
        match assoc Nat.eqb j (workers s) with
        | None => set_bad s
        | Some k =>
            if unreg_first then
              if memn j (gone s) then
                match k with
                | O => set_bad s
                | S k' => {| pc := pc s; running := running s; queue := S (queue s);
                             workers := (if Nat.eqb k' 0 then del Nat.eqb j (workers s) else upd Nat.eqb j k' (workers s));
                             gone := (if Nat.eqb k' 0 then remove1 Nat.eqb j (gone s) else gone s); bad := bad s |}
                end
              else {| pc := pc s; running := remove1 Nat.eqb j (running s); queue := queue s;
                      workers := (if Nat.eqb k 0 then del Nat.eqb j (workers s) else workers s);
                      gone := (if Nat.eqb k 0 then gone s else j :: gone s); bad := bad s |}
            else
              match k with
              | S k' => {| pc := pc s; running := running s; queue := S (queue s);
                           workers := upd Nat.eqb j k' (workers s); gone := gone s; bad := bad s |}
              | O => {| pc := pc s; running := remove1 Nat.eqb j (running s); queue := queue s;
                        workers := del Nat.eqb j (workers s); gone := gone s; bad := bad s |}
              end
        end
    end.

  Definition pinit (enq : nat) (starts : list (nat * nat)) : pstate :=
    {| pc := first_pc; running := map fst starts; queue := enq; workers := starts; gone := []; bad := false |}.

  Definition prun (s : pstate) (ops : list pop) : pstate := fold_left pstep ops s.

  (* per-op observations: what each parent step saw *)
  Fixpoint ptrace (s : pstate) (ops : list pop) : list obs :=
    match ops with
    | [] => []
    | o :: r =>
        let here := match o with
                    | ORead => match read_obs s with
                               | Some (isq, n) => [OL [OS (if isq then "q" else "r"); on n]]
                               | None => [OS "bad-read"]
                               end
                    | OBody _ _ => [OL [OS "pop"; ob (negb (Nat.eqb (queue s) 0))]]
                    | OW _ => []
                    end in
        here ++ ptrace (pstep s o) r
    end.
End Variant.

Definition pc_obs (p : ppc) : obs :=
  OS (match p with PRun => "run" | PQueue => "queue" | PBody => "body" | PExit => "exit" end).

(* the code's orders *)
Definition obs_poll (enq : nat) (starts : list (nat * nat)) (ops : list pop) : obs :=
  let s0 := pinit false enq starts in
  let s := prun false false s0 ops in
  OL [OL (ptrace false false s0 ops); pc_obs (pc s); on (List.length (running s)); on (queue s);
      on (List.length (workers s)); ob (bad s)].
