From PW Require Import Base Hints HintsGen.
Theorem placeholder : True. Proof. exact I. Qed.
Print Assumptions placeholder.
