(* C04 -- an accepted typed connection is sound, and comparing hints never crashes.
   All statements are about HintsGen.more_specific, the function REGENERATED from
   /repo/pyiron_workflow/type_hinting.py on every run.  Only Theorem / exact / Print
   Assumptions live here; proofs are in HintsProofs.v. *)
From PW Require Import Base Hints HintsGen HintsConn HintsProofs.

(* Comparing any two hint objects terminates with a yes/no answer (no RecursionError):
   for EVERY pair, not only well-formed ones, fuel above the joint size suffices. *)
Theorem C04_total : forall h o fuel, hsize h + hsize o < fuel ->
  exists b, more_specific fuel h o = Some b.
Proof. intros h o fuel H. exact (ms_total fuel h o H). Qed.
Print Assumptions C04_total.

(* Every hint of the grammar is compatible with itself. *)
Theorem C04_refl : forall h, wf h = true -> forall fuel, 2 * hsize h < fuel ->
  more_specific fuel h h = Some true.
Proof. exact ms_refl. Qed.
Print Assumptions C04_refl.

(* Soundness, partial: for the grammar [wf] (classes/subclasses, None, both union
   spellings, Literal, Annotated, list/set/dict/fixed tuple/type) and targets without
   tuple[()].  Missing from the full statement: variadic tuples and Callable (checked by
   correspondence + oracle only) and tuple[()] targets (refuted below, known finding S3). *)
Theorem C04_sound_partial : forall fuel h o,
  wf h = true -> wf o = true -> no_empty_tuple o = true ->
  more_specific fuel h o = Some true ->
  forall v, admits h v = true -> admits o v = true.
Proof. exact ms_sound. Qed.
Print Assumptions C04_sound_partial.

(* ... lifted to what the library accepts: a data connection, or a macro value link,
   between two hinted channels whose receiving side is strict. *)
Theorem C04_connect_sound_partial : forall fuel out inp ho hi,
  d_hint out = Some ho -> d_hint inp = Some hi -> d_strict inp = true ->
  wf ho = true -> wf hi = true -> no_empty_tuple hi = true ->
  valid_connection fuel out inp = Some true ->
  forall v, admits ho v = true -> admits hi v = true.
Proof.
  intros fuel out inp ho hi Eo Ei Es Wo Wi Ni. unfold valid_connection. rewrite Eo, Ei, Es.
  exact (ms_sound fuel ho hi Wo Wi Ni).
Qed.
Print Assumptions C04_connect_sound_partial.

Theorem C04_link_sound_partial : forall fuel snd rcv hs hr,
  d_hint snd = Some hs -> d_hint rcv = Some hr -> d_strict rcv = true ->
  wf hs = true -> wf hr = true -> no_empty_tuple hr = true ->
  receiver_ok fuel snd rcv = Some true ->
  forall v, admits hs v = true -> admits hr v = true.
Proof.
  intros fuel snd rcv hs hr Es Er Est Ws Wr Nr. unfold receiver_ok. rewrite Es, Er, Est.
  exact (ms_sound fuel hs hr Ws Wr Nr).
Qed.
Print Assumptions C04_link_sound_partial.

(* The full soundness statement is FALSE of the faithful model (and of the code):
   tuple[int] is accepted for a tuple[()] target; (1,) separates them.  Known finding S3. *)
Theorem C04_sound_refuted_empty_tuple : exists h o v,
  wf h = true /\ wf o = true /\ more_specific 10 h o = Some true /\
  admits h v = true /\ admits o v = false.
Proof.
  exists (HGen TupleC [HCls Int]), (HGen TupleC []), (VTuple [VInt 1]).
  vm_compute. repeat split; reflexivity.
Qed.
Print Assumptions C04_sound_refuted_empty_tuple.

(* Non-vacuity: concrete non-trivial instances meet the hypotheses of the theorems. *)
Example C04_hyps_hold :
  let h := HGen DictC [HCls Str; HNew [HCls Bool; HGen ListC [HCls UB]]] in
  let o := HOld [HGen DictC [HCls Str; HOld [HCls Int; HGen ListC [HCls UA]; HCls NoneT]]; HCls NoneT] in
  wf h = true /\ wf o = true /\ no_empty_tuple o = true /\
  more_specific 20 h o = Some true /\
  admits h (VDict [(VStr "k", VList [VObj UB])]) = true /\
  more_specific 20 o h = Some false.
Proof. vm_compute. repeat split; reflexivity. Qed.
