(* C12 -- connections stay mutual, well-typed and duplicate-free under any editing history.
   Statements about Chan.v, the step-by-step model of channels.py / io.py / composite.py /
   topology.py / node.run_data_tree (tied to the code by the correspondence check of
   harness/props/c12.py).  Only Theorem / exact / Print Assumptions live here; proofs are in
   ChanProofs.v.  The property holds on the unchanged code: no _refuted theorem.

   W          static description of every channel (owner, label, flavour, direction, hint, strict)
   conns s a  ordered partner list of channel a in the store s (newest first)
   step/exec  one op / an op list of the `conn` language: connect by method, assignment, call
              keyword, >> and <<; disconnect at channel, panel and node level; copy_connections,
              copy_io; remove (by node, by label, by parent assignment) / add / replace child; wiring the dag, running a workflow, pulling.
              Iteration orders of Python sets and the outcome of value copies are arguments of
              the ops, so every theorem holds for all of them. *)
From PW Require Import Base Chan ChanProofs.

(* In every state reachable from an unconnected universe by ANY op sequence (hence after
   every op of every history): A lists B exactly when B lists A; connections only join an
   input with an output of the same flavour; nothing is listed twice; every data connection
   into a strict input passes the hint test. *)
Theorem C12_inv : forall W par kids lab ops,
  let s := cn (exec W (init_state W par kids lab) ops) in
  (forall a b, In b (conns s a) <-> In a (conns s b)) /\
  (forall a b, In b (conns s a) ->
     exists x y, cget W a = Some x /\ cget W b = Some y /\
                 c_flavor x = c_flavor y /\ c_dir x <> c_dir y) /\
  (forall a, NoDup (conns s a)) /\
  (forall a b, In b (conns s a) -> validb W a b = true).
Proof. exact reachable_good. Qed.
Print Assumptions C12_inv.

(* ... and the invariant is inductive: from ANY store that satisfies it, every single op
   leads to a store that satisfies it (so it also survives histories that start from a
   connected graph, e.g. one restored from a file). *)
Theorem C12_inv_step : forall W st o, Inv W (cn st) -> Inv W (cn (fst (step W st o))).
Proof. exact step_Inv. Qed.
Print Assumptions C12_inv_step.

(* A refused connection changes nothing -- whole state, every way of asking for one
   connection: a.connect(b), panel.x = b, n.set_input_values(x=b), l >> r, t << s. *)
Theorem C12_refused_noop : forall W st o st' e,
  single_connect o -> step W st o = (st', Err e) -> st' = st.
Proof. exact refused_noop. Qed.
Print Assumptions C12_refused_noop.

(* ... and the call-keyword form n(x=b): a TypeError / ChannelConnectionError /
   AmbiguousOutputError / AttributeError can only be the refusal (the pull that follows an accepted
   connection raises nothing but CircularDataFlowError / ValueError / KeyError), and leaves everything as it was. *)
Theorem C12_refused_call_noop : forall W st n k v tree st' e,
  step W st (OCall n [(k, v)] tree) = (st', Err e) ->
  e = TypeErr \/ e = ConnErr \/ e = AmbigErr \/ e = AttrErr -> st' = st.
Proof. exact refused_call_noop. Qed.
Print Assumptions C12_refused_call_noop.

(* a.connect(b1, ..., bk): if bi is the first refused one, the result is exactly the store
   after connecting b1 .. b(i-1): the refused connection itself contributes nothing. *)
Theorem C12_refused_prefix : forall W s a pre b post s1 e,
  connect W s a pre = (s1, Ok) -> snd (connect1 W s1 a b) = Err e ->
  connect W s a (pre ++ b :: post) = (s1, Err e).
Proof. exact connect_prefix. Qed.
Print Assumptions C12_refused_prefix.

(* Disconnecting what is not connected changes nothing: channel.disconnect(others) when none
   of them is listed, disconnect_all / panel.disconnect() / node.disconnect() without connections. *)
Theorem C12_disconnect_unconnected_noop : forall W st o,
  match o with
  | ODisconnect a bs => forall b, In b bs -> ~ In b (conns (cn st) a)
  | ODisconnectAll a => conns (cn st) a = []
  | OPanelDisconnect n p => forall c, In c (panel_list W n p) -> conns (cn st) c = []
  | ONodeDisconnect n => forall c, In c (all_chans W n) -> conns (cn st) c = []
  | _ => False
  end -> step W st o = (st, Ok).
Proof. exact disconnect_unconnected_noop. Qed.
Print Assumptions C12_disconnect_unconnected_noop.

(* After a successful remove_child / node.disconnect() / replace_child in any reachable
   state, every channel of the node is empty and no channel anywhere lists one of them. *)
Theorem C12_removed_unreferenced : forall W par kids lab ops o st' n,
  match o with
  | ORemove _ m | ONodeDisconnect m | OReplace _ m _ => m = n
  | _ => False
  end ->
  step W (exec W (init_state W par kids lab) ops) o = (st', Ok) ->
  (forall c, (exists x, cget W c = Some x /\ c_owner x = n) -> conns (cn st') c = []) /\
  (forall c x, In x (conns (cn st') c) -> ~ (exists y, cget W x = Some y /\ c_owner y = n)).
Proof. exact reachable_removed_unreferenced. Qed.
Print Assumptions C12_removed_unreferenced.

(* ... by ANY route: whatever op it was (remove_child by node or by label, n.parent = None,
   n.parent = another composite, replace_child -- and no other op changes a parent), and
   whatever its outcome, a node that is no longer a child of the composite it was in has only
   empty channels and is listed by no channel anywhere. *)
Theorem C12_left_unreferenced : forall W par kids lab ops o st' r n,
  let st := exec W (init_state W par kids lab) ops in
  step W st o = (st', r) ->
  (exists w, parent st n = Some w /\ parent st' n <> Some w) ->
  (forall c, (exists x, cget W c = Some x /\ c_owner x = n) -> conns (cn st') c = []) /\
  (forall c x, In x (conns (cn st') c) -> ~ (exists y, cget W x = Some y /\ c_owner y = n)).
Proof. exact reachable_left_unreferenced. Qed.
Print Assumptions C12_left_unreferenced.

(* Beyond the statement (the documented promise of the undo logs): a failed copy_connections,
   copy_io or replace_child in a reachable state leaves no connection that did not exist before.
   (The undo may also drop older connections -- DESIGN S13, which is property C14's business.) *)
Theorem C12_failed_copy_adds_nothing : forall W par kids lab ops o st' e,
  let st := exec W (init_state W par kids lab) ops in
  match o with OCopyConns _ _ | OCopyIO _ _ _ _ _ | OReplace _ _ _ => True | _ => False end ->
  step W st o = (st', Err e) ->
  forall c x, In x (conns (cn st') c) -> In x (conns (cn st) c).
Proof. exact reachable_failed_copy. Qed.
Print Assumptions C12_failed_copy_adds_nothing.

(* Non-vacuity: two nodes (x:int -> out:int ; x:str -> out:bool), the second in workflow 0.
   A typed connection and a >> are accepted, a str<-int connection is refused
   (ChannelConnectionError), an input-input one is a TypeError, both leave the store as it
   was; removing node 1 empties every list. *)
Example C12_hyps_hold :
  let node i hx ho := [mkc i 0 Data DIn (Some hx) true false; mkc i 3 Data DOut (Some ho) true false;
                       mkc i 5 Signal DIn None true false; mkc i 6 Signal DIn None true true;
                       mkc i 7 Signal DOut None true false; mkc i 8 Signal DOut None true false] in
  let W := node 0 HInt HInt ++ node 1 HStr HBool in
  let st0 := init_state W [None; Some 0] [[1]; []] [0; 1] in
  let st1 := exec W st0 [OConnect 0 [7]; ORshift (SNode 0) (SNode 1)] in
  cn st1 = [[7]; []; []; []; [8]; []; []; [0]; [4]; []; []; []] /\
  step W st1 (OConnect 6 [1]) = (st1, Err ConnErr) /\
  step W st1 (OAssign 0 (SChan 6)) = (st1, Err TypeErr) /\
  step W st1 (ODisconnect 0 [1]) = (st1, Ok) /\
  cn (fst (step W st1 (ORemove 0 1))) = [[]; []; []; []; []; []; []; []; []; []; []; []] /\
  snd (step W st1 (ORemove 0 1)) = Ok /\
  (let st2 := fst (step W st1 (OSetParent 1 (Some 1))) in      (* hand-over to workflow 1 *)
   parent st1 1 = Some 0 /\ parent st2 1 = Some 1 /\
   cn st2 = [[]; []; []; []; []; []; []; []; []; []; []; []]).
Proof. vm_compute. repeat split; reflexivity. Qed.
