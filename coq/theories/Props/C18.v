(* C18 -- operators on outputs mean what they mean in Python; no duplicates, no mix-ups.
   Model: Inject.v (injection.py / single_output.py / the operator nodes of standard.py).
   Only Theorem / exact / Print Assumptions live here; proofs are in InjectProofs.v.

   CPython's operators [pyop], [str()] of raw operands [py_str], [is None] and the [hash] of the
   nominal label are universally quantified: every theorem holds for all of them. *)
From PW Require Import Base Inject InjectProofs.

(* C18_table.  Every one of the 30 entry points of an output channel, and the same-named method
   of a single-output node (which delegates to it), injects the node class whose function is the
   python operation that was written, with (receiver, operand) in the written order. *)
Theorem C18_table : forall e : entry,
  cls_fun (entry_cls e) = Some (spec e) /\
  cls_arity (entry_cls e) = S (entry_arity e) /\
  node_delegate e = Some e.
Proof. exact table_spec. Qed.
Print Assumptions C18_table.

Section C18.
  Variable val : Type.
  Variable pyop : pyfun -> list val -> val + string.
  Variable py_str : val -> string.
  Variable is_none : val -> bool.
  Variable none_val : val.
  Variable hash : string -> string.

  Notation inject := (inject val pyop py_str is_none none_val hash).
  Notation run_own := (run_own val pyop is_none none_val).
  Notation pull := (pull val pyop is_none none_val).
  Notation hist := (hist val pyop py_str is_none none_val hash).
  Notation inj_label := (inj_label val py_str hash).

  (* C18_wiring.  A lookup miss (or no parent at all) creates ONE new node, of the requested class,
     under the computed label, wired receiver-first then the operands in the written order. *)
  Theorem C18_wiring : forall st q st' n o,
    inject st q = (st', n, o) ->
    (s_parent val st = false \/ find_label val (inj_label st q) (s_nodes val st) 0 = None) ->
    n = List.length (s_nodes val st) /\
    option_map (nskel val) (nth_error (s_nodes val st') n) =
      Some (inj_label st q, q_cls val q, q_inputs val q).
  Proof. exact (inject_fresh_record val pyop py_str is_none none_val hash). Qed.

  (* C18_value.  Whenever a node created through entry point e runs on input values vals (at creation
     time or as the last act of a pull), its output channel receives the python operation of e applied
     to them -- and if python raises, that exception surfaces and the node is failed. *)
  Theorem C18_value : forall st n r e vals,
    nth_error (s_nodes val st) n = Some r -> n_failed val r = false -> n_cls val r = entry_cls e ->
    input_values val none_val st (n_cls val r) (n_in val r) = Some vals ->
    match pyop (fst (spec e)) (arrange (snd (spec e)) vals) with
    | inl v => exists st', run_own st n = (st', RVal v) /\ chan_value val st' (CN n) = Some v
    | inr x => exists st', run_own st n = (st', RRaise x) /\
                           option_map (n_failed val) (nth_error (s_nodes val st') n) = Some true
    end.
  Proof. exact (value_spec val pyop is_none none_val). Qed.

  Theorem C18_pull_value : forall st n st' v,
    pull st n = (st', PVal v) ->
    exists st1 r vals, same_skel val st st1 /\ nth_error (s_nodes val st1) n = Some r /\
      input_values val none_val st1 (n_cls val r) (n_in val r) = Some vals /\
      node_apply val pyop is_none (n_cls val r) vals = inl v /\ chan_value val st' (CN n) = Some v.
  Proof. exact (pull_value_spec val pyop is_none none_val). Qed.

  (* C18_reuse.  In a parent, after ANY history of injections (interleaved with arbitrary runs / pulls:
     steps that keep labels, classes and wiring), writing any earlier expression again hands back the
     very node it got the first time and leaves the state -- hence the child count -- untouched. *)
  Theorem C18_reuse : forall st0 qs st q n,
    hist st0 qs st -> s_parent val st0 = true -> In (q, n) qs ->
    inject st q = (st, n, Done).
  Proof. exact (reuse val pyop py_str is_none none_val hash). Qed.

  (* pulls and runs are such skeleton-keeping steps *)
  Theorem C18_pull_keeps_skeleton : forall st n st' p, pull st n = (st', p) -> same_skel val st st'.
  Proof. exact (pull_skel val pyop is_none none_val). Qed.

  (* outside a parent there is nothing to look up: every writing makes a new node *)
  Theorem C18_no_parent_fresh : forall st q,
    s_parent val st = false ->
    exists st' o, inject st q = (st', List.length (s_nodes val st), o) /\
                  List.length (s_nodes val st') = S (List.length (s_nodes val st)).
  Proof. exact (no_parent_fresh val pyop py_str is_none none_val hash). Qed.

  Hypothesis hash_inj : forall a b, hash a = hash b -> a = b.

  (* C18_distinct_partial.  "Two different expressions never share a node" holds under the guards:
       str_inj      the raw operands written in this parent are str-injective   (fails: S17)
       raw_vs_chan  no raw operand prints like a channel's scoped label
       scoped_inj   the channels involved have distinct scoped labels
       frame_inj    gluing the rendered pieces with "_" is unambiguous
     Missing from the full statement: exactly these four; each is necessary (refutations below). *)
  Theorem C18_distinct_partial : forall st0 qs st q1 q2 n,
    hist st0 qs st -> s_parent val st0 = true ->
    In (q1, n) qs -> In (q2, n) qs ->
    flags_ok val (map fst qs) ->
    str_inj val py_str (map fst qs) -> raw_vs_chan val py_str st (map fst qs) ->
    scoped_inj val st (map fst qs) -> frame_inj val py_str st (map fst qs) ->
    q1 = q2.
  Proof. exact (distinct val pyop py_str is_none none_val hash hash_inj). Qed.

  (* ... and then the node handed back computes the WRITTEN operation on the WRITTEN operands
     (together with C18_value / C18_table: no mix-up of values) *)
  Theorem C18_wiring_partial : forall st0 qs st q n,
    hist st0 qs st -> s_parent val st0 = true -> s_nodes val st0 = [] ->
    In (q, n) qs ->
    flags_ok val (map fst qs) ->
    str_inj val py_str (map fst qs) -> raw_vs_chan val py_str st (map fst qs) ->
    scoped_inj val st (map fst qs) -> frame_inj val py_str st (map fst qs) ->
    exists r, nth_error (s_nodes val st) n = Some r /\ n_cls val r = q_cls val q /\
              n_in val r = q_inputs val q.
  Proof. exact (wiring_partial val pyop py_str is_none none_val hash hash_inj). Qed.

  (* the everyday case needs no framing guard: two one-operand operations of one class on one
     receiver can only collide when the two operands PRINT alike *)
  Theorem C18_one_operand_partial : forall st c self o1 o2,
    inj_label st (mkQ c self [o1] true) = inj_label st (mkQ c self [o2] true) ->
    other_label val py_str st o1 = other_label val py_str st o2.
  Proof. exact (same_receiver_label_inj val py_str hash hash_inj). Qed.

  (* The Slice node (x[a:b:c] with a channel among a, b, c) agrees with python's slice where both
     start and stop are given, or only stop ... *)
  Theorem C18_slice_partial : forall start stop step,
    is_none stop = false ->
    (is_none start = false ->
       slice_fun val pyop is_none [start; stop; step] = pyop PSliceCtor [start; stop; step]) /\
    (is_none start = true -> is_none step = true ->
       slice_fun val pyop is_none [start; stop; step] = pyop PSliceCtor [stop]).
  Proof.
    intros start stop step B. split.
    - intros A. exact (slice_fun_full val pyop is_none start stop step A B).
    - intros A C. exact (slice_fun_stop_only val pyop is_none start stop step A B C).
  Qed.

  (* ... and refuses x[a:], x[::c], x[:b:c], which python accepts (known finding C18-slice-open-ended) *)
  Theorem C18_slice_refuted : forall start stop step,
    (is_none start = false /\ is_none stop = true) \/
    (is_none start = true /\ is_none stop = true) \/
    (is_none start = true /\ is_none stop = false /\ is_none step = false) ->
    slice_fun val pyop is_none [start; stop; step] = inr "ValueError".
  Proof. exact (slice_fun_refuses val pyop is_none). Qed.
End C18.
Print Assumptions C18_wiring.
Print Assumptions C18_value.
Print Assumptions C18_pull_value.
Print Assumptions C18_reuse.
Print Assumptions C18_pull_keeps_skeleton.
Print Assumptions C18_no_parent_fresh.
Print Assumptions C18_distinct_partial.
Print Assumptions C18_wiring_partial.
Print Assumptions C18_one_operand_partial.
Print Assumptions C18_slice_partial.
Print Assumptions C18_slice_refuted.

(* ---- the unguarded statements are FALSE of the faithful model (and of the code) --------------------
   Concrete instance: values are tagged text, hash is the identity, str() / + / * / slice / [] are the
   rows of w_strs / w_rows (what CPython answers).  Users x=1, y=2, l=[1,2,3,4], i=1 (i not yet run), z=(p=3, q=0) (not yet run). *)

(* S17: x + 1 and x + '1' are different expressions, get ONE node, and the mix-up changes the value:
   python says x + '1' raises TypeError, the shared node answers 2.  Violates str_inj. *)
Theorem C18_distinct_refuted : exists qs st q1 q2 n,
  w_hist w_st0 qs st /\ In (q1, n) qs /\ In (q2, n) qs /\ q1 <> q2 /\
  w_str "int:1" = w_str "str:'1'" /\
  w_pyop PAdd ["int:1"; "str:'1'"] = inr "TypeError" /\
  snd (w_pull st n) = PVal "int:2".
Proof. exact w_refuted_str. Qed.
Print Assumptions C18_distinct_refuted.

(* a channel operand and the string that spells its scoped label: x + y  vs  x + 'y__user_input'.
   Violates raw_vs_chan. *)
Theorem C18_distinct_refuted_channel_vs_string : exists qs st q1 q2 n,
  w_hist w_st0 qs st /\ In (q1, n) qs /\ In (q2, n) qs /\ q1 <> q2.
Proof. exact w_refuted_channel_vs_string. Qed.
Print Assumptions C18_distinct_refuted_channel_vs_string.

(* "_" both separates the pieces and occurs inside them: l[i:'1_2'] vs l[i:1:'2_None'] share the Slice
   node.  Violates frame_inj. *)
Theorem C18_distinct_refuted_framing : exists qs st q1 q2 n,
  w_hist w_st0 qs st /\ In (q1, n) qs /\ In (q2, n) qs /\ q1 <> q2.
Proof. exact w_refuted_framing. Qed.
Print Assumptions C18_distinct_refuted_framing.

(* known finding C18-slice-premature-default: l[i:4] written while i holds no data.  The Slice node's
   start keeps its default None, so the node is "ready", runs, and GetItem already answers l[:4]
   = [1,2,3,4] although the operand i has no value yet (python's l[i:4] with i = 1 is [2,3,4]). *)
Theorem C18_slice_default_refuted : exists st1 ns o1 st2 ng o2,
  w_inject w_st0 (@mkQ tval CSlice w_l [OC w_i; OR "int:4"; OR "NoneType:None"] false) = (st1, ns, o1) /\
  w_inject st1 (@mkQ tval CGetItem w_l [OC (CN ns)] true) = (st2, ng, o2) /\
  chan_value tval st2 w_i = None /\
  chan_value tval st2 (CN ng) = Some "list:[1, 2, 3, 4]".
Proof. exact w_slice_default. Qed.
Print Assumptions C18_slice_default_refuted.

(* composite cache (S5, property C05) seen through injection: after one successful pull in a Workflow,
   with no child added since and the same value-holding children in the data tree, a second pull is a
   cache hit of the Workflow itself and runs NOTHING upstream; +(-z.p), written before z had run, never
   gets its input although python gives -3 (known finding C18-parent-cache-skips-pull).
   z is a two-output user node (p = 3, q = 0) that has not run. *)
Theorem C18_pull_cache_refuted : exists st1 a o1 st2 b o2 st3 c o3 st4 v st5,
  w_inject w_st0 (@mkQ tval CNegative (CU 4 0) [] true) = (st1, a, o1) /\
  w_inject st1 (@mkQ tval CPositive (CN a) [] true) = (st2, b, o2) /\
  w_inject st2 (@mkQ tval CNegative (CU 4 1) [] true) = (st3, c, o3) /\
  w_pull st3 c = (st4, PVal v) /\ w_pull st4 b = (st5, PUp) /\
  w_pyop PNeg ["int:3"] = inl "int:-3" /\ w_pyop PPos ["int:-3"] = inl "int:-3".
Proof. exact w_pull_cache. Qed.
Print Assumptions C18_pull_cache_refuted.

(* ---- non-vacuity: the hypotheses of the guarded theorems are met by a non-trivial history
   (raw operand, channel operand, nested expression (x + 1) * 4 = 8, repetition) ------------------------- *)
Example C18_hyps_hold :
  let q1 := @mkQ tval CAdd w_x [OR "int:1"] true in
  let q2 := @mkQ tval CAdd w_x [OC w_y] true in
  let q3 := @mkQ tval CMultiply (CN 0) [OR "int:4"] true in
  exists st, let qs := [(q1, 0); (q2, 1); (q3, 2); (q1, 0)] in
    w_hist w_st0 qs st /\ s_parent tval w_st0 = true /\ s_nodes tval w_st0 = [] /\
    (forall a b : string, (fun s : string => s) a = (fun s => s) b -> a = b) /\
    flags_ok tval (map fst qs) /\
    str_inj tval w_str (map fst qs) /\ raw_vs_chan tval w_str st (map fst qs) /\
    scoped_inj tval st (map fst qs) /\ frame_inj tval w_str st (map fst qs) /\
    List.length (s_nodes tval st) = 3 /\ chan_value tval st (CN 2) = Some "int:8".
Proof. exact w_hyps_hold. Qed.
