(* C18 -- operators on outputs mean what they mean in Python; no duplicates, no mix-ups.
   Model: Inject.v (injection.py / single_output.py / the operator nodes of standard.py, as repaired:
   operands rendered with repr, autorun only when the connected operands hold data, Slice = slice(...)).
   Only Theorem / exact / Print Assumptions live here; proofs are in InjectProofs.v.

   CPython's operators [pyop], [repr()] of raw operands [py_repr] and the [hash] of the nominal label are
   universally quantified: every theorem holds for all of them.  "Expressions" are requests (class,
   receiver channel, operands); a nested expression is a request whose receiver / operands are the
   channels of nodes that earlier requests returned. *)
From PW Require Import Base Inject InjectProofs.

(* C18_table.  Every one of the 30 entry points of an output channel, and the same-named method
   of a single-output node (which delegates to it), injects the node class whose function is the
   python operation that was written, with (receiver, operand) in the written order. *)
Theorem C18_table : forall e : entry,
  cls_fun (entry_cls e) = Some (spec e) /\
  cls_arity (entry_cls e) = S (entry_arity e) /\
  node_delegate e = Some e.
Proof. exact table_spec. Qed.
Print Assumptions C18_table.

Section C18.
  Variable val : Type.
  Variable pyop : pyfun -> list val -> val + string.
  Variable py_repr : val -> string.
  Variable none_val : val.
  Variable hash : string -> string.

  Notation inject := (inject val pyop py_repr none_val hash).
  Notation run_own := (run_own val pyop none_val).
  Notation pull := (pull val pyop none_val).
  Notation hist := (hist val pyop py_repr none_val hash).
  Notation inj_label := (inj_label val py_repr hash).

  (* C18_wiring.  A lookup miss (or no parent at all) creates ONE new node, of the requested class,
     under the computed label, wired receiver-first then the operands in the written order. *)
  Theorem C18_wiring : forall st q st' n o,
    inject st q = (st', n, o) ->
    (s_parent val st = false \/ find_label val (inj_label st q) (s_nodes val st) 0 = None) ->
    n = List.length (s_nodes val st) /\
    option_map (nskel val) (nth_error (s_nodes val st') n) =
      Some (inj_label st q, q_cls val q, q_inputs val q).
  Proof. exact (inject_fresh_record val pyop py_repr none_val hash). Qed.

  (* ... and it is not run before every connected operand holds data (no parameter default stands in
     for an operand that is merely not available yet) *)
  Theorem C18_autorun_waits : forall st q st' n o,
    inject st q = (st', n, o) ->
    (s_parent val st = false \/ find_label val (inj_label st q) (s_nodes val st) 0 = None) ->
    holds_data val (grown val py_repr hash st q) (q_inputs val q) = false ->
    st' = grown val py_repr hash st q /\ o = Done.
  Proof. exact (inject_waits val pyop py_repr none_val hash). Qed.

  (* C18_value.  Whenever a node created through entry point e runs on input values vals (at creation
     time or as the last act of a pull), its output channel receives the python operation of e applied
     to them -- and if python raises, that exception surfaces and the node is failed. *)
  Theorem C18_value : forall st n r e vals,
    nth_error (s_nodes val st) n = Some r -> n_failed val r = false -> n_cls val r = entry_cls e ->
    input_values val none_val st (n_cls val r) (n_in val r) = Some vals ->
    match pyop (fst (spec e)) (arrange (snd (spec e)) vals) with
    | inl v => exists st', run_own st n = (st', RVal v) /\ chan_value val st' (CN n) = Some v
    | inr x => exists st', run_own st n = (st', RRaise x) /\
                           option_map (n_failed val) (nth_error (s_nodes val st') n) = Some true
    end.
  Proof. exact (value_spec val pyop none_val). Qed.

  Theorem C18_pull_value : forall st n st' v,
    pull st n = (st', PVal v) ->
    exists st1 r vals, same_skel val st st1 /\ nth_error (s_nodes val st1) n = Some r /\
      input_values val none_val st1 (n_cls val r) (n_in val r) = Some vals /\
      node_apply val pyop (n_cls val r) vals = inl v /\ chan_value val st' (CN n) = Some v.
  Proof. exact (pull_value_spec val pyop none_val). Qed.

  (* slicing with a channel among the members: the Slice node IS python's slice(start, stop, step) *)
  Theorem C18_slice : forall start stop step,
    slice_fun val pyop [start; stop; step] = pyop PSliceCtor [start; stop; step].
  Proof. exact (slice_fun_spec val pyop). Qed.

  (* C18_reuse.  In a parent, after ANY history of injections (interleaved with arbitrary runs / pulls:
     steps that keep labels, classes and wiring), writing any earlier expression again hands back the
     very node it got the first time and leaves the state -- hence the child count -- untouched. *)
  Theorem C18_reuse : forall st0 qs st q n,
    hist st0 qs st -> s_parent val st0 = true -> In (q, n) qs ->
    inject st q = (st, n, Done).
  Proof. exact (reuse val pyop py_repr none_val hash). Qed.

  (* pulls and runs are such skeleton-keeping steps *)
  Theorem C18_pull_keeps_skeleton : forall st n st' p, pull st n = (st', p) -> same_skel val st st'.
  Proof. exact (pull_skel val pyop none_val). Qed.

  (* outside a parent there is nothing to look up: every writing makes a new node *)
  Theorem C18_no_parent_fresh : forall st q,
    s_parent val st = false ->
    exists st' o, inject st q = (st', List.length (s_nodes val st), o) /\
                  List.length (s_nodes val st') = S (List.length (s_nodes val st)).
  Proof. exact (no_parent_fresh val pyop py_repr none_val hash). Qed.

  (* environment: hash and repr are injective (CPython; repr on the operand pool) *)
  Hypothesis hash_inj : forall a b, hash a = hash b -> a = b.
  Hypothesis repr_inj : forall v1 v2, py_repr v1 = py_repr v2 -> v1 = v2.

  (* C18_distinct_raw (S17 repaired).  One receiver, one operator, two raw operands: one node only if
     the operands are equal -- x + 1 vs x + '1', x[0] vs x['0'], x > True vs x > 'True' never share. *)
  Theorem C18_distinct_raw : forall st c self v1 v2,
    inj_label st (mkQ c self [OR v1] true) = inj_label st (mkQ c self [OR v2] true) -> v1 = v2.
  Proof. exact (one_raw_operand_inj val py_repr hash hash_inj repr_inj). Qed.

  (* the same for arbitrary operands: they must at least PRINT alike *)
  Theorem C18_one_operand : forall st c self o1 o2,
    inj_label st (mkQ c self [o1] true) = inj_label st (mkQ c self [o2] true) ->
    other_label val py_repr st o1 = other_label val py_repr st o2.
  Proof. exact (same_receiver_label_inj val py_repr hash hash_inj). Qed.

  (* C18_distinct_partial.  "Two different expressions never share a node", for ALL requests of a
     history, still needs label hygiene, because the label is an unescaped "_"-join of texts:
       raw_vs_chan  no raw operand's repr is a channel's scoped label (true for the pool: reprs of
                    strings carry quotes, labels do not)
       scoped_inj   the channels involved have distinct scoped labels
       frame_inj    gluing the rendered pieces with "_" is unambiguous
     Missing from the full statement: frame_inj is NOT implied by unique sibling labels (refutation
     below: four distinct identifier labels); the first two hold for identifier labels and pool operands. *)
  Theorem C18_distinct_partial : forall st0 qs st q1 q2 n,
    hist st0 qs st -> s_parent val st0 = true ->
    In (q1, n) qs -> In (q2, n) qs ->
    flags_ok val (map fst qs) ->
    raw_vs_chan val py_repr st (map fst qs) ->
    scoped_inj val st (map fst qs) -> frame_inj val py_repr st (map fst qs) ->
    q1 = q2.
  Proof. exact (distinct val pyop py_repr none_val hash hash_inj repr_inj). Qed.

  (* ... and then the node handed back computes the WRITTEN operation on the WRITTEN operands
     (together with C18_value / C18_table: no mix-up of values) *)
  Theorem C18_wiring_partial : forall st0 qs st q n,
    hist st0 qs st -> s_parent val st0 = true -> s_nodes val st0 = [] ->
    In (q, n) qs ->
    flags_ok val (map fst qs) ->
    raw_vs_chan val py_repr st (map fst qs) ->
    scoped_inj val st (map fst qs) -> frame_inj val py_repr st (map fst qs) ->
    exists r, nth_error (s_nodes val st) n = Some r /\ n_cls val r = q_cls val q /\
              n_in val r = q_inputs val q.
  Proof. exact (wiring_partial val pyop py_repr none_val hash hash_inj repr_inj). Qed.
End C18.
Print Assumptions C18_wiring.
Print Assumptions C18_autorun_waits.
Print Assumptions C18_value.
Print Assumptions C18_pull_value.
Print Assumptions C18_slice.
Print Assumptions C18_reuse.
Print Assumptions C18_pull_keeps_skeleton.
Print Assumptions C18_no_parent_fresh.
Print Assumptions C18_distinct_raw.
Print Assumptions C18_one_operand.
Print Assumptions C18_distinct_partial.
Print Assumptions C18_wiring_partial.

(* ---- what the repaired code still violates ------------------------------------------------------------
   Concrete instance: values are tagged text, hash is the identity, repr / + / slice / [] are the rows of
   w_reprs / w_rows (what CPython answers).  Known finding C18-underscore-framing.
   "_" both separates the pieces and occurs inside labels: with UserInput nodes a=1, d=10,
   c__user_input_Add_d=100, a__user_input_Add_c=1000 (distinct identifiers), the expressions
   a + c__user_input_Add_d  and  a__user_input_Add_c + d  get ONE node, and the mix-up changes the
   value: python says 1000 + 10 = 1010, the shared node answers 101.  Violates frame_inj only. *)
Theorem C18_distinct_refuted_framing : exists qs st q1 q2 n,
  w_hist w_st0 qs st /\ In (q1, n) qs /\ In (q2, n) qs /\ q1 <> q2 /\
  w_pyop PAdd ["int:1000"; "int:10"] = inl "int:1010" /\
  snd (w_pull st n) = PVal "int:101".
Proof. exact w_refuted_framing. Qed.
Print Assumptions C18_distinct_refuted_framing.

(* ---- the repaired defects as facts of the model (regression witnesses) ---------------------------------
   x + 1 and x + '1' get two nodes, the second raising python's TypeError when written; l[i:4] written
   while i holds no data does not run, and once pulled it is python's l[1:4]. *)
Example C18_regressions :
  (exists st1 st2, w_inject w_st0 (@mkQ tval CAdd w_x [OR "int:1"] true) = (st1, 0, Done) /\
                   w_inject st1 (@mkQ tval CAdd w_x [OR "str:'1'"] true) = (st2, 1, Raised "TypeError")) /\
  (exists st1 st2 st3,
     w_inject w_st0 (@mkQ tval CSlice w_l [OC w_i; OR "int:4"; OR "NoneType:None"] false) = (st1, 0, Done) /\
     w_inject st1 (@mkQ tval CGetItem w_l [OC (CN 0)] true) = (st2, 1, Done) /\
     chan_value tval st2 (CN 0) = None /\ chan_value tval st2 (CN 1) = None /\
     w_pull st2 1 = (st3, PVal "list:[2, 3, 4]")).
Proof. exact w_regressions. Qed.

(* ---- non-vacuity: the hypotheses of the guarded theorems are met by a non-trivial history
   (raw operand, channel operand, nested expression (x + 1) * 4 = 8, repetition); repr = the injective
   tagged text itself ------------------------------------------------------------------------------------- *)
Example C18_hyps_hold :
  let q1 := @mkQ tval CAdd w_x [OR "int:1"] true in
  let q2 := @mkQ tval CAdd w_x [OC w_y] true in
  let q3 := @mkQ tval CMultiply (CN 0) [OR "int:4"] true in
  exists st, let qs := [(q1, 0); (q2, 1); (q3, 2); (q1, 0)] in
    e_hist w_st0 qs st /\ s_parent tval w_st0 = true /\ s_nodes tval w_st0 = [] /\
    (forall a b : string, (fun s : string => s) a = (fun s => s) b -> a = b) /\
    flags_ok tval (map fst qs) /\
    raw_vs_chan tval (fun s => s) st (map fst qs) /\
    scoped_inj tval st (map fst qs) /\ frame_inj tval (fun s => s) st (map fst qs) /\
    List.length (s_nodes tval st) = 3 /\ chan_value tval st (CN 2) = Some "int:8".
Proof. exact w_hyps_hold. Qed.
