(* C14 -- graph edits are all-or-nothing and a replacement inherits the old node's place.
   All statements are about Edit.v, the step-by-step model of Channel.copy_connections,
   HasIO.copy_io (_copy_connections / _copy_values / _copy_panel), Composite.replace_child,
   Workflow.replace_child / _rebuild_data_io and the flow derivation of topology.py, validated
   against the real library on every run.  Every model function threads the FAULT ORACLE: the
   counters fc / fv / fl of the state (arguments k of the store-level functions) make the k-th
   single connection / value assignment / value-link assignment raise; the theorems below hold
   for every value of these counters, i.e. for an injected failure at every sub-step, and for
   every graph (the hypotheses Sym / NoDupS / InRange are the invariants of C12).
   Only Theorem / exact / Print Assumptions live here; proofs are in EditProofs.v. *)
From PW Require Import Base Edit EditProofs.

(* ===== (A) all-or-nothing ========================================================================= *)

(* Channel.copy_connections, partial: atomic when the two channels share no connection.
   Missing from the full statement: the shared case (refuted below, S13). *)
Theorem C14_copy_connections_atomic_partial : forall W s k a o s' k' e,
  Sym s -> NoDupS s -> (forall t, In t (s o) -> ~ In t (s a)) ->
  copy_conns W s k a o = (s', k', Err e) -> same s' s.
Proof. exact copy_conns_atomic. Qed.
Print Assumptions C14_copy_connections_atomic_partial.

Theorem C14_copy_connections_refuted :
  wf_b w_shared (cn s_shared) = true /\
  snd (copy_conns w_shared (cn s_shared) 0 14 7) = Err ConnErr /\
  fst (fst (copy_conns w_shared (cn s_shared) 0 14 7)) 14 <> cn s_shared 14.
Proof. exact copy_conns_refuted. Qed.
Print Assumptions C14_copy_connections_refuted.

(* HasIO.copy_io(connections_fail_hard=True): whatever raises -- a missing channel, a refused hint, a
   refused value, the injected failure of ANY connection or value transfer -- every connection list,
   label, parent, child, link and starting node is as before, provided what [src] is connected to are
   third parties that the matching channels of [dst] are not yet connected to (third_party). *)
Theorem C14_copy_io_connections_restored_partial : forall W st dst src vfh st' e ph,
  dst <> src -> Sym (cn st) -> NoDupS (cn st) -> uniq_labels W src -> third_party W dst src (cn st) ->
  copy_io W st dst src true vfh = (st', CErr e ph) ->
  same (cn st') (cn st) /\ rc st' = rc st /\ par st' = par st /\ lab st' = lab st /\
  kids st' = kids st /\ start st' = start st.
Proof. intros; eapply copy_io_conns_restored; eassumption. Qed.
Print Assumptions C14_copy_io_connections_restored_partial.

(* ... and the values too, i.e. the whole graph, when the failure is raised while connections are copied
   or by the inputs panel of the value copy, and the receiving channels forward to no value receiver.
   Missing: shared connections, a failure in the outputs panel, receivers (all refuted below). *)
Theorem C14_copy_io_atomic_partial : forall W st dst src vfh st' e ph,
  dst <> src -> Sym (cn st) -> NoDupS (cn st) -> uniq_labels W src -> third_party W dst src (cn st) ->
  (forall c, owner_of W c = dst -> rc st c = None) ->
  copy_io W st dst src true vfh = (st', CErr e ph) ->
  ph = CConn \/ (ph = CValIn /\ e = ValueCopyErr) ->
  same_graph st st'.
Proof. intros; eapply copy_io_atomic; eassumption. Qed.
Print Assumptions C14_copy_io_atomic_partial.

Theorem C14_copy_io_refuted_shared :
  let r := copy_io w_shared s_shared 3 2 true false in
  wf_b w_shared (cn s_shared) = true /\ snd r = CErr ConnCopyErr CConn /\ ~ same_graph s_shared (fst r).
Proof. exact copy_io_shared_refuted. Qed.
Print Assumptions C14_copy_io_refuted_shared.

Theorem C14_copy_io_refuted_two_logs :
  let r := copy_io w_two_logs s_two_logs 1 2 true true in
  snd r = CErr ValueCopyErr CValOut /\ ~ same_graph s_two_logs (fst r).
Proof. exact copy_io_two_logs_refuted. Qed.
Print Assumptions C14_copy_io_refuted_two_logs.

Theorem C14_copy_io_refuted_receiver :
  let r := copy_io w_recv_undo s_recv_undo 1 2 true true in
  snd r = CErr ValueCopyErr CValOut /\ ~ same_graph s_recv_undo (fst r).
Proof. exact copy_io_receiver_refuted. Qed.
Print Assumptions C14_copy_io_refuted_receiver.

(* Composite.replace_child, partial: all-or-nothing for every failure up to and including copy_io --
   wrong owner, owned or connected replacement, a connected channel missing on the replacement, a hint
   refused by a neighbour, the injected failure of any connection transfer -- in every graph in which
   the replaced node is not connected to itself. *)
Theorem C14_replace_atomic_partial : forall W st comp old new st' e ph,
  Sym (cn st) -> NoDupS (cn st) -> InRange W (cn st) -> uniq_labels W old -> no_self W (cn st) old ->
  replace_core W st comp old new = (st', RErr e ph) -> ph = PhCheck \/ ph = PhCopy ->
  same_graph st st'.
Proof. intros; eapply replace_core_atomic; eassumption. Qed.
Print Assumptions C14_replace_atomic_partial.

(* ... hence for EVERY failure (whatever the three fault counters) when the replaced node takes no part in
   the macro's value links -- in particular for every child of a workflow.
   Missing from the full statement: value-linked children (refuted below, S13). *)
Theorem C14_replace_unlinked_atomic_partial : forall W st comp old new st' e ph,
  Sym (cn st) -> NoDupS (cn st) -> InRange W (cn st) -> uniq_labels W old -> no_self W (cn st) old ->
  unlinked W st comp old ->
  replace_core W st comp old new = (st', RErr e ph) -> same_graph st st'.
Proof. intros; eapply replace_core_unlinked_atomic; eassumption. Qed.
Print Assumptions C14_replace_unlinked_atomic_partial.

Theorem C14_replace_refuted_missing_link :
  let r := replace_core w_missing s_links 0 1 3 in
  wf_b w_missing (cn s_links) = true /\ snd r = RErr AttrErr PhLookup /\ ~ same_graph s_links (fst r).
Proof. exact replace_missing_link_refuted. Qed.
Print Assumptions C14_replace_refuted_missing_link.

Theorem C14_replace_refuted_reforge :
  let r := replace_core w_reforge s_links 0 1 3 in
  snd r = RErr ValueErr PhForge /\ ~ same_graph s_links (fst r).
Proof. exact replace_reforge_refuted. Qed.
Print Assumptions C14_replace_refuted_reforge.

Theorem C14_replace_refuted_link_fault :
  let r := replace_core w_compat s_links_fault 0 1 3 in
  snd r = RErr Injected PhForge /\ ~ same_graph s_links_fault (fst r).
Proof. exact replace_reforge_fault_refuted. Qed.
Print Assumptions C14_replace_refuted_link_fault.

(* Workflow.replace_child (tree at a33e34e) IS Composite.replace_child, IO maps or not: what the latter raises
   the former raises at the same graph; a successful replacement is left exactly as it is by the IO rebuild
   (every exposed key names one channel, as a bidict map guarantees) -- so the map-exposed connected channels
   are replaced like all others.  This replaces the former C14_workflow_map_refuted (endless swap-back
   recursion / silent disconnect), repaired in /repo. *)
Theorem C14_workflow_replace_is_composite : forall W st wm comp old new st1,
  (forall e ph, replace_core W st comp old new = (st1, RErr e ph) ->
                replace_wf W st wm comp old new = (st1, RErr e ph)) /\
  (replace_core W st comp old new = (st1, ROk) -> unique_keys W st1 wm ->
   replace_wf W st wm comp old new = (st1, ROk)).
Proof. intros. split; [intros; now apply replace_wf_err|intros; now apply replace_wf_ok]. Qed.
Print Assumptions C14_workflow_replace_is_composite.

(* hence all-or-nothing like the composite's, for every map *)
Theorem C14_workflow_replace_atomic_partial : forall W st wm comp old new st' e ph,
  Sym (cn st) -> NoDupS (cn st) -> InRange W (cn st) -> uniq_labels W old -> no_self W (cn st) old ->
  unlinked W st comp old -> ph <> PhRebuild ->
  replace_wf W st wm comp old new = (st', RErr e ph) -> same_graph st st'.
Proof. intros. eapply replace_core_unlinked_atomic; eauto using replace_wf_err_inv. Qed.
Print Assumptions C14_workflow_replace_atomic_partial.

(* deriving the execution flow from the data graph, partial: when it is refused (cyclic data, an upstream
   node that is no sibling, ...) or the very first new connection fails, every broken run / ran connection
   is restored -- in graphs whose run / accumulate_and_run / ran channels carry single connections.
   Missing: channels with several connections (re-ordered), failures after a new connection was made. *)
Theorem C14_wire_atomic_partial : forall W st orders st' e ph,
  singles (cn st) (flow_chans W (kids st)) ->
  wire W st orders = (st', WErr e ph) -> ph = WGraph \/ ph = WWire 0 -> same_graph st st'.
Proof. exact wire_atomic. Qed.
Print Assumptions C14_wire_atomic_partial.

(* the same derivation entered through a pull (Node.run_data_tree): refused for cyclic data or because the data
   tree crosses scopes (an upstream node that is no sibling), it restores the run / ran wiring of the tree and
   gives every node of the tree -- children and outsiders -- its label back: labels, children keys, values, links
   untouched (same guard and same gaps as above; the temporary labels are not represented in the model, the
   correspondence check compares the labels of every node and the children keys after the failure). *)
Theorem C14_pull_derivation_atomic_partial : forall W st target order st' e ph,
  singles (cn st) (flow_chans W (arrange order (data_tree W (cn st) target))) ->
  pull_derive W st target order = (st', WErr e ph) -> ph = WGraph -> same_graph st st'.
Proof. exact pull_derive_atomic. Qed.
Print Assumptions C14_pull_derivation_atomic_partial.

(* the flow derivation is NOT all-or-nothing in general: restored lists come back re-ordered, and a failing
   new connection leaves the ones made before it *)
Theorem C14_wire_refuted_reorder :
  let r := wire w_three s_wire_cycle [[2]; [1]; []] in
  wf_b w_three (cn s_wire_cycle) = true /\ snd r = WErr CircErr WGraph /\ ~ same_graph s_wire_cycle (fst r).
Proof. exact wire_reorder_refuted. Qed.
Print Assumptions C14_wire_refuted_reorder.

Theorem C14_wire_refuted_fault :
  let r := wire w_three s_wire_fault [[]; [1]; [2]] in
  snd r = WErr Injected (WWire 1) /\ ~ same_graph s_wire_fault (fst r).
Proof. exact wire_fault_refuted. Qed.
Print Assumptions C14_wire_refuted_fault.

(* ===== (B) a successful replacement inherits the old node's place =================================== *)

(* label (the labels are swapped), parent, place among the children, starting-node status; nobody else's
   label or parent moves *)
Theorem C14_replace_inherits_place : forall W st comp old new st',
  replace_core W st comp old new = (st', ROk) ->
  old <> new /\
  lab st' new = lab st old /\ lab st' old = lab st new /\
  par st' new = Some comp /\ par st' old = None /\
  kids st' = filter (fun k => negb (Nat.eqb k old)) (kids st) ++ [new] /\
  start st' = remove1 Nat.eqb old (start st) ++ (if memn old (start st) then [new] else []) /\
  (forall n, n <> old -> n <> new -> lab st' n = lab st n /\ par st' n = par st n).
Proof. intros; eapply replace_core_place; eassumption. Qed.
Print Assumptions C14_replace_inherits_place.

(* the macro's value links: every macro input that fed an input of the old node feeds the equally labelled
   input of the replacement; every output of the old node that fed a macro output is matched by the
   equally labelled output of the replacement feeding it *)
Theorem C14_replace_inherits_links : forall W st comp old new st',
  uniq_labels W old ->
  replace_core W st comp old new = (st', ROk) ->
  (forall i r, In i (panel_chans W comp PIn) -> rc st i = Some r -> In r (panel_chans W old PIn) ->
     exists x, find_chan W new PIn (clabel W r) = Some x /\ rc st' i = Some x) /\
  (forall o m, In o (panel_chans W old POut) -> rc st o = Some m -> In m (panel_chans W comp POut) ->
     exists x, find_chan W new POut (clabel W o) = Some x /\ rc st' x = Some m).
Proof. intros W st comp old new st' HU. exact (replace_core_links W st comp old new HU st'). Qed.
Print Assumptions C14_replace_inherits_links.

(* every connection the old node had, partial.  After a successful replace_child, in every well-formed graph
   in which the old node is not connected to itself:
   - the old node is connected to nothing;
   - every other channel lists first the channels of the replacement that took over its connections to the
     old node (newest first), then what it listed before minus the old node's channels -- the replacement
     JUMPS TO TOP PRIORITY at its neighbours;
   - each channel of the replacement lists exactly the partners of its namesake on the old node, in
     REVERSED order: the same connections, the same priority only for <= 1 connection;
   - every connected channel of the old node has a namesake on the replacement.
   Missing from the full statement: "the same priority among multiple connections" (refuted below). *)
Theorem C14_replace_inherits_connections_partial : forall W st comp old new st',
  WF (cn st) -> InRange W (cn st) -> uniq_labels W old -> no_self W (cn st) old ->
  replace_core W st comp old new = (st', ROk) ->
  (forall c, In c (all_chans W old) -> cn st' c = []) /\
  (forall t, ~ In t (all_chans W old) ->
     cn st' t = rev (partners (plan W new old (cn st)) t) ++
                filter (fun p => negb (memn p (all_chans W old))) (cn st t)) /\
  (forall ch x, In ch (all_chans W old) -> my_chan W new ch = Some x -> cn st' x = rev (cn st ch)) /\
  (forall ch, In ch (all_chans W old) -> cn st ch <> [] -> my_chan W new ch <> None).
Proof. intros. eapply replace_core_connections; eassumption. Qed.
Print Assumptions C14_replace_inherits_connections_partial.

(* the same for a bare copy_io: what a successful copy transfers, and in which order *)
Theorem C14_copy_io_transfers_partial : forall W st dst src vfh st',
  dst <> src -> Sym (cn st) -> NoDupS (cn st) -> uniq_labels W src -> third_party W dst src (cn st) ->
  copy_io W st dst src true vfh = (st', COk) ->
  linked (cn st) (plan W dst src (cn st)) (cn st') /\
  (forall ch, In ch (all_chans W src) -> cn st ch <> [] -> my_chan W dst ch <> None) /\
  (forall ch x, In ch (all_chans W src) -> my_chan W dst ch = Some x -> cn st x = [] ->
     cn st' x = rev (cn st ch)).
Proof.
  intros W st dst src vfh st' Hne HS HN HU HT E.
  destruct (copy_io_transfers W st dst src Hne HS HN HU HT vfh st' E) as (L & M & _).
  split; [exact L|]. split; [exact M|].
  intros ch x Hch My Hx. exact (copy_io_reverses W st dst src Hne HS HN HU HT vfh st' ch x E Hch My Hx).
Qed.
Print Assumptions C14_copy_io_transfers_partial.

(* "with the same priority among multiple connections" is FALSE of the code: n3.x lists [n2.y, n1.y];
   after n1 is replaced by n4 it lists [n4.y, n2.y] -- the replacement jumped the queue (S13 / S7) *)
Theorem C14_replace_inherits_priority_refuted :
  let r := replace_core w_four s_priority 0 1 4 in
  wf_b w_four (cn s_priority) = true /\ snd r = ROk /\
  cn s_priority 14 = [9; 2] /\ my_chan w_four 4 2 = Some 23 /\ cn (fst r) 14 = [23; 9].
Proof. exact replace_priority_refuted. Qed.
Print Assumptions C14_replace_inherits_priority_refuted.

(* Non-vacuity: a graph that meets the guards of C14_replace_atomic_partial, whose replacement (x: str
   towards a neighbour's int output) is refused by copy_io, and which is indeed left as it was. *)
Example C14_hyps_hold :
  let r := replace_core w_neighbour s_neighbour 0 2 3 in
  wf_b w_neighbour (cn s_neighbour) = true /\ snd r = RErr ConnCopyErr PhCopy /\
  cn (fst r) 2 = cn s_neighbour 2 /\ cn (fst r) 2 = [8; 7].
Proof. exact replace_atomic_instance. Qed.

(* ... and a workflow whose input map exposes the connected n2.x (under another name, or under its own): the
   replacement of n3 succeeds, n2.x keeps its connection, the children are [n1; n2; n4]. *)
Example C14_workflow_map_holds :
  (let r := replace_wf w_four s_wf_map [(2, 0, true, 13)] 0 3 4 in
   snd r = ROk /\ cn (fst r) 7 = [2] /\ kids (fst r) = [1; 2; 4]) /\
  (let r := replace_wf w_four s_wf_map [(2, 0, true, 0)] 0 3 4 in
   snd r = ROk /\ cn (fst r) 7 = [2] /\ kids (fst r) = [1; 2; 4]).
Proof. exact wf_map_instance. Qed.
