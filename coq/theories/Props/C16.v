(* C16 -- a for-loop node computes exactly the nested-times-zipped table of its body.
   Model: ForLoop.v (dictionary_to_index_maps branch for branch; For.__init_subclass__,
   Node._before_run's cache test / _on_cache_miss / readiness gate, Node._run_finally's cache
   write after a successful run, For._build_body and its helpers, the body DAG with an arbitrary completion order, the
   row / column collectors).  Proofs: ForLoopProofs.v.  The body node's function, labels and
   defaults are fields of [cfg] and universally quantified everywhere. *)
From PW Require Import Base ForLoop ForLoopProofs.
From Coq Require Import Permutation.
Open Scope nat_scope.

(* ---- the index maps ---------------------------------------------------------------- *)
(* For ALL data dictionaries and key tuples (None / empty / any number of keys) whose keys
   are distinct and name data with a length: the helper returns exactly the mathematical
   enumeration [spec_maps] -- entry r = (mixed-radix digits of r / nz on the nested keys,
   r mod nz on every zipped key), r = 0 .. prod(nested lengths) * min(zipped lengths) - 1,
   an absent group counting as factor 1 -- and ValueError when nothing is looped or the
   enumeration is empty.  PARTIAL: the guard [mixed_zero = false] excludes "one group
   present with no position while the other group has some" -- there the code departs from
   the enumeration (refuted below, known finding C16-mixed-zero-length). *)
Theorem C16_index_maps_partial : forall data nk zk nls zls,
  lengths data (okeys nk) = Ok nls -> lengths data (okeys zk) = Ok zls ->
  NoDup (okeys nk ++ okeys zk) ->
  mixed_zero (okeys nk) nls (okeys zk) zls = false ->
  index_maps data nk zk =
    if isnil (okeys nk) && isnil (okeys zk) then
      (if isnone nk && isnone zk then Err ValueErrorNoKeys else Err ValueErrorAllZero)
    else if prod nls * zfac (okeys zk) zls =? 0 then Err ValueErrorAllZero
    else Ok (spec_maps (okeys nk) nls (okeys zk) zls).
Proof. exact index_maps_spec. Qed.
Print Assumptions C16_index_maps_partial.

(* what the enumeration is: product-times-min many entries, in order; entry r sends the j-th
   nested key to digit j of r / nz (most significant first = outer loops in key order) and every
   zipped key to r mod nz (lock step, inner loop); and each digit is a valid position *)
Theorem C16_enumeration : forall nk nls zk zls,
  NoDup (nk ++ zk) -> List.length nls = List.length nk ->
  List.length (spec_maps nk nls zk zls) = prod nls * zfac zk zls /\
  forall r, r < prod nls * zfac zk zls ->
    nth_error (spec_maps nk nls zk zls) r = Some (spec_entry nk nls zk (zfac zk zls) r) /\
    (forall j k, nth_error nk j = Some k ->
       sassoc k (spec_entry nk nls zk (zfac zk zls) r) = Some (nth j (digits nls (r / zfac zk zls)) 0)) /\
    (forall k, In k zk -> sassoc k (spec_entry nk nls zk (zfac zk zls) r) = Some (r mod zfac zk zls)) /\
    Forall2 (fun d n => d < n) (digits nls (r / zfac zk zls)) nls.
Proof.
  intros nk nls zk zls Hnd Hl. split.
  - unfold spec_maps. now rewrite map_length, seq_length.
  - intros r Hr. destruct (entry_decodes nk nls zk (zfac zk zls) r Hnd Hl) as [H1 H2].
    repeat split; auto.
    + unfold spec_maps. rewrite nth_error_map, nth_error_seq.
      apply Nat.ltb_lt in Hr. now rewrite Hr.
    + apply digits_bound. apply Nat.div_lt_upper_bound; [|lia].
      destruct (zfac zk zls); lia.
Qed.
Print Assumptions C16_enumeration.

(* ... and it is the plain nested loops: `for ixs in product(ranges of the nested lengths): for z
   in range(min of the zipped lengths): {nested keys -> ixs, zipped keys -> z}` *)
Theorem C16_enumeration_is_nested_loops : forall nk nls zk zls,
  spec_maps nk nls zk zls =
  flat_map (fun ixs => map (fun z => combine nk ixs ++ map (fun k => (k, z)) zk)
                           (seq 0 (zfac zk zls)))
           (product nls).
Proof. exact spec_maps_loops. Qed.
Print Assumptions C16_enumeration_is_nested_loops.

(* the unguarded statement is FALSE of the code: an empty iterated input next to two zipped
   positions yields two index maps that do not mention the iterated key at all *)
Theorem C16_index_maps_refuted : exists data nk zk nls zls maps,
  lengths data nk = Ok nls /\ lengths data zk = Ok zls /\ NoDup (nk ++ zk) /\
  index_maps data (Some nk) (Some zk) = Ok maps /\
  prod nls * zfac zk zls = 0 /\ List.length maps = 2 /\
  forall m, In m maps -> sassoc "a" m = None.
Proof.
  exists [("a", Some 0); ("b", Some 2)], ["a"], ["b"], [0], [2], [[("b", 0)]; [("b", 1)]].
  repeat split; try reflexivity.
  - repeat constructor; simpl; intuition discriminate.
  - intros m [<-|[<-|[]]]; reflexivity.
Qed.
Print Assumptions C16_index_maps_refuted.

(* ---- one run that rebuilds ----------------------------------------------------------- *)
(* For EVERY loop layout (any body function/labels/defaults, any iterate/zip/broadcast
   partition, either output form, any column map keeping column names distinct, cache on or
   off), EVERY state the node is in, EVERY completion order of the body nodes and EVERY
   complete input assignment: a run that is not answered from the cache either raises
   ValueError without touching the node (no combination exists) or returns exactly
   [spec_table]: row r = the looped inputs at the decoded positions of r, then the body's
   outputs for (looped values at these positions, broadcast values of all other inputs),
   under the renamed labels (dataframe form: rows; list form: one list per column, looped
   columns first in signature order); the body is called exactly once per row; the children
   are exactly those of the current lengths; the cache holds the current inputs.
   PARTIAL: guards = [wf_cfg] (includes "column names distinct", see C16_column_clash_refuted)
   and [mixed_zero_in = false] (see C16_zero_length_refuted). *)
Theorem C16_rows_partial : forall c i, wf_cfg c = true -> body_total c -> shaped c i = true ->
  forall order st,
  s_in st = i -> mixed_zero_in c i = false -> s_failed st = false -> hit c st = false ->
  run c order st =
    if nrows c i =? 0 then (st, Raised ValueErrorAllZero false [])
    else (built c (s_cache st) i, Returned (Some (spec_table c i)) (spec_calls c i)).
Proof. exact run_miss. Qed.
Print Assumptions C16_rows_partial.

(* ---- executor: every completion order ------------------------------------------------ *)
(* unconditionally (any layout, state, inputs): the outcome and the resulting node do not
   depend on the order in which the body nodes complete *)
Theorem C16_completion_order : forall c o1 o2 st, run c o1 st = run c o2 st.
Proof. exact run_order_irrelevant. Qed.
Print Assumptions C16_completion_order.

(* ... because a collector's slot depends only on the row number: for every permutation of the
   body nodes as completion order, slot r holds row r *)
Theorem C16_collect_by_row : forall (A : Type) n (f : nat -> A) p,
  Permutation p (seq 0 n) -> collect n f p = map (fun r => Some (f r)) (seq 0 n).
Proof. exact @collect_permutation. Qed.
Print Assumptions C16_collect_by_row.

(* ---- re-runs: all histories ------------------------------------------------------------ *)
(* From creation, after ANY sequence of steps (each: re-assign any inputs -- lengths may change
   freely -- then run with any completion order; steps may hit the cache, be refused for
   missing inputs or for having no combination) interleaved with ANY re-assignments of the
   node's use_cache flag (on -> off -> on ...: a rebuild forgets the remembered inputs whether
   or not the flag is on, so nothing remembered outlives the sub-graph it belongs to), one
   more step on complete inputs gives
   exactly the table of THESE inputs (whether answered from the cache or rebuilt: nothing
   stale), with body calls = none (hit) or one per row (rebuild), and leaves exactly the
   children of these inputs.  PARTIAL: every step's inputs satisfy [ok_inputs] (right shapes;
   not the mixed zero-length layout, after which the node is `failed`). *)
Theorem C16_rerun_partial : forall c, wf_cfg c = true -> body_total c ->
  forall st, reach c st ->
  forall s, let i := s_in (assign_all st (fst s)) in
    shaped c i = true -> mixed_zero_in c i = false ->
    if nrows c i =? 0 then
      do_step c st s = (assign_all st (fst s), Raised ValueErrorAllZero false [])
    else
      exists calls,
        snd (do_step c st s) = Returned (Some (spec_table c i)) calls /\
        (calls = [] \/ calls = spec_calls c i) /\
        s_children (fst (do_step c st s)) = spec_children c i /\
        s_out (fst (do_step c st s)) = Some (spec_table c i).
Proof. exact rerun_spec. Qed.
Print Assumptions C16_rerun_partial.

(* the children of given inputs contain exactly one body node per row *)
Theorem C16_body_nodes : forall c i, count_kind "body" (spec_children c i) = nrows c i.
Proof. exact spec_children_bodies. Qed.
Print Assumptions C16_body_nodes.

(* ---- for_node and its class registry ----------------------------------------------------- *)
(* For EVERY content of for_node_factory's class registry (whatever earlier for_node calls
   registered, under whatever spelling of iter_on / zip_on -- bare string or tuple -- and
   whatever name clashes str.title() produces) and EVERY request: the class the new node is an
   instance of is the one built from THIS call's body, looped fields, output form, column map
   and cache flag (or this call's creation error) *)
Theorem C16_for_node_fresh : forall reg q,
  snd (for_node_class reg q) =
  match check_class (cfg_of q) with Some e => Err e | None => Ok (cfg_of q) end.
Proof. exact for_node_class_fresh. Qed.
Print Assumptions C16_for_node_fresh.

(* ... so any number of for-nodes made and run one after the other in one process behave as
   that many independent nodes, each of its own configuration *)
Theorem C16_session_independent : forall reg qs,
  session_go reg qs =
  map (fun qs : request * list xstep =>
         OL [OS (name_of (fst qs) (fresh_class (fst qs))); scenario (cfg_of (fst qs)) (snd qs)]) qs.
Proof. exact session_independent. Qed.
Print Assumptions C16_session_independent.

(* ---- where the unchanged code violates the property ---------------------------------- *)
(* zero-length iterated input next to non-empty zipped input: no combination exists, yet two
   body nodes are built and RUN -- on the body's default for the iterated input -- and the
   node ends up failed (FailedChildError) instead of refusing with ValueError *)
Theorem C16_zero_length_refuted : exists c st0 a,
  wf_cfg c = true /\ body_total c /\ create c = Ok st0 /\
  shaped c (s_in (assign_all st0 a)) = true /\ nrows c (s_in (assign_all st0 a)) = 0 /\
  snd (run c [] (assign_all st0 a)) = Raised FailedChildError true [[5; 3]; [5; 4]]%Z.
Proof.
  exists {| c_body := toy 1; c_iter := ["a"]; c_zip := ["b"]; c_df := true; c_map := []; c_cache := true |}.
  eexists. exists [("a", IL []); ("b", IL [3; 4]%Z)].
  repeat split; try (vm_compute; reflexivity).
Qed.
Print Assumptions C16_zero_length_refuted.

(* a column map whose target collides with a looped label is accepted at class creation; the
   dataframe then has one column fewer and shows the body's output under the input's name *)
Theorem C16_column_clash_refuted : exists c st0 a t calls,
  create c = Ok st0 /\ body_total c /\
  shaped c (s_in (assign_all st0 a)) = true /\ mixed_zero_in c (s_in (assign_all st0 a)) = false /\
  snd (run c [] (assign_all st0 a)) = Returned (Some t) calls /\
  t = (["a"; "p"], [[31; 3]; [32; 6]]%Z) /\
  spec_table c (s_in (assign_all st0 a)) = (["a"; "a"; "p"], [[1; 31; 3]; [2; 32; 6]]%Z).
Proof.
  exists {| c_body := toy 1; c_iter := ["a"]; c_zip := []; c_df := true; c_map := [("s", "a")]; c_cache := true |}.
  eexists. exists [("a", IL [1; 2]%Z); ("b", IZ 3%Z)]. eexists. eexists.
  repeat split; try (vm_compute; reflexivity).
Qed.
Print Assumptions C16_column_clash_refuted.

(* ---- non-vacuity ------------------------------------------------------------------------ *)
(* a 2 x 3 nested loop zipped over unequal lists, re-run with other lengths, body nodes
   completing in reverse order: hypotheses hold, the table is the expected one *)
Example C16_hyps_hold :
  let c := {| c_body := toy 3; c_iter := ["b"; "a"]; c_zip := ["d"; "c"]; c_df := false;
              c_map := [("u", "U")]; c_cache := true |} in
  let s1 : step := ([("a", IL [1; 2; 3]); ("b", IL [4; 5]); ("c", IL [6; 7; 8]); ("d", IL [0; 1])]%Z, [11; 10; 9; 8; 7; 6; 5; 4; 3; 2; 1; 0]) in
  let s2 : step := ([("a", IL [9]); ("d", IL [2; 3; 4])]%Z, [1; 0; 2]) in
  wf_cfg c = true /\ body_total c /\
  (exists st0, create c = Ok st0 /\
     let st1 := fst (do_step c st0 s1) in
     ok_inputs c (s_in (assign_all st0 (fst s1))) /\
     shaped c (s_in (assign_all st1 (fst s2))) = true /\
     mixed_zero_in c (s_in (assign_all st1 (fst s2))) = false /\
     nrows c (s_in (assign_all st0 (fst s1))) = 12 /\
     nrows c (s_in (assign_all st1 (fst s2))) = 6 /\
     snd (do_step c st1 s2) =
       Returned (Some (["a"; "b"; "c"; "d"; "U"; "v"],
                       [[9; 9; 9; 9; 9; 9]; [4; 4; 4; 5; 5; 5]; [6; 7; 8; 6; 7; 8]; [2; 3; 4; 2; 3; 4];
                        [2649; 3749; 4849; 2659; 3759; 4859]; [7; 6; 5; 7; 6; 5]])%Z)
                [[9; 4; 6; 2]; [9; 4; 7; 3]; [9; 4; 8; 4]; [9; 5; 6; 2]; [9; 5; 7; 3]; [9; 5; 8; 4]]%Z /\
     count_kind "body" (s_children (fst (do_step c st1 s2))) = 6).
Proof.
  cbv zeta. split; [reflexivity|]. split; [intro a; reflexivity|].
  eexists. split; [reflexivity|].
  repeat split; try (vm_compute; reflexivity).
Qed.

(* caching switched off and on again between runs: run 1 is remembered; run 2 (caching off,
   other lengths) rebuilds and forgets it; run 3 (caching on again, the inputs of run 1 as
   fresh equal lists) is NOT answered from memory -- it rebuilds and returns run 1's table *)
Example C16_use_cache_toggled :
  let c := {| c_body := toy 2; c_iter := ["a"]; c_zip := ["b"]; c_df := true; c_map := []; c_cache := true |} in
  let i1 := [("a", IL [1; 2]); ("b", IL [10; 20]); ("c", IZ 2)]%Z in
  let i2 := [("a", IL [7]); ("b", IL [1; 2; 3])]%Z in
  exists st0, create c = Ok st0 /\
    let st1 := fst (do_xstep c st0 (None, (i1, []))) in
    let st2 := fst (do_xstep c st1 (Some false, (i2, []))) in
    s_cached st1 <> None /\ s_cached st2 = None /\
    snd (do_xstep c st2 (Some true, (i1, []))) =
      Returned (Some (["a"; "b"; "t"], [[1; 10; 301]; [1; 20; 401]; [2; 10; 302]; [2; 20; 402]])%Z)
               [[1; 10; 2]; [1; 20; 2]; [2; 10; 2]; [2; 20; 2]]%Z.
Proof.
  cbv zeta. eexists. split; [reflexivity|]. repeat split; try (vm_compute; reflexivity).
  vm_compute. discriminate.
Qed.
