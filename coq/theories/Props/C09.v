(* C09 -- a macro behaves exactly like its sub-graph, behind synchronized by-value IO.
   Statements about Macro.v (the model of nodes/macro.py Macro._setup_node / the value setter of
   channels.py with its value_receiver / Node.run + Composite._on_run for a macro body); the
   proofs are in MacroProofs.v.

   Vocabulary (Macro / MacroProofs):
     mdef                     a macro DEFINITION: parameters (label, default?, hint?), creation script
                              (children in order; arguments AParam i | AOut j l | AConst z; a child is a
                              function node or a nested definition), returned channels with output
                              labels, internal flow (automatic / hand-wired chain / half-specified)
     build d l = Some (s, v)  Macro._setup_node step by step: s = the wiring (children, value links, data
                              connections, execution order), v = all channel values; None = ValueError
     set_in s v k x           `m.inputs[k] = x` (the value setter: push to the value_receiver, then store)
     set_in_at / set_out_at   the same for the channel of a child addressed by a path, any depth
     run s v                  `m.run()`: cache test, readiness, body in its order, outputs pushed upward
     apply_ops s v ops        any sequence of OSetIn path k x | OSetOut path l x | ORun
     denote d ins             plain python composition of the definition
     wfd d                    the generator's notion of a valid definition (references point backwards,
                              nested calls supply the parameters without default, a hand-wired chain
                              visits every child once in an order compatible with the data)
     rets_distinct d          no channel is returned twice, at any depth
     macro_level o            o is `m.inputs[k] = x`, `m.run()` or a refused `m.inputs[k] = <non-int>` (path = [])
     free_op s o              o is NOT applied on the receiving side of a value link: not an assignment to a
                              child input that is the value_receiver of a macro input, nor to a macro output
                              a child output is linked into (free_in / free_out, any depth)
     synced s v               every value-linked pair of channels, at every depth, holds equal values
     down_chain / up_chain    the channels a macro input forwards to / a child output is forwarded to,
                              through any nesting
   The witness definitions dup_def, one_def, inner_def, outer_def are at the end of MacroProofs.v. *)
From PW Require Import Base Macro MacroProofs.
Open Scope string_scope.
Open Scope list_scope.

(* ---- the macro is its body ------------------------------------------------------------------------ *)
(* PARTIAL: for every valid definition in which no channel is returned twice, after EVERY history of
   macro-level input assignments and runs (cache hits included, any nesting, any fan-out of the
   arguments, automatic or chain flow), a run with inputs ins succeeds and leaves exactly
   denote d ins in the macro's outputs.  Missing from the full statement: definitions returning one
   channel under two labels (refuted below, known finding C09-duplicate-return-replaces-link) and
   histories containing child-level or output-side updates (refuted below, S14). *)
Theorem C09_equals_inlined_partial : forall d l s v0 ops v,
  wfd d = true -> rets_distinct d = true -> build d l = Some (s, v0) ->
  Forall macro_level ops -> apply_ops s v0 ops = Some v -> all_data (v_ins v) = true ->
  exists v' calls ps, run s v = Some (v', calls, ps) /\ v_ins v' = v_ins v /\
                      denote d (v_ins v) = Some (v_outs v').
Proof. exact equals_inlined. Qed.
Print Assumptions C09_equals_inlined_partial.

(* plain composition is defined for every valid definition as soon as all arguments are given *)
Theorem C09_denote_total : forall d args, wfd d = true ->
  List.length args = List.length (d_params d) -> all_data args = true ->
  exists outs, denote d args = Some outs /\ List.length outs = d_nouts d /\ all_data outs = true.
Proof. intros d args H. exact (denote_total d H args). Qed.
Print Assumptions C09_denote_total.

(* ... and "building its body directly with the same inputs": the inlined definition (parameters replaced
   by the values, no interface) is valid again, and running it leaves in its outputs exactly the values
   plain composition gives to the returned child channels (parameters passed straight through are the
   values themselves) *)
Theorem C09_equals_inlined_body_partial : forall d args l' s' v0',
  wfd d = true -> rets_distinct d = true -> List.length args = List.length (d_params d) -> all_data args = true ->
  build (inline d args) l' = Some (s', v0') ->
  exists v' c ps E, run s' v0' = Some (v', c, ps) /\
    denote d args = Some (map (fun la => env_val args E (snd la)) (d_rets d)) /\
    v_outs v' = map (fun la => env_val args E (snd la)) (aout_rets (d_rets d)).
Proof. exact inlined_run. Qed.
Print Assumptions C09_equals_inlined_body_partial.

(* REFUTED (C09-duplicate-return-replaces-link): `return self.c, self.c` under two labels: the second
   value link replaces the first, the first output stays NOT_DATA although python returns the value twice *)

Theorem C09_equals_inlined_refuted_duplicate_return :
  wfd dup_def = true /\ rets_distinct dup_def = false /\
  match build dup_def "m" with
  | Some (s, v0) =>
      match run s v0 with
      | Some (v', _, _) => denote dup_def (v_ins v0) = Some [Some 2%Z; Some 2%Z] /\ v_outs v' = [None; Some 2%Z]
      | None => False
      end
  | None => False
  end.
Proof. vm_compute. repeat split; reflexivity. Qed.
Print Assumptions C09_equals_inlined_refuted_duplicate_return.

(* ---- interface -------------------------------------------------------------------------------------- *)
(* labels, order, defaults and hints of the inputs and the output labels of every macro instance, at
   every depth, are those of its OWN definition; the instance's inputs start at the defaults.  [build]
   takes nothing but the definition: which other (parent) class was previewed or instantiated first plays
   no role (the harness runs class-based derived definitions in both orders of first use against it) *)
Theorem C09_interface : forall d l s v, build d l = Some (s, v) ->
  iface_ok d s /\ s_label_of s = l /\ v_ins v = map p_default (d_params d) /\
  (forall o, nth o (v_outs v) None = None).
Proof. exact interface_thm. Qed.
Print Assumptions C09_interface.

(* ---- closure ---------------------------------------------------------------------------------------- *)
(* every data connection of every child, at every depth, names a sibling that is still there: an
   interface node that was kept, or an earlier child and one of its outputs *)
Theorem C09_closed : forall d l s v, wfd d = true -> build d l = Some (s, v) -> closed s.
Proof. exact closed_thm. Qed.
Print Assumptions C09_closed.

(* ---- by value: macro channels are not the children's channels -------------------------------- *)
Theorem C09_distinct_io : forall s v r p k x,
  (* writing a child-level input leaves the macro's own inputs and outputs alone *)
  (v_ins (set_in_at s v (r :: p) k x) = v_ins v /\ v_outs (set_in_at s v (r :: p) k x) = v_outs v) /\
  (* writing a macro-level output leaves every child channel (and the macro inputs) alone *)
  (vget (fst (set_out_at s v [] k x)) (r :: p) = vget v (r :: p) /\ v_ins (fst (set_out_at s v [] k x)) = v_ins v) /\
  (* writing a child-level output leaves the macro's inputs alone *)
  v_ins (fst (set_out_at s v (r :: p) k x)) = v_ins v.
Proof. exact distinct_io_thm. Qed.
Print Assumptions C09_distinct_io.

(* ---- synchronisation, the directions the code implements ------------------------------------- *)
(* The property's "whichever side is updated" is REFUTED below; these are the two directions that hold
   (named _partial for that reason: they are complete statements about their own direction). *)
(* DOWN, after ANY history of operations (child-level and output-side ones included): a macro-level
   input update reaches every linked child input, through any nesting *)
Theorem C09_sync_down_partial : forall d l s v0 ops v k x,
  build d l = Some (s, v0) -> apply_ops s v0 ops = Some v -> k < List.length (d_params d) ->
  get_in (set_in s v k x) [] k = x /\
  forall pk, In pk (down_chain s k) -> get_in (set_in s v k x) (fst pk) (snd pk) = x.
Proof. exact sync_down_thm. Qed.
Print Assumptions C09_sync_down_partial.

(* UP, after ANY history: an update of any child output through the setter (at any depth) reaches every
   macro output it is linked to, through any nesting *)
Theorem C09_sync_up_partial : forall d l s v0 ops v p lo x,
  build d l = Some (s, v0) -> apply_ops s v0 ops = Some v ->
  forall qo, In qo (fst (up_chain s p lo)) -> get_out (fst (set_out_at s v p lo x)) (fst qo) (snd qo) = x.
Proof. exact sync_up_thm. Qed.
Print Assumptions C09_sync_up_partial.

(* PARTIAL ("always hold the same values ... whichever side is updated"): after EVERY history of
   operations none of which is applied on the receiving side of a value link -- macro-level input
   assignments, runs, child-level assignments to inputs that are not the target of a link, assignments to
   outputs nothing is linked into (e.g. the outputs of function children), replacements of a function
   child by a fresh node of its class (Composite.replace_child re-forges its links), at any depth -- EVERY
   value-linked pair of channels, at every depth, holds equal values.  [free_op s o] is exactly the
   negation of the cause predicate of the two S14 findings.  Missing: updates on the receiving side
   (refuted below). *)
Theorem C09_sync_always_partial : forall d l s v0 ops v,
  build d l = Some (s, v0) -> Forall (free_op s) ops -> apply_ops s v0 ops = Some v -> synced s v.
Proof. exact sync_always. Qed.
Print Assumptions C09_sync_always_partial.

(* ... and the linked pairs are all the pairs the definition prescribes: with no channel returned twice,
   every output of every macro instance (any depth) is linked from the channel returned there *)
Theorem C09_links_complete_partial : forall d l s v,
  wfd d = true -> rets_distinct d = true -> build d l = Some (s, v) -> out_links_complete d s.
Proof. exact links_complete_thm. Qed.
Print Assumptions C09_links_complete_partial.

(* a macro-level (or child-level) assignment that a channel down the chain of value links refuses --
   the setter checks its own hint, forwards, and only then stores -- leaves EVERY channel as it was, hence
   every linked pair equal; it is refused exactly when the channel or one it forwards to is hinted int *)
Theorem C09_refused_update_unchanged : forall s v p k v' n,
  apply_op s v (OSetBad p k) = Some (v', n) -> v' = v /\ refuses_at s p k = true.
Proof. exact refused_update_unchanged. Qed.
Print Assumptions C09_refused_update_unchanged.

(* REFUTED (S14, child input): `m.c.inputs.a = 7` is not mirrored to the macro input it is linked from *)

Theorem C09_sync_refuted_child_input :
  wfd one_def = true /\ rets_distinct one_def = true /\
  match build one_def "m" with
  | Some (s, v0) =>
      In ([KBody 0], 0) (down_chain s 0) /\
      match apply_ops s v0 [OSetIn [KBody 0] 0 7%Z] with
      | Some v => get_in v [] 0 = Some 1%Z /\ get_in v [KBody 0] 0 = Some 7%Z
      | None => False
      end
  | None => False
  end.
Proof. vm_compute. repeat split; auto. Qed.
Print Assumptions C09_sync_refuted_child_input.

(* REFUTED (S14, macro output): `m.outputs.o.value = 99` is not mirrored down to the child output *)
Theorem C09_sync_refuted_macro_output :
  match build one_def "m" with
  | Some (s, v0) =>
      In ([], 0) (fst (up_chain s [KBody 0] 0)) /\
      match apply_ops s v0 [ORun; OSetOut [] 0 99%Z] with
      | Some v => get_out v [] 0 = Some 99%Z /\ get_out v [KBody 0] 0 = Some 2%Z
      | None => False
      end
  | None => False
  end.
Proof. vm_compute. repeat split; auto. Qed.
Print Assumptions C09_sync_refuted_macro_output.

(* REFUTED consequence for runs (belongs to C05/S5, reported): after the child-level update the macro's
   own inputs are unchanged, so the next run is a cache hit -- no child runs, the outputs are the old ones *)
Theorem C09_rerun_after_child_update_refuted :
  match build one_def "m" with
  | Some (s, v0) =>
      match apply_ops s v0 [ORun; OSetIn [KBody 0] 0 7%Z] with
      | Some v => match run s v with
                  | Some (v', calls, _) => calls = 0 /\ v_outs v' = [Some 2%Z] /\ get_in v' [KBody 0] 0 = Some 7%Z
                  | None => False
                  end
      | None => False
      end
  | None => False
  end.
Proof. vm_compute. repeat split; auto. Qed.
Print Assumptions C09_rerun_after_child_update_refuted.

(* ---- non-vacuity: a nested definition with a forked, a single-use, a passed-through and an unused
   parameter, a nested macro fed by a parameter and by a sibling, a hand-wired chain ------------- *)

Example C09_hyps_hold :
  wfd outer_def = true /\ rets_distinct outer_def = true /\
  match build outer_def "m" with
  | Some (s, v0) =>
      match apply_ops s v0 [OSetIn [] 0 3%Z; ORun; OSetIn [] 1 6%Z; ORun; ORun; OSetIn [] 0 3%Z] with
      | Some v => all_data (v_ins v) = true /\
                  match run s v with
                  | Some (v', calls, _) => denote outer_def (v_ins v) = Some (v_outs v') /\
                                           v_outs v' = [Some 26%Z; Some 7%Z; Some 30%Z] /\ calls = 0
                  | None => False
                  end
      | None => False
      end
  | None => False
  end.
Proof. vm_compute. repeat split; reflexivity. Qed.

(* the hypotheses of the closure / interface theorems are met by the same instance *)
Example C09_hyps_hold_static : forall s v0, build outer_def "m" = Some (s, v0) ->
  closed s /\ iface_ok outer_def s /\ synced s v0.
Proof. exact hyps_hold_static. Qed.
