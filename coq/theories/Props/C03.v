(* C03 -- inputs resolve by connection priority; nothing runs on missing or ill-typed data.
   Model: Fetch.v.  Only Theorem / exact / Print Assumptions here; proofs in FetchProofs.v. *)
From PW Require Import Base Fetch FetchProofs.

(* fetch: a connected input takes the value of its most recently connected upstream output
   that holds data (connections are listed newest first), and keeps its own value if none
   does; channels outside the input's value-receiver chain are untouched.  For every store,
   every connection list, every fuel. *)
Theorem C03_fetch_priority : forall fuel s c s', fetch fuel s c = Ok s' -> c < List.length (chans s) ->
  c_val (getc s' c) = match first_data_spec (map (fun u => c_val (getc s u)) (c_conns (getc s c))) with
                      | Some v => Some v
                      | None => c_val (getc s c)
                      end /\
  (forall d, ~ In d (chain fuel s c) -> getc s' d = getc s d).
Proof. exact fetch_priority. Qed.
Print Assumptions C03_fetch_priority.

(* the gate: the wrapped function is invoked only by a node that is neither running nor
   failed, only when every input is ready, and with exactly the resolved input values;
   otherwise the run is refused, the function is not called and the store is the one left
   by the delivery phase (the output channel is not written) *)
Theorem C03_gate : forall sem fuel s nd me node_failed kw s' called e,
  run_node sem fuel s nd me node_failed kw = (s', called, e) ->
  (forall args, called = Some args ->
     e = None /\ node_failed = false /\
     exists s2, fst (fetch_all fuel (fst (assign_all fuel s kw)) (n_inputs nd)) = s2 /\
       nth me (running s2) false = false /\
       all_ready s2 (n_inputs nd) = true /\ args = map (arg_of s2) (n_inputs nd) /\
       s' = put s2 (n_output nd) (Some (sem args))) /\
  (called = None -> exists err, e = Some err /\
     (s' = fst (assign_all fuel s kw) \/ s' = fst (fetch_all fuel (fst (assign_all fuel s kw)) (n_inputs nd)))).
Proof. exact gate. Qed.
Print Assumptions C03_gate.

Theorem C03_ready_means : forall ch, ready ch = true <->
  exists v, c_val ch = Some v /\ (c_hinted ch = true -> c_strict ch = true -> admits v = true).
Proof. exact ready_spec. Qed.
Print Assumptions C03_ready_means.

(* no delivery path stores a hint-violating value in a strictly hinted channel: direct
   assignment / keyword at call (set_value), connection fetch, value forwarding along receiver
   chains of any length -- each preserves [Good], hence so does every history of them *)
Theorem C03_no_bad_store_set : forall fuel s c v s', Good s -> set_value fuel s c v = Ok s' -> Good s'.
Proof. exact set_value_good. Qed.
Print Assumptions C03_no_bad_store_set.

Theorem C03_no_bad_store_fetch : forall fuel inputs s, Good s -> Good (fst (fetch_all fuel s inputs)).
Proof. exact fetch_all_good. Qed.
Print Assumptions C03_no_bad_store_fetch.

Theorem C03_no_bad_store_kwargs : forall fuel kw s, Good s -> Good (fst (assign_all fuel s kw)).
Proof. exact assign_all_good. Qed.
Print Assumptions C03_no_bad_store_kwargs.

(* an accepted assignment writes the value to the whole receiver chain and nothing else; a
   rejected one returns no store at all (the code raises before any store on the chain) *)
Theorem C03_assignment_reach : forall fuel s c v s', set_value fuel s c v = Ok s' ->
  (forall d, ~ In d (chain fuel s c) -> getc s' d = getc s d) /\
  (forall d, In d (chain fuel s c) -> d < List.length (chans s) -> c_val (getc s' d) = v).
Proof. exact set_value_touches_chain. Qed.
Print Assumptions C03_assignment_reach.

(* non-vacuity *)
Example C03_example :
  let mk v h st r cs ow := {| c_val := v; c_hinted := h; c_strict := st; c_recv := r; c_conns := cs; c_owner := ow |} in
  let s := {| chans := [mk None false true None [] None;                      (* upstream 0: no data *)
                        mk (Some (VBad 7)) false true None [] None;           (* upstream 1: not an int *)
                        mk (Some (VZ 5)) false true None [] None;             (* upstream 2 *)
                        mk (Some (VZ 1)) true true (Some 4) [0; 2; 1] (Some 0); (* input a: int, strict, forwards to 4 *)
                        mk None true true None [] (Some 1)];
              running := [false; false] |} in
  Good s /\
  (exists s', fetch 5 s 3 = Ok s' /\ c_val (getc s' 3) = Some (VZ 5) /\ c_val (getc s' 4) = Some (VZ 5)) /\
  set_value 5 s 3 (Some (VBad 1)) = Err TypeErr.
Proof.
  split; [|split; [eexists; split; [vm_compute; reflexivity|split; reflexivity]|reflexivity]].
  intros d. unfold good_chan, getc. cbn [chans].
  destruct d as [|[|[|[|[|[|d]]]]]]; cbn; intros; try exact I; try reflexivity; try discriminate.
Qed.
