(* C15 -- a workflow's inputs and outputs are exactly its children's open channels.
   Statements about WfIO.v (the model of Workflow._build_io / the map setters / the panel
   assignment / run's return value); proofs are in WfIOProofs.v.

   Vocabulary (WfIO / WfIOProofs):
     build_io st d = Some p   wf.inputs (d = DIn) / wf.outputs (DOut) is the panel p : list (key * channel id);
                  = None      the access raises (TypeError out of IO.__setitem__)
     exposes st d k id        id is a channel (c, l) of direction d of a child c, and either the map sends
                              c.label__l to the NAME k, or that key is unmapped, the channel unconnected
                              and k = c.label__l
     reachable st             st = the state after ANY history (OAdd/ORemove/OConnect/ODisconnect/
                              ODisconnectAll/OSetMap/OAssign/OWConnect/ORun, and OReadd = a removed node
                              object comes back under any label, ORelabel = add_child(child, label=new),
                              OReplace = replace_child by a fresh or a removed node, OMapSet / OMapDel /
                              OMapUpdate = in-place edits wf.inputs_map[k] = v, del, .update(...) of the
                              map object the property hands out, OOrphan / OMoveAway = a child leaves
                              by node.parent = None / = another workflow, OSetInputs = the keyword
                              spelling wf.set_input_values, OPull = child.pull() / child()) on a fresh
                              Workflow
                              built with ANY pair of accepted constructor maps.  Keys are always formed
                              from the child's CURRENT label: exposes reads c_label of the state at hand.
     wfs st                   the structural invariant of reachable states *)
From PW Require Import Base WfIO WfIOProofs.
Open Scope string_scope.
Open Scope list_scope.

(* ---- the characterisation: EVERY state (any children, connections, maps) ---------------------------- *)
Theorem C15_io_char : forall st d p, build_io st d = Some p ->
  forall k id, In (k, id) p <-> exposes st d k id.
Proof. exact io_char. Qed.
Print Assumptions C15_io_char.

(* the panel is a dictionary listing those channels in the order of the two loops; the access
   fails exactly when that list would repeat a key *)
Theorem C15_io_dict : forall st d,
  (forall p, build_io st d = Some p <-> p = entries st d /\ NoDup (map fst (entries st d))) /\
  (build_io st d = None <-> ~ NoDup (map fst (entries st d))) /\
  (forall k id, In (k, id) (entries st d) <-> exposes st d k id).
Proof.
  intros st d. split; [intros p; apply build_io_some|]. split; [apply build_io_none|apply entries_char].
Qed.
Print Assumptions C15_io_dict.

(* ---- every history leads to a well-formed state ------------------------------------------------------- *)
Theorem C15_histories_wellformed : forall im om i o ops,
  sanitize im = Some i -> sanitize om = Some o -> wfs (run_ops (init_wf i o) ops).
Proof.
  intros im om i o ops Hi Ho. apply reachable_wfs. exists im, om, i, o, ops. auto.
Qed.
Print Assumptions C15_histories_wellformed.

(* after every history: either the panel is exactly the characterised dictionary, or two
   DIFFERENT child channels are entitled to one key (the only way the access can fail) *)
Theorem C15_after_every_history : forall st d, reachable st ->
  match build_io st d with
  | Some p => (forall k id, In (k, id) p <-> exposes st d k id) /\ NoDup (map fst p) /\ NoDup (map snd p)
  | None => exists k id id', id <> id' /\ exposes st d k id /\ exposes st d k id'
  end.
Proof.
  intros st d R. pose proof (reachable_wfs _ R) as W. destruct (build_io st d) as [p|] eqn:E.
  - split; [exact (io_char _ _ _ E)|]. apply build_io_some in E as [-> Hn].
    split; [exact Hn|now apply entries_ids_nodup].
  - now apply unavailable_iff_collision.
Qed.
Print Assumptions C15_after_every_history.

(* ---- identity: the panel holds the children's own channels ------------------------------------------- *)
Theorem C15_identity : forall st d p k id, reachable st -> build_io st d = Some p -> In (k, id) p ->
  exists c l, In c (w_children st) /\ In (l, id) (chans d c) /\
    (forall c' d' l', In c' (w_children st) -> In (l', id) (chans d' c') -> c' = c /\ d' = d /\ l' = l).
Proof. intros st d p k id R. apply panel_identity. now apply reachable_wfs. Qed.
Print Assumptions C15_identity.

(* a channel hidden by the map appears under no key; a connected one only under the name the map gives it *)
Theorem C15_hidden_never : forall st d p c l id off, reachable st -> build_io st d = Some p ->
  In c (w_children st) -> In (l, id) (chans d c) ->
  lookup_map (kmap_of st d) (scoped (c_label c) l) = Some (MOff off) -> forall k, ~ In (k, id) p.
Proof. intros st d p c l id off R. apply hidden_never. now apply reachable_wfs. Qed.
Print Assumptions C15_hidden_never.

Theorem C15_connected_only_by_map : forall st d p c l id k, reachable st -> build_io st d = Some p ->
  In c (w_children st) -> In (l, id) (chans d c) -> connected st id = true -> In (k, id) p ->
  lookup_map (kmap_of st d) (scoped (c_label c) l) = Some (MName k).
Proof. intros st d p c l id k R. apply connected_only_by_map. now apply reachable_wfs. Qed.
Print Assumptions C15_connected_only_by_map.

(* assigning through the workflow assigns to the child's channel, and to nothing else *)
Theorem C15_assign_through : forall st key v st', assign st key v = (st', ROk) ->
  exists p id, build_io st DIn = Some p /\ In (key, id) p /\
    val st' id = Some v /\ (forall id', id' <> id -> val st' id' = val st id') /\ same_graph st st'.
Proof. exact assign_through. Qed.
Print Assumptions C15_assign_through.

Theorem C15_assign_absent : forall st key v p, build_io st DIn = Some p -> ~ In key (map fst p) ->
  assign st key v = (st, RExc TypeErr).
Proof. exact assign_absent. Qed.
Print Assumptions C15_assign_absent.

(* assigning a channel through the workflow connects the child's channel *)
Theorem C15_connect_through : forall st key oc ol st', wconnect st key oc ol = (st', ROk) ->
  exists p id o, build_io st DIn = Some p /\ In (key, id) p /\ find_chan st DOut oc ol = Some o /\
    In (id, o) (w_conns st') /\ connected st' id = true /\ same_struct st st'.
Proof. exact wconnect_through. Qed.
Print Assumptions C15_connect_through.

(* the keyword spellings (wf(k=v), wf.run(k=v), wf.set_input_values(k=v)): every keyword reaches the
   child channel under that key as the very value given -- a value is number AND Python type
   (enc tag z), so False, 0 and 0.0 are three different assignments *)
Theorem C15_keywords_reach_child : forall st kw st', reachable st -> NoDup (map fst kw) ->
  set_inputs st kw = (st', ROk) ->
  same_graph st st' /\
  exists p, build_io st DIn = Some p /\
    forall k v, In (k, v) kw -> exists id, In (k, id) p /\ val st' id = Some v.
Proof. intros st kw st' R. apply set_inputs_through. now apply reachable_wfs. Qed.
Print Assumptions C15_keywords_reach_child.

(* a child may leave by remove_child, node.parent = None or node.parent = another workflow: in
   every case it is gone and no connection of the workflow touches its channels any more, so the
   characterisation above speaks about the remaining children's channels only *)
Theorem C15_leave_any_route : forall st l c cs, take_child l (w_children st) = Some (c, cs) ->
  leave st l = remove_child st l /\ snd (leave st l) = ROk /\ w_children (fst (leave st l)) = cs /\
  (forall p, In p (w_conns (fst (leave st l))) <->
             In p (w_conns st) /\ ~ In (fst p) (child_ids c) /\ ~ In (snd p) (child_ids c)) /\
  (forall id, In id (child_ids c) -> connected (fst (leave st l)) id = false).
Proof. exact leave_disconnects. Qed.
Print Assumptions C15_leave_any_route.

(* pulling one child (its upstream data tree runs under temporary labels, then the child) leaves
   children, labels, connections and maps as they were: the workflow's IO is the same dictionary,
   key by key and channel by channel, whatever the labels look like (digits at the end included) *)
Theorem C15_pull_keeps_io : forall st l wp,
  same_graph st (fst (pull st l wp)) /\
  (forall d, build_io (fst (pull st l wp)) d = build_io st d) /\
  (forall d k id, exposes (fst (pull st l wp)) d k id <-> exposes st d k id).
Proof.
  intros st l wp. pose proof (pull_graph st l wp) as G. split; [exact G|]. split.
  - intros d. now apply build_io_same.
  - intros d k id. now apply exposes_same.
Qed.
Print Assumptions C15_pull_keeps_io.

(* ITEM access: wf.inputs[key].value = v and wf.inputs[key] = wf.outputs[okey] act on exactly the
   child channels the panels hold under those keys -- for EVERY key, a name that one of the panel's
   own attributes carries (items, labels, ready, ...) included, since panel[key] only ever looks
   into the panel's channels *)
Theorem C15_item_assign_through : forall st key v st', item_assign st key v = (st', ROk) ->
  exists p id, build_io st DIn = Some p /\ In (key, id) p /\
    val st' id = Some v /\ (forall id', id' <> id -> val st' id' = val st id') /\ same_graph st st'.
Proof. exact item_assign_through. Qed.
Print Assumptions C15_item_assign_through.

Theorem C15_item_connect_through : forall st key okey st', wconnect2 st key okey = (st', ROk) ->
  exists p po id o, build_io st DIn = Some p /\ build_io st DOut = Some po /\
    In (key, id) p /\ In (okey, o) po /\ In (id, o) (w_conns st') /\
    connected st' id = true /\ connected st' o = true /\ same_struct st st'.
Proof. exact wconnect2_through. Qed.
Print Assumptions C15_item_connect_through.

(* ---- run returns the dictionary of the outputs -------------------------------------------------------- *)
Theorem C15_return : forall st kw st' ret, run_wf st kw = (st', RRet ret) ->
  same_graph st st' /\
  (exists po, build_io st' DOut = Some po /\ ret = value_dict st' po) /\
  (forall k v, In (k, v) ret <-> exists id, exposes st' DOut k id /\ v = val st' id).
Proof.
  intros st kw st' ret H. pose proof (run_return _ _ _ _ H) as [G P].
  split; [exact G|]. split; [exact P|exact (run_return_char _ _ _ _ H)].
Qed.
Print Assumptions C15_return.

(* ... and it does return whenever both panels can be read, the keywords name inputs and the
   children's data graph is acyclic (children are ready and do not fail: see ASSUMPTIONS) *)
Theorem C15_run_returns : forall st kw p, build_io st DIn = Some p ->
  (forall kv, In kv kw -> In (fst kv) (map fst p)) -> cyclic st = false -> build_io st DOut <> None ->
  exists st' ret, run_wf st kw = (st', RRet ret).
Proof. exact run_returns. Qed.
Print Assumptions C15_run_returns.

(* ---- one-to-one maps ------------------------------------------------------------------------------------ *)
(* names m = the non-None values of the proposed dict m *)
Theorem C15_bijective_rejected : forall st d m, ~ NoDup (names m) ->
  set_map st d (Some m) = (st, RExc DupErr).
Proof. exact set_map_rejects. Qed.
Print Assumptions C15_bijective_rejected.

Theorem C15_bijective_accepted : forall st d m, NoDup (map fst m) -> NoDup (names m) ->
  set_map st d (Some m) = (set_kmap st d (Some (dedup_nones m)), ROk) /\
  (forall k, lookup_map (Some (dedup_nones m)) k =
             match assoc String.eqb k m with
             | Some (Some s) => Some (MName s) | Some None => Some (MOff k) | None => None end).
Proof. intros st d m Hk Hn. split; [now apply set_map_accepts|intros k; now apply lookup_dedup]. Qed.
Print Assumptions C15_bijective_accepted.

(* ... and the maps STAY one-to-one after every history, in-place edits of the handed-out map
   object included (map_ok m: the stored values of m are pairwise distinct) *)
Theorem C15_maps_stay_one_to_one : forall st, reachable st -> map_ok (w_imap st) /\ map_ok (w_omap st).
Proof. intros st R. pose proof (reachable_wfs _ R) as W. split; [apply (wf_im _ W)|apply (wf_om _ W)]. Qed.
Print Assumptions C15_maps_stay_one_to_one.

(* wf.inputs_map[k] = s where another key already carries the name s: refused (Value- or
   KeyAndValueDuplicationError), nothing changes -- whatever the map was set to before, {} included *)
Theorem C15_inplace_rejected : forall st d l k k' s,
  kmap_of st d = Some l -> In (k', MName s) l -> k' <> k ->
  exists e, map_setitem st d k (Some s) = (st, RExc e) /\ (e = DupErr \/ e = KVDupErr).
Proof. exact map_setitem_rejects. Qed.
Print Assumptions C15_inplace_rejected.

Theorem C15_inplace_accepted : forall st d l k v,
  kmap_of st d = Some l -> (forall k', k' <> k -> ~ In (k', mv k v) l) ->
  map_setitem st d k v = (set_kmap st d (Some (put_at l k (mv k v))), ROk) /\
  lookup_map (Some (put_at l k (mv k v))) k = Some (mv k v) /\
  (forall k', k' <> k -> lookup_map (Some (put_at l k (mv k v))) k' = lookup_map (Some l) k').
Proof. exact map_setitem_accepts. Qed.
Print Assumptions C15_inplace_accepted.

Theorem C15_inplace_refusal_changes_nothing : forall st d,
  (forall k v st' e, map_setitem st d k v = (st', RExc e) -> st' = st) /\
  (forall k st' e, map_delitem st d k = (st', RExc e) -> st' = st) /\
  (forall ps st' e, map_update st d ps = (st', RExc e) -> st' = st).
Proof. exact map_edit_refused_unchanged. Qed.
Print Assumptions C15_inplace_refusal_changes_nothing.

(* ---- availability --------------------------------------------------------------------------------------- *)
(* the injectivity assumption on child.label ++ "__" ++ channel.label, discharged for child labels
   that neither contain "__" nor end in "_" (channel labels are unrestricted) *)
Theorem C15_scoped_injective : forall c c' l l', good c = true -> good c' = true ->
  scoped c l = scoped c' l' -> c = c' /\ l = l'.
Proof. exact scoped_inj_good. Qed.
Print Assumptions C15_scoped_injective.

(* PARTIAL: "at any moment the workflow's inputs/outputs ARE that dictionary" needs two guards:
   good child labels, and no map name equal to the default key of an exposed unmapped channel.
   Missing from the full statement: the states refuted below (known findings S18, S33). *)
Theorem C15_available_partial : forall st d, reachable st -> good_labels st -> no_shadow st d ->
  exists p, build_io st d = Some p /\ forall k id, In (k, id) p <-> exposes st d k id.
Proof.
  intros st d R G S. destruct (available st d (reachable_wfs _ R) G S) as [p Hp].
  exists p. split; [exact Hp|exact (io_char _ _ _ Hp)].
Qed.
Print Assumptions C15_available_partial.

(* REFUTED (S18): child a__b / channel c and child a / channel b__c share the key a__b__c; no map
   is involved and wf.inputs cannot be read *)
Theorem C15_available_refuted_scoped_collision : exists st,
  reachable st /\ w_imap st = None /\ w_omap st = None /\ build_io st DIn = None.
Proof.
  exists (hist [OAdd 3 "a__b"; OAdd 2 "a"]). split; [apply hist_reachable|]. vm_compute. auto.
Qed.
Print Assumptions C15_available_refuted_scoped_collision.

(* ... the same without any "__" inside a label: child a / channel _b and child a_ / channel b *)
Theorem C15_available_refuted_trailing_underscore : exists st,
  reachable st /\ w_imap st = None /\ build_io st DIn = None.
Proof.
  exists (hist [OAdd 7 "a"; OAdd 8 "a_"]). split; [apply hist_reachable|]. vm_compute. auto.
Qed.
Print Assumptions C15_available_refuted_trailing_underscore.

(* REFUTED (S33): a one-to-one map that renames a__x to b__x while b__x is exposed under its
   default key is ACCEPTED, and from then on wf.inputs cannot be read; all labels are good *)
Theorem C15_available_refuted_shadow : exists st m,
  reachable st /\ good_labels st /\ NoDup (names m) /\
  snd (set_map st DIn (Some m)) = ROk /\ build_io (fst (set_map st DIn (Some m))) DIn = None.
Proof.
  exists (hist [OAdd 0 "a"; OAdd 0 "b"]), [("a__x", Some "b__x")].
  split; [apply hist_reachable|]. split.
  - intros c Hc. vm_compute in Hc. destruct Hc as [<-|[<-|[]]]; reflexivity.
  - split; [repeat constructor; simpl; tauto|]. vm_compute. auto.
Qed.
Print Assumptions C15_available_refuted_shadow.

(* ---- non-vacuity: a history with renaming, exposing, hiding and a run meets the hypotheses ---------- *)
Example C15_hyps_hold :
  let st := hist [OAdd 0 "a"; OAdd 1 "b"; OConnect "b" "x" "a" "y";
                  OSetMap DIn (Some [("b__x", Some "bx"); ("b__y", None)]);
                  OSetMap DOut (Some [("a__y", Some "mid"); ("b__d", None)]);
                  OAssign "a__x" (enc 0 41)] in
  reachable st /\ good_labels st /\
  build_io st DIn = Some [("a__x", 0); ("bx", 2)] /\
  build_io st DOut = Some [("mid", 1); ("b__s", 4)] /\
  connected st 2 = true /\
  snd (run_wf st []) = RRet [("mid", Some (enc 0 42)); ("b__s", Some (enc 0 95))] /\
  snd (set_map st DIn (Some [("a__x", Some "q"); ("b__x", Some "q")])) = RExc DupErr.
Proof.
  split; [apply hist_reachable|]. split.
  - intros c Hc. vm_compute in Hc. destruct Hc as [<-|[<-|[]]]; reflexivity.
  - vm_compute. repeat split; reflexivity.
Qed.

(* keys follow the child's CURRENT label: the node created as "a" (channels 0, 1) is removed, comes
   back as "c", is relabelled "m", then swapped out by replace_child and re-added as "spare" *)
Example C15_keys_follow_current_label :
  let h1 := [OAdd 0 "a"; OAdd 0 "b"; ORemove "a"; OReadd "a" (Some "c")] in
  build_io (hist h1) DIn = Some [("b__x", 2); ("c__x", 0)] /\
  build_io (hist (h1 ++ [ORelabel "c" "m"])) DOut = Some [("b__y", 3); ("m__y", 1)] /\
  build_io (hist (h1 ++ [OReplace "c" None; OReadd "spare" None])) DIn
    = Some [("b__x", 2); ("c__x", 4); ("spare__x", 0)].
Proof. vm_compute. repeat split; reflexivity. Qed.

(* an EMPTY map filled in place stays one-to-one: the second key is refused for the used name, the
   panel stays readable, a None is fine, an update that repeats a name is refused as a whole *)
Example C15_empty_map_filled_in_place :
  let st := hist [OAdd 0 "a"; OAdd 0 "b"; OSetMap DIn (Some []); OMapSet DIn "a__x" (Some "x")] in
  snd (map_setitem st DIn "b__x" (Some "x")) = RExc DupErr /\
  build_io (fst (map_setitem st DIn "b__x" (Some "x"))) DIn = Some [("x", 0); ("b__x", 2)] /\
  build_io (fst (map_setitem st DIn "b__x" None)) DIn = Some [("x", 0)] /\
  snd (map_update st DIn [("b__x", Some "y"); ("a__x", Some "y")]) = RExc KVDupErr /\
  snd (map_setitem (hist [OAdd 0 "a"]) DIn "a__x" (Some "x")) = RExc TypeErr.
Proof. vm_compute. repeat split; reflexivity. Qed.

(* a sibling input fed only by a child that left (by parent assignment) is open again; a keyword
   False on a channel holding 0 arrives as the bool, and the float 0.0 makes the result a float *)
Example C15_leave_and_typed_keywords :
  let st := hist [OAdd 0 "a"; OAdd 0 "b"; OConnect "b" "x" "a" "y"] in
  build_io st DIn = Some [("a__x", 0)] /\
  build_io (fst (leave st "a")) DIn = Some [("b__x", 2)] /\
  val (fst (set_inputs st [("a__x", enc 1 0)])) 0 = Some (enc 1 0) /\
  snd (run_wf st [("a__x", enc 2 0)]) = RRet [("b__y", Some (enc 2 2))] /\
  snd (run_wf st [("a__x", enc 1 0)]) = RRet [("b__y", Some (enc 0 2))].
Proof. vm_compute. repeat split; reflexivity. Qed.

(* pulling the last of three chained children whose labels end in digits: same keys before and
   after, the upstream values arrive (0+1+1+1 = 3), and the workflow forgets its remembered inputs *)
Example C15_pull_digit_labels :
  let st := hist [OAdd 0 "step8"; OAdd 0 "n0"; OAdd 0 "last";
                  OConnect "n0" "x" "step8" "y"; OConnect "last" "x" "n0" "y"; ORun []] in
  let st' := fst (pull st "last" false) in
  build_io st DIn = Some [("step8__x", 0)] /\ build_io st' DIn = Some [("step8__x", 0)] /\
  build_io st' DOut = Some [("last__y", 5)] /\ val st' 5 = Some (enc 0 3) /\
  w_cache st <> None /\ w_cache st' = None.
Proof. vm_compute. repeat split; try reflexivity. discriminate. Qed.

(* the demo of the panel-attribute names: tag: items -> labels, cnt: (ready, fetch) -> (connected,
   to_list), exposed under such names; assignment and connection by item reach the children *)
Example C15_keys_named_like_panel_attributes :
  let st := hist [OAdd 9 "tag"; OAdd 10 "cnt";
                  OSetMap DIn (Some [("tag__items", Some "items")]);
                  OSetMap DOut (Some [("tag__labels", Some "labels")])] in
  build_io st DIn = Some [("items", 0); ("cnt__ready", 2); ("cnt__fetch", 3)] /\
  build_io st DOut = Some [("labels", 1); ("cnt__connected", 4); ("cnt__to_list", 5)] /\
  val (fst (item_assign st "items" (enc 0 5))) 0 = Some (enc 0 5) /\
  build_io (fst (wconnect2 st "cnt__ready" "labels")) DIn = Some [("items", 0); ("cnt__fetch", 3)] /\
  snd (run_wf (fst (wconnect2 (fst (item_assign st "items" (enc 0 5))) "cnt__ready" "labels")) [])
    = RRet [("labels", Some (enc 0 22)); ("cnt__connected", Some (enc 0 25)); ("cnt__to_list", Some (enc 0 16))].
Proof. vm_compute. repeat split; reflexivity. Qed.
