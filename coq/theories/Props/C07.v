(* C07 -- saving and loading (pickling and unpickling) returns an observationally identical graph.
   Model: Serial.v (the __getstate__/__setstate__ chain as the code is now, value links, Node.load,
   FIFO execution of a flat hand-wired workflow, graph-building ops).  Proofs: SerialProofs.v.
   Only Theorem / exact / Print Assumptions (+ Example) live here.

   Vocabulary
     guards n   = wfb n (the structural invariant of reachable graphs: unique labels, mutual and
                  duplicate-free connections between siblings, starting nodes among the children;
                  C07_reachable: every graph built by ops satisfies it) /\ own_ok n /\
                  links_resolve n /\ links_unlocked n /\ links_synced n   (see the refuted theorems).
     same a b   = same labels, classes, nesting, values (NotData its own constructor), failed/running,
                  executor instructions, value links, starting nodes, recorded provenance; every INPUT
                  lists the same data connections in the same ORDER; data fan-out and signal
                  connections are the same SETS per channel (recursively).
     strip_root = the node without its connections to siblings and its links into a parent.
     trips k b  = k times save+load through back end b (BPickle: pickle / cloudpickle, BFile:
                  node.save() + construction with autoload = Node.load). *)
From PW Require Import Base Serial SerialProofs.

(* Reachability: every graph built by any sequence of the graph-building operations (add child,
   connect / disconnect data and signals by Channel.connect / disconnect, set values, flags,
   executors, starting nodes, value links) from an empty root is well formed. *)
Theorem C07_reachable : forall lab kd cls ins outs sin sout ops,
  wfb (build (root0 lab kd cls ins outs sin sout) ops) = true.
Proof. exact build_wf. Qed.
Print Assumptions C07_reachable.

(* What a round trip does, exactly: the closed form [ref] (per-INPUT data order kept, data fan-out in
   traversal order, per-input signal lists reversed, signal fan-out in reverse traversal order, own
   connections and parent links gone, live executors dropped), for any number of trips. *)
Theorem C07_pickle_closed_form_partial : forall k c n,
  wfb n = true -> own_ok n = true ->
  links_resolve n = true -> links_unlocked n = true -> links_synced n = true -> cown c = true ->
  trips (S k) BPickle (c, n) = Ok (mkC None (root_det c) true, iter_ref (S k) n).
Proof. exact trips_pickle_exact. Qed.
Print Assumptions C07_pickle_closed_form_partial.

(* The property for pickle / cloudpickle, repeatedly, in every execution state (values and flags are
   arbitrary).  PARTIAL: guarded by the three link conditions below (each refuted without it).
   Conclusion: loads; parentless with the parent's path recorded; same graph; no connections of its
   own; every input consults its connections in the same order (the table din is EQUAL). *)
Theorem C07_roundtrip_partial : forall k c n,
  guards n -> cown c = true ->
  exists n', trips (S k) BPickle (c, n) = Ok (mkC None (root_det c) true, n') /\
             same (strip_root n) n' /\ no_own_conns n' /\ din (nkids n') = din (nkids n).
Proof. exact roundtrip_pickle. Qed.
Print Assumptions C07_roundtrip_partial.

(* The same through the file back end (one save + load).  The graph is the same, but the loaded node's
   own channels are owned by another object (cown = false): refuted clause, see below. *)
Theorem C07_roundtrip_file_partial : forall c n,
  guards n -> cown c = true ->
  exists n', trips 1 BFile (c, n) = Ok (mkC None (root_det c) false, n') /\
             same (strip_root n) n' /\ no_own_conns n' /\ din (nkids n') = din (nkids n).
Proof. exact roundtrip_file. Qed.
Print Assumptions C07_roundtrip_file_partial.

(* ... repeatedly, for roots that are not a Macro / For themselves (workflows, function nodes; macros
   may be nested inside).  For a Macro / For root the second save + load fails: C07_file_refuted_owner. *)
Theorem C07_roundtrip_file_repeated_partial : forall k c n,
  guards n -> is_linked (nkind n) = false ->
  exists n', trips (S k) BFile (c, n) = Ok (mkC None (root_det c) false, n') /\
             same (strip_root n) n' /\ no_own_conns n' /\ din (nkids n') = din (nkids n).
Proof. exact roundtrip_file_repeated. Qed.
Print Assumptions C07_roundtrip_file_repeated_partial.

(* A child serialised on its own comes back without parent, siblings and outside connections. *)
Theorem C07_child_alone_partial : forall p k ppath,
  guards p -> In k (nkids p) ->
  exists k', trip_pickle (mkC (Some ppath) None true, k) = Ok (mkC None (Some ppath) true, k') /\
             no_own_conns k' /\ same (strip_root k) k'.
Proof. exact child_alone. Qed.
Print Assumptions C07_child_alone_partial.

(* Run again: same outputs, same execution order -- PARTIAL: when every output signal lists its
   receivers in the order a restore produces (reverse child order).  [exec] is the FIFO execution of
   a flat hand-wired workflow of function nodes (outputs, provenance, call log). *)
Theorem C07_rerun_partial : forall k c n fuel,
  guards n -> cown c = true -> sig_canon_level (nkids n) = true ->
  exists n', trips (S k) BPickle (c, n) = Ok (mkC None (root_det c) true, n') /\ exec fuel n' = exec fuel n.
Proof. exact rerun_pickle. Qed.
Print Assumptions C07_rerun_partial.

Theorem C07_rerun_file_partial : forall c n fuel,
  guards n -> cown c = true -> sig_canon_level (nkids n) = true ->
  exists n', trips 1 BFile (c, n) = Ok (mkC None (root_det c) false, n') /\ exec fuel n' = exec fuel n.
Proof. exact rerun_file. Qed.
Print Assumptions C07_rerun_file_partial.

(* ... and refuted without that guard: a.ran -> [b.run, c.run] executes a,b,c before and a,c,b after. *)
Theorem C07_rerun_refuted :
  wfb w_fan = true /\ own_ok w_fan = true /\ links_ok w_fan = true /\ flatb w_fan = true /\
  sig_canon_level (nkids w_fan) = false /\
  exists c' n', trips 1 BPickle (ctx0, w_fan) = Ok (c', n') /\
                prov_of (exec 20 w_fan) = ["a"; "b"; "c"] /\ prov_of (exec 20 n') = ["a"; "c"; "b"].
Proof. exact refuted_rerun. Qed.
Print Assumptions C07_rerun_refuted.

(* A macro with an input no child uses cannot be unpickled (KeyError). *)
Theorem C07_roundtrip_refuted_unused_input :
  wfb w_unused = true /\ own_ok w_unused = true /\ links_unlocked w_unused = true /\ links_synced w_unused = true /\
  links_resolve w_unused = false /\ trips 1 BPickle (ctx0, w_unused) = Err KeyErr.
Proof. exact refuted_unused. Qed.
Print Assumptions C07_roundtrip_refuted_unused_input.

(* A macro whose linked child macro is flagged running cannot be unpickled (RuntimeError). *)
Theorem C07_roundtrip_refuted_running_link :
  let n := w_outer true (Data (OZ 1)) in
  wfb n = true /\ own_ok n = true /\ links_resolve n = true /\ links_synced n = true /\
  links_unlocked n = false /\ trips 1 BPickle (ctx0, n) = Err Locked.
Proof. exact refuted_running. Qed.
Print Assumptions C07_roundtrip_refuted_running_link.

(* A value edited directly below a value link is overwritten by the macro's value on load. *)
Theorem C07_roundtrip_refuted_link_value :
  let n := w_outer false (Data (OZ 7)) in
  wfb n = true /\ own_ok n = true /\ links_resolve n = true /\ links_unlocked n = true /\
  links_synced n = false /\
  exists c' n', trips 1 BPickle (ctx0, n) = Ok (c', n') /\
                vals_in (nkids n) = [(("inner", "x"), Data (OZ 7))] /\
                vals_in (nkids n') = [(("inner", "x"), Data (OZ 1))].
Proof. exact refuted_desync. Qed.
Print Assumptions C07_roundtrip_refuted_link_value.

(* Node.load leaves the channels owned by the throw-away instance; a macro loaded from file cannot be
   saved and loaded again. *)
Theorem C07_file_refuted_owner :
  let n := w_outer false (Data (OZ 1)) in
  guards n /\ exists c' n', trips 1 BFile (ctx0, n) = Ok (c', n') /\ cown c' = false /\
                            trips 2 BFile (ctx0, n) = Err KeyErr.
Proof. exact refuted_file_owner. Qed.
Print Assumptions C07_file_refuted_owner.

(* Non-vacuity: the guards hold of a workflow with multi-connection inputs, hand-wired signals, a
   failed child, executor instructions, partially received all-of signals and a nested macro; the
   round trip changes only the order of the order-free lists. *)
Example C07_hyps_hold :
  guards w_multi /\
  exists n', trips 2 BPickle (ctx0, w_multi) = Ok (ctx0, n') /\
             look (din (nkids n')) ("c", "a") = [("b", "y"); ("a", "y")] /\
             look (sinv (nkids w_multi)) ("c", "accumulate_and_run") = [("a", "ran"); ("b", "ran")] /\
             look (soutv (nkids w_multi)) ("a", "ran") = [("c", "accumulate_and_run"); ("b", "run")] /\
             look (soutv (nkids n')) ("a", "ran") = [("c", "accumulate_and_run"); ("b", "run")].
Proof.
  split; [vm_compute; repeat split; reflexivity|].
  eexists. split; [vm_compute; reflexivity|]. vm_compute. repeat split; reflexivity.
Qed.
