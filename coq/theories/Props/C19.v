(* C19 -- a failed or interrupted save never costs the last good save or poisons loading.
   Statements are about Store.v, the model of pyiron_workflow/storage.py + Node.save/load/
   delete_storage/_after_node_setup as the code is after the fixes 8ca9d2e (scratch file +
   replace) and 816f4c3 (delete removes scratch files, the cwd is never rmdir'ed).
   Only Theorem / exact / Print Assumptions live here; proofs are in StoreProofs.v.

   Quantification: [ops] is ANY history of saves (picklable / cloudpickle-only /
   unserialisable content, with or without cloudpickle_fallback, at any location, each
   completed or cut after ANY number i of primitive steps and ANY number k of bytes of the
   write in flight), Node.load, constructions with delete_existing_savefiles / autoload,
   deletes and foreign files; [run ops] is the file system it leaves.
   [spec ops l] is the reference: the last save at l that reached its commit step (the rename;
   for a .cpckl shadowed by an older .pckl the unlink of that .pckl), None after a delete.
   File-system assumptions (Store.v header): primitives atomic (os.replace), a dead process
   leaves its completed primitives plus a prefix of the write in flight, no durability
   semantics, one directory level. *)
From PW Require Import Base Store StoreProofs.

(* (1)+(2) over whole histories: whatever happened -- failed saves, saves cut anywhere --
   load returns exactly the last completed save (FileNotFoundError if none), never a partial
   file; has_saved_content, Node.load and the constructor's autoload agree with it. *)
Theorem C19_history_load : forall ops l, load_file (run ops) l = lres_of (spec ops l).
Proof. exact history_load. Qed.
Print Assumptions C19_history_load.

Theorem C19_history_no_partial_file : forall ops d s fl k, read (run ops) (d, NFinal s fl) <> Some (Partial k).
Proof. exact history_no_partial. Qed.
Print Assumptions C19_history_no_partial_file.

Theorem C19_history_has_saved : forall ops l, has_saved (run ops) l = isSome (spec ops l).
Proof. exact history_has. Qed.
Print Assumptions C19_history_has_saved.

Theorem C19_history_node_load : forall ops l nd, node_load (run ops) l nd = adopt (spec ops l) nd NNotFound.
Proof. exact history_node_load. Qed.
Print Assumptions C19_history_node_load.

Theorem C19_history_autoload : forall ops label c,
  snd (fst (ctor label c false true (run ops))) = adopt (spec ops (default_loc label)) (c, 0%Z) NOk.
Proof. exact history_autoload. Qed.
Print Assumptions C19_history_autoload.

(* (1) spelled out for one more save after any history.  crash = None is a save that runs to
   its end, Some (i, k) one that dies after i steps and k bytes (crash_i None = 12 > every
   step index).  A save that cannot succeed, or one cut before its commit step, leaves load
   where it was -- before the rename even the two final files are literally untouched; a save
   that passed its commit step shows its own complete content; in no case is the result a
   partial file or are other locations affected. *)
Theorem C19_crash_safe : forall ops l fb c v kd n g crash,
  let o := OSave l fb c v kd n g crash in
  let i := crash_i crash in
  let shadow := isSome (read (run ops) (fin l Pk)) in
  let before := load_file (run ops) l in
  let after := load_file (run (ops ++ [o])) l in
  (save_ok kd fb = false \/ i < commit_idx kd shadow -> after = before) /\
  (save_ok kd fb = true -> commit_idx kd shadow <= i -> after = LOk c v) /\
  (save_ok kd fb = false \/ i < rename_idx kd ->
     forall fl, read (run (ops ++ [o])) (fin l fl) = read (run ops) (fin l fl)) /\
  after <> LCorrupt /\
  has_saved (run (ops ++ [o])) l = negb (match after with LNotFound => true | _ => false end) /\
  (forall l', l' <> l -> load_file (run (ops ++ [o])) l' = load_file (run ops) l') /\
  (forall l' fl j, read (run (ops ++ [o])) (fin l' fl) <> Some (Partial j)).
Proof. exact crash_safe. Qed.
Print Assumptions C19_crash_safe.

(* "still there" includes the directory: every file of every reachable state lives in an
   existing directory *)
Theorem C19_files_in_directories : forall ops d nm c,
  read (run ops) (Some d, nm) = Some c -> dir_exists (run ops) (Some d) = true.
Proof. exact wfd_run. Qed.
Print Assumptions C19_files_in_directories.

(* (2) a successful save is what load, Node.load into a node of that class, and construction
   with autoload return next *)
Theorem C19_success_visible : forall ops l fb c v kd n g w,
  save_ok kd fb = true ->
  let f' := run (ops ++ [OSave l fb c v kd n g None]) in
  load_file f' l = LOk c v /\ has_saved f' l = true /\ node_load f' l (c, w) = ((c, v), NOk) /\
  (forall label, l = default_loc label -> snd (fst (ctor label c false true f')) = ((c, v), NOk)).
Proof. exact success_visible. Qed.
Print Assumptions C19_success_visible.

(* (3) delete.  In every reachable state: both files load looks at are gone, loading finds
   nothing, other locations and foreign files are untouched, and the directory is removed when
   no file is left in it. *)
Theorem C19_delete_final_gone : forall ops l,
  let f' := run (ops ++ [ODelete l]) in
  read f' (fin l Pk) = None /\ read f' (fin l Cp) = None /\ has_saved f' l = false /\ load_file f' l = LNotFound /\
  (forall l', l' <> l -> load_file f' l' = load_file (run ops) l') /\
  (forall d u, read f' (d, NUser u) = read (run ops) (d, NUser u)) /\
  (forall d, fst l = Some d -> has_file_in f' (Some d) = false -> dir_exists f' (Some d) = false).
Proof. exact delete_final_gone. Qed.
Print Assumptions C19_delete_final_gone.

(* "removes the files": NOTHING the storage wrote for the location remains -- final files and the
   scratch files an interrupted save may have left (former finding S24, fixed by 816f4c3) *)
Theorem C19_delete_cleans : forall ops l,
  let f' := run (ops ++ [ODelete l]) in
  forall fl, read f' (fin l fl) = None /\ read f' (tmp l fl) = None.
Proof. exact delete_cleans. Qed.
Print Assumptions C19_delete_cleans.

(* delete never raises, and no save ends in OSError -- also for a bare file name in an otherwise
   empty cwd, which is never rmdir'ed any more (former finding S25, fixed by 816f4c3) *)
Theorem C19_delete_never_raises : forall f l, snd (fst (delete l f)) = false.
Proof. exact delete_no_error. Qed.
Print Assumptions C19_delete_never_raises.

Theorem C19_save_never_oserror : forall l fb c v kd n g crash f,
  snd (fst (save l fb c v kd n g crash f)) <> SOsErr.
Proof. exact save_never_oserror. Qed.
Print Assumptions C19_save_never_oserror.

(* (4) loading into a node of another class is refused and leaves that node as it was (load does
   not touch the file system at all: it is a function of it); same for the constructor *)
Theorem C19_class_refused_unchanged : forall f l c w c' v,
  load_file f l = LOk c' v -> c' <> c -> node_load f l (c, w) = ((c, w), NTypeErr).
Proof. exact class_refused. Qed.
Print Assumptions C19_class_refused_unchanged.

Theorem C19_class_accepted : forall f l c w v, load_file f l = LOk c v -> node_load f l (c, w) = ((c, v), NOk).
Proof. exact class_accepted. Qed.
Print Assumptions C19_class_accepted.

Theorem C19_class_refused_at_construction : forall f label c c' v (dl : bool),
  load_file (if dl then fs_of (delete (default_loc label) f) else f) (default_loc label) = LOk c' v -> c' <> c ->
  snd (fst (ctor label c dl true f)) = ((c, 0%Z), NTypeErr).
Proof. exact class_refused_ctor. Qed.
Print Assumptions C19_class_refused_at_construction.

(* the observation function compared with the real library walks exactly [apply]/[run] *)
Theorem C19_observed_states_are_run : forall locs ds users o f prev,
  fst (fst (obs_op locs ds users o f prev)) = apply o f.
Proof. exact obs_op_fs. Qed.
Print Assumptions C19_observed_states_are_run.

(* Non-vacuity: a history with a good save, an unserialisable one, one cut in the middle of its
   write and one cut between the rename of a .cpckl and the unlink of the .pckl meets the
   hypotheses; the commit indices are the rename / the unlink of the shadowing file. *)
Example C19_hyps_hold :
  let l := (Some "g", "picklestorage") in
  let ops := [OSave l true CA 1%Z KOk 4 2 None; OSave l true CA 2%Z KBad 4 2 None;
              OSave l true CA 3%Z KOk 4 2 (Some (2, 3)); OSave l true CA 4%Z KCloud 4 2 (Some (9, 0))] in
  load_file (run ops) l = LOk CA 1%Z /\ spec ops l = Some (Pk, CA, 1%Z) /\
  read (run ops) (fin l Cp) = Some (Full CA 4%Z) /\
  read (run ops) (tmp l Pk) = None /\ read (run ops) (tmp l Cp) = None /\
  save_ok KBad true = false /\ save_ok KCloud true = true /\ save_ok KCloud false = false /\
  nth_error (save_steps l true CA 5%Z KOk 4 2) (commit_idx KOk true - 1) = Some (SRename (tmp l Pk) (fin l Pk)) /\
  nth_error (save_steps l true CA 5%Z KCloud 4 2) (commit_idx KCloud false - 1) = Some (SRename (tmp l Cp) (fin l Cp)) /\
  nth_error (save_steps l true CA 5%Z KCloud 4 2) (commit_idx KCloud true - 1) = Some (SUnlink (fin l Pk)) /\
  load_file (run (ops ++ [OSave l true CA 5%Z KCloud 4 2 (Some (9, 0))])) l = LOk CA 1%Z /\
  load_file (run (ops ++ [OSave l true CA 5%Z KCloud 4 2 (Some (10, 0))])) l = LOk CA 5%Z /\
  node_load (run ops) l (CB, 7%Z) = ((CB, 7%Z), NTypeErr).
Proof. vm_compute. repeat split; reflexivity. Qed.

(* the scenarios of the former findings S24 / S25 on the current model: a save cut inside its write,
   then delete -> scratch file and directory are gone; a bare file name in an empty cwd -> the file
   is gone, nothing is raised, the cwd is not touched *)
Example C19_former_findings_clean :
  let l := (Some "g", "picklestorage") in
  let f1 := run [OSave l true CA 1%Z KOk 4 4 (Some (2, 1))] in
  let f2 := run [OSave (None, "fn") true CA 1%Z KOk 4 4 None] in
  read f1 (tmp l Pk) = Some (Partial 1) /\ dir_exists f1 (Some "g") = true /\
  read (fs_of (delete l f1)) (tmp l Pk) = None /\ dir_exists (fs_of (delete l f1)) (Some "g") = false /\
  load_file f2 (None, "fn") = LOk CA 1%Z /\
  delete (None, "fn") f2 = (fs0, false, [EUnlink (None, NFinal "fn" Pk); EUnlink (None, NTmp "fn" Pk);
                                        EUnlink (None, NFinal "fn" Cp); EUnlink (None, NTmp "fn" Cp)]).
Proof. vm_compute. repeat split; reflexivity. Qed.
