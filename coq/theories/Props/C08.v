(* C08 -- a failed run can be restored from its recovery file and resumed to the same end; the same
   from a checkpoint a node wrote when it finished.  Model: Resume.v (one tree = wiring + state of a
   DAG workflow with nested macros; [attempt cut t] = one run of the root, [cut] = the node whose
   checkpoint save is the last thing that happens).  Proofs: ResumeProofs.v.

   Vocabulary: [Start fixv t] = a graph between two runs (well-formed, no flags, no composite keys,
   every key a leaf holds is right); every freshly built graph is one ([Fresh]).  [fixv] = how the
   user repairs a negative input (any function to the non-negative numbers).  [recover fixv] = remove
   the cause on the nodes marked failed and clear every failure flag; [load_file] = Node.load;
   [fixall fixv t] = the same graph without any cause: its run is the uninterrupted twin. *)
From PW Require Import Base Resume ResumeProofs.

Definition fix_ok (fixv : Z -> Z) : Prop := forall v, (v < 0)%Z -> (0 <= fixv v)%Z.

(* Every graph as built is a graph between runs, and none of its leaves holds a key. *)
Theorem C08_fresh_is_start : forall fixv t, Fresh t -> Start fixv t /\ done_leaves t = [].
Proof. exact fresh_start. Qed.
Print Assumptions C08_fresh_is_start.

(* (1) For EVERY graph between runs and every way the run ends: a recovery image is written iff the run
   raised, exactly one, for the root ([]), and it is the graph as it stands when everything has ended
   (t1 itself: flags final).  In it: no node is running, the root is failed, a failed leaf holds no key
   and a failed composite has a failed child ([failed_ok]), every key and output a leaf holds is right
   ([Good]); only leaves called in this run gained a key, and only leaves without a key were called.
   The file can be loaded. *)
Theorem C08_recovery_root_only : forall fixv, fix_ok fixv -> forall t t1 evs r,
  Start fixv t -> attempt None t = (t1, evs, r) ->
  r <> RCut /\
  saves evs = (match r with RExc _ => [([], t1)] | _ => [] end) /\
  WF 0 t1 /\ Good fixv [] [] t1 /\ failed_ok t1 /\ reset t1 = reset t /\
  (forall e, r = RExc e -> failed (st_of t1) = true /\ norun t1 /\ load_file t1 = Some (load t1)) /\
  incl (done_leaves t1) (done_leaves t ++ calls evs) /\ incl (calls evs) (undone_leaves t).
Proof. exact recovery_root_only. Qed.
Print Assumptions C08_recovery_root_only.

(* The recovery file on disk (two pickle flavours, .pckl preferred by load): whatever an earlier failure
   left in the directory, after the save of a later failure exactly one flavour exists and a load returns
   the image of THAT failure. *)
Theorem C08_store_latest : forall s img,
  store_read (store_save s img) = Some img /\
  let s' := store_save s img in
  (f_pckl s' = None /\ f_cpckl s' = Some img) \/ (f_pckl s' = Some img /\ f_cpckl s' = None).
Proof. intros s img. split; [exact (store_latest s img)|exact (store_one_file s img)]. Qed.
Print Assumptions C08_store_latest.

(* (2) For EVERY graph with exactly one failing node (wherever it sits, at any depth): the first attempt
   raises and leaves one recovery image at the root; loading it, removing the cause, clearing the failure
   flags and running again returns, with every output equal to the uninterrupted twin's, and the
   functions called are exactly the leaves that held no key in the image -- none of those that did. *)
Theorem C08_resume : forall fixv, fix_ok fixv -> forall t0, Start fixv t0 -> nbad t0 = 1%nat ->
  exists t1 ev1 e, attempt None t0 = (t1, ev1, RExc e) /\ saves ev1 = [([], t1)] /\ load_file t1 = Some (load t1) /\
  exists t3 ev2, attempt None (recover fixv (load t1)) = (t3, ev2, ROk) /\
  exists U evU, attempt None (fixall fixv t0) = (U, evU, ROk) /\
    outputs t3 = outputs U /\ calls ev2 = undone_leaves t1 /\ (forall q, In q (calls ev2) -> ~ In q (done_leaves t1)).
Proof. exact resume_single. Qed.
Print Assumptions C08_resume.

(* ... and by induction for ANY number of failing nodes met one recovery after the other: each failed
   attempt gives back a graph between runs with the same keys and strictly fewer causes ... *)
Theorem C08_resume_step : forall fixv, fix_ok fixv -> forall t t1 evs e,
  Start fixv t -> attempt None t = (t1, evs, RExc e) ->
  load_file t1 = Some (load t1) /\
  let t2 := recover fixv (load t1) in
  Start fixv t2 /\ dtree fixv [] [] t2 = dtree fixv [] [] t /\ done_leaves t2 = done_leaves t1 /\
  undone_leaves t2 = undone_leaves t1 /\ (nbad t2 < nbad t)%nat.
Proof. exact resume_step. Qed.
Print Assumptions C08_resume_step.

(* ... no run ever calls the function of a leaf that holds a key, a run that returns has called exactly
   the leaves that held none and ends with the meant outputs ... *)
Theorem C08_no_recall : forall fixv, fix_ok fixv -> forall t cut t1 evs r,
  Start fixv t -> attempt cut t = (t1, evs, r) ->
  (forall q, In q (calls evs) -> ~ In q (done_leaves t)) /\
  (r = ROk -> outputs t1 = dtree fixv [] [] t /\ calls evs = undone_leaves t /\ complete t1 /\ clean t1).
Proof.
  intros fixv Hf t cut t1 evs r HS HA. split; [exact (no_recall fixv Hf t cut t1 evs r HS HA)|].
  intros E. destruct (attempt_sem fixv Hf t cut t1 evs r HS HA) as (_ & _ & _ & HOk & _).
  destruct (HOk E) as (K1 & K2 & K3 & K4). auto.
Qed.
Print Assumptions C08_no_recall.

(* ... and the sequence ends, after at most one recovery per cause, in the uninterrupted twin's outputs. *)
Theorem C08_resume_sequence : forall fixv, fix_ok fixv -> forall t, Start fixv t ->
  exists t' U evU, final fixv (S (nbad t)) t = Some t' /\
    attempt None (fixall fixv t) = (U, evU, ROk) /\ outputs t' = outputs U.
Proof. exact resume_sequence. Qed.
Print Assumptions C08_resume_sequence.

(* (3) Checkpoint, PARTIAL: for every graph between runs and EVERY node c whose checkpoint save is the last
   thing that survives: IF the file can be loaded AND the protocol also clears `running` wherever the
   image has it set, the restored graph is a graph between runs with exactly the keys of the image and
   the same meant outputs -- so (2), (2') apply to it verbatim: it resumes to the uninterrupted end
   without calling any function that had completed before the save.
   Missing from the property as stated: the two guards (see the _refuted theorems below). *)
Theorem C08_checkpoint_partial : forall fixv, fix_ok fixv -> forall t c t1 evs l,
  Start fixv t -> attempt (Some c) t = (t1, evs, RCut) -> load_file t1 = Some l ->
  let t2 := clear_running (recover fixv l) in
  Start fixv t2 /\ dtree fixv [] [] t2 = dtree fixv [] [] t /\ done_leaves t2 = done_leaves t1 /\
  undone_leaves t2 = undone_leaves t1 /\ (nbad t2 <= nbad t)%nat /\
  (forall q, In q (calls evs) -> ~ In q (done_leaves t)) /\ incl (done_leaves t1) (done_leaves t ++ calls evs).
Proof. exact checkpoint_restart. Qed.
Print Assumptions C08_checkpoint_partial.

(* ... composed: under the two guards the image resumes, after at most one recovery per remaining cause,
   to the uninterrupted end of the ORIGINAL graph, and the first resumed run calls no leaf that held a key
   in the image -- exactly those that held none, when it returns. *)
Theorem C08_checkpoint_resume_partial : forall fixv, fix_ok fixv -> forall t c t1 evs l,
  Start fixv t -> attempt (Some c) t = (t1, evs, RCut) -> load_file t1 = Some l ->
  let t2 := clear_running (recover fixv l) in
  exists t' U evU, final fixv (S (nbad t)) t2 = Some t' /\ attempt None (fixall fixv t) = (U, evU, ROk) /\
    outputs t' = outputs U /\
    forall t3 ev2 r2, attempt None t2 = (t3, ev2, r2) ->
      (forall q, In q (calls ev2) -> ~ In q (done_leaves t1)) /\ (r2 = ROk -> calls ev2 = undone_leaves t1).
Proof. exact checkpoint_resume. Qed.
Print Assumptions C08_checkpoint_resume_partial.

(* The property as stated is FALSE of the faithful model (and of the code), for EVERY graph and every
   checkpointing node other than the root: the image marks the root running, and with the protocol the
   statement gives (remove the cause, clear the failure flags, run) the root refuses: ReadinessError,
   no function called.  Known finding S19. *)
Theorem C08_checkpoint_stated_refused : forall fixv, fix_ok fixv -> forall t c t1 evs l,
  Start fixv t -> attempt (Some c) t = (t1, evs, RCut) -> c <> [] -> load_file t1 = Some l ->
  exists x', attempt None (recover fixv l) = (x', [], RExc EReady).
Proof. exact checkpoint_stated_refused. Qed.
Print Assumptions C08_checkpoint_stated_refused.

Ltac fresh_tac :=
  unfold Fresh; cbn;
  repeat (first [ split | apply Forall_cons | apply Forall_nil | eexists | reflexivity | exact I
                | (intros; discriminate) | (intros; lia) | progress (unfold okin, mirror; cbn) ]).

Definition st0 : nst := {| outv := None; cached := None; failed := false; running := false |}.
Definition w19 : node :=
  Macro [] 0 st0 [Leaf 1 [(SOwn, Some 2%Z)] st0; Leaf 2 [(SUp 0, None); (SOwn, Some 3%Z)] st0].

Theorem C08_checkpoint_refuted : exists t c t1 evs l x' U evU,
  Fresh t /\ attempt (Some c) t = (t1, evs, RCut) /\ load_file t1 = Some l /\
  attempt None (recover Z.opp l) = (x', [], RExc EReady) /\
  attempt None (fixall Z.opp t) = (U, evU, ROk) /\ outputs x' <> outputs U.
Proof.
  exists w19, [0%nat]. eexists. eexists. eexists. eexists. eexists. eexists.
  split; [unfold w19; fresh_tac|].
  split; [vm_compute; reflexivity|]. split; [vm_compute; reflexivity|]. split; [vm_compute; reflexivity|].
  split; [vm_compute; reflexivity|]. vm_compute. discriminate.
Qed.
Print Assumptions C08_checkpoint_refuted.

(* Second guard: a checkpoint written two macro levels down cannot even be loaded when the inner macro
   takes an input through a value link: re-forging the link assigns to a node marked running.
   Known finding S28. *)
Definition w28 : node :=
  Macro [] 0 st0
    [Macro [(SOwn, Some 1%Z)] 0 st0
       [Macro [(SPar 0, Some 1%Z)] 0 st0
          [Leaf 5 [(SPar 0, Some 1%Z); (SOwn, Some 2%Z)] st0]]].
Theorem C08_checkpoint_unloadable_refuted : exists t c t1 evs,
  Fresh t /\ attempt (Some c) t = (t1, evs, RCut) /\ load_file t1 = None.
Proof.
  exists w28, [0%nat; 0%nat; 0%nat]. eexists. eexists.
  split; [unfold w28; fresh_tac|].
  split; vm_compute; reflexivity.
Qed.
Print Assumptions C08_checkpoint_unloadable_refuted.

(* Non-vacuity: a nested graph with one failing node two levels down meets the hypotheses of (2); the
   run stops there, the resumed run calls the failing leaf and the two unfinished ones, and a checkpoint
   cut one level down resumes under the guards of (3). *)
Definition wex : node :=
  Macro [] 0 st0
    [Leaf 1 [(SOwn, Some 2%Z)] st0;
     Macro [(SUp 0, None); (SOwn, Some 4%Z)] 1 st0
       [Leaf 3 [(SPar 0, None)] st0;
        Leaf 4 [(SUp 0, None); (SPar 1, Some 4%Z); (SOwn, Some (-3)%Z)] st0];
     Leaf 7 [(SUp 1, None); (SUp 0, None)] st0].
Example C08_hyps_hold :
  Fresh wex /\ nbad wex = 1%nat /\
  (let '(t1, ev1, r1) := attempt None wex in
   r1 = RExc EChild /\ calls ev1 = [[0]; [1; 0]; [1; 1]]%nat /\ failed_nodes t1 = [[]; [1]; [1; 1]]%nat /\
   done_leaves t1 = [[0]; [1; 0]]%nat /\
   let '(t3, ev2, r2) := attempt None (recover Z.opp (load t1)) in
   r2 = ROk /\ calls ev2 = [[1; 1]; [2]]%nat /\
   outputs t3 = outputs (fst (fst (attempt None (fixall Z.opp wex))))) /\
  (let '(c1, evc, rc) := attempt (Some [1; 0]%nat) (fixall Z.opp wex) in
   rc = RCut /\ running_nodes c1 = [[]; [1]]%nat /\ load_file c1 = Some (load c1) /\
   let '(c3, ev3, r3) := attempt None (clear_running (recover Z.opp (load c1))) in
   r3 = ROk /\ calls ev3 = [[1; 1]; [2]]%nat).
Proof.
  split; [unfold wex; fresh_tac|].
  split; [reflexivity|]. split; vm_compute; repeat split; reflexivity.
Qed.
