(* C05 -- caching is transparent: a run served from cache equals a real run.
   Node-level machine: Cache.v (run cycle as the current code performs it).  Only
   Theorem / exact / Print Assumptions here; proofs in CacheProofs.v. *)
From PW Require Import Base Cache CacheProofs.

(* For EVERY deterministic node function and EVERY history of input assignments, local
   runs, executor runs, failures (the function raises), refusals (missing data, failed or
   in-flight node), flag clears and cache-resetting graph edits: after each operation the
   cached node and its twin with caching switched off returned the same thing (for an
   executor run: its eventual result) and show the same inputs, outputs, running and failed
   flags. *)
Theorem C05_twin : forall fsem n_in c ms, silent_free ms ->
  mtrace fsem true (init n_in c) ms = mtrace fsem false (init n_in c) ms.
Proof. intros fsem n_in c ms H. apply twin_equal; [exact H | apply init_rel]. Qed.
Print Assumptions C05_twin.

(* the invariant behind it: a cache key, when present, is a complete input vector whose
   result under the current configuration is the current output -- never the inputs of a
   refused, failed or in-flight run *)
Theorem C05_cache_key_valid : forall fsem sc su m, Rel fsem sc su -> (forall c, m <> MEditSilent c) ->
  Rel fsem (fst (mstep fsem true sc m)) (fst (mstep fsem false su m)).
Proof. intros fsem sc su m H Hm. exact (proj2 (proj2 (mstep_twin fsem sc su m H Hm))). Qed.
Print Assumptions C05_cache_key_valid.

(* while a job is out, every attempt to change or re-run the node is refused and changes nothing *)
Theorem C05_in_flight_frozen : forall fsem uc s o, running s = true -> failed s = false ->
  has_complete o = false -> fst (step fsem uc s o) = s.
Proof. exact in_flight_frozen. Qed.
Print Assumptions C05_in_flight_frozen.

(* The full statement (histories that also rewire a composite's internals or assign an
   internal input no composite input stands for) is FALSE of the code: such edits leave the
   cache key valid and the next run is stale.  Known finding S5. *)
Theorem C05_twin_refuted_silent_edit :
  exists ms, mtrace chk true (init [Some 1%Z] 5) ms <> mtrace chk false (init [Some 1%Z] 5) ms.
Proof. exact twin_refuted_silent_edit. Qed.
Print Assumptions C05_twin_refuted_silent_edit.

(* non-vacuity: a history with a failure, a refusal, an executor run and two cache hits *)
Example C05_history :
  let ms := [MRunLocal; MRunLocal; MAssign 0 (-4); MRunLocal; MRunLocal; MClearFailed; MAssign 0 2;
             MRunRemote; MRunRemote; MEditReset 9; MRunLocal] in
  silent_free ms /\
  map fst (mtrace chk true (init [Some 1%Z; Some 3%Z] 5) ms) =
    [OValue (Some 12%Z); OValue (Some 12%Z); ODone; OUser 1; OReadiness; ODone; ODone;
     OValue (Some 13%Z); OValue (Some 13%Z); ODone; OValue (Some 17%Z)].
Proof. split; [intros c [H|[H|[H|[H|[H|[H|[H|[H|[H|[H|[H|[]]]]]]]]]]]]; discriminate | vm_compute; reflexivity]. Qed.

(* ---- the key is a DICTIONARY (labels matter): CacheKeys.v ------------------------------------------
   A Workflow's input labels are its children's unconnected channels, so wiring changes the key set.
   A hit (python dict equality, as Node.cache_hit computes it) means the same key set and equal
   values key by key; in particular an input that was part of the remembered key and is gone now
   (it got connected internally), or one that is new (it got disconnected), is a miss. *)
From PW Require Import CacheKeys CacheKeysProofs.

Theorem C05_hit_iff_same_dictionary : forall now cached, NoDup (keys now) -> NoDup (keys cached) ->
  (dict_eqb now cached = true <-> forall k, assoc String.eqb k now = assoc String.eqb k cached).
Proof. intros now cached Ha Hb. split; [apply hit_same_values; assumption | apply same_dict_hits; assumption]. Qed.
Print Assumptions C05_hit_iff_same_dictionary.

Theorem C05_dropped_or_added_key_is_a_miss : forall now cached k, NoDup (keys now) -> NoDup (keys cached) ->
  (In k (keys cached) /\ ~ In k (keys now)) \/ (In k (keys now) /\ ~ In k (keys cached)) ->
  CacheKeys.cache_hit false false now (Some cached) = false.
Proof.
  intros now cached k Ha Hb [[H1 H2]|[H1 H2]]; unfold CacheKeys.cache_hit; cbn;
    [apply (dropped_key_misses now cached k) | apply (added_key_misses now cached k)]; assumption.
Qed.
Print Assumptions C05_dropped_or_added_key_is_a_miss.

Theorem C05_no_hit_while_running_or_failed : forall r f now cached, r || f = true ->
  CacheKeys.cache_hit r f now cached = false.
Proof. exact no_hit_while_running_or_failed. Qed.
Print Assumptions C05_no_hit_while_running_or_failed.

(* ---- a Workflow of function nodes (CacheWf.v: the workflow's key over the unconnected child inputs, plus
   one cache per child; the model the `wfd` histories are compared with, both twins) ------------------- *)
From PW Require Import CacheWf CacheWfProofs.

(* Inside one run of a workflow the children's caches are transparent: for EVERY number of children,
   forward wiring, constants and state of outputs and flags that any history can reach, the body run with
   caching on and with caching off do the same to everything but the remembered inputs, and end alike. *)
Theorem C05_wf_children_caches_transparent : forall ks ops,
  let st := wexec true (winit ks) ops in
  let '(s1, r1) := body true st in
  let '(s2, r2) := body false (er st) in
  er s1 = s2 /\ r1 = r2.
Proof.
  intros ks ops st. pose proof (body_twin st (valid_reachable ks ops)) as H.
  destruct (body true st) as [s1 r1]. destruct (body false (er st)) as [s2 r2]. destruct H as (E & R & _). split; assumption.
Qed.
Print Assumptions C05_wf_children_caches_transparent.

(* Hence every run that is not served from the workflow's own key equals the uncached twin's run. *)
Theorem C05_wf_run_equals_twin_on_miss_partial : forall ks ops,
  let st := wexec true (winit ks) ops in
  (match wcache st with Some k => key_eqb k (key st) | None => false end) = false ->
  let '(s1, r1) := run_wf true st in
  let '(s2, r2) := run_wf false (er st) in
  er s1 = s2 /\ r1 = r2.
Proof. intros ks ops st H. apply run_miss_twin; [apply valid_reachable | exact H]. Qed.
Print Assumptions C05_wf_run_equals_twin_on_miss_partial.

(* The full twin statement for runs served from the workflow's key is FALSE of the code in two ways
   (known findings; the third way was the defect repaired by 4d10bb8, whose history now agrees). *)
Theorem C05_wf_twin_refuted_rewire :
  wtrace true (winit ks3) [WConnect 2 0; WRun; WConnect 2 1; WRun] <>
  wtrace false (winit ks3) [WConnect 2 0; WRun; WConnect 2 1; WRun].
Proof. exact wf_twin_refuted_rewire. Qed.
Print Assumptions C05_wf_twin_refuted_rewire.

Theorem C05_wf_twin_refuted_skipped_fetch :
  wtrace true (winit ks3) [WConnect 1 0; WRun; WAssign 1 (-2); WRun; WDisconnect 1; WRun] <>
  wtrace false (winit ks3) [WConnect 1 0; WRun; WAssign 1 (-2); WRun; WDisconnect 1; WRun].
Proof. exact wf_twin_refuted_skipped_fetch. Qed.
Print Assumptions C05_wf_twin_refuted_skipped_fetch.

(* What a hit relies on, proved: a workflow in which every child has run on the inputs it shows (Settled) is
   a fixed point of the uncached body -- re-running it changes nothing and succeeds ... *)
Theorem C05_wf_settled_rerun_is_identity : forall st, Settled st -> body false st = (st, WValue).
Proof. exact settled_rerun_is_identity. Qed.
Print Assumptions C05_wf_settled_rerun_is_identity.

(* ... every successful executed run of a reachable workflow ends Settled ... *)
Theorem C05_wf_success_settles : forall ks ops s1,
  body true (wexec true (winit ks) ops) = (s1, WValue) -> Settled s1.
Proof.
  intros ks ops s1 H. exact (proj1 (body_success_settles _ s1 (valid_reachable ks ops) (forward_reachable ks ops) H)).
Qed.
Print Assumptions C05_wf_success_settles.

(* ... so for EVERY history: after a successful run that was really executed, running again with nothing
   touched is served from the workflow's cache, and that is exactly what the uncached twin does. *)
Theorem C05_wf_repeat_run_sound : forall ks ops s1,
  let st := wexec true (winit ks) ops in
  (match wcache st with Some k => key_eqb k (key st) | None => false end) = false ->
  run_wf true st = (s1, WValue) ->
  run_wf true s1 = (s1, WValue) /\ run_wf false (er s1) = (er s1, WValue).
Proof. exact repeat_run_sound. Qed.
Print Assumptions C05_wf_repeat_run_sound.

(* The twin statement over whole histories, under the guard "whenever a run is served from the workflow's
   cache, every child has run on the inputs it shows" -- for EVERY workflow and EVERY history that keeps the
   guard, the cached workflow and its uncached twin return the same and show the same outputs and flags after
   every operation.  The two known findings are histories that break the guard (refutations above). *)
Theorem C05_wf_twin_if_hits_settled_partial : forall ks ops, hits_settled (winit ks) ops ->
  wtrace true (winit ks) ops = wtrace false (winit ks) ops.
Proof. exact wf_twin_if_hits_settled. Qed.
Print Assumptions C05_wf_twin_if_hits_settled_partial.

(* non-vacuity: a history with wiring, hits, an input change and a failure keeps the guard (decided by the
   boolean checker, which is sound) -- and the histories of the two known findings break it *)
Example C05_wf_guard_holds_somewhere :
  hits_settled (winit ks3) [WConnect 1 0; WRun; WRun; WAssign 0 4; WRun; WRun; WAssign 2 (-1); WRun; WClear; WAssign 2 6; WRun; WRun].
Proof. apply hits_settledb_sound. vm_compute. reflexivity. Qed.

Example C05_wf_known_findings_break_the_guard :
  hits_settledb (winit ks3) [WConnect 2 0; WRun; WConnect 2 1; WRun] = false /\
  hits_settledb (winit ks3) [WConnect 1 0; WRun; WAssign 1 (-2); WRun; WDisconnect 1; WRun] = false.
Proof. split; vm_compute; reflexivity. Qed.
