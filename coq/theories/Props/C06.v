(* C06 -- a failing node is contained, reported, and leaves consistent statuses.
   Local execution: Fail.v (the composite loop with raising children).  Any schedule of
   executor children: the Dag.v machine, where a child that raised is a child that never
   finishes.  Only Theorem / exact / Print Assumptions here. *)
From PW Require Import Base Dag DagProofs Fail FailProofs.

(* one run of one child whose function raises: it was not failed before, ends failed, keeps its
   outputs, is logged, and the only signal it announces is `failed` -- for every graph and state *)
Theorem C06_child_contained : forall g s n s' x, FailProofs.Inv s -> run_node g s n = (s', x) ->
  FailProofs.Inv s' /\
  match x with
  | Raised => nth n (failedv s) false = false /\ failedv s' = set_nth (failedv s) n true /\ outv s' = outv s /\
              log s' = log s ++ [LRaise n] /\
              (forall e r, In (e, r) (sent s') -> ~ In (e, r) (sent s) -> e = (n, OFailed))
  | Refused => outv s' = outv s /\ failedv s' = failedv s /\ sent s' = sent s /\ log s' = log s ++ [LRefuse n]
  | Ran => failedv s' = failedv s /\ log s' = log s ++ [LOk n] /\ nth n (failedv s) false = false
  end.
Proof. exact run_node_contained. Qed.
Print Assumptions C06_child_contained.

(* the whole run, for every DAG-wired or hand-wired flow, every set of failing children, every fuel:
   - no completion-type signal (ran/true/false) of a child is ever sent unless its function returned,
     and `failed` only if it raised (so nothing depending on its completion is triggered by it);
   - if any child raised or refused, the caller does not get a normal return;
   - a normal return means no child is marked failed. *)
Theorem C06_run_reported : forall g fuel starting s v, run g fuel starting = (Some s, v) ->
  FailProofs.Inv s /\
  ((exists n, In (LRaise n) (log s) \/ In (LRefuse n) (log s)) -> v <> VOk) /\
  (v = VOk -> forall n, nth n (failedv s) false = false).
Proof. exact run_reported. Qed.
Print Assumptions C06_run_reported.

(* under EVERY schedule of deliveries and executor completions of an automatically wired DAG: a child
   starts only after each of its upstream children has finished -- a child whose function raised never
   finishes, hence nothing downstream of it ever starts, locally or on an executor *)
Theorem C06_nothing_downstream_any_schedule :
  forall N ups sem remote,
  (forall n u, In u (ups n) -> u < n) ->
  (forall n e e', (forall u, In u (ups n) -> e u = e' u) -> sem n e = sem n e') ->
  forall order es s, NoDup order -> (forall n, In n order -> n < N /\ ups n = []) ->
  Dag.run N ups sem remote (Dag.init N ups sem remote order) es = Some s ->
  forall n u, In (LStart n) (Dag.log s) -> In u (ups n) -> DagProofs.before (LFinish u) (LStart n) (Dag.log s).
Proof. intros N ups sem remote A L. exact (@started_only_after_upstream N ups sem remote A L). Qed.
Print Assumptions C06_nothing_downstream_any_schedule.

(* non-vacuity: a diamond whose left arm raises: the join never runs, the caller gets FailedChildError *)
Example C06_diamond :
  let g := [ {| f_kind := KChk 1; f_ins := [{| fi_init := Some 2%Z; fi_conns := [] |}]; f_sig := [(ORan, [(2, IAcc); (1, IAcc)])] |};
             {| f_kind := KChk (-9); f_ins := [{| fi_init := Some (-1)%Z; fi_conns := [] |}; {| fi_init := None; fi_conns := [0] |}];
                f_sig := [(ORan, [(3, IAcc)])] |};
             {| f_kind := KChk 3; f_ins := [{| fi_init := None; fi_conns := [0] |}]; f_sig := [(ORan, [(3, IAcc)])] |};
             {| f_kind := KChk 4; f_ins := [{| fi_init := None; fi_conns := [1] |}; {| fi_init := None; fi_conns := [2] |}]; f_sig := [] |} ] in
  match Fail.run g 50 [0] with
  | (Some s, v) => v = VFailedChild true /\ Fail.log s = [LOk 0; LOk 2; LRaise 1] /\ failedv s = [false; true; false; false]
                   /\ nth 3 (outv s) None = None
  | _ => False
  end.
Proof. vm_compute. repeat split; reflexivity. Qed.
