(* C06 -- a failing node is contained, reported, and leaves consistent statuses.
   Local execution: Fail.v (the composite loop with raising children).  Any schedule of
   executor children: the Dag.v machine, where a child that raised is a child that never
   finishes.  Only Theorem / exact / Print Assumptions here. *)
From PW Require Import Base Dag DagProofs Fail FailProofs Free FreeProofs.

(* one run of one child whose function raises: it was not failed before, ends failed, keeps its
   outputs, is logged, and the only signal it announces is `failed` -- for every graph and state *)
Theorem C06_child_contained : forall g s n s' x, FailProofs.Inv s -> run_node g s n = (s', x) ->
  FailProofs.Inv s' /\
  match x with
  | Raised => nth n (failedv s) false = false /\ failedv s' = set_nth (failedv s) n true /\ outv s' = outv s /\
              log s' = log s ++ [LRaise n] /\
              (forall e r, In (e, r) (sent s') -> ~ In (e, r) (sent s) -> e = (n, OFailed))
  | Refused => outv s' = outv s /\ failedv s' = failedv s /\ sent s' = sent s /\ log s' = log s ++ [LRefuse n]
  | Ran => failedv s' = failedv s /\ log s' = log s ++ [LOk n] /\ nth n (failedv s) false = false
  end.
Proof. exact run_node_contained. Qed.
Print Assumptions C06_child_contained.

(* the whole run, for every DAG-wired or hand-wired flow, every set of failing children, every fuel:
   - no completion-type signal (ran/true/false) of a child is ever sent unless its function returned,
     and `failed` only if it raised (so nothing depending on its completion is triggered by it);
   - if any child raised or refused, the caller does not get a normal return;
   - a normal return means no child is marked failed. *)
Theorem C06_run_reported : forall g fuel starting s v, run g fuel starting = (Some s, v) ->
  FailProofs.Inv s /\
  ((exists n, In (LRaise n) (log s) \/ In (LRefuse n) (log s)) -> v <> VOk) /\
  (v = VOk -> forall n, nth n (failedv s) false = false).
Proof. exact run_reported. Qed.
Print Assumptions C06_run_reported.

(* under EVERY schedule of deliveries and executor completions of an automatically wired DAG: a child
   starts only after each of its upstream children has finished -- a child whose function raised never
   finishes, hence nothing downstream of it ever starts, locally or on an executor *)
Theorem C06_nothing_downstream_any_schedule :
  forall N ups sem remote,
  (forall n u, In u (ups n) -> u < n) ->
  (forall n e e', (forall u, In u (ups n) -> e u = e' u) -> sem n e = sem n e') ->
  forall order es s, NoDup order -> (forall n, In n order -> n < N /\ ups n = []) ->
  Dag.run N ups sem remote (Dag.init N ups sem remote order) es = Some s ->
  forall n u, In (LStart n) (Dag.log s) -> In u (ups n) -> DagProofs.before (LFinish u) (LStart n) (Dag.log s).
Proof. intros N ups sem remote A L. exact (@started_only_after_upstream N ups sem remote A L). Qed.
Print Assumptions C06_nothing_downstream_any_schedule.

(* non-vacuity: a diamond whose left arm raises: the join never runs, the caller gets FailedChildError *)
Example C06_diamond :
  let g := [ {| f_kind := KChk 1; f_ins := [{| fi_init := Some 2%Z; fi_conns := [] |}]; f_sig := [(ORan, [(2, IAcc); (1, IAcc)])] |};
             {| f_kind := KChk (-9); f_ins := [{| fi_init := Some (-1)%Z; fi_conns := [] |}; {| fi_init := None; fi_conns := [0] |}];
                f_sig := [(ORan, [(3, IAcc)])] |};
             {| f_kind := KChk 3; f_ins := [{| fi_init := None; fi_conns := [0] |}]; f_sig := [(ORan, [(3, IAcc)])] |};
             {| f_kind := KChk 4; f_ins := [{| fi_init := None; fi_conns := [1] |}; {| fi_init := None; fi_conns := [2] |}]; f_sig := [] |} ] in
  match Fail.run g 50 [0] with
  | (Some s, v) => v = VFailedChild true /\ Fail.log s = [LOk 0; LOk 2; LRaise 1] /\ failedv s = [false; true; false; false]
                   /\ nth 3 (outv s) None = None
  | _ => False
  end.
Proof. vm_compute. repeat split; reflexivity. Qed.

(* hand-wired flows WITHOUT a parent (signals delivered depth first by the nodes themselves), for every
   wiring -- cycles through failure handlers included --, every state reached so far, every fuel: a run that
   returns normally to its caller called no function that raised and triggered no node that refused; a run
   that ends with a user exception names a node whose function raised IN THIS RUN; a refusal names a node
   that refused in this run; and the invariant of C06_child_contained (completion signals only from nodes whose
   function returned, `failed` only from nodes whose function raised, failed flags only on nodes that
   raised) holds afterwards *)
Theorem C06_free_run_reported : forall g fuel s n s' r, FailProofs.Inv s -> fexec g fuel s n = (s', r) ->
  FailProofs.Inv s' /\ exists l : list logev, Fail.log s' = (Fail.log s ++ l)%list /\
    (r = FOk -> forall m, ~ In (LRaise m) l /\ ~ In (LRefuse m) l) /\
    (forall m, r = FExc m -> In (LRaise m) l) /\
    (forall m, r = FReady m -> In (LRefuse m) l).
Proof. exact fexec_good. Qed.
Print Assumptions C06_free_run_reported.

(* the caller's whole session (every starting node run in turn on the same objects): if every run returned
   normally then nothing raised and nothing refused in the whole history *)
Theorem C06_free_session_reported : forall g fuel starting s s' xs, FailProofs.Inv s ->
  fruns g fuel s starting = (s', xs) ->
  FailProofs.Inv s' /\ List.length xs = List.length starting /\
  (Forall (fun x => x = FOk) xs -> exists l : list logev, Fail.log s' = (Fail.log s ++ l)%list /\ forall m, ~ In (LRaise m) l /\ ~ In (LRefuse m) l).
Proof. exact fruns_reported. Qed.
Print Assumptions C06_free_session_reported.

(* ... and every node such a run executes, other than the one the caller ran, was triggered by a signal that had
   really been sent; a completion-type signal (ran / true / false) is only ever sent by a node whose function
   returned, `failed` only by one whose function raised: no node executes on the strength of the completion of a
   node that failed *)
Theorem C06_free_nothing_runs_on_a_failed_completion : forall g fuel s n s' r, FailProofs.Inv s ->
  fexec g fuel s n = (s', r) ->
  exists l : list logev, Fail.log s' = (Fail.log s ++ l)%list /\
    forall m, In m (started l) -> m = n \/
      exists e rc, fst rc = m /\ In (e, rc) (sent s') /\
        (snd e = OFailed -> In (LRaise (fst e)) (Fail.log s')) /\ (snd e <> OFailed -> In (LOk (fst e)) (Fail.log s')).
Proof. exact fexec_triggered_soundly. Qed.
Print Assumptions C06_free_nothing_runs_on_a_failed_completion.

(* non-vacuity: n0 >> n1 >> n2, n1 raises, its failure handler n3 runs; n4 waits for n0 AND n1: the caller of
   n0.run() gets n1's exception, n2 and n4 never run, n0 is not marked failed *)
Example C06_free_chain :
  let c x := {| fi_init := Some x; fi_conns := [] |} in
  let g := [ {| f_kind := KChk 1; f_ins := [c 1%Z]; f_sig := [(ORan, [(1, IRun); (4, IAcc)])] |};
             {| f_kind := KChk 1; f_ins := [c (-1)%Z]; f_sig := [(ORan, [(2, IRun); (4, IAcc)]); (OFailed, [(3, IRun)])] |};
             {| f_kind := KChk 1; f_ins := [c 1%Z]; f_sig := [] |};
             {| f_kind := KChk 1; f_ins := [c 1%Z]; f_sig := [] |};
             {| f_kind := KChk 1; f_ins := [c 1%Z]; f_sig := [] |} ] in
  match fruns g 50 (init_state g) [0] with
  | (s, xs) => xs = [FExc 1] /\ Fail.log s = [LOk 0; LRaise 1; LOk 3] /\ failedv s = [false; true; false; false; false]
               /\ nth 1 (outv s) None = None
  end.
Proof. vm_compute. repeat split; reflexivity. Qed.

