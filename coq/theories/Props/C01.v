(* C01 -- automatic DAG execution is complete, ordered and correct under every schedule.
   Abstract machine: Dag.v (events = deliver ANY pending signal / complete ANY outstanding
   executor job).  Only Theorem / exact / Print Assumptions here; proofs in DagProofs.v. *)
From PW Require Import Base Dag DagProofs DagGraph.

Section C01.
  Variable N : nat.                       (* number of children                              *)
  Variable ups : nat -> list nat.         (* distinct upstream owners (data graph)           *)
  Variable sem : nat -> (nat -> Z) -> Z.  (* ANY node functions ...                          *)
  Variable remote : nat -> bool.          (* ANY assignment of children to executors         *)
  Hypothesis acyclic : forall n u, In u (ups n) -> u < n.
  Hypothesis local : forall n e e', (forall u, In u (ups n) -> e u = e' u) -> sem n e = sem n e'.

  (* For every order in which the starting nodes are launched and EVERY enabled event
     sequence (every delivery order, every completion order of executor jobs) that ends
     with nothing pending and nothing out: every child ran exactly once, never before its
     upstream finished, outputs equal plain composition, nothing is left running. *)
  Theorem C01_dag_run_correct : forall order es s,
    NoDup order -> (forall n, In n order <-> n < N /\ ups n = []) ->
    run N ups sem remote (init N ups sem remote order) es = Some s -> quiescent N s ->
    (forall n, n < N -> once (LStart n) (log s) /\ once (LFinish n) (log s)) /\
    (forall n, N <= n -> ~ In (LStart n) (log s)) /\
    (forall n u, n < N -> In u (ups n) -> before (LFinish u) (LStart n) (log s)) /\
    (forall n, n < N -> out s n = denote N sem n) /\
    (forall n, status s n <> Out).
  Proof. exact (@dag_run_correct N ups sem remote acyclic local). Qed.

  (* The run always terminates: at most 2|V| + |E| events can ever happen ... *)
  Theorem C01_terminates : forall order es s,
    NoDup order -> (forall n, In n order <-> n < N /\ ups n = []) ->
    run N ups sem remote (init N ups sem remote order) es = Some s ->
    List.length es <= fsum (fun n => 2 + outdeg N ups n) N.
  Proof. exact (@dag_terminates N ups sem remote acyclic local). Qed.

  (* ... it cannot deadlock: a non-quiescent state always has an enabled event ... *)
  Theorem C01_progress : forall s, quiescentb N s = false ->
    exists e s', step N ups sem remote s e = Some s'.
  Proof. exact (@dag_progress N ups sem remote). Qed.

  (* ... and the code-shaped scheduler (FIFO head first, poll when the queue is empty) is
     one of the event sequences the theorems quantify over. *)
  Theorem C01_sched_refines : forall fuel oracle s s',
    sched N ups sem remote fuel oracle s = Some s' ->
    quiescent N s' /\ exists es, run N ups sem remote s es = Some s'.
  Proof. exact (@sched_is_run N ups sem remote). Qed.
End C01.
Print Assumptions C01_dag_run_correct.
Print Assumptions C01_terminates.
Print Assumptions C01_progress.
Print Assumptions C01_sched_refines.

(* Every concrete graph description used by the correspondence check meets the hypotheses. *)
Theorem C01_graph_instance : forall g, wf_graph g = true ->
  (forall n u, In u (g_ups g n) -> u < n) /\ (forall n, NoDup (g_ups g n)) /\
  (forall n e e', (forall u, In u (g_ups g n) -> e u = e' u) -> g_sem g n e = g_sem g n e').
Proof. intros g H. repeat split; [apply g_ups_lt; exact H | apply g_ups_nodup | apply g_sem_local]. Qed.
Print Assumptions C01_graph_instance.

(* Non-vacuity: a diamond with two executor children and an interleaved schedule. *)
Example C01_diamond :
  let g := [ {| n_k := 1; n_ins := [IConst 2]; n_remote := false; n_macro := false |};
             {| n_k := 2; n_ins := [IConn [0]]; n_remote := true; n_macro := false |};
             {| n_k := 3; n_ins := [IConn [0]; IConst 5]; n_remote := true; n_macro := false |};
             {| n_k := 4; n_ins := [IConn [2; 1]; IConn [1]]; n_remote := false; n_macro := false |} ] in
  wf_graph g = true /\
  exists s, run 4 (g_ups g) (g_sem g) (g_remote g) (init 4 (g_ups g) (g_sem g) (g_remote g) [0])
              [Deliver 1; Deliver 0; Complete 1; Complete 2; Deliver 1; Deliver 0] = Some s
            /\ quiescentb 4 s = true /\ out s 3 = 30%Z.
Proof. split; [reflexivity|]. eexists. split; [vm_compute; reflexivity|]. split; vm_compute; reflexivity. Qed.

(* ---- the wait loop against the executor callbacks, list access by list access (Poll.v) ------------
   Dag.v takes "the parent keeps going while a signal is pending or a job is out" as its loop.  The
   code decides that with two separate reads (running_children, then signal_queue) while the
   callbacks of finishing jobs append to the queue and then un-register on other threads.  For EVERY
   interleaving of those accesses, and whatever delivering a signal enqueues or hands out, the loop
   exits only when nothing is out, no callback is unfinished and the queue is empty -- i.e. only in
   the quiescent states C01_dag_run_correct speaks about. *)
From PW Require Import Poll PollProofs.

Theorem C01_wait_loop_exits_only_when_quiescent : forall enq starts ops,
  nodupb Nat.eqb (map fst starts) = true ->
  let s := prun false false (pinit false enq starts) ops in
  pc s = PExit -> running s = [] /\ workers s = [] /\ Poll.queue s = 0.
Proof. exact poll_exit_quiescent. Qed.
Print Assumptions C01_wait_loop_exits_only_when_quiescent.

(* Both orders are needed: with the reads swapped, or with the callback un-registering before it
   enqueues, some interleaving exits with a signal still queued (its receiver never runs). *)
Theorem C01_wait_loop_read_order_needed :
  exists ops, let s := prun true false (pinit true 0 [(0, 1)]) ops in
              pc s = PExit /\ Poll.queue s = 1 /\ bad s = false.
Proof. exact poll_queue_first_refuted. Qed.
Print Assumptions C01_wait_loop_read_order_needed.

Theorem C01_callback_write_order_needed :
  exists ops, let s := prun false true (pinit false 0 [(0, 1)]) ops in
              pc s = PExit /\ Poll.queue s = 1 /\ bad s = false.
Proof. exact poll_unregister_first_refuted. Qed.
Print Assumptions C01_callback_write_order_needed.

(* ... and no wake-up is lost: from every state any interleaving can reach, the callbacks that are out
   can finish and the parent then pops what is queued and leaves -- the protocol itself never makes the
   parent wait forever (deliveries that hand out new work are C01_terminates' business). *)
Theorem C01_wait_loop_can_always_finish : forall enq starts ops,
  nodupb Nat.eqb (map fst starts) = true ->
  let s := prun false false (pinit false enq starts) ops in
  exists more, let s' := prun false false s more in pc s' = PExit /\ bad s' = bad s.
Proof. exact poll_can_always_finish. Qed.
Print Assumptions C01_wait_loop_can_always_finish.
