(* C11 -- pulling a node runs exactly its upstream closure and leaves the graph as it was.
   All statements are about Pull.v (the model of Node.pull / __call__ / run_data_tree and the
   topology helpers, checked against the real library on every run); proofs in PullProofs.v.

   Vocabulary (PullProofs.v):
     WF sc            the signal wiring of the scope is mutual and duplicate free (C12's invariant)
     reach up k x     x is in the upstream data closure of k
     topo_enum up k o o is duplicate free, contains exactly the closure of k, and every node comes
                      after all its upstream nodes ([topo up [] o])
     same_graph a b   b has the labels, starting nodes, data edges, flags of a and -- per channel --
                      the same run / accumulate_and_run / ran connections AS SETS (and is WF)
     quiet sc up      the composite owning the scope is not a macro with something connected
                      to its `ran` signal
     level_exec       see C11_runs_closure *)
From PW Require Import Base Pull PullProofs.

(* ---- one scope: what runs -------------------------------------------------------------- *)
(* For EVERY well-formed scope, target, enclosing scope and outcome: either the pull is refused
   (cyclic data / executor) and nothing at all ran, or there is a topological enumeration
   [order = l ++ [k]] of exactly the closure of the target such that the calls made in this scope
   are a prefix p of l, each node once, in that order (all of l when the outcome is Ok); the only
   other calls [casc] happen one level up, and there are none unless an enclosing macro's `ran`
   is connected. Nothing outside the closure and nothing downstream runs in the scope itself. *)
Theorem C11_runs_closure : forall fuel lv sc k up sc' up' log x,
  WF sc -> level_pull fuel lv sc k up = (sc', up', log, x) ->
  (log = [] /\ (x = Err ECyclic \/ x = Err EExecutor)) \/
  (exists order l p q casc,
      topo_enum (ups sc) k order /\ order = l ++ [k] /\ l = p ++ q /\
      log = map (pair lv) p ++ casc /\ (x = Ok -> q = []) /\
      at_level (S lv) casc /\ (quiet sc up -> casc = []) /\ run_err x).
Proof. exact level_pull_exec. Qed.
Print Assumptions C11_runs_closure.

(* The whole pull (any nesting, with or without parent scopes): in the TARGET'S OWN SCOPE the
   calls are exactly a topological enumeration of the closure, each once, the target last --
   unconditionally, whatever enclosing macros do among their own siblings. *)
Theorem C11_target_scope_exact : forall fuel parents sc k rest st' log,
  stack_wf ((sc, k) :: rest) -> pull fuel parents ((sc, k) :: rest) = (st', log, Ok) ->
  exists order l, topo_enum (ups sc) k order /\ order = l ++ [k] /\ level0 log = map (pair 0) order.
Proof. exact pull_target_scope. Qed.
Print Assumptions C11_target_scope_exact.

(* ---- restoration ----------------------------------------------------------------------- *)
(* For every well-formed scope and EVERY outcome (Ok, refused, upstream failure, fuel): labels,
   starting nodes and the connection SETS of every run / accumulate_and_run / ran channel are as
   before; the enclosing scope's wiring is untouched.  (Sets, not lists: see
   C11_order_not_restored.) *)
Theorem C11_restores : forall fuel lv sc k up sc' up' log x,
  WF sc -> level_pull fuel lv sc k up = (sc', up', log, x) ->
  same_graph sc sc' /\ upper_cframe up up'.
Proof. exact level_pull_restores. Qed.
Print Assumptions C11_restores.

(* ... level by level up to the root, for pull / __call__ on any stack of scopes. *)
Theorem C11_restores_levels : forall fuel parents st st' log x,
  stack_wf st -> pull fuel parents st = (st', log, x) ->
  Forall2 (fun a b => snd b = snd a /\ same_graph (fst a) (fst b)) st st'.
Proof. exact pull_restores. Qed.
Print Assumptions C11_restores_levels.

(* ---- refusals -------------------------------------------------------------------------- *)
(* a data cycle reachable from the target: CircularDataFlowError at any recursion depth, nothing
   ran, the scope is literally unchanged *)
Theorem C11_refused_cyclic : forall fuel lv sc k up u v,
  reach (ups sc) k u -> In v (ups sc u) -> reach (ups sc) v u ->
  level_pull fuel lv sc k up = (sc, up, [], Err ECyclic).
Proof. exact level_pull_refused_cycle. Qed.
Print Assumptions C11_refused_cyclic.

Theorem C11_refused_executor : forall fuel lv sc k up D v,
  closure fuel (ups sc) k = Some D -> reach (ups sc) k v -> exe sc v = true ->
  level_pull fuel lv sc k up = (sc, up, [], Err EExecutor).
Proof. exact level_pull_refused_executor. Qed.
Print Assumptions C11_refused_executor.

(* acyclic data is never mistaken for a cycle, given recursion depth above the longest path *)
Theorem C11_acyclic_closure : forall up (rank : nat -> nat),
  (forall v u, In u (up v) -> rank u < rank v) ->
  forall fuel k, rank k < fuel -> exists D, closure fuel up k = Some D /\ (forall x, In x D <-> reach up k x).
Proof.
  intros up rank H fuel k Hk. destruct (closure_acyclic up rank H fuel k Hk) as [D HD].
  exists D. split; auto. apply (closure_sound _ _ _ _ HD).
Qed.
Print Assumptions C11_acyclic_closure.

(* ---- nothing downstream: refuted in general, true under a guard --------------------------- *)
(* The unchanged code VIOLATES "nothing else runs" (known finding S12): the parent macro is run
   with its `ran` emission on.  Witness: macro m = {a -> b} with m >> d outside; pulling b -- even
   without parent scopes -- executes d (node 1 of level 1), which is not upstream of m. *)
Theorem C11_nothing_downstream_refuted : exists st st' log,
  stack_wf st /\ pull 10 false st = (st', log, Ok) /\
  exists usc pk d, nth_error st 1 = Some (usc, pk) /\ In (1, d) log /\ ~ reach (ups usc) pk d.
Proof.
  exists w_stack. eexists. eexists. split; [exact w_stack_wf|]. split; [vm_compute; reflexivity|].
  exists w_outer, 0, 1. split; [reflexivity|]. split; [simpl; auto|].
  intros R. inversion R; subst. simpl in H. exact H.
Qed.
Print Assumptions C11_nothing_downstream_refuted.

(* The strongest true statement: when no enclosing composite has anything connected to its `ran`
   signal (in particular: no enclosing composite at all, or the target's parent is a root
   Workflow), a successful pull executes, level by level from the outermost pulled scope down, a
   topological enumeration of the closure of the enclosing composite (without the composite
   itself), finally the closure of the target and the target -- and nothing else. *)
Theorem C11_nothing_downstream_partial : forall fuel parents sc k rest st' log,
  stack_wf ((sc, k) :: rest) -> enclosing_quiet ((sc, k) :: rest) ->
  pull fuel parents ((sc, k) :: rest) = (st', log, Ok) ->
  exists l1, tree_exec parents 0 ((sc, k) :: rest) l1 /\ log = l1 ++ [(0, k)].
Proof. exact pull_exec_partial. Qed.
Print Assumptions C11_nothing_downstream_partial.

(* ---- observation: the ORDER inside a restored connection list is not the old one ---------- *)
(* n.run = [b.ran; a.ran] before, [a.ran; b.ran] after pulling t <- n (pairs are re-connected in
   the order they were broken, and connect() prepends).  The property speaks of connections, the
   design of sets per channel: reported as an observation, not a violation. *)
Theorem C11_order_not_restored : exists sc k st' log,
  WF sc /\ pull 10 false [(sc, k)] = (st', log, Ok) /\
  exists sc', st' = [(sc', k)] /\ c_run sc 2 = [1; 0] /\ c_run sc' 2 = [0; 1].
Proof.
  exists w_order, 3. eexists. eexists. split; [exact w_order_WF|]. split; [vm_compute; reflexivity|].
  eexists. split; [reflexivity|]. split; vm_compute; reflexivity.
Qed.
Print Assumptions C11_order_not_restored.

(* ---- non-vacuity ---------------------------------------------------------------------------- *)
(* a nested stack meeting every hypothesis of the partial theorem, with hand-made wiring and
   starting nodes that survive: macro {a -> b, c; a >> c; starting [c]} inside a scope with an
   upstream node u -> m; calling b runs u, then a, then b. *)
Example C11_hyps_hold :
  stack_wf [(ex_inner, 1); (ex_outer, 1)] /\ enclosing_quiet [(ex_inner, 1); (ex_outer, 1)] /\
  (exists st', pull 10 true [(ex_inner, 1); (ex_outer, 1)] = (st', [(1, 0); (0, 0); (0, 1)], Ok) /\
     exists sc' r, st' = (sc', 1) :: r /\ c_run sc' 2 = [0] /\ starting sc' = [2] /\ lbl sc' 0 = "a") /\
  (exists st', pull 10 true [(w_inner, 1); (w_outer, 0)] = (st', [(0, 0); (1, 1); (0, 1)], Ok)).
Proof.
  split; [exact ex_stack_wf|]. split; [repeat constructor|]. split.
  - eexists. split; [vm_compute; reflexivity|]. eexists. eexists. split; [reflexivity|]. repeat split.
  - eexists. vm_compute. reflexivity.
Qed.
