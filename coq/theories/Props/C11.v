(* C11 -- pulling a node runs exactly its upstream closure and leaves the graph as it was.
   All statements are about Pull.v (the model of Node.pull / __call__ / run_data_tree and the
   topology helpers, checked against the real library on every run); proofs in PullProofs.v.
   The model is that of the code AFTER the repair of S12 (run_data_tree runs a non-Workflow
   parent with emit_ran_signal=False).

   Vocabulary (PullProofs.v):
     WF sc            the signal wiring of the scope is mutual and duplicate free (C12's invariant);
                      output signals are numbered ran_of v = 2v, fail_of v = 2v+1
     reach up k x     x is in the upstream data closure of k
     topo_enum up k o o is duplicate free, contains exactly the closure of k, and every node comes
                      after all its upstream nodes ([topo up [] o])
     same_graph a b   b has the labels, starting nodes, data edges, flags of a and -- per channel --
                      the same run / accumulate_and_run / ran / failed connections AS SETS (and is WF)
     tree_exec        the log the property demands for a stack of scopes: outermost pulled scope
                      first, in every scope a topological enumeration of the closure of the
                      enclosing composite (resp. the target) without that node itself
     fail_inside sc o every connection of a `failed` signal of a node of o ends inside o *)
From PW Require Import Base Pull PullProofs.

(* ---- what runs: one scope ------------------------------------------------------------------ *)
(* For EVERY well-formed scope, target, enclosing scope and outcome: either the pull is refused
   (cyclic data / executor) and nothing at all ran, or there is a topological enumeration
   [order = l ++ [k]] of exactly the closure of the target such that
     - when the upstream run succeeds, the calls are exactly l: each node once, in that order,
       nothing outside the closure, nothing downstream, not the target itself;
     - when no `failed` signal of a closure node reaches outside the closure, the calls are a
       prefix of l whatever the outcome (a failing node stops the chain). *)
Theorem C11_runs_closure : forall fuel lv sc k up sc' up' log x,
  WF sc -> level_pull fuel lv sc k up = (sc', up', log, x) ->
  (log = [] /\ (x = Err ECyclic \/ x = Err EExecutor \/ x = Err ENotSiblings)) \/
  (exists order l,
      topo_enum (ups sc) k order /\ order = l ++ [k] /\
      (x = Ok -> log = map (pair lv) l) /\
      (fail_inside sc order -> exists p q, l = p ++ q /\ log = map (pair lv) p) /\ run_err x).
Proof. exact level_pull_exec. Qed.
Print Assumptions C11_runs_closure.

(* ---- nothing else, nothing downstream: the whole pull, FULL ------------------------------------ *)
(* For every stack of well-formed scopes (parentless nodes / Workflow children / nested macro
   children, any hand-made wiring), with and without parent scopes: a pull that returns normally has
   executed, level by level from the outermost pulled scope down, a topological enumeration of the
   closure of each enclosing composite, then of the target's closure, then the target -- and nothing
   else.  (Before the repair of S12 this needed the guard "no enclosing macro has anything
   connected to its `ran` signal".) *)
Theorem C11_nothing_downstream : forall fuel parents sc k rest st' log,
  stack_wf ((sc, k) :: rest) -> pull fuel parents ((sc, k) :: rest) = (st', log, Ok) ->
  exists l1, tree_exec parents 0 ((sc, k) :: rest) l1 /\ log = l1 ++ [(0, k)].
Proof. exact pull_exec. Qed.
Print Assumptions C11_nothing_downstream.

(* ---- restoration ------------------------------------------------------------------------------- *)
(* For every well-formed scope and EVERY outcome (Ok, refused, upstream failure, fuel): labels,
   starting nodes and the connection SETS of every run / accumulate_and_run / ran / failed channel
   are as before; the enclosing scope's wiring is untouched.  (Sets, not lists: see
   C11_order_not_restored.) *)
Theorem C11_restores : forall fuel lv sc k up sc' up' log x,
  WF sc -> level_pull fuel lv sc k up = (sc', up', log, x) ->
  same_graph sc sc' /\ upper_cframe up up'.
Proof. exact level_pull_restores. Qed.
Print Assumptions C11_restores.

(* ... level by level up to the root, for pull / __call__ on any stack of scopes. *)
Theorem C11_restores_levels : forall fuel parents st st' log x,
  stack_wf st -> pull fuel parents st = (st', log, x) ->
  Forall2 (fun a b => snd b = snd a /\ same_graph (fst a) (fst b)) st st'.
Proof. exact pull_restores. Qed.
Print Assumptions C11_restores_levels.

(* ---- refusals ---------------------------------------------------------------------------------- *)
(* a data cycle reachable from the target: CircularDataFlowError at any recursion depth, nothing
   ran, the scope is literally unchanged *)
Theorem C11_refused_cyclic : forall fuel lv sc k up u v,
  reach (ups sc) k u -> In v (ups sc u) -> reach (ups sc) v u ->
  level_pull fuel lv sc k up = (sc, up, [], Err ECyclic).
Proof. exact level_pull_refused_cycle. Qed.
Print Assumptions C11_refused_cyclic.

Theorem C11_refused_executor : forall fuel lv sc k up D v,
  closure fuel (ups sc) k = Some D -> reach (ups sc) k v -> exe sc v = true ->
  level_pull fuel lv sc k up = (sc, up, [], Err EExecutor).
Proof. exact level_pull_refused_executor. Qed.
Print Assumptions C11_refused_executor.

(* a data connection that crosses composites (some node of the upstream closure has another owner
   than the target): refused with the helper's ValueError AFTER the temporary relabelling and
   re-wiring -- nothing ran, and by C11_restores labels, starting nodes and every connection set
   are as before (the ORDER inside the connection lists of the closure may have changed) *)
Theorem C11_refused_not_siblings : forall fuel lv sc k up D v sc' up' log x,
  WF sc -> closure fuel (ups sc) k = Some D -> existsb (exe sc) D = false -> In v D -> own sc v <> own sc k ->
  level_pull fuel lv sc k up = (sc', up', log, x) ->
  x = Err ENotSiblings /\ log = [] /\ up' = up /\ same_graph sc sc'.
Proof.
  intros fuel lv sc k up D v sc' up' log x W C Hx Hv Ho H.
  destruct (level_pull_refused_siblings _ _ _ _ _ _ _ _ _ _ _ C Hx Hv Ho H) as (A & B & C').
  repeat split; auto; apply (level_pull_restores _ _ _ _ _ _ _ _ _ W H).
Qed.
Print Assumptions C11_refused_not_siblings.

(* acyclic data is never mistaken for a cycle, given recursion depth above the longest path *)
Theorem C11_acyclic_closure : forall up (rank : nat -> nat),
  (forall v u, In u (up v) -> rank u < rank v) ->
  forall fuel k, rank k < fuel -> exists D, closure fuel up k = Some D /\ (forall x, In x D <-> reach up k x).
Proof.
  intros up rank H fuel k Hk. destruct (closure_acyclic up rank H fuel k Hk) as [D HD].
  exists D. split; auto. apply (closure_sound _ _ _ _ HD).
Qed.
Print Assumptions C11_acyclic_closure.

(* ---- an upstream node fails: "nothing else" refuted in general, true under a guard ------------- *)
(* The code VIOLATES "no sibling outside that closure" when an upstream node fails (known finding
   C11-failed-handler-runs): the pull isolates the `ran` signals of the closure but not the `failed`
   ones.  Witness: t <- a, a raises, h hangs on a.failed: pulling t executes h, which is not
   upstream of t. *)
Theorem C11_nothing_else_on_failure_refuted : exists sc k st' log e h,
  WF sc /\ pull 10 false [(sc, k)] = (st', log, Err e) /\ In (0, h) log /\ ~ reach (ups sc) k h.
Proof.
  exists w_handler, 1. eexists. eexists. eexists. exists 2.
  split; [exact w_handler_WF|]. split; [vm_compute; reflexivity|]. split; [simpl; auto|].
  intros R. inversion R; subst. simpl in H. destruct H as [<-|[]]. inversion H0; subst. simpl in H. exact H.
Qed.
Print Assumptions C11_nothing_else_on_failure_refuted.

(* The strongest true statement (second half of C11_runs_closure, restated): when every connection
   of a `failed` signal of a closure node ends inside the closure, then for EVERY outcome the calls
   made in the scope are a prefix of the enumeration -- nothing outside the closure ever runs. *)
Theorem C11_nothing_else_on_failure_partial : forall fuel lv sc k up sc' up' log x,
  WF sc -> level_pull fuel lv sc k up = (sc', up', log, x) ->
  (forall order, topo_enum (ups sc) k order -> fail_inside sc order) ->
  forall e, In e log -> fst e = lv /\ reach (ups sc) k (snd e) /\ snd e <> k.
Proof.
  intros fuel lv sc k up sc' up' log x W H Hg e He.
  destruct (level_pull_exec _ _ _ _ _ _ _ _ _ W H) as [[-> _]|(order & l & T & Ho & _ & Hp & _)]; [destruct He|].
  destruct (Hp (Hg _ T)) as (p & q & Hl & ->). apply in_map_iff in He. destruct He as (v & <- & Hv).
  simpl. split; auto. destruct T as (Tn & Tr & _). subst order l. split.
  - apply Tr. rewrite !in_app_iff. auto.
  - intros ->. apply NoDup_remove_2 in Tn. apply Tn. rewrite app_nil_r, in_app_iff. auto.
Qed.
Print Assumptions C11_nothing_else_on_failure_partial.

(* ---- observation: the ORDER inside a restored connection list is not the old one -------------- *)
(* n.run = [b.ran; a.ran] before, [a.ran; b.ran] after pulling t <- n (pairs are re-connected in
   the order they were broken, and connect() prepends).  The property speaks of connections, the
   design of sets per channel: reported as an observation, not a violation. *)
Theorem C11_order_not_restored : exists sc k st' log,
  WF sc /\ pull 10 false [(sc, k)] = (st', log, Ok) /\
  exists sc', st' = [(sc', k)] /\ c_run sc 2 = [ran_of 1; ran_of 0] /\ c_run sc' 2 = [ran_of 0; ran_of 1].
Proof.
  exists w_order, 3. eexists. eexists. split; [exact w_order_WF|]. split; [vm_compute; reflexivity|].
  eexists. split; [reflexivity|]. split; vm_compute; reflexivity.
Qed.
Print Assumptions C11_order_not_restored.

(* ---- non-vacuity ---------------------------------------------------------------------------------- *)
(* nested stacks meeting the hypotheses, with hand-made wiring and starting nodes that survive:
   macro {a -> b, c; a >> c; starting [c]} inside a scope with an upstream node u -> m: calling b
   runs u, then a, then b; and the former S12 witness (m >> d outside): d no longer runs. *)
Example C11_hyps_hold :
  stack_wf [(ex_inner, 1); (ex_outer, 1)] /\ stack_wf w_stack /\
  (exists st', pull 10 true [(ex_inner, 1); (ex_outer, 1)] = (st', [(1, 0); (0, 0); (0, 1)], Ok) /\
     exists sc' r, st' = (sc', 1) :: r /\ c_run sc' 2 = [0] /\ starting sc' = [2] /\ lbl sc' 0 = "a") /\
  (exists st', pull 10 true w_stack = (st', [(0, 0); (0, 1)], Ok)) /\
  (forall order, topo_enum (ups w_order) 3 order -> fail_inside w_order order).
Proof.
  split; [exact ex_stack_wf|]. split; [exact w_stack_wf|]. split; [|split].
  - eexists. split; [vm_compute; reflexivity|]. eexists. eexists. split; [reflexivity|]. repeat split.
  - eexists. vm_compute. reflexivity.
  - intros order _ v t _ Ht. unfold fail_of in Ht. simpl in Ht.
    destruct (v + v) as [|[|n]] eqn:Q; simpl in Ht; try contradiction. lia.
Qed.
