(* C10 -- executors are transparent and a node's inputs are frozen while it is out.
   Model: Remote.v (heap of node / channel OBJECTS with identities; dump = __getstate__ chain, restore =
   unpickling + __setstate__ chain, merge_remote = Composite._parse_remotely_executed_self, the run cycle with
   the input lock).  Mode [AsWritten] = the code as it is since the fix of the merge (build/c10_fix.diff:
   grafting for every composite, fresh channels re-owned, local detached path kept, value links across the
   boundary re-forged, build/c10_fix2.diff: the enclosing macro's link re-pointed without pushing its value);
   that is the mode the correspondence check runs.  Only Theorem / exact / Print
   Assumptions here; proofs in RemoteProofs.v.

   What is proved where
   * "same outputs as running locally, for every executor assignment and every completion order":
     C10_remote_equals_local, from C01 (Dag.v): the children's functions [sem] are arbitrary, so a macro child
     counts as one (its own run is plain composition by the same theorem one level down).  What the boundary
     adds -- the copy computes what the original would -- is the pickle round trip (C07) and is tied to the code
     by this property's correspondence check (remote vs all-local outputs of every node); for a function node it
     is proved here (C10_delivered_belongs_to_shown_partial).
   * "afterwards the local graph keeps its parent, its executor setting and all connections to its
     neighbours, new children are adopted, nothing is left running": C10_merge_* for EVERY heap that meets
     [merge_pre] (the copy is a separate object graph, connections are symmetric, IO labels unique; decidable,
     and evaluated by the harness on the state of every merge it drives), every kind of composite.
   * "while out every attempt to change its inputs is refused ... unlocked after success AND failure":
     C10_lock_*, for EVERY state.
   One clause is still violated by the code: a WORKFLOW that is out leaves its inputs (its children's channels)
   writable -- C10_lock_refuted_workflow, known finding C10-workflow-inputs-unlocked; C10_lock_partial carries the
   matching guard (the channel is owned by the node that is out). *)
From PW Require Import Base Remote RemoteProofs.
From PW Require Dag DagProofs.

(* ---- transparency of the schedule ------------------------------------------------------------------ *)
Section Transparency.
  Variable N : nat.
  Variable ups : nat -> list nat.
  Variable sem : nat -> (nat -> Z) -> Z.                 (* ANY node functions (leaf or composite child)   *)
  Hypothesis acyclic : forall n u, In u (ups n) -> u < n.
  Hypothesis local : forall n e e', (forall u, In u (ups n) -> e u = e' u) -> sem n e = sem n e'.

  (* ANY assignment of children to executors, ANY order of deliveries and completions: the outputs are those
     of the all-local run, and nothing is left out. *)
  Theorem C10_remote_equals_local : forall (remote : nat -> bool) order es s order' es' s',
    NoDup order -> (forall n, In n order <-> n < N /\ ups n = []) ->
    NoDup order' -> (forall n, In n order' <-> n < N /\ ups n = []) ->
    Dag.run N ups sem remote (Dag.init N ups sem remote order) es = Some s -> Dag.quiescent N s ->
    Dag.run N ups sem (fun _ => false) (Dag.init N ups sem (fun _ => false) order') es' = Some s' ->
    Dag.quiescent N s' ->
    (forall n, n < N -> Dag.out s n = Dag.out s' n) /\ (forall n, Dag.status s n <> Dag.Out).
  Proof. exact (remote_equals_local N ups sem acyclic local). Qed.
End Transparency.
Print Assumptions C10_remote_equals_local.

(* ---- merging the copy that came back ---------------------------------------------------------------- *)
(* EVERY kind of composite (Macro, For, Workflow), every heap meeting [merge_pre].  [merge_post]: parent, executor
   setting and class kept, not running, label = the copy's; the node holds the copy's children (each names it as
   parent; their flags are the delivered ones) and the copy's IO panels; every old IO channel has a fresh
   counterpart with the same panel and label that carries the old connection list in the old order; every
   channel outside the copy lists the fresh channel exactly where it listed the old one; no other node is
   touched.  Plus: the detached path stays the local one, and every channel of the node's panels is OWNED by
   the node. *)
Theorem C10_merge_neighbourhood : forall h i c2, merge_pre h i c2 ->
  let h' := merge_remote AsWritten h i c2 in
  merge_post h i c2 h' /\ n_detached (nd h' i) = n_detached (nd h i) /\
  (forall n, In n (n_chans (nd h' i)) -> c_owner (ch h' n) = i).
Proof. intros h i c2 MP. exact (merge_spec AsWritten h i c2 MP eq_refl). Qed.
Print Assumptions C10_merge_neighbourhood.

(* ... spelled out for one old channel o and one neighbour x of it: mutual, at the same position, pointing at
   the live channel; the dead one is listed nowhere *)
Theorem C10_neighbours_repointed : forall h i c2, merge_pre h i c2 ->
  forall o x, In o (n_chans (nd h i)) -> In x (c_conns (ch h o)) ->
  let h' := merge_remote AsWritten h i c2 in
  let f := fresh_of h c2 o in
  In f (n_chans (nd h' i)) /\ ckey h' f = ckey h o /\
  c_conns (ch h' f) = c_conns (ch h o) /\
  c_conns (ch h' x) = map (fresh_sub h i c2) (c_conns (ch h x)) /\
  (In o (c_conns (ch h x)) -> In f (c_conns (ch h' x))) /\ ~ In o (c_conns (ch h' x)).
Proof. intros h i c2 MP. exact (neighbours_repointed AsWritten h i c2 MP eq_refl). Qed.
Print Assumptions C10_neighbours_repointed.

(* Nothing is left running: for EVERY heap, no hypothesis at all. *)
Theorem C10_merge_not_running : forall mode h i c2, n_running (nd (merge_remote mode h i c2) i) = false.
Proof. exact merge_not_running. Qed.
Print Assumptions C10_merge_not_running.

(* The lexical path of the merged node is what it was (S15 repaired).  Pickling keeps the label; the node's
   ancestors are none of the objects a merge touches (true of any tree). *)
Theorem C10_merge_path_kept : forall h i c2, merge_pre h i c2 -> n_label (nd h c2) = n_label (nd h i) ->
  (forall m, reach h i m -> m = i \/ (m <> c2 /\ ~ In m (n_children (nd h c2)) /\ ~ In m (n_children (nd h i)))) ->
  forall f, lpath f (merge_remote AsWritten h i c2) i = lpath f h i.
Proof. exact merge_path_kept. Qed.
Print Assumptions C10_merge_path_kept.

(* The hypotheses are decidable; the harness evaluates [merge_preb] on the state of every merge it drives. *)
Theorem C10_merge_pre_decidable : forall h i c2, merge_preb h i c2 = true -> merge_pre h i c2.
Proof. exact merge_preb_sound. Qed.
Print Assumptions C10_merge_pre_decidable.

(* ---- the input lock ------------------------------------------------------------------------------------ *)
(* EVERY state: an assignment to an input whose owner is running is refused and changes nothing.  Guard
   (what is missing from the full statement: the workflow case below): the channel is OWNED by the node that is
   out. *)
Theorem C10_lock_partial : forall mode X s l v c,
  find_chan (c_heap s) X PIn l = Some c ->
  n_running (nd (c_heap s) (c_owner (ch (c_heap s) c))) = true ->
  step mode X s (OSet l v) = log s (c_heap s) (c_jobs s) "RuntimeError".
Proof. exact lock_refuses. Qed.
Print Assumptions C10_lock_partial.

(* The lock looks at `running` ALONE.  execute() / run(check_readiness=False) skip the readiness gate (the only
   place that looks at `failed`), so a node whose sticky failed flag is still set goes out again: running and
   failed both set -- and C10_lock_partial / C10_frozen_while_out apply to it as to any node that is out. *)
Theorem C10_out_again_with_failed_flag : forall mode X s sd (fetching : bool) h1,
  (if fetching then fetch (c_heap s) X else Some (c_heap s)) = Some h1 ->
  crosses (n_exec (nd h1 X)) = true ->
  dump DFUEL (set_flags h1 X true (n_failed (nd h1 X))) X = Some sd ->
  let s1 := step mode X s (if fetching then ORunX else OExec) in
  n_running (nd (c_heap s1) X) = true /\ n_failed (nd (c_heap s1) X) = n_failed (nd h1 X) /\
  c_jobs s1 = c_jobs s ++ [JPick X sd].
Proof. exact gateless_submit_goes_out. Qed.
Print Assumptions C10_out_again_with_failed_flag.

(* after a merge that guard holds for every input of the merged node: the lock works the next time it is out *)
Theorem C10_lock_again_after_merge : forall h i c2 s l v c X,
  merge_pre h i c2 -> c_heap s = merge_remote AsWritten h i c2 -> X = i ->
  find_chan (c_heap s) X PIn l = Some c -> n_running (nd (c_heap s) X) = true ->
  step AsWritten X s (OSet l v) = log s (c_heap s) (c_jobs s) "RuntimeError".
Proof. exact repaired_lock_again. Qed.
Print Assumptions C10_lock_again_after_merge.

(* A refused assignment changes NOTHING, wherever it was made: if any channel on the receiver chain of the assigned
   channel is locked -- the channel itself, or the input of ANOTHER node it forwards into (an enclosing macro's
   input value-linked to the input of a nested node that is out) -- the setter refuses before anything is stored:
   heap, jobs untouched, RuntimeError.  (The setter's order own-check -> forward -> store is what makes this
   true; storing before forwarding breaks it.) *)
Theorem C10_refused_changes_nothing : forall mode X s i l v c,
  find_chan (c_heap s) i PIn l = Some c ->
  existsb (locked (c_heap s)) (chain VFUEL (c_heap s) c) = true ->
  step mode X s (OSetOn i l v) = log s (c_heap s) (c_jobs s) "RuntimeError".
Proof. exact refused_changes_nothing. Qed.
Print Assumptions C10_refused_changes_nothing.

(* ... at the level of the setter: refused iff somebody on the chain is locked *)
Theorem C10_setter_refuses_iff_chain_locked : forall fuel h c v,
  (existsb (locked h) (chain fuel h c) = true -> set_val fuel h c v = None) /\
  (forall h1, set_val fuel h c v = Some h1 -> existsb (locked h) (chain fuel h c) = false).
Proof. intros fuel h c v. split; [apply set_val_refused_chain|apply set_val_accepted_chain]. Qed.
Print Assumptions C10_setter_refuses_iff_chain_locked.

(* while out, assignments leave the whole heap and the job list untouched *)
Theorem C10_frozen_while_out : forall mode X sets s, Forall is_set sets ->
  n_running (nd (c_heap s) X) = true ->
  (forall c, In c (chans_of (c_heap s) X PIn) -> c_owner (ch (c_heap s) c) = X) ->
  c_heap (fold_left (step mode X) sets s) = c_heap s /\ c_jobs (fold_left (step mode X) sets s) = c_jobs s.
Proof. exact sets_frozen. Qed.
Print Assumptions C10_frozen_while_out.

(* unlocked again after the job ended: success or failure, value or merge, any heap *)
Theorem C10_unlock : forall mode h j,
  n_running (nd (fst (complete_job mode h j)) (job_node j)) = false /\
  forall c, c_owner (ch (fst (complete_job mode h j)) c) = job_node j -> locked (fst (complete_job mode h j)) c = false.
Proof. intros mode h j. split; [apply complete_unlocks|intros c; apply complete_unlocks_inputs]. Qed.
Print Assumptions C10_unlock.

(* "so the outputs delivered belong to the inputs the node shows": a function node on a boundary executor:
   run(), then ANY sequence of assignments to its inputs (all bounce), then the job ends: the output is the
   node's function of the inputs it shows at that moment.  Hypotheses: the node is idle and ready, owns its
   channels, ids in use lie below the allocation pointer, its output has no value receiver (a child of a
   workflow).  Missing from the full statement: composites, for which the same conclusion is what the
   correspondence check observes ("delivered" = a fresh local run on the inputs shown). *)
Theorem C10_delivered_belongs_to_shown_partial : forall mode X f h h1 sets vals v o rest,
  n_kind (nd h X) = KLeaf f -> n_children (nd h X) = [] -> crosses (n_exec (nd h X)) = true ->
  fetch h X = Some h1 -> n_running (nd h X) = false -> n_failed (nd h X) = false ->
  (forall c, In c (n_chans (nd h X)) -> c_owner (ch h c) = X /\ c < h_next h) -> X < h_next h ->
  dump DFUEL (set_flags h1 X true false) X <> None ->
  Forall is_set sets ->
  input_vals h1 X = Some vals -> apply_fun f vals = Some v ->
  chans_of h1 X POut = o :: rest -> c_recv (ch h1 o) = None ->
  let s2 := fold_left (step mode X) (ORun :: sets) (mkC h [] []) in
  exists sd, c_jobs s2 = [JPick X sd] /\
             input_vals (c_heap s2) X = Some vals /\
             snd (complete_job mode (c_heap s2) (JPick X sd)) = true /\
             c_val (ch (fst (complete_job mode (c_heap s2) (JPick X sd))) o) = Some v.
Proof. exact delivered_belongs_to_shown. Qed.
Print Assumptions C10_delivered_belongs_to_shown_partial.

(* STILL VIOLATED: a workflow that is out: its inputs belong to its children and stay writable
   (known finding C10-workflow-inputs-unlocked). *)
Theorem C10_lock_refuted_workflow : exists h wf c,
  n_kind (nd h wf) = KWf /\ n_running (nd h wf) = true /\ crosses (n_exec (nd h wf)) = true /\
  In c (shown_inputs h wf) /\ locked h c = false /\ c_owner (ch h c) <> wf.
Proof. exact lock_refuted_workflow. Qed.
Print Assumptions C10_lock_refuted_workflow.

(* ---- non-vacuity (states reflected from real object graphs) --------------------------------------------- *)
(* the state in which the real macro /wf/n1 = MA{a -> b}, connected to /wf/n0 and /wf/n2, is merged after a
   pickle-boundary run meets the hypotheses; the merge keeps parent, executor and lexical path, adopts the two
   new children, owns its fresh channels, and the neighbour n0.y lists the fresh input channel *)
Example C10_hyps_hold :
  let h := fst site_now in let c2 := snd site_now in
  merge_preb h 2 c2 = true /\ n_kind (nd h 2) = KMacro /\ n_label (nd h c2) = n_label (nd h 2) /\
  let h' := merge_remote AsWritten h 2 c2 in
  n_parent (nd h' 2) = Some 0 /\ n_exec (nd h' 2) = ExInst 1 /\ lpath PFUEL h' 2 = Some "/wf/n1" /\
  List.length (n_children (nd h' 2)) = 2 /\
  forallb (fun k => match n_parent (nd h' k) with Some p => Nat.eqb p 2 | None => false end) (n_children (nd h' 2)) = true /\
  forallb (fun c => Nat.eqb (c_owner (ch h' c)) 2) (n_chans (nd h' 2)) = true /\
  c_conns (ch h' 7) = [fresh_of h c2 12] /\ c_conns (ch h' (fresh_of h c2 12)) = [7].
Proof. vm_compute. repeat split; reflexivity. Qed.

(* the same graph with the node a For-kind composite: its neighbours are kept as well *)
Example C10_for_kind_keeps_neighbours :
  let h := fst site_for_now in let c2 := snd site_for_now in
  merge_preb h 2 c2 = true /\ n_kind (nd h 2) = KFor /\
  let h' := merge_remote AsWritten h 2 c2 in
  c_conns (ch h' 7) = [fresh_of h c2 12] /\ c_conns (ch h' (fresh_of h c2 12)) = [7].
Proof. vm_compute. repeat split; reflexivity. Qed.

(* a macro whose IO is value-linked to a nested macro that runs across the boundary delivers its output; and the
   second time a merged macro is out its inputs are frozen again *)
Example C10_links_and_second_lock :
  let out := match find_chan demo_links 2 POut "out" with Some c => c | None => 0 end in
  c_val (ch (fst (run_node AsWritten RFUEL demo_links 0)) out) = Some 7%Z /\
  c_log (step AsWritten 0 (run_ops AsWritten 0 demo_alone [ORun; OComplete; ORun]) (OSet "x" 9%Z))
    = [OS "Future"; OS "done"; OS "Future"; OS "RuntimeError"].
Proof. vm_compute. split; reflexivity. Qed.

(* the real function node /wf/n0 = Lin1(tag 0, k 1, a 3), given a pickle-boundary executor, meets the
   hypotheses of C10_delivered_belongs_to_shown_partial *)
Example C10_delivery_hyps_hold :
  let X := 1 in
  let h := setn demo_child X (let n := nd demo_child X in
             mkNode (n_label n) (n_kind n) (n_parent n) (n_detached n) (ExInst 1) false false
                    (n_children n) (n_chans n) (n_starting n)) in
  n_kind (nd h X) = KLeaf FLin /\ n_children (nd h X) = [] /\ crosses (n_exec (nd h X)) = true /\
  exists h1, fetch h X = Some h1 /\
  forallb (fun c => Nat.eqb (c_owner (ch h c)) X && Nat.ltb c (h_next h)) (n_chans (nd h X)) = true /\
  Nat.ltb X (h_next h) = true /\
  is_none (dump DFUEL (set_flags h1 X true false) X) = false /\
  exists vals v o rest, input_vals h1 X = Some vals /\ apply_fun FLin vals = Some v /\
                        chans_of h1 X POut = o :: rest /\ c_recv (ch h1 o) = None.
Proof.
  cbv zeta. split; [reflexivity|]. split; [reflexivity|]. split; [reflexivity|].
  eexists. split; [vm_compute; reflexivity|]. split; [vm_compute; reflexivity|]. split; [vm_compute; reflexivity|].
  split; [vm_compute; reflexivity|]. do 4 eexists. repeat split; vm_compute; reflexivity.
Qed.

(* the real nested macro inner = MA inside the idle macro n0 = MF(x = 1): while inner is out an assignment at n0's
   input bounces and the rendered graph is identical; inner comes back showing x = 1 with out = 4 *)
Example C10_nested_refused :
  let s1 := run_ops AsWritten 2 demo_nested [ORun] in
  let s2 := step AsWritten 2 s1 (OSetOn 1 "x" 10%Z) in
  c_log s2 = [OS "Future"; OS "RuntimeError"] /\
  render (c_heap s2) 0 = render (c_heap s1) 0 /\
  let s3 := step AsWritten 2 (step AsWritten 2 s2 (OSet "x" 10%Z)) OComplete in
  chan_val (c_heap s3) 1 PIn "x" = Some 1%Z /\ chan_val (c_heap s3) 2 PIn "x" = Some 1%Z /\
  chan_val (c_heap s3) 2 POut "out" = Some 4%Z.
Proof. exact nested_refused_example. Qed.

(* ... and an input assigned at the nested node's own level (the enclosing input keeps 1) is what it is sent out
   with, what it shows when it comes back and what its output belongs to; the enclosing link points at the fresh
   input channel *)
Example C10_nested_keeps_shown :
  RELINK_PUSH = false /\
  let s := run_ops AsWritten 2 demo_nested [OSet "x" 5%Z; ORun; OComplete] in
  c_log s = [OS "ok"; OS "Future"; OS "done"] /\
  chan_val (c_heap s) 2 PIn "x" = Some 5%Z /\ chan_val (c_heap s) 2 POut "out" = Some 8%Z /\
  chan_val (c_heap s) 1 PIn "x" = Some 1%Z /\
  match find_chan (c_heap s) 1 PIn "x" with Some c => c_recv (ch (c_heap s) c) | None => None end
    = find_chan (c_heap s) 2 PIn "x".
Proof. exact relink_keeps_shown. Qed.

(* the real function node /wf/n0 = Chk1(k 3, a 3) on the pickle-boundary executor: fail out there (a = -2), repair
   (a = 9), execute(): out with the failed flag still set; assignments bounce and change nothing; the delivered
   output belongs to a = 9 *)
Example C10_failed_then_out_frozen :
  let s := run_ops AsWritten 1 demo_chk [OSet "a" (-2)%Z; ORun; OComplete; OSet "a" 9%Z; OExec] in
  n_running (nd (c_heap s) 1) = true /\ n_failed (nd (c_heap s) 1) = true /\
  let s' := step AsWritten 1 (step AsWritten 1 s (OSet "a" 25%Z)) (OSet "k" 20%Z) in
  c_log s' = [OS "ok"; OS "Future"; OS "done"; OS "ok"; OS "Future"; OS "RuntimeError"; OS "RuntimeError"] /\
  c_heap s' = c_heap s /\
  let s'' := step AsWritten 1 s' OComplete in
  chan_val (c_heap s'') 1 PIn "a" = Some 9%Z /\ chan_val (c_heap s'') 1 POut "y" = Some 12%Z /\
  n_running (nd (c_heap s'') 1) = false /\ n_failed (nd (c_heap s'') 1) = true.
Proof. exact failed_then_out_example. Qed.
