(* C13 -- ownership forms a tree: one parent, unique labels, no cycles, both sides agree.
   Statements are about Lex.v, the step-by-step model of lexical.py / composite.py /
   workflow.py (validated against the real library on every run).  Only Theorem / exact /
   Print Assumptions here; proofs are in LexProofs.v.

   [Inv kindof reserved s] (Lex.v) is the whole invariant of the property on a state:
     inv_agree     p lists c under k  <->  c names p as its parent and carries label k
     inv_keys      sibling labels are unique
     inv_reserved  no child label is an attribute of the composite
     inv_rooted    following parents from any node ends at a root
     inv_wf        a workflow has no parent
     inv_start / inv_start_nodup   starting nodes are current children (listed once)
     inv_leaf      only composites own anything;  inv_slash  every label is a valid label
   [risky s o] is the guard: operation o, in state s, is one of the four situations in which
   the UNCHANGED code violates the property (known findings K1..K4, see the _refuted
   theorems).  [is_rec] marks exhaustion of the model's recursion bounds (Python:
   RecursionError), which does not happen within the bounds the harness uses.
   The theorems quantify over every object universe (kindof, strictof), every table of
   composite attributes (reserved), every fuel and every history. *)
From PW Require Import Base Lex LexProofs.

(* The invariant holds initially (all objects orphans, valid labels) ... *)
Theorem C13_init : forall kindof reserved labels,
  (forall n, has_slash (labels n) = false) -> Inv kindof reserved (init_state labels).
Proof. exact init_inv. Qed.
Print Assumptions C13_init.

(* ... is preserved by EVERY operation outside the guards: add_child with/without label and
   strict_naming, attribute assignment, construction with parent=, parent assignment (to a
   composite, None, a non-composite), remove_child by instance or label, replace_child by
   instance or label, marking a starting node -- accepted or refused ... *)
Theorem C13_inv_step_partial : forall kindof strictof reserved N pfuel s o f,
  Inv kindof reserved s ->
  risky kindof strictof reserved pfuel s o = false ->
  is_rec (snd (step kindof strictof reserved N pfuel f s o)) = false ->
  Inv kindof reserved (fst (step kindof strictof reserved N pfuel f s o)).
Proof. exact step_inv. Qed.
Print Assumptions C13_inv_step_partial.

(* ... hence holds after every history all of whose operations are outside the guards.
   Partial: the full statement (no guard) is refuted below, K1 K2 K4. *)
Theorem C13_inv_partial : forall kindof strictof reserved N pfuel f labels ops,
  (forall n, has_slash (labels n) = false) ->
  safe kindof strictof reserved N pfuel f (init_state labels) ops = true ->
  Inv kindof reserved (run kindof strictof reserved N pfuel f (init_state labels) ops).
Proof.
  intros kindof strictof reserved N pfuel f labels ops H S.
  exact (run_inv kindof strictof reserved N pfuel f ops (init_state labels) (init_inv kindof reserved labels H) S).
Qed.
Print Assumptions C13_inv_partial.

(* A refused operation (name clash, second parent, cyclic adoption, workflow given a parent,
   reserved name, unknown child ...) outside the guards leaves the state EQUAL to what it was.
   Partial: refuted without the guard, K3 (and K1 K2 K4). *)
Theorem C13_rejected_noop_partial : forall kindof strictof reserved N pfuel s o f s' e,
  Inv kindof reserved s ->
  risky kindof strictof reserved pfuel s o = false ->
  step kindof strictof reserved N pfuel f s o = (s', Err e) -> e <> ERecursion ->
  s' = s.
Proof. exact step_noop. Qed.
Print Assumptions C13_rejected_noop_partial.

(* At most one owner, under exactly one label (a consequence of the invariant). *)
Theorem C13_one_owner : forall kindof reserved s p p' k k' c,
  Inv kindof reserved s -> In (k, c) (kids s p) -> In (k', c) (kids s p') -> p = p' /\ k = k'.
Proof. exact inv_one_owner. Qed.
Print Assumptions C13_one_owner.

(* ---- the unguarded statements are FALSE of the faithful model (and of the code) ---------- *)
(* K1: p, q workflows, a in p, another a in q;  a.parent = q raises AttributeError but leaves
   a removed from p, naming q as parent, and not listed by q. *)
Theorem C13_inv_refuted_K1 :
  (forall n, has_slash (k1_labels n) = false) /\
  let s := run k1_kinds all_strict nores 4 10 10 (init_state k1_labels) k1_ops in
  snd (step k1_kinds all_strict nores 4 10 10
         (run k1_kinds all_strict nores 4 10 10 (init_state k1_labels) (firstn 2 k1_ops)) (SetParent 2 (Some 1)))
    = Err EAttribute /\
  par s 2 = Some 1 /\ kids s 1 = [("a"%string, 3)] /\ kids s 0 = [] /\
  ~ Inv k1_kinds nores s.
Proof. exact k1_refuted. Qed.
Print Assumptions C13_inv_refuted_K1.

(* K2: macro.add_child(workflow) raises ParentMostError after listing the workflow. *)
Theorem C13_inv_refuted_K2 :
  (forall n, has_slash (k2_labels n) = false) /\
  let s := run k2_kinds all_strict nores 2 10 10 (init_state k2_labels) k2_ops in
  snd (step k2_kinds all_strict nores 2 10 10 (init_state k2_labels) (AddChild 0 1 None None)) = Err EParentMost /\
  kids s 0 = [("w"%string, 1)] /\ par s 1 = None /\
  ~ Inv k2_kinds nores s.
Proof. exact k2_refuted. Qed.
Print Assumptions C13_inv_refuted_K2.

(* K4: workflow "a" owns macro m;  m.add_child(x, label="a") re-labels and lists x, then the
   second cyclic test ("/a/m".startswith("/a/")) raises CyclicPathError. *)
Theorem C13_inv_refuted_K4 :
  (forall n, has_slash (k4_labels n) = false) /\
  let s := run k4_kinds all_strict nores 3 10 10 (init_state k4_labels) k4_ops in
  snd (step k4_kinds all_strict nores 3 10 10
         (run k4_kinds all_strict nores 3 10 10 (init_state k4_labels) (firstn 1 k4_ops))
         (AddChild 1 2 (Some "a"%string) None)) = Err ECyclic /\
  kids s 1 = [("a"%string, 2)] /\ par s 2 = None /\ lbl s 2 = "a"%string /\
  ~ Inv k4_kinds nores s.
Proof. exact k4_refuted. Qed.
Print Assumptions C13_inv_refuted_K4.

(* K3: R owns M owns x;  M.replace_child(x, R) removes x and swaps the labels of x and R
   before add_child refuses the cyclic adoption. *)
Theorem C13_rejected_noop_refuted_K3 :
  (forall n, has_slash (k3_labels n) = false) /\
  let s := run k3_kinds all_strict nores 3 10 10 (init_state k3_labels) k3_ops in
  let x := step k3_kinds all_strict nores 3 10 10 s (ReplaceI 1 2 0) in
  Inv k3_kinds nores s /\ snd x = Err ECyclic /\
  par s 2 = Some 1 /\ par (fst x) 2 = None /\ lbl s 0 = "R"%string /\ lbl (fst x) 0 = "x"%string /\ fst x <> s.
Proof. exact k3_refuted. Qed.
Print Assumptions C13_rejected_noop_refuted_K3.

(* Non-vacuity: a 16-operation history over 7 objects (3 nesting levels, strict and
   non-strict composites, a reserved table) with a move between parents, suffixing,
   re-labelling through adoption, a replacement that inherits the starting status and five
   refused operations is inside the guards, and ends in the expected tree. *)
Example C13_hyps_hold :
  let s := run ex_kinds ex_strict ex_res 7 20 12 (init_state ex_labels) ex_ops in
  (forall n, has_slash (ex_labels n) = false) /\
  safe ex_kinds ex_strict ex_res 7 20 12 (init_state ex_labels) ex_ops = true /\
  map (fun k => snd (step ex_kinds ex_strict ex_res 7 20 12
                       (run ex_kinds ex_strict ex_res 7 20 12 (init_state ex_labels) (firstn k ex_ops))
                       (nth k ex_ops (SetStart 0 0))))
      [4; 6; 7; 9; 10] = [Err EValue; Err EAttribute; Err EAttribute; Err ECyclic; Err EParentMost] /\
  kids s 0 = [("m", 1)]%string /\ kids s 1 = [] /\ kids s 2 = [("a", 5)]%string /\ strt s 2 = [5] /\
  par s 2 = None /\ lbl s 3 = "b"%string /\ par s 4 = None /\ lbl s 4 = "z"%string /\
  path 20 s 5 = Some "/n/a"%string.
Proof. exact ex_safe. Qed.
