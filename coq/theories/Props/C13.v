(* C13 -- ownership forms a tree: one parent, unique labels, no cycles, both sides agree.
   Statements are about Lex.v, the step-by-step model of lexical.py / composite.py /
   workflow.py (validated against the real library on every run).  Only Theorem / exact /
   Print Assumptions here; proofs are in LexProofs.v.

   [Inv kindof reserved s] (Lex.v) is the whole invariant of the property on a state:
     inv_agree     p lists c under k  <->  c names p as its parent and carries label k
     inv_keys      sibling labels are unique
     inv_reserved  no child label is an attribute of the composite
     inv_rooted    following parents from any node ends at a root
     inv_wf        a workflow has no parent
     inv_start / inv_start_nodup   starting nodes are current children (listed once)
     inv_leaf      only composites own anything;  inv_slash  every label is a valid label
   The theorems quantify over every object universe (kindof, strictof), every table of
   composite attributes (reserved), every history, EVERY bound pfuel of the ancestor walk /
   suffix search (hitting it is a refusal that happens before anything is touched) and every
   bound f >= 4 on the nesting of set_parent / add_child / remove_child calls (the code nests
   at most 4 deep from a state satisfying the invariant).  No operation and no outcome
   (RecursionError included) is excluded. *)
From PW Require Import Base Lex LexProofs.

(* The invariant holds initially (all objects orphans, valid labels) ... *)
Theorem C13_init : forall kindof reserved labels,
  (forall n, has_slash (labels n) = false) -> Inv kindof reserved (init_state labels).
Proof. exact init_inv. Qed.
Print Assumptions C13_init.

(* ... is preserved by EVERY operation: add_child with/without label and strict_naming,
   attribute assignment, construction with parent=, parent assignment (to a composite, None,
   a non-composite), remove_child by instance or label, replace_child by instance or label,
   marking a starting node -- accepted or refused ... *)
Theorem C13_inv_step : forall kindof strictof reserved N pfuel s o f,
  Inv kindof reserved s -> 4 <= f ->
  Inv kindof reserved (fst (step kindof strictof reserved N pfuel f s o)).
Proof. exact step_inv. Qed.
Print Assumptions C13_inv_step.

(* ... hence holds after every history. *)
Theorem C13_inv : forall kindof strictof reserved N pfuel f labels ops,
  (forall n, has_slash (labels n) = false) -> 4 <= f ->
  Inv kindof reserved (run kindof strictof reserved N pfuel f (init_state labels) ops).
Proof.
  intros kindof strictof reserved N pfuel f labels ops H Hf.
  exact (run_inv kindof strictof reserved N pfuel f Hf ops (init_state labels) (init_inv kindof reserved labels H)).
Qed.
Print Assumptions C13_inv.

(* A refused operation (name clash, second parent, cyclic adoption, workflow given a parent,
   reserved name, invalid label, unknown child, exhausted bound ...) leaves the state EQUAL to
   what it was. *)
Theorem C13_rejected_noop : forall kindof strictof reserved N pfuel s o f s' e,
  Inv kindof reserved s -> 4 <= f ->
  step kindof strictof reserved N pfuel f s o = (s', Err e) ->
  s' = s.
Proof. exact step_noop. Qed.
Print Assumptions C13_rejected_noop.

(* At most one owner, under exactly one label (a consequence of the invariant). *)
Theorem C13_one_owner : forall kindof reserved s p p' k k' c,
  Inv kindof reserved s -> In (k, c) (kids s p) -> In (k', c) (kids s p') -> p = p' /\ k = k'.
Proof. exact inv_one_owner. Qed.
Print Assumptions C13_one_owner.

(* The cyclic test (a walk up the parent pointers) ends from every start in every state
   satisfying the invariant: some bound suffices, and every larger one does. *)
Theorem C13_walk_terminates : forall kindof reserved s x c,
  Inv kindof reserved s -> exists g0, forall g, g0 <= g -> walk g s (Some x) c <> None.
Proof. intros kindof reserved s x c I. exact (walk_terminates s c x (inv_rooted _ _ _ I x)). Qed.
Print Assumptions C13_walk_terminates.

(* The four situations in which the code violated the property before the fix commits (K1..K4
   of the first round) on the model of the repaired code: three are refused with nothing
   touched, the fourth (a false positive of the old string-prefix test) is accepted. *)
Theorem C13_former_findings :
  (let s := run k1_kinds all_strict nores 4 10 10 (init_state k1_labels) k1_ops in
   last_result k1_kinds all_strict nores 4 k1_labels k1_ops = Err EAttribute /\
   par s 2 = Some 0 /\ kids s 0 = [("a"%string, 2)] /\ kids s 1 = [("a"%string, 3)]) /\
  (let s := run k2_kinds all_strict nores 2 10 10 (init_state k2_labels) k2_ops in
   last_result k2_kinds all_strict nores 2 k2_labels k2_ops = Err EParentMost /\ kids s 0 = []) /\
  (let s := run k3_kinds all_strict nores 3 10 10 (init_state k3_labels) k3_ops in
   last_result k3_kinds all_strict nores 3 k3_labels k3_ops = Err ECyclic /\
   kids s 1 = [("x"%string, 2)] /\ par s 2 = Some 1 /\ lbl s 0 = "R"%string) /\
  (let s := run k4_kinds all_strict nores 3 10 10 (init_state k4_labels) k4_ops in
   last_result k4_kinds all_strict nores 3 k4_labels k4_ops = Ok /\
   kids s 1 = [("a"%string, 2)] /\ par s 2 = Some 1 /\ path 10 s 2 = Some "/a/m/a"%string).
Proof. exact former_findings. Qed.
Print Assumptions C13_former_findings.

(* Non-vacuity / what the model computes: a 17-operation history over 7 objects (3 nesting
   levels, strict and non-strict composites, a reserved table) with a move between parents,
   suffixing, re-labelling through adoption, a replacement that inherits the starting status,
   a non-strict parent assignment and five refused operations, and the tree it ends in. *)
Example C13_hyps_hold :
  let s := run ex_kinds ex_strict ex_res 7 20 12 (init_state ex_labels) ex_ops in
  (forall n, has_slash (ex_labels n) = false) /\
  map (fun k => snd (step ex_kinds ex_strict ex_res 7 20 12
                       (run ex_kinds ex_strict ex_res 7 20 12 (init_state ex_labels) (firstn k ex_ops))
                       (nth k ex_ops (SetStart 0 0))))
      [4; 6; 7; 9; 10] = [Err EValue; Err EAttribute; Err EAttribute; Err ECyclic; Err EParentMost] /\
  kids s 0 = [("m", 1)]%string /\ kids s 1 = [("z", 4)]%string /\ kids s 2 = [("a", 5)]%string /\ strt s 2 = [5] /\
  par s 2 = None /\ lbl s 3 = "b"%string /\ par s 4 = Some 1 /\
  path 20 s 5 = Some "/n/a"%string /\ path 20 s 4 = Some "/w/m/z"%string.
Proof. exact ex_history. Qed.
