(* C17 -- node classes faithfully wrap their definitions.
   Statements are about Wrap.v (model of mixin/preview.py, output_parser.py, io.py
   set_input_values, nodes/function.py, nodes/static_io.py, nodes/transform.py).
   Only Theorem / exact / Print Assumptions live here; proofs are in WrapProofs.v.
   Reading guide:
     sem            the wrapped function on its keyword arguments (universally quantified)
     py_bind        python's own binding of f( *pos, **kw) for positional-or-keyword parameters
     ref_run        "accumulate the arguments given so far, call the definition": per call the
                    accumulated arguments, the definition's value (None: python raises) and a
                    flag "repeats the arguments of the latest call that returned"
     op_admitted    the values an op passes suit the hints of the channels they go to
                    (hint enforcement itself is C03/C04's subject)
     fits           the definition's value suits the outputs (one output: any admitted value;
                    n outputs: an n-tuple of admitted values)
     expected_out   the output channels holding that value / those n components *)
From PW Require Import Base Wrap WrapProofs.

(* ---- inputs ----------------------------------------------------------------------- *)
(* One input per parameter, in order, default or NOT_DATA, annotation with None |-> NoneType;
   a parameter named like an __init__ keyword is refused (ValueError). For ALL signatures. *)
Theorem C17_inputs : forall d, NoDup (map p_name (f_params d)) ->
  inputs_preview d =
    if existsb (fun p => mems (p_name p) init_keywords) (f_params d)
    then Err ValueErr else Ok (map input_entry (f_params d)).
Proof. exact inputs_preview_spec. Qed.
Print Assumptions C17_inputs.

(* Every instance, whatever the construction arguments: the input channels are the previewed
   inputs (labels and hints, in order), the output channels the previewed outputs, no data yet. *)
Theorem C17_instance_channels : forall k pos kw n, instantiate k pos kw = Ok n ->
  n_cls n = k /\ map chan_sig (n_in n) = in_sigs k /\ map chan_sig (n_out n) = k_outputs k /\
  n_failed n = false /\ forall c, In c (n_out n) -> c_value c = VNotData.
Proof. exact instantiate_channels. Qed.
Print Assumptions C17_instance_channels.

(* ---- binding ---------------------------------------------------------------------- *)
(* A call python's binding refuses (too many positionals, a parameter given twice, an unknown
   keyword) is refused before any assignment: no channel changes.  ALL channel lists, ALL splits. *)
Theorem C17_binding_rejected : forall cs pos kw,
  py_bind (labels cs) pos kw = None -> set_input_values cs pos kw = (cs, Some ValueErr).
Proof. exact set_input_values_rejected. Qed.
Print Assumptions C17_binding_rejected.

(* A call python's binding accepts sets exactly the bound parameters to the bound values. *)
Theorem C17_binding_accepted : forall cs pos kw b,
  NoDup (labels cs) -> NoDup (keys kw) ->
  py_bind (labels cs) pos kw = Some b -> bind_admitted cs b ->
  set_input_values cs pos kw = (apply_bind cs b, None).
Proof. exact set_input_values_accepted. Qed.
Print Assumptions C17_binding_accepted.

(* As the code is (not part of the property): a failure other than ValueError comes from the
   assignment loop -- a hint rejection -- and leaves the keys before the failing one assigned,
   keywords first, then the positional ones. *)
Theorem C17_binding_hint_rejection_as_is : forall cs pos kw cs' e,
  set_input_values cs pos kw = (cs', Some e) -> e <> ValueErr ->
  exists done k v rest, kw ++ combine (labels cs) pos = done ++ (k, v) :: rest /\
    assign_all cs done = (cs', None) /\ assign1 cs' k v = Err e.
Proof. exact set_input_values_partial. Qed.
Print Assumptions C17_binding_hint_rejection_as_is.

(* ---- outputs ---------------------------------------------------------------------- *)
(* With validation on, an accepted definition has exactly the declared labels, else the
   labels scraped from its single return statement ("None" when nothing is returned); declared
   labels are as many as the returned expressions; several return statements are refused. *)
Theorem C17_output_labels : forall d outs,
  f_validate d = true -> function_outputs_preview d = Ok outs ->
  keys outs = match wanted_labels d with Some (x :: r) => x :: r | _ => ["None"] end /\
  (forall l, f_declared d = Some l ->
     exists r, parse_output (f_body d) = Ok (Some r) /\ List.length r = List.length l) /\
  (forall e, parse_output (f_body d) <> Err e).
Proof. exact output_labels_spec. Qed.
Print Assumptions C17_output_labels.

(* One output stores the whole value, n outputs the n components; run returns the value. *)
Theorem C17_output_store : forall outs sigs v,
  map chan_sig outs = sigs -> fits sigs v ->
  process_run_result KFunction outs v = (expected_out sigs v, Ok v).
Proof. exact process_function. Qed.
Print Assumptions C17_output_store.

(* ---- running a function node ------------------------------------------------------- *)
(* For every accepted definition without a parameter named like one of Node.run's flags, every
   construction split and every history of call splits: construction is refused exactly when
   python's binding refuses; afterwards each call returns what the bare function returns for the
   arguments accumulated so far (by python's binding), stores it in the outputs (whole / by
   component), and is refused exactly when python would raise.  Cache hits included.
   PARTIAL: the guard on parameter names is needed (C17_run_refuted_flag_name). *)
Theorem C17_run_partial : forall sem d k,
  function_class d = Ok k ->
  NoDup (map p_name (f_params d)) ->
  (forall x, In x (map p_name (f_params d)) -> ~ In x run_flags) ->
  (forall env, fits (k_outputs k) (sem env)) ->
  defaults_accepted k ->
  forall pos0 kw0, op_admitted k (pos0, kw0) ->
  match py_bind (map p_name (f_params d)) pos0 kw0 with
  | None => instantiate k pos0 kw0 = Err ValueErr
  | Some b =>
      exists n, instantiate k pos0 kw0 = Ok n /\
        let env0 := override (defaults_of k) b in
        value_dict (n_in n) = env0 /\
        forall ops, Forall (op_admitted k) ops ->
          Forall2 (step_fn (k_outputs k)) (calls sem n ops) (ref_run sem env0 None ops)
  end.
Proof. exact function_node_run. Qed.
Print Assumptions C17_run_partial.

(* Without the guard the statement is FALSE of the code: a parameter called fetch_input is an
   input channel, python binds f(1, fetch_input=5), the node raises TypeError.  Known finding
   C17-run-flag-named-parameter. *)
Theorem C17_run_refuted_flag_name : exists d k n,
  function_class d = Ok k /\ instantiate k [VInt 1] [] = Ok n /\
  snd (ref_call (sem_of d) (value_dict (n_in n)) [] [("fetch_input", VInt 5)])
    = Some (VTup [VInt 1; VInt 5]) /\
  snd (call (sem_of d) n [] [("fetch_input", VInt 5)]) = Err TypeErr.
Proof.
  pose (d := {| f_params := [ {| p_name := "a"; p_default := None; p_ann := None |};
                              {| p_name := "fetch_input"; p_default := Some (VInt 3); p_ann := None |} ];
                f_body := [RTuple [ {| r_frags := ["a"]; r_expr := EParam "a" |};
                                    {| r_frags := ["fetch_input"]; r_expr := EParam "fetch_input" |} ]];
                f_ret := None; f_declared := None; f_validate := true |}).
  exists d.
  destruct (function_class d) as [k|] eqn:Ek; [|vm_compute in Ek; discriminate].
  exists k. destruct (instantiate k [VInt 1] []) as [n|] eqn:En;
    [|vm_compute in Ek; injection Ek as <-; vm_compute in En; discriminate].
  exists n. vm_compute in Ek. injection Ek as <-. vm_compute in En. injection En as <-.
  vm_compute. repeat split; reflexivity.
Qed.
Print Assumptions C17_run_refuted_flag_name.

(* ---- transformers ------------------------------------------------------------------ *)
(* inputs_to_list(n), ALL n, ALL construction splits, ALL histories of call splits: the node
   follows "collect the accumulated arguments into a list, in order" -- except that a call
   repeating the arguments of the latest successful call returns DotDict(outputs) (that is what
   [step_ok] says for rep = true).  Exact characterisation of the code as it is. *)
Theorem C17_inputs_to_list : forall n pos0 kw0,
  NoDup (keys kw0) ->
  match py_bind (map (numbered "item_") (range_from 0 n)) pos0 kw0 with
  | None => instantiate (to_list_class n) pos0 kw0 = Err ValueErr
  | Some b =>
      exists nd, instantiate (to_list_class n) pos0 kw0 = Ok nd /\
        let env0 := override (map (fun i => (numbered "item_" i, VNotData)) (range_from 0 n)) b in
        value_dict (n_in nd) = env0 /\
        forall sem ops, Forall (fun op => NoDup (keys (snd op))) ops ->
          Forall2 (step_ok (to_list_class n)) (calls sem nd ops) (ref_run list_of_env env0 None ops)
  end.
Proof. exact to_list_run. Qed.
Print Assumptions C17_inputs_to_list.

(* inputs_to_dict(spec): names or {name: (hint, default)} *)
Theorem C17_inputs_to_dict : forall s pos0 kw0,
  dspec_ok s ->
  (forall x, In x (keys (k_inputs (to_dict_class s))) -> ~ In x run_flags) ->
  op_admitted (to_dict_class s) (pos0, kw0) ->
  match py_bind (keys (k_inputs (to_dict_class s))) pos0 kw0 with
  | None => instantiate (to_dict_class s) pos0 kw0 = Err ValueErr
  | Some b =>
      exists nd, instantiate (to_dict_class s) pos0 kw0 = Ok nd /\
        let env0 := override (defaults_of (to_dict_class s)) b in
        value_dict (n_in nd) = env0 /\
        forall sem ops, Forall (op_admitted (to_dict_class s)) ops ->
          Forall2 (step_ok (to_dict_class s)) (calls sem nd ops) (ref_run dict_of_env env0 None ops)
  end.
Proof. exact to_dict_run. Qed.
Print Assumptions C17_inputs_to_dict.

(* dataclass nodes, ALL field layouts python accepts: the instance starts from the field
   defaults with the default factories applied, and follows the dataclass's own constructor *)
Theorem C17_dataclass : forall d uc k,
  dataclass_class d uc = Ok k ->
  NoDup (map fd_name (dc_fields d)) -> fields_accepted d ->
  (forall x, In x (map fd_name (dc_fields d)) -> ~ In x run_flags) ->
  forall pos0 kw0, op_admitted k (pos0, kw0) ->
  match py_bind (map fd_name (dc_fields d)) pos0 kw0 with
  | None => instantiate k pos0 kw0 = Err ValueErr
  | Some b =>
      exists nd, instantiate k pos0 kw0 = Ok nd /\
        let env0 := override (dc_defaults d) b in
        value_dict (n_in nd) = env0 /\
        forall sem ops, Forall (op_admitted k) ops ->
          Forall2 (step_ok k) (calls sem nd ops) (ref_run (record_of (dc_name d)) env0 None ops)
  end.
Proof. exact dataclass_run. Qed.
Print Assumptions C17_dataclass.

Theorem C17_dataclass_reference : forall d pos kw,
  dc_construct d pos kw = snd (ref_call (record_of (dc_name d)) (dc_defaults d) pos kw).
Proof. exact dc_construct_ref. Qed.
Print Assumptions C17_dataclass_reference.

(* PARTIAL reading of the three theorems above as the property wants it: on a history in which
   no call repeats the arguments of the latest successful call, every call returns the
   definition's value and stores it.  Guard = "no repeat". *)
Theorem C17_transformers_partial : forall k l l',
  Forall2 (step_ok k) l l' -> Forall (fun x => snd x = false) l' ->
  Forall2 (step_fn (k_outputs k)) l l'.
Proof. exact history_no_repeat. Qed.
Print Assumptions C17_transformers_partial.

(* Without the guard: inputs_to_list(2)(1, 2) called twice -- the second call returns the
   output dict, not the list.  Known finding C17-transformer-cache-hit-returns-output-dict. *)
Theorem C17_transformers_refuted_repeat : exists nd sem,
  instantiate (to_list_class 2) [VInt 1; VInt 2] [] = Ok nd /\
  map snd (calls sem nd [([], []); ([], [])]) =
    [Ok (VList [VInt 1; VInt 2]); Ok (VMap "DotDict" [("list", VList [VInt 1; VInt 2])])] /\
  map (fun x => snd (fst x)) (ref_run list_of_env (value_dict (n_in nd)) None [([], []); ([], [])]) =
    [Some (VList [VInt 1; VInt 2]); Some (VList [VInt 1; VInt 2])].
Proof.
  destruct (instantiate (to_list_class 2) [VInt 1; VInt 2] []) as [nd|] eqn:E; [|vm_compute in E; discriminate].
  exists nd, (fun _ => VNone). vm_compute in E. injection E as <-. vm_compute. repeat split; reflexivity.
Qed.
Print Assumptions C17_transformers_refuted_repeat.

(* list_to_outputs(n), ALL n: a list of the node's size, given positionally or by keyword, in
   any earlier state of the node (no cache hit): every output gets its item, run returns the
   item dict.  PARTIAL: guard = the list has exactly n items. *)
Theorem C17_list_to_outputs_partial : forall sem n nd v0 l pos kw,
  n_cls nd = from_list_class n -> n_in nd = [list_chan v0] ->
  map chan_sig (n_out nd) = k_outputs (from_list_class n) -> n_failed nd = false ->
  n_cached nd <> Some [("list", VList l)] ->
  NoDup (keys kw) -> py_bind ["list"] pos kw = Some [("list", Some (VList l))] ->
  List.length l = n ->
  call sem nd pos kw =
    ({| n_cls := from_list_class n; n_in := [list_chan (VList l)];
        n_out := fill (k_outputs (from_list_class n)) l; n_failed := false;
        n_cached := Some [("list", VList l)] |}, Ok (items_dict l)).
Proof. exact from_list_call. Qed.
Print Assumptions C17_list_to_outputs_partial.

(* Without the guard: after [1,2,3], the list [4,5] is accepted and item_2 keeps the stale 3.
   Known finding C17-list-to-outputs-length-unchecked. *)
Theorem C17_list_to_outputs_refuted_length : exists nd sem n1 n2 r2,
  instantiate (from_list_class 3) [] [] = Ok nd /\
  call sem nd [VList [VInt 1; VInt 2; VInt 3]] [] = (n1, Ok (items_dict [VInt 1; VInt 2; VInt 3])) /\
  call sem n1 [VList [VInt 4; VInt 5]] [] = (n2, Ok r2) /\
  map c_value (n_out n2) = [VInt 4; VInt 5; VInt 3].
Proof.
  destruct (instantiate (from_list_class 3) [] []) as [nd|] eqn:E; [|vm_compute in E; discriminate].
  exists nd, (fun _ => VNone). vm_compute in E. injection E as <-.
  eexists. eexists. eexists. vm_compute. repeat split; reflexivity.
Qed.
Print Assumptions C17_list_to_outputs_refuted_length.

(* inputs_to_dataframe(n), ALL n, ALL key lists, ALL tables: when the rows are dicts over the
   same keys in the same order, the node computes the transposition (column k = the k-cells of
   the rows, in row order; no rows: the empty frame) and stores it in `df`.
   PARTIAL: guard = uniform rows (ragged rows raise KeyError/ValueError in the loop or in pandas;
   rows with permuted keys are covered by the correspondence check only). *)
Theorem C17_inputs_to_dataframe_partial : forall sem ins ks table,
  NoDup ks -> Forall (fun vs => List.length vs = List.length ks) table ->
  map c_value ins = map (row_of ks) table ->
  on_run sem RunToFrame ins = Ok (frame_of ks table).
Proof. exact frame_on_run. Qed.
Print Assumptions C17_inputs_to_dataframe_partial.

Theorem C17_inputs_to_dataframe_store : forall c ks table,
  chan_sig c = ("df", Some (HAtoms [ACls "DataFrame"])) ->
  process_run_result (KFromMany "df") [c] (frame_of ks table) =
    (expected_out [("df", Some (HAtoms [ACls "DataFrame"]))] (frame_of ks table), Ok (frame_of ks table)).
Proof. exact frame_store. Qed.
Print Assumptions C17_inputs_to_dataframe_store.

(* ---- the public constructor functions ------------------------------------------------ *)
(* PARTIAL: without positional node values the constructor functions are the class call. *)
Theorem C17_constructors_partial : forall n d kw,
  ctor_to_frame n [] kw = instantiate (to_frame_class n true) [] kw /\
  ctor_dataclass d [] kw =
    match dataclass_class d true with Ok k => instantiate k [] kw | Err e => Err e end.
Proof. intros n d kw. split; reflexivity. Qed.
Print Assumptions C17_constructors_partial.

(* With positional node values the first one lands in use_cache: inputs_to_dataframe(2, r0, r1)
   puts r1 into row_0 and leaves row_1 empty.  Known finding C17-use-cache-swallows-first-positional. *)
Theorem C17_constructors_refuted_use_cache : exists nd,
  let r0 := VMap "dict" [("a", VInt 1)] in
  let r1 := VMap "dict" [("a", VInt 2)] in
  ctor_to_frame 2 [r0; r1] [] = Ok nd /\
  value_dict (n_in nd) = [("row_0", r1); ("row_1", VNotData)] /\
  py_bind ["row_0"; "row_1"] [r0; r1] [] = Some [("row_0", Some r0); ("row_1", Some r1)].
Proof.
  destruct (ctor_to_frame 2 [VMap "dict" [("a", VInt 1)]; VMap "dict" [("a", VInt 2)]] []) as [nd|] eqn:E;
    [|vm_compute in E; discriminate].
  exists nd. vm_compute in E. injection E as <-. vm_compute. repeat split; reflexivity.
Qed.
Print Assumptions C17_constructors_refuted_use_cache.

(* ---- non-vacuity --------------------------------------------------------------------- *)
(* def f(a, b: int | None = None, c: int = 9): return a, (b, c)   wrapped with scraped labels:
   the hypotheses of C17_run_partial hold, labels are a / (b, c), and f("u")(c=3) gives ("u", (None, 3)). *)
Example C17_hyps_hold :
  let d := {| f_params := [ {| p_name := "a"; p_default := None; p_ann := None |};
                            {| p_name := "b"; p_default := Some VNone;
                               p_ann := Some (AnnH (HAtoms [AInt; ANoneT])) |};
                            {| p_name := "c"; p_default := Some (VInt 9);
                               p_ann := Some (AnnH (HAtoms [AInt])) |} ];
              f_body := [RTuple [ {| r_frags := ["a"]; r_expr := EParam "a" |};
                                  {| r_frags := ["(b,"; "         c)"];
                                     r_expr := ETup [EParam "b"; EParam "c"] |} ]];
              f_ret := None; f_declared := None; f_validate := true |} in
  exists k n, function_class d = Ok k /\
    keys (k_outputs k) = ["a"; "(b, c)"] /\
    NoDup (map p_name (f_params d)) /\
    (forall x, In x (map p_name (f_params d)) -> ~ In x run_flags) /\
    (forall env, fits (k_outputs k) (sem_of d env)) /\
    defaults_accepted k /\
    instantiate k [VStr "u"] [] = Ok n /\
    map snd (calls (sem_of d) n [([], [("c", VInt 3)])]) = [Ok (VTup [VStr "u"; VTup [VNone; VInt 3]])].
Proof.
  cbv zeta.
  match goal with |- exists k n, function_class ?d = _ /\ _ => destruct (function_class d) as [k|] eqn:Ek end;
    [|vm_compute in Ek; discriminate].
  exists k. vm_compute in Ek. injection Ek as <-.
  match goal with |- exists n, _ /\ _ /\ _ /\ _ /\ _ /\ _ /\ instantiate ?k ?p ?q = _ /\ _ =>
    destruct (instantiate k p q) as [n|] eqn:En end; [|vm_compute in En; discriminate].
  exists n. vm_compute in En. injection En as <-.
  split; [reflexivity|]. split; [vm_compute; reflexivity|].
  split; [repeat constructor; simpl; intuition discriminate|].
  split; [simpl; intros x [<-|[<-|[<-|[]]]]; vm_compute; intuition discriminate|].
  split; [intro env; simpl; eexists; split; [reflexivity|]; repeat constructor|].
  split; [intros l h v; simpl; intros [E|[E|[E|[]]]]; injection E as <- <- <-; reflexivity|].
  split; [reflexivity | vm_compute; reflexivity].
Qed.
