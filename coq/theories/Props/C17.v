(* C17 -- node classes faithfully wrap their definitions.
   Statements are about Wrap.v (model of mixin/preview.py, output_parser.py, io.py
   set_input_values, nodes/function.py, nodes/static_io.py, nodes/transform.py).
   Only Theorem / exact / Print Assumptions live here; proofs are in WrapProofs.v.
   Reading guide:
     sem            the wrapped function on its keyword arguments (universally quantified)
     py_bind        python's own binding of f( *pos, **kw) for positional-or-keyword parameters
     ref_run        "accumulate the arguments given so far, call the definition": per call the
                    accumulated arguments and the definition's value (None: python raises)
     step_fn        one call of the node against one call of the reference: same accumulated
                    arguments, refused iff python raises, else the definition's value is returned
                    and the outputs hold it
     op_admitted    the values an op passes suit the hints of the channels they go to
                    (hint enforcement itself is C03/C04's subject)
     fits           the definition's value suits the outputs (one output: any admitted value;
                    n outputs: an n-tuple of admitted values)
     expected_out   the output channels holding that value / those n components *)
From PW Require Import Base Wrap WrapProofs.

(* ---- inputs ----------------------------------------------------------------------- *)
(* One input per parameter, in order, default or NOT_DATA, annotation with None |-> NoneType;
   a parameter named like an __init__ keyword or one of run's flags is refused (ValueError).
   For ALL signatures. *)
Theorem C17_inputs : forall d, NoDup (map p_name (f_params d)) ->
  inputs_preview d =
    if existsb (fun p => mems (p_name p) reserved_keywords) (f_params d)
    then Err ValueErr else Ok (map input_entry (f_params d)).
Proof. exact inputs_preview_spec. Qed.
Print Assumptions C17_inputs.

(* Every instance, whatever the construction arguments: the input channels are the previewed
   inputs (labels and hints, in order), the output channels the previewed outputs, no data yet. *)
Theorem C17_instance_channels : forall k pos kw n, instantiate k pos kw = Ok n ->
  n_cls n = k /\ map chan_sig (n_in n) = in_sigs k /\ map chan_sig (n_out n) = k_outputs k /\
  n_failed n = false /\ n_cached n = None /\ forall c, In c (n_out n) -> c_value c = VNotData.
Proof. exact instantiate_channels. Qed.
Print Assumptions C17_instance_channels.

(* ---- binding ---------------------------------------------------------------------- *)
(* A call python's binding refuses (too many positionals, a parameter given twice, an unknown
   keyword) is refused before any assignment: no channel changes.  ALL channel lists, ALL splits. *)
Theorem C17_binding_rejected : forall cs pos kw,
  py_bind (labels cs) pos kw = None -> set_input_values cs pos kw = (cs, Some ValueErr).
Proof. exact set_input_values_rejected. Qed.
Print Assumptions C17_binding_rejected.

(* A call python's binding accepts sets exactly the bound parameters to the bound values. *)
Theorem C17_binding_accepted : forall cs pos kw b,
  NoDup (labels cs) -> NoDup (keys kw) ->
  py_bind (labels cs) pos kw = Some b -> bind_admitted cs b ->
  set_input_values cs pos kw = (apply_bind cs b, None).
Proof. exact set_input_values_accepted. Qed.
Print Assumptions C17_binding_accepted.

(* As the code is (not part of the property): a failure other than ValueError comes from the
   assignment loop -- a hint rejection -- and leaves the keys before the failing one assigned,
   keywords first, then the positional ones. *)
Theorem C17_binding_hint_rejection_as_is : forall cs pos kw cs' e,
  set_input_values cs pos kw = (cs', Some e) -> e <> ValueErr ->
  exists done k v rest, kw ++ combine (labels cs) pos = done ++ (k, v) :: rest /\
    assign_all cs done = (cs', None) /\ assign1 cs' k v = Err e.
Proof. exact set_input_values_partial. Qed.
Print Assumptions C17_binding_hint_rejection_as_is.

(* ---- outputs ---------------------------------------------------------------------- *)
(* With validation on, an accepted definition has exactly the declared labels, else the
   labels scraped from its single return statement ("None" when nothing is returned); declared
   labels are as many as the returned expressions; several return statements are refused. *)
Theorem C17_output_labels : forall d outs,
  f_validate d = true -> function_outputs_preview d = Ok outs ->
  keys outs = match wanted_labels d with Some (x :: r) => x :: r | _ => ["None"] end /\
  (forall l, f_declared d = Some l ->
     exists r, parse_output (f_body d) = Ok (Some r) /\ List.length r = List.length l) /\
  (forall e, parse_output (f_body d) <> Err e).
Proof. exact output_labels_spec. Qed.
Print Assumptions C17_output_labels.

(* One output stores the whole value, n outputs the n components; run returns the value. *)
Theorem C17_output_store : forall outs sigs v,
  map chan_sig outs = sigs -> fits sigs v ->
  process_run_result KFunction outs v = (expected_out sigs v, Ok v).
Proof. exact process_function. Qed.
Print Assumptions C17_output_store.

(* ---- running a function node ------------------------------------------------------- *)
(* For EVERY accepted definition, every construction split and every history of call splits:
   construction is refused exactly when python's binding refuses; afterwards each call returns
   what the bare function returns for the arguments accumulated so far (by python's binding),
   stores it in the outputs (whole / by component), and is refused exactly when python would
   raise.  Cache hits included.  (No guard on parameter names any more: names that collide with
   run's flags are refused at class creation, C17_inputs.) *)
Theorem C17_run : forall sem d k,
  function_class d = Ok k ->
  NoDup (map p_name (f_params d)) ->
  (forall env, fits (k_outputs k) (sem env)) ->
  defaults_accepted k ->
  forall pos0 kw0, op_admitted k (pos0, kw0) ->
  match py_bind (map p_name (f_params d)) pos0 kw0 with
  | None => instantiate k pos0 kw0 = Err ValueErr
  | Some b =>
      exists n, instantiate k pos0 kw0 = Ok n /\
        let env0 := override (defaults_of k) b in
        value_dict (n_in n) = env0 /\
        forall ops, Forall (op_admitted k) ops ->
          Forall2 (step_fn (k_outputs k)) (calls sem n ops) (ref_run sem env0 ops)
  end.
Proof. exact function_node_run. Qed.
Print Assumptions C17_run.

(* ---- hand-written class hierarchies ---------------------------------------------------- *)
(* `class D(B)` overriding node_function, B a hand-written Function class ([derive], Wrap.v).
   D is wrapped exactly as its own definition (so C17_inputs .. C17_run apply to it as they
   stand) when D declares its labels or B declares none; otherwise D takes B's declared labels
   (a class attribute, intended python semantics).  In every case it makes no difference whether
   B or D was previewed / instantiated first. *)
Theorem C17_subclass : forall base_first b d,
  f_declared d <> None \/ f_declared b = None -> derive base_first b d = d.
Proof. exact derive_own. Qed.
Print Assumptions C17_subclass.

Theorem C17_subclass_inherits_declared : forall base_first b d l,
  f_declared d = None -> f_declared b = Some l -> f_declared (derive base_first b d) = Some l.
Proof. exact derive_inherits_declared. Qed.
Print Assumptions C17_subclass_inherits_declared.

Theorem C17_subclass_order_irrelevant : forall b d, derive true b d = derive false b d.
Proof. exact derive_order_irrelevant. Qed.
Print Assumptions C17_subclass_order_irrelevant.

(* the scenario of the former defect: B returns `x`, D returns `shift`, neither declares labels --
   used after B or before it, D's output is labelled "shift" *)
Example C17_subclass_scraped_labels_own : exists b d k,
  f_declared b = None /\ f_declared d = None /\
  function_class (derive true b d) = Ok k /\ function_class (derive false b d) = Ok k /\
  keys (k_outputs k) = ["shift"].
Proof.
  pose (b := {| f_params := [ {| p_name := "x"; p_default := None; p_ann := None |} ];
                f_body := [RSingle {| r_frags := ["x"]; r_expr := EParam "x" |}];
                f_ret := None; f_declared := None; f_validate := true |}).
  pose (d := {| f_params := [ {| p_name := "x"; p_default := None; p_ann := None |};
                              {| p_name := "shift"; p_default := Some (VInt 10); p_ann := None |} ];
                f_body := [RSingle {| r_frags := ["shift"]; r_expr := EParam "shift" |}];
                f_ret := None; f_declared := None; f_validate := true |}).
  exists b, d.
  destruct (function_class (derive true b d)) as [k|] eqn:E; [|vm_compute in E; discriminate].
  exists k. vm_compute in E. injection E as <-. vm_compute. repeat split; reflexivity.
Qed.

(* ---- transformers ------------------------------------------------------------------ *)
(* inputs_to_list(n), ALL n, ALL construction splits, ALL histories of call splits (repeated
   calls included): the node is "collect the accumulated arguments into a list, in order". *)
Theorem C17_inputs_to_list : forall n pos0 kw0,
  NoDup (keys kw0) ->
  match py_bind (map (numbered "item_") (range_from 0 n)) pos0 kw0 with
  | None => instantiate (to_list_class n) pos0 kw0 = Err ValueErr
  | Some b =>
      exists nd, instantiate (to_list_class n) pos0 kw0 = Ok nd /\
        let env0 := override (map (fun i => (numbered "item_" i, VNotData)) (range_from 0 n)) b in
        value_dict (n_in nd) = env0 /\
        forall sem ops, Forall (fun op => NoDup (keys (snd op))) ops ->
          Forall2 (step_fn (k_outputs (to_list_class n))) (calls sem nd ops) (ref_run list_of_env env0 ops)
  end.
Proof. exact to_list_run. Qed.
Print Assumptions C17_inputs_to_list.

(* inputs_to_dict(spec): names or {name: (hint, default)}.  The names are the caller's; the
   side condition says none of them is one of run's flags (InputsToDict does not inspect them). *)
Theorem C17_inputs_to_dict : forall s pos0 kw0,
  dspec_ok s ->
  (forall x, In x (keys (k_inputs (to_dict_class s))) -> ~ In x run_flags) ->
  op_admitted (to_dict_class s) (pos0, kw0) ->
  match py_bind (keys (k_inputs (to_dict_class s))) pos0 kw0 with
  | None => instantiate (to_dict_class s) pos0 kw0 = Err ValueErr
  | Some b =>
      exists nd, instantiate (to_dict_class s) pos0 kw0 = Ok nd /\
        let env0 := override (defaults_of (to_dict_class s)) b in
        value_dict (n_in nd) = env0 /\
        forall sem ops, Forall (op_admitted (to_dict_class s)) ops ->
          Forall2 (step_fn (k_outputs (to_dict_class s))) (calls sem nd ops) (ref_run dict_of_env env0 ops)
  end.
Proof. exact to_dict_run. Qed.
Print Assumptions C17_inputs_to_dict.

(* dataclass nodes, ALL field layouts python accepts: the instance starts from the field
   defaults with the default factories applied, and follows the dataclass's own constructor
   (same side condition on the field names as above) *)
Theorem C17_dataclass : forall d uc k,
  dataclass_class d uc = Ok k ->
  NoDup (map fd_name (dc_fields d)) -> fields_accepted d ->
  (forall x, In x (map fd_name (dc_fields d)) -> ~ In x run_flags) ->
  forall pos0 kw0, op_admitted k (pos0, kw0) ->
  match py_bind (map fd_name (dc_fields d)) pos0 kw0 with
  | None => instantiate k pos0 kw0 = Err ValueErr
  | Some b =>
      exists nd, instantiate k pos0 kw0 = Ok nd /\
        let env0 := override (dc_defaults d) b in
        value_dict (n_in nd) = env0 /\
        forall sem ops, Forall (op_admitted k) ops ->
          Forall2 (step_fn (k_outputs k)) (calls sem nd ops) (ref_run (record_of (dc_name d)) env0 ops)
  end.
Proof. exact dataclass_run. Qed.
Print Assumptions C17_dataclass.

Theorem C17_dataclass_reference : forall d pos kw,
  dc_construct d pos kw = snd (ref_call (record_of (dc_name d)) (dc_defaults d) pos kw).
Proof. exact dc_construct_ref. Qed.
Print Assumptions C17_dataclass_reference.

(* inherited layouts: a class deriving from a dataclass (or from a node's .dataclass), decorated
   or not, is cast like any other class; its fields are [merge_fields base own] -- base fields
   first, a field declared again keeps its place with the new declaration, new fields appended.
   Distinct names are preserved, so C17_dataclass applies to every such layout. *)
Theorem C17_dataclass_inherited_names : forall child parent,
  NoDup (map fd_name parent) -> NoDup (map fd_name (merge_fields parent child)).
Proof. exact merge_fields_nodup. Qed.
Print Assumptions C17_dataclass_inherited_names.

Theorem C17_dataclass_inherited_order : forall child parent,
  exists extra, map fd_name (merge_fields parent child) = map fd_name parent ++ extra.
Proof. exact merge_fields_base_first. Qed.
Print Assumptions C17_dataclass_inherited_order.

Theorem C17_dataclass_inherited_override : forall f fs,
  In (fd_name f) (map fd_name fs) ->
  In f (put_field f fs) /\ map fd_name (put_field f fs) = map fd_name fs.
Proof. intros f fs H. split; [exact (put_field_replaces f fs H) | exact (put_field_names_old f fs H)]. Qed.
Print Assumptions C17_dataclass_inherited_override.

(* list_to_outputs(n), ALL n: in every state the node reaches without failing (fresh instance
   included, cache hit or not), a list given positionally or by keyword
     - of exactly n items goes to the outputs item by item, and the item dict is returned;
     - of any other length raises ValueError, leaves the outputs as they are, fails the node. *)
Theorem C17_list_to_outputs : forall sem n nd l pos kw,
  from_list_inv n nd ->
  NoDup (keys kw) -> py_bind ["list"] pos kw = Some [("list", Some (VList l))] ->
  n_in (fst (call sem nd pos kw)) = [list_chan (VList l)] /\
  (List.length l = n ->
     snd (call sem nd pos kw) = Ok (items_dict l) /\
     n_out (fst (call sem nd pos kw)) = fill (k_outputs (from_list_class n)) l /\
     from_list_inv n (fst (call sem nd pos kw))) /\
  (List.length l <> n ->
     snd (call sem nd pos kw) = Err ValueErr /\
     n_out (fst (call sem nd pos kw)) = n_out nd /\ n_failed (fst (call sem nd pos kw)) = true).
Proof. exact from_list_call. Qed.
Print Assumptions C17_list_to_outputs.

Theorem C17_list_to_outputs_fresh : forall n pos kw nd,
  instantiate (from_list_class n) pos kw = Ok nd -> from_list_inv n nd.
Proof. exact from_list_fresh. Qed.
Print Assumptions C17_list_to_outputs_fresh.

(* inputs_to_dataframe(n), ALL n, ALL tables of well-formed rows: when every row is a dict with
   the key set of the first row (keys in any order), the node computes the transposition --
   column k, in the key order of the first row, = the k-cells of the rows in row order; no rows:
   the empty frame -- and stores it in `df`.
   The guard [rows_ok] is about ILL-FORMED input only: a row with a missing or an extra key
   makes the loop raise KeyError or pandas raise ValueError (modelled, checked by correspondence). *)
Theorem C17_inputs_to_dataframe : forall sem ins rows,
  match rows with [] => True | row0 :: _ => NoDup (keys row0) /\ rows_ok (keys row0) rows end ->
  map c_value ins = map (VMap "dict") rows ->
  on_run sem RunToFrame ins = Ok (frame_of rows).
Proof. exact frame_on_run. Qed.
Print Assumptions C17_inputs_to_dataframe.

Theorem C17_inputs_to_dataframe_store : forall c rows,
  chan_sig c = ("df", Some (HAtoms [ACls "DataFrame"])) ->
  process_run_result (KFromMany "df") [c] (frame_of rows) =
    (expected_out [("df", Some (HAtoms [ACls "DataFrame"]))] (frame_of rows), Ok (frame_of rows)).
Proof. exact frame_store. Qed.
Print Assumptions C17_inputs_to_dataframe_store.

(* ---- the public constructor functions ------------------------------------------------ *)
(* For ALL positional and keyword node values the constructor functions are the class call
   (use_cache is keyword-only in every one of them). *)
Theorem C17_constructors : forall n s d pos kw,
  ctor_to_list n pos kw = instantiate (to_list_class n) pos kw /\
  ctor_from_list n pos kw = instantiate (from_list_class n) pos kw /\
  ctor_to_dict s pos kw = instantiate (to_dict_class s) pos kw /\
  ctor_to_frame n pos kw = instantiate (to_frame_class n true) pos kw /\
  ctor_dataclass d pos kw =
    match dataclass_class d true with Ok k => instantiate k pos kw | Err e => Err e end.
Proof. intros n s d pos kw. repeat split; reflexivity. Qed.
Print Assumptions C17_constructors.

(* ---- non-vacuity --------------------------------------------------------------------- *)
(* def f(a, b: int | None = None, c: int = 9): return a, (b, c)   wrapped with scraped labels:
   the hypotheses of C17_run hold, labels are a / (b, c), and f("u")(c=3) gives ("u", (None, 3)),
   also when the call is repeated (cache hit). *)
Example C17_hyps_hold :
  let d := {| f_params := [ {| p_name := "a"; p_default := None; p_ann := None |};
                            {| p_name := "b"; p_default := Some VNone;
                               p_ann := Some (AnnH (HAtoms [AInt; ANoneT])) |};
                            {| p_name := "c"; p_default := Some (VInt 9);
                               p_ann := Some (AnnH (HAtoms [AInt])) |} ];
              f_body := [RTuple [ {| r_frags := ["a"]; r_expr := EParam "a" |};
                                  {| r_frags := ["(b,"; "         c)"];
                                     r_expr := ETup [EParam "b"; EParam "c"] |} ]];
              f_ret := None; f_declared := None; f_validate := true |} in
  exists k n, function_class d = Ok k /\
    keys (k_outputs k) = ["a"; "(b, c)"] /\
    NoDup (map p_name (f_params d)) /\
    (forall env, fits (k_outputs k) (sem_of d env)) /\
    defaults_accepted k /\
    instantiate k [VStr "u"] [] = Ok n /\
    map snd (calls (sem_of d) n [([], [("c", VInt 3)]); ([], [])]) =
      [Ok (VTup [VStr "u"; VTup [VNone; VInt 3]]); Ok (VTup [VStr "u"; VTup [VNone; VInt 3]])].
Proof.
  cbv zeta.
  match goal with |- exists k n, function_class ?d = _ /\ _ => destruct (function_class d) as [k|] eqn:Ek end;
    [|vm_compute in Ek; discriminate].
  exists k. vm_compute in Ek. injection Ek as <-.
  match goal with |- exists n, _ /\ _ /\ _ /\ _ /\ _ /\ instantiate ?k ?p ?q = _ /\ _ =>
    destruct (instantiate k p q) as [n|] eqn:En end; [|vm_compute in En; discriminate].
  exists n. vm_compute in En. injection En as <-.
  split; [reflexivity|]. split; [vm_compute; reflexivity|].
  split; [repeat constructor; simpl; intuition discriminate|].
  split; [intro env; simpl; eexists; split; [reflexivity|]; repeat constructor|].
  split; [intros l h v; simpl; intros [E|[E|[E|[]]]]; injection E as <- <- <-; reflexivity|].
  split; [reflexivity | vm_compute; reflexivity].
Qed.

(* list_to_outputs(3) in the scenario of the former defect: [1,2,3] then [4,5] -- the second call
   now raises ValueError and the outputs keep [1,2,3]. *)
Example C17_list_to_outputs_length_checked : exists nd sem n1 n2,
  instantiate (from_list_class 3) [] [] = Ok nd /\
  call sem nd [VList [VInt 1; VInt 2; VInt 3]] [] = (n1, Ok (items_dict [VInt 1; VInt 2; VInt 3])) /\
  call sem n1 [VList [VInt 4; VInt 5]] [] = (n2, Err ValueErr) /\
  map c_value (n_out n2) = [VInt 1; VInt 2; VInt 3].
Proof.
  destruct (instantiate (from_list_class 3) [] []) as [nd|] eqn:E; [|vm_compute in E; discriminate].
  exists nd, (fun _ => VNone). vm_compute in E. injection E as <-.
  eexists. eexists. vm_compute. repeat split; reflexivity.
Qed.
