(* C02 -- any-of / all-of triggers fire exactly once; hand-wired flows follow the plain
   queue interpretation.  Only Theorem / exact / Print Assumptions; proofs in TrigProofs.v
   and FlowProofs.v. *)
From PW Require Import Base Trig TrigProofs Flow FlowProofs.

(* any-of: one run per completion that reaches the trigger *)
Theorem C02_anyof : forall calls,
  List.length (filter (fun b => b) (anyof_call calls)) = List.length calls.
Proof. exact anyof_once_per_call. Qed.
Print Assumptions C02_anyof.

(* all-of: for EVERY history of arrivals, bare calls, connections, disconnections and resets,
   the trigger fires exactly at the steps where every currently connected emitter has
   arrived since the last fire/reset -- never early (sound), never missed (complete) --
   provided scoped labels identify emitters (sibling labels are unique: C13). *)
Theorem C02_allof_fires_iff_round_complete : forall U, keys_faithful U ->
  forall ops, (forall o e, In o ops -> In e (op_emitters o) -> In e U) ->
  snd (trun acc0 ops) = trig_spec [] [] ops.
Proof.
  intros U KF ops HU. apply (allof_fires_iff_round_complete U KF ops acc0 [] []); auto.
  - split; [reflexivity|]. intros k. cbn. split; [discriminate|intros [e [[] _]]].
  - intros e [].
  - intros e [].
Qed.
Print Assumptions C02_allof_fires_iff_round_complete.

(* ... and then starts a fresh round *)
Theorem C02_allof_fresh : forall s o s', tstep s o = (s', true) -> a_recv s' = [].
Proof. exact allof_fresh. Qed.
Print Assumptions C02_allof_fresh.

(* Without the label hypothesis the statement is FALSE of the code: two emitters whose
   owners carry the same label are one key, the trigger fires after the first (S11). *)
Theorem C02_allof_refuted_equal_labels : exists ops,
  snd (trun acc0 ops) <> trig_spec [] [] ops.
Proof.
  exists [Connect {| e_id := 0; e_key := "a__ran" |}; Connect {| e_id := 3; e_key := "a__ran" |};
          Arrive {| e_id := 0; e_key := "a__ran" |}].
  vm_compute. discriminate.
Qed.
Print Assumptions C02_allof_refuted_equal_labels.

(* flows: for EVERY signal graph over function / comparison / If / all-of nodes, every fuel
   and every list of starting nodes, the loop as the code performs it (with per-node
   input caching) and the plain FIFO interpretation of the signal connections end in the
   same state: same execution order, values, received sets, errors -- or both diverge. *)
Theorem C02_flow_refines_queue : forall g fuel starting,
  match exec_run g fuel starting, spec_run g fuel starting with
  | EFinished e, Finished s => base e = s
  | EStartRefused e, StartRefused s => base e = s
  | EOutOfFuel, OutOfFuel => True
  | _, _ => False
  end.
Proof. exact flow_refines_queue. Qed.
Print Assumptions C02_flow_refines_queue.

(* non-vacuity: a while loop that turns three times and exits through the false branch *)
Example C02_while_loop :
  let g := [ {| f_kind := KLin 2; f_ins := [{| fi_init := Some 0%Z; fi_conns := [0] |}]; f_sig := [(ORan, [(1, IRun)])] |};
             {| f_kind := KLt 5; f_ins := [{| fi_init := None; fi_conns := [0] |}]; f_sig := [(ORan, [(2, IRun)])] |};
             {| f_kind := KIf; f_ins := [{| fi_init := None; fi_conns := [1] |}];
                f_sig := [(ORan, []); (OTrue, [(0, IRun)]); (OFalse, [(3, IRun)])] |};
             {| f_kind := KLin 100; f_ins := [{| fi_init := None; fi_conns := [0] |}]; f_sig := [] |} ] in
  match exec_run g 50 [0] with
  | EFinished e => prov (base e) = [0; 1; 2; 0; 1; 2; 0; 1; 2; 3] /\ nth 3 (outv (base e)) None = Some 106%Z
  | _ => False
  end.
Proof. vm_compute. split; reflexivity. Qed.
