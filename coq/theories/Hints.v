(* Hints.v -- the Python objects that type_hinting.py manipulates, as one Gallina type,
   and the primitives (typing.get_origin/get_args, issubclass, ==, type) that the
   *generated* file HintsGen.v (tools/py2gallina.py, from /repo's type_hinting.py) calls.
   Also [admits]: the denotation that valid_value (isinstance + typeguard 4.4, default
   collection_check_strategy = FIRST_ITEM) implements; validated against the real
   valid_value by the correspondence check on every run.  Stdlib only. *)
From PW Require Import Base.

Inductive cls := Object | Int | Bool | Float | Str | NoneT
               | ListC | DictC | TupleC | SetC | TypeC | CallableC | UA | UB | UC.
Inductive lit := LNone | LInt (z : Z) | LBool (b : bool) | LStr (s : string) | LEllipsis.
Inductive special := SUnionType | STypingUnion | SLiteral | SAnnotated.

(* every Python object the three functions can see is a [hint] *)
Inductive hint :=
| HCls (c : cls)                       (* a class object: int, list, NoneType, A, ...          *)
| HVal (v : lit)                       (* a non-class object: None, 1, True, "a", Ellipsis      *)
| HSpec (s : special)                  (* types.UnionType, typing.Union, typing.Literal, Annotated *)
| HPar (l : list hint)                 (* the parameter *list* inside Callable[[...], r]        *)
| HNew (l : list hint)                 (* X | Y                (types.UnionType)                *)
| HOld (l : list hint)                 (* typing.Union[...] / typing.Optional[...]              *)
| HLit (l : list lit)                  (* typing.Literal[...]                                   *)
| HAnn (h : hint)                      (* typing.Annotated[h, "meta"]                           *)
| HGen (o : cls) (l : list hint).      (* list[..] set[..] dict[..] tuple[..] type[..] Callable[[..], r] *)

Definition PyNone := HVal LNone.

Definition cls_eqb (a b : cls) : bool :=
  match a, b with
  | Object, Object | Int, Int | Bool, Bool | Float, Float | Str, Str | NoneT, NoneT
  | ListC, ListC | DictC, DictC | TupleC, TupleC | SetC, SetC | TypeC, TypeC
  | CallableC, CallableC | UA, UA | UB, UB | UC, UC => true
  | _, _ => false
  end.

Definition special_eqb (a b : special) : bool :=
  match a, b with
  | SUnionType, SUnionType | STypingUnion, STypingUnion | SLiteral, SLiteral
  | SAnnotated, SAnnotated => true
  | _, _ => false
  end.

(* issubclass on class objects *)
Definition subclass (a b : cls) : bool :=
  cls_eqb a b || match b with Object => true | _ => false end
  || match a, b with Bool, Int => true | UB, UA => true | _, _ => false end.

(* Python's == on the literal objects (1 == True!) *)
Definition lit_pyeq (a b : lit) : bool :=
  match a, b with
  | LNone, LNone => true
  | LEllipsis, LEllipsis => true
  | LStr x, LStr y => String.eqb x y
  | LInt x, LInt y => Z.eqb x y
  | LBool x, LBool y => Bool.eqb x y
  | LInt x, LBool y | LBool y, LInt x => Z.eqb x (if y then 1 else 0)
  | _, _ => false
  end.

(* type(obj) of a literal *)
Definition lit_cls (a : lit) : cls :=
  match a with LNone => NoneT | LInt _ => Int | LBool _ => Bool | LStr _ => Str
             | LEllipsis => UC (* ellipsis type: only needs to differ from the rest *) end.

(* typed equality: what Literal membership means for typeguard *)
Definition lit_same (a b : lit) : bool := lit_pyeq a b && cls_eqb (lit_cls a) (lit_cls b).

(* Python == on hint objects.  Unions/Literals compare as sets in CPython; the generator
   only produces such objects at positions where this function is never consulted on
   them with differing order (documented in DESIGN), so lists are compared in order. *)
Fixpoint py_eq (a b : hint) {struct a} : bool :=
  let fix eql (xs ys : list hint) {struct xs} : bool :=
      match xs, ys with
      | [], [] => true
      | x :: xs', y :: ys' => py_eq x y && eql xs' ys'
      | _, _ => false
      end in
  match a, b with
  | HCls x, HCls y => cls_eqb x y
  | HVal x, HVal y => lit_pyeq x y
  | HSpec x, HSpec y => special_eqb x y
  | HPar xs, HPar ys => eql xs ys
  | HNew xs, HNew ys => eql xs ys
  | HOld xs, HOld ys => eql xs ys
  | HLit xs, HLit ys =>
      (fix go (xs ys : list lit) : bool :=
         match xs, ys with
         | [], [] => true
         | x :: xs', y :: ys' => lit_same x y && go xs' ys'
         | _, _ => false
         end) xs ys
  | HAnn x, HAnn y => py_eq x y
  | HGen o xs, HGen p ys => cls_eqb o p && eql xs ys
  | _, _ => false
  end.

(* `x is y` is only ever applied to None, classes and typing specials in the source:
   for those identity and equality coincide *)
Definition py_is (a b : hint) : bool :=
  match a, b with
  | HCls x, HCls y => cls_eqb x y
  | HVal LNone, HVal LNone => true
  | HSpec x, HSpec y => special_eqb x y
  | _, _ => false
  end.

(* typing.get_origin *)
Definition get_origin (h : hint) : hint :=
  match h with
  | HNew _ => HSpec SUnionType
  | HOld _ => HSpec STypingUnion
  | HLit _ => HSpec SLiteral
  | HAnn _ => HSpec SAnnotated
  | HGen o _ => HCls o
  | _ => PyNone
  end.

(* typing.get_args *)
Definition get_args (h : hint) : list hint :=
  match h with
  | HNew l | HOld l | HGen _ l => l
  | HLit l => map HVal l
  | HAnn x => [x; HVal (LStr "meta")]
  | _ => []
  end.

(* the `__origin__` attribute, used on Annotated only *)
Definition dunder_origin (h : hint) : hint := match h with HAnn x => x | _ => h end.

(* isinstance(x, types.UnionType) *)
Definition is_uniontype (h : hint) : bool := match h with HNew _ => true | _ => false end.

(* issubclass(a, b): None = TypeError *)
Definition py_issubclass (a b : hint) : option bool :=
  match a, b with
  | HCls x, HCls y => Some (subclass x y)
  | _, _ => None
  end.

(* type(obj) *)
Definition py_type (h : hint) : hint :=
  match h with
  | HCls _ => HCls TypeC
  | HVal v => HCls (lit_cls v)
  | HPar _ => HCls ListC
  | HSpec s => HSpec s       (* each special form has a type of its own *)
  | HNew _ => HSpec SUnionType
  | HOld _ => HSpec STypingUnion
  | HLit _ => HSpec SLiteral
  | HAnn _ => HSpec SAnnotated
  | HGen _ _ => HCls Object  (* types.GenericAlias: any class distinct from the others *)
  end.

Definition try_issubclass (a b : hint) (on_type_error : bool) : bool :=
  match py_issubclass a b with Some r => r | None => on_type_error end.

(* all(... for ...) / any(... for ...) over generators whose body may hit the recursion
   limit (None): Python's short-circuit order is kept *)
Fixpoint all_opt {A} (f : A -> option bool) (l : list A) : option bool :=
  match l with
  | [] => Some true
  | x :: r => match f x with None => None | Some false => Some false | Some true => all_opt f r end
  end.
Fixpoint any_opt {A} (f : A -> option bool) (l : list A) : option bool :=
  match l with
  | [] => Some false
  | x :: r => match f x with None => None | Some true => Some true | Some false => any_opt f r end
  end.

(* zip(a, b, strict=False) *)
Definition zip {A B} (a : list A) (b : list B) : list (A * B) := combine a b.

(* {a, b} & {c, d} is non-empty *)
Definition sets_intersect (a b : list hint) : bool := existsb (fun x => memb py_eq x b) a.

Definition py_in (x : hint) (l : list hint) : bool := memb py_eq x l.

(* ---- values and the denotation of a hint ----------------------------------------- *)
Inductive val :=
| VNone | VBool (b : bool) | VInt (z : Z) | VFloat (z : Z) | VStr (s : string)
| VList (l : list val) | VTuple (l : list val) | VSet (l : list val)
| VDict (l : list (val * val)) | VCls (c : cls) | VFun (arity : nat) | VObj (c : cls).

Definition type_of (v : val) : cls :=
  match v with
  | VNone => NoneT | VBool _ => Bool | VInt _ => Int | VFloat _ => Float | VStr _ => Str
  | VList _ => ListC | VTuple _ => TupleC | VSet _ => SetC | VDict _ => DictC
  | VCls _ => TypeC | VFun _ => UC (* function type: any class outside the lattice *) | VObj c => c
  end.

Definition lit_matches (v : val) (l : lit) : bool :=
  match v, l with
  | VNone, LNone => true
  | VBool a, LBool b => Bool.eqb a b
  | VInt a, LInt b => Z.eqb a b
  | VStr a, LStr b => String.eqb a b
  | _, _ => false
  end.

Definition is_ellipsis (h : hint) : bool := match h with HVal LEllipsis => true | _ => false end.

(* isinstance / typeguard.check_type.  VFun's type is outside the class lattice. *)
Fixpoint admits (h : hint) (v : val) {struct h} : bool :=
  let fix admits_each (hs : list hint) (vs : list val) {struct hs} : bool :=
      match hs, vs with
      | [], [] => true
      | h :: hs', v :: vs' => admits h v && admits_each hs' vs'
      | _, _ => false
      end in
  let first_ok (a : hint) (l : list val) : bool :=
      match l with [] => true | x :: _ => admits a x end in
  match h with
  | HCls c => match v with VFun _ => match c with Object => true | _ => false end
                         | _ => subclass (type_of v) c end
  | HVal LNone => match v with VNone => true | _ => false end
  | HVal _ | HSpec _ | HPar _ => true
  | HNew l | HOld l => (fix any (l : list hint) : bool :=
                          match l with [] => false | x :: r => admits x v || any r end) l
  | HLit l => existsb (lit_matches v) l
  | HAnn x => admits x v
  | HGen ListC [a] => match v with VList l => first_ok a l | _ => false end
  | HGen SetC [a] => match v with VSet l => first_ok a l | _ => false end
  | HGen DictC [k; x] => match v with
                         | VDict [] => true
                         | VDict ((kv, xv) :: _) => admits k kv && admits x xv
                         | _ => false end
  | HGen TupleC [a; HVal LEllipsis] => match v with VTuple l => first_ok a l | _ => false end
  | HGen TupleC hs => match v with VTuple l => admits_each hs l | _ => false end
  | HGen TypeC [HCls c] => match v with VCls d => subclass d c | _ => false end
  | HGen CallableC [HPar ps; _] => match v with VFun n => Nat.eqb n (List.length ps) | _ => false end
  | HGen _ _ => false
  end.

(* size, the termination measure of the comparison *)
Fixpoint hsize (h : hint) : nat :=
  let fix sum (l : list hint) : nat := match l with [] => 0 | x :: r => hsize x + sum r end in
  match h with
  | HPar l | HNew l | HOld l | HGen _ l => S (sum l)
  | HLit l => S (List.length l)
  | HAnn x => S (hsize x)
  | _ => 1
  end.

Fixpoint hsum (l : list hint) : nat := match l with [] => 0 | x :: r => hsize x + hsum r end.

(* ---- observation encoders (for the correspondence check) --------------------------- *)
Definition obs_ob (o : option bool) : obs :=
  match o with None => OS "RecursionError" | Some b => ob b end.

(* ---- well-formed hints: the fragment the soundness/reflexivity theorems range over ---- *)
Definition is_ann (h : hint) : bool := match h with HAnn _ => true | _ => false end.

(* classes, both spellings of unions, Literal, Annotated (not nested: Python flattens),
   list/set/dict/fixed-length tuple/type generics.  Variadic tuples and Callable are
   covered by the correspondence check and the oracle only (DESIGN C04). *)
Fixpoint wf (h : hint) : bool :=
  let fix all (l : list hint) : bool := match l with [] => true | x :: r => wf x && all r end in
  match h with
  | HCls c => negb (cls_eqb c CallableC)
  | HNew l | HOld l => all l
  | HLit l => negb (existsb (fun v => match v with LEllipsis => true | _ => false end) l)
  | HAnn x => wf x && negb (is_ann x)
  | HGen ListC [a] | HGen SetC [a] => wf a
  | HGen DictC [k; v] => wf k && wf v
  | HGen TupleC l => all l
  | HGen TypeC [HCls c] => negb (cls_eqb c CallableC)
  | _ => false
  end.

Fixpoint wf_all (l : list hint) : bool := match l with [] => true | x :: r => wf x && wf_all r end.

(* no tuple[()] anywhere (known finding S3) *)
Fixpoint no_empty_tuple (h : hint) : bool :=
  let fix all (l : list hint) : bool := match l with [] => true | x :: r => no_empty_tuple x && all r end in
  match h with
  | HPar l | HNew l | HOld l => all l
  | HAnn x => no_empty_tuple x
  | HGen TupleC [] => false
  | HGen _ l => all l
  | _ => true
  end.

Fixpoint net_all (l : list hint) : bool := match l with [] => true | x :: r => no_empty_tuple x && net_all r end.
