(* PollProofs.v -- the wait loop never exits while a signal is queued or a callback is unfinished,
   under EVERY interleaving of list accesses (Poll.v, code orders); each of the two reorderings
   loses a signal on some interleaving. *)
From PW Require Import Base Poll.

Lemma assoc_In_fst {B} j (l : list (nat * B)) k : assoc Nat.eqb j l = Some k -> In j (map fst l).
Proof.
  induction l as [|[j' v] r IH]; cbn; [discriminate|].
  destruct (Nat.eqb j j') eqn:E; intros H.
  - left. apply Nat.eqb_eq in E. symmetry. exact E.
  - right. apply IH. exact H.
Qed.

Lemma map_fst_upd_in {B} j (v : B) l : In j (map fst l) -> map fst (upd Nat.eqb j v l) = map fst l.
Proof.
  induction l as [|[j' v'] r IH]; cbn; [intros []|].
  destruct (Nat.eqb j j') eqn:E; intros H; cbn.
  - apply Nat.eqb_eq in E. subst. reflexivity.
  - f_equal. apply IH. destruct H as [H|H]; [|exact H]. subst. rewrite Nat.eqb_refl in E. discriminate.
Qed.

Lemma in_map_fst_del {B} x j (l : list (nat * B)) :
  In x (map fst (del Nat.eqb j l)) <-> x <> j /\ In x (map fst l).
Proof.
  induction l as [|[j' v'] r IH]; cbn; [tauto|].
  destruct (Nat.eqb j j') eqn:E.
  - apply Nat.eqb_eq in E. subst j'. rewrite IH. split; [tauto|]. intros [Hn [H|H]]; [congruence|tauto].
  - apply Nat.eqb_neq in E. cbn. rewrite IH. split.
    + intros [H|H]; [subst; split; [congruence|tauto] | tauto].
    + intros [Hn [H|H]]; [left; exact H | right; tauto].
Qed.

Lemma nodup_map_fst_del {B} j (l : list (nat * B)) : NoDup (map fst l) -> NoDup (map fst (del Nat.eqb j l)).
Proof.
  induction l as [|[j' v'] r IH]; cbn; [intros; constructor|].
  intros H. inversion H as [|? ? Hn Hr]; subst.
  destruct (Nat.eqb j j'); [apply IH; exact Hr|].
  cbn. constructor; [|apply IH; exact Hr].
  intros Hin. apply in_map_fst_del in Hin. tauto.
Qed.

Lemma in_remove1_neq x j l : x <> j -> In x l -> In x (remove1 Nat.eqb j l).
Proof.
  intros Hn. induction l as [|y r IH]; cbn; [tauto|].
  destruct (Nat.eqb j y) eqn:E; intros [H|H].
  - apply Nat.eqb_eq in E. congruence.
  - exact H.
  - left. exact H.
  - right. apply IH. exact H.
Qed.

Lemma nodupb_NoDup l : nodupb Nat.eqb l = true -> NoDup l.
Proof.
  induction l as [|x r IH]; cbn; [constructor|].
  intros H. apply andb_true_iff in H. destruct H as [H1 H2]. constructor; [|apply IH; exact H2].
  intros Hin. apply memn_In in Hin. unfold memn in Hin. rewrite Hin in H1. discriminate.
Qed.

Lemma fresh_spec s starts : fresh s starts = true ->
  NoDup (map fst starts) /\ forall j, In j (map fst starts) -> ~ In j (map fst (workers s)).
Proof.
  unfold fresh. intros H. apply andb_true_iff in H. destruct H as [H1 H2]. split; [apply nodupb_NoDup; exact H1|].
  intros j Hj Hin. rewrite forallb_forall in H2. specialize (H2 j Hj).
  apply memn_In in Hin. rewrite Hin in H2. discriminate.
Qed.

Lemma NoDup_app_intro (a b : list nat) :
  NoDup a -> NoDup b -> (forall x, In x b -> ~ In x a) -> NoDup (a ++ b).
Proof.
  intros Ha Hb Hd. induction a as [|x r IH]; cbn; [exact Hb|].
  inversion Ha as [|? ? Hn Hr]; subst. constructor.
  - intros Hin. apply in_app_or in Hin. destruct Hin as [H|H]; [tauto|]. apply (Hd x H). left. reflexivity.
  - apply IH; [exact Hr|]. intros y Hy Hin. apply (Hd y Hy). right. exact Hin.
Qed.

(* ---- the invariant of the code's orders ------------------------------------------------- *)
Definition Inv (s : pstate) : Prop :=
  NoDup (map fst (workers s)) /\
  (forall j, In j (map fst (workers s)) -> In j (running s)) /\
  ((pc s = PQueue \/ pc s = PExit) -> running s = []) /\
  (pc s = PExit -> queue s = 0).

Lemma inv_init enq starts : nodupb Nat.eqb (map fst starts) = true -> Inv (pinit false enq starts).
Proof.
  intros H. unfold Inv, pinit, first_pc; cbn. repeat split.
  - apply nodupb_NoDup. exact H.
  - intros j Hj. exact Hj.
  - intros [E|E]; discriminate.
  - discriminate.
Qed.

Lemma inv_step s o : Inv s -> Inv (pstep false false s o).
Proof.
  intros (I1 & I2 & I3 & I4). destruct o as [|enq starts|j]; cbn.
  - (* read *)
    destruct (pc s) eqn:Epc; cbn.
    + destruct (running s) eqn:Er; unfold Inv; cbn; rewrite ?Er; repeat split; auto; try discriminate;
        try (intros [E|E]; discriminate).
    + destruct (queue s) eqn:Eq; unfold Inv; cbn; repeat split; auto; try discriminate;
        try (intros _; apply I3; left; reflexivity); try (intros [E|E]; discriminate).
    + unfold Inv; cbn. rewrite Epc. repeat split; auto; try discriminate; try (intros [E|E]; discriminate).
    + unfold Inv; cbn. rewrite Epc. repeat split; auto.
  - (* body *)
    destruct (pc s) eqn:Epc; cbn; try (unfold Inv; cbn; rewrite Epc; repeat split; auto; fail).
    destruct (queue s) as [|q] eqn:Eq.
    + destruct enq; [destruct starts|]; unfold Inv, first_pc; cbn; rewrite ?Epc; repeat split; auto; try discriminate;
        try (intros [E|E]; discriminate).
    + destruct (fresh s starts) eqn:Ef.
      * apply fresh_spec in Ef. destruct Ef as [F1 F2]. unfold Inv, first_pc; cbn. rewrite !map_app. repeat split.
        -- apply NoDup_app_intro; auto.
        -- intros j Hj. apply in_or_app. apply in_app_or in Hj. destruct Hj as [H|H]; [left; apply I2; exact H | right; exact H].
        -- intros [E|E]; discriminate.
        -- discriminate.
      * unfold Inv; cbn. rewrite Epc. repeat split; auto; try discriminate; try (intros [E|E]; discriminate).
  - (* worker *)
    destruct (assoc Nat.eqb j (workers s)) as [k|] eqn:Ea; [|unfold Inv; cbn; repeat split; auto].
    pose proof (assoc_In_fst _ _ _ Ea) as Hj.
    assert (Hrun : In j (running s)) by (apply I2; exact Hj).
    assert (Hpc : ~ (pc s = PQueue \/ pc s = PExit)).
    { intros H. rewrite (I3 H) in Hrun. exact Hrun. }
    destruct k as [|k']; unfold Inv; cbn.
    + repeat split.
      * apply nodup_map_fst_del. exact I1.
      * intros x Hx. apply in_map_fst_del in Hx. destruct Hx as [Hn Hx]. apply in_remove1_neq; [exact Hn | apply I2; exact Hx].
      * intros H. tauto.
      * intros H. exfalso. apply Hpc. right. exact H.
    + rewrite (map_fst_upd_in j k' (workers s) Hj). repeat split; auto.
      intros H. exfalso. apply Hpc. right. exact H.
Qed.

Lemma inv_run ops : forall s, Inv s -> Inv (prun false false s ops).
Proof.
  induction ops as [|o r IH]; cbn; intros s H; [exact H|]. apply IH. apply inv_step. exact H.
Qed.

Theorem poll_exit_quiescent enq starts ops :
  nodupb Nat.eqb (map fst starts) = true ->
  let s := prun false false (pinit false enq starts) ops in
  pc s = PExit -> running s = [] /\ workers s = [] /\ queue s = 0.
Proof.
  intros H s E. destruct (inv_run ops _ (inv_init enq starts H)) as (I1 & I2 & I3 & I4). fold s in I1, I2, I3, I4.
  assert (Hr : running s = []) by (apply I3; right; exact E).
  repeat split; [exact Hr | | apply I4; exact E].
  destruct (workers s) as [|[j k] r] eqn:Ew; [reflexivity|].
  exfalso. specialize (I2 j). cbn in I2. rewrite Hr in I2. apply I2. left. reflexivity.
Qed.

(* the parent is never stuck: whatever the state, its next step is enabled *)
Theorem poll_parent_enabled s : bad s = false -> pc s <> PExit ->
  exists o, match o with OW _ => False | _ => True end /\ bad (pstep false false s o) = false.
Proof.
  intros Hb Hp. destruct (pc s) eqn:E; [exists ORead | exists ORead | exists (OBody 0 []) | congruence]; cbn; rewrite E; split; auto.
  - destruct (running s); cbn; exact Hb.
  - destruct (queue s); cbn; exact Hb.
  - destruct (queue s); cbn; exact Hb.
Qed.

(* ---- what the theorem excludes ----------------------------------------------------------- *)
(* reading the queue first: the job comes back between the two reads *)
Theorem poll_queue_first_refuted :
  exists ops, let s := prun true false (pinit true 0 [(0, 1)]) ops in
              pc s = PExit /\ queue s = 1 /\ bad s = false.
Proof. exists [ORead; OW 0; OW 0; ORead]. vm_compute. repeat split. Qed.

(* un-registering before enqueueing: the parent looks in between *)
Theorem poll_unregister_first_refuted :
  exists ops, let s := prun false true (pinit false 0 [(0, 1)]) ops in
              pc s = PExit /\ queue s = 1 /\ bad s = false.
Proof. exists [OW 0; ORead; ORead; OW 0]. vm_compute. repeat split. Qed.

(* non-vacuity: an interleaved history of the code's orders that exits, after everything was consumed *)
Example poll_example :
  let ops := [ORead; OW 0; OBody 1 [(1, 0)]; ORead; OW 0; OW 1; OBody 0 []; ORead; ORead] in
  let s := prun false false (pinit false 0 [(0, 1)]) ops in
  pc s = PExit /\ bad s = false.
Proof. vm_compute. split; reflexivity. Qed.

(* ---- no lost wake-up: once deliveries stop handing out work, the loop can always finish ---------- *)
Definition Inv2 (s : pstate) : Prop :=
  Inv s /\ NoDup (running s) /\ (forall j, In j (running s) -> In j (map fst (workers s))).

Lemma in_remove1_inv x j l : In x (remove1 Nat.eqb j l) -> In x l.
Proof.
  induction l as [|y r IH]; cbn; [tauto|]. destruct (Nat.eqb j y); [intros H; right; exact H|].
  intros [H|H]; [left; exact H | right; apply IH; exact H].
Qed.

Lemma nodup_remove1 j l : NoDup l -> NoDup (remove1 Nat.eqb j l) /\ ~ In j (remove1 Nat.eqb j l).
Proof.
  induction l as [|y r IH]; cbn; intros H; [split; [constructor | tauto]|].
  inversion H as [|? ? Hn Hr]; subst. destruct (Nat.eqb j y) eqn:E.
  - apply Nat.eqb_eq in E. subst. split; assumption.
  - apply Nat.eqb_neq in E. destruct (IH Hr) as [H1 H2]. split.
    + constructor; [|exact H1]. intros Hin. apply Hn. apply in_remove1_inv in Hin. exact Hin.
    + intros [Hy|Hin]; [congruence | tauto].
Qed.

Lemma inv2_init enq starts : nodupb Nat.eqb (map fst starts) = true -> Inv2 (pinit false enq starts).
Proof.
  intros H. split; [apply inv_init; exact H|]. cbn. split; [apply nodupb_NoDup; exact H | tauto].
Qed.

Lemma inv2_step s o : Inv2 s -> Inv2 (pstep false false s o).
Proof.
  intros [HI [Hn Hr]]. split; [apply inv_step; exact HI|].
  destruct HI as (I1 & I2 & I3 & I4).
  destruct o as [|enq starts|j]; cbn.
  - destruct (pc s); cbn; try (split; assumption);
      [destruct (running s) eqn:E; cbn; rewrite ?E; split; assumption | destruct (queue s); cbn; split; assumption].
  - destruct (pc s); cbn; try (split; assumption).
    destruct (queue s) as [|q]; [destruct enq; [destruct starts|]; cbn; split; assumption|].
    destruct (fresh s starts) eqn:Ef; cbn; [|split; assumption].
    apply fresh_spec in Ef. destruct Ef as [F1 F2]. rewrite map_app. split.
    + apply NoDup_app_intro; auto. intros x Hx Hin. apply (F2 x Hx). apply Hr. exact Hin.
    + intros x Hx. apply in_or_app. apply in_app_or in Hx. destruct Hx as [H|H]; [left; apply Hr; exact H | right; exact H].
  - destruct (assoc Nat.eqb j (workers s)) as [k|] eqn:Ea; cbn; [|split; assumption].
    pose proof (assoc_In_fst _ _ _ Ea) as Hj.
    destruct k as [|k']; cbn.
    + destruct (nodup_remove1 j (running s) Hn) as [N1 N2]. split; [exact N1|].
      intros x Hx. apply in_map_fst_del. split; [intros E; subst; tauto | apply Hr; apply in_remove1_inv in Hx; exact Hx].
    + rewrite (map_fst_upd_in j k' (workers s) Hj). split; assumption.
Qed.

Lemma inv2_run ops : forall s, Inv2 s -> Inv2 (prun false false s ops).
Proof. induction ops as [|o r IH]; cbn; intros s H; [exact H|]. apply IH. apply inv2_step. exact H. Qed.

Lemma prun_app s a b : prun false false s (a ++ b) = prun false false (prun false false s a) b.
Proof. unfold prun. apply fold_left_app. Qed.

(* one callback runs to its end *)
Lemma finish_one j : forall k s, assoc Nat.eqb j (workers s) = Some k ->
  let s' := prun false false s (repeat (OW j) (S k)) in
  workers s' = del Nat.eqb j (workers s) /\ pc s' = pc s /\ bad s' = bad s.
Proof.
  induction k as [|k IH]; intros s Ha; cbn.
  - rewrite Ha. cbn. repeat split.
  - rewrite Ha. cbn.
    set (s1 := {| pc := pc s; running := running s; queue := S (queue s); workers := upd Nat.eqb j k (workers s);
                  gone := gone s; bad := bad s |}).
    assert (Ha1 : assoc Nat.eqb j (workers s1) = Some k).
    { cbn. clear - Ha. induction (workers s) as [|[j' v'] r IHr]; cbn in *; [discriminate|].
      destruct (Nat.eqb j j') eqn:E; cbn; [rewrite Nat.eqb_refl; reflexivity | rewrite E; apply IHr; exact Ha]. }
    destruct (IH s1 Ha1) as (W & P & B). cbn in W, P, B. cbn. rewrite W, P, B. repeat split.
    clear. induction (workers s) as [|[j' v'] r IHr]; cbn; [rewrite Nat.eqb_refl; reflexivity|].
    destruct (Nat.eqb j j') eqn:E; cbn; [rewrite Nat.eqb_refl; reflexivity | rewrite E; f_equal; exact IHr].
Qed.

Lemma del_shorter {B} j (l : list (nat * B)) v : assoc Nat.eqb j l = Some v ->
  List.length (del Nat.eqb j l) < List.length l.
Proof.
  induction l as [|[j' v'] r IH]; cbn; [discriminate|].
  assert (Hle : forall (l0 : list (nat * B)), List.length (del Nat.eqb j l0) <= List.length l0).
  { induction l0 as [|[a b] r0 IH0]; cbn; [lia|]. destruct (Nat.eqb j a); cbn; lia. }
  destruct (Nat.eqb j j'); intros H; [specialize (Hle r); lia | specialize (IH H); cbn; lia].
Qed.

(* all callbacks run to their ends *)
Lemma finish_all : forall n s, List.length (workers s) <= n ->
  exists ops, let s' := prun false false s ops in workers s' = [] /\ pc s' = pc s /\ bad s' = bad s.
Proof.
  induction n as [|n IH]; intros s Hl.
  - exists []. cbn. destruct (workers s); [repeat split | cbn in Hl; lia].
  - destruct (workers s) as [|[j k] r] eqn:Ew; [exists []; cbn; rewrite Ew; repeat split|].
    assert (Ha : assoc Nat.eqb j (workers s) = Some k) by (rewrite Ew; cbn; rewrite Nat.eqb_refl; reflexivity).
    destruct (finish_one j k s Ha) as (W & P & B).
    set (s1 := prun false false s (repeat (OW j) (S k))) in *.
    assert (Hl1 : List.length (workers s1) <= n).
    { rewrite W. pose proof (del_shorter j (workers s) k Ha) as Hd.
      assert (Hlen : List.length (workers s) = S (List.length r)) by (rewrite Ew; reflexivity). cbn in Hl. lia. }
    destruct (IH s1 Hl1) as [ops (W2 & P2 & B2)].
    exists (repeat (OW j) (S k) ++ ops). cbn zeta. rewrite prun_app. fold s1. cbn zeta in W2, P2, B2.
    rewrite W2, P2, B2, P, B. repeat split.
Qed.

(* the parent alone, nothing out: it pops what is queued and leaves *)
Lemma parent_drains : forall q s, queue s = q -> running s = [] -> workers s = [] -> pc s <> PExit ->
  exists ops, let s' := prun false false s ops in pc s' = PExit /\ bad s' = bad s.
Proof.
  induction q as [|q IH]; intros s Hq Hr Hw Hp.
  - destruct (pc s) eqn:E; [exists [ORead; ORead] | exists [ORead] | exists [OBody 0 []; ORead; ORead] | congruence];
      cbn; rewrite ?E, ?Hr, ?Hq; cbn; rewrite ?Hr, ?Hq; cbn; rewrite ?Hr, ?Hq; cbn; split; reflexivity.
  - assert (Hbody : forall s0, queue s0 = S q -> running s0 = [] -> workers s0 = [] -> pc s0 = PBody ->
                     exists ops, let s' := prun false false s0 ops in pc s' = PExit /\ bad s' = bad s0).
    { intros s0 Hq0 Hr0 Hw0 Hp0.
      set (s1 := pstep false false s0 (OBody 0 [])).
      assert (E1 : s1 = {| pc := PRun; running := running s0 ++ []; queue := q + 0; workers := workers s0 ++ [];
                           gone := gone s0; bad := bad s0 |}).
      { unfold s1. cbn. rewrite Hp0, Hq0. unfold fresh. cbn. reflexivity. }
      destruct (IH s1) as [ops [P B]]; try (rewrite E1; cbn; rewrite ?Hr0, ?Hw0; try reflexivity; try lia; discriminate).
      exists (OBody 0 [] :: ops). cbn zeta.
      change (prun false false s0 (OBody 0 [] :: ops)) with (prun false false s1 ops).
      cbn zeta in P, B. rewrite P, B, E1. cbn. split; reflexivity. }
    destruct (pc s) eqn:E.
    + (* PRun: read running (empty) -> PQueue; read queue (S q) -> PBody *)
      set (s2 := prun false false s [ORead; ORead]).
      assert (E2 : pc s2 = PBody /\ queue s2 = S q /\ running s2 = [] /\ workers s2 = [] /\ bad s2 = bad s).
      { unfold s2. cbn. rewrite E, Hr. cbn. rewrite Hq. cbn. rewrite Hr, Hw, Hq. repeat split. }
      destruct E2 as (P2 & Q2 & R2 & W2 & B2). destruct (Hbody s2 Q2 R2 W2 P2) as [ops [P B]].
      exists ([ORead; ORead] ++ ops). cbn zeta. rewrite prun_app. fold s2. cbn zeta in P, B. rewrite P, B, B2. split; reflexivity.
    + set (s2 := prun false false s [ORead]).
      assert (E2 : pc s2 = PBody /\ queue s2 = S q /\ running s2 = [] /\ workers s2 = [] /\ bad s2 = bad s).
      { unfold s2. cbn. rewrite E, Hq. cbn. rewrite Hr, Hw, Hq. repeat split. }
      destruct E2 as (P2 & Q2 & R2 & W2 & B2). destruct (Hbody s2 Q2 R2 W2 P2) as [ops [P B]].
      exists ([ORead] ++ ops). cbn zeta. rewrite prun_app. fold s2. cbn zeta in P, B. rewrite P, B, B2. split; reflexivity.
    + apply Hbody; assumption.
    + congruence.
Qed.

Theorem poll_can_always_finish enq starts ops :
  nodupb Nat.eqb (map fst starts) = true ->
  let s := prun false false (pinit false enq starts) ops in
  exists more, let s' := prun false false s more in pc s' = PExit /\ bad s' = bad s.
Proof.
  intros H s. destruct (inv2_run ops _ (inv2_init enq starts H)) as [HI [Hn Hr]]. fold s in HI, Hn, Hr.
  destruct (Poll.pc s) eqn:Epc; try (exists []; cbn; split; [exact Epc | reflexivity]).
  all: destruct (finish_all (List.length (workers s)) s (le_n _)) as [o1 (W & P & B)];
    set (s1 := prun false false s o1) in *;
    assert (HI1 : Inv2 s1) by (apply inv2_run; split; [exact HI | split; assumption]);
    destruct HI1 as [_ [_ Hr1]];
    assert (R1 : running s1 = []) by (destruct (running s1) as [|x r] eqn:E; [reflexivity | exfalso; specialize (Hr1 x (or_introl eq_refl)); rewrite W in Hr1; exact Hr1]);
    assert (P1 : pc s1 <> PExit) by (rewrite P, Epc; discriminate);
    destruct (parent_drains (queue s1) s1 eq_refl R1 W P1) as [o2 [P2 B2]];
    exists (o1 ++ o2); cbn zeta; rewrite prun_app; fold s1; cbn zeta in P2, B2; rewrite P2, B2, B; split; reflexivity.
Qed.
