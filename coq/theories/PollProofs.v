(* PollProofs.v -- the wait loop never exits while a signal is queued or a callback is unfinished,
   under EVERY interleaving of list accesses (Poll.v, code orders); each of the two reorderings
   loses a signal on some interleaving. *)
From PW Require Import Base Poll.

Lemma assoc_In_fst {B} j (l : list (nat * B)) k : assoc Nat.eqb j l = Some k -> In j (map fst l).
Proof.
  induction l as [|[j' v] r IH]; cbn; [discriminate|].
  destruct (Nat.eqb j j') eqn:E; intros H.
  - left. apply Nat.eqb_eq in E. symmetry. exact E.
  - right. apply IH. exact H.
Qed.

Lemma map_fst_upd_in {B} j (v : B) l : In j (map fst l) -> map fst (upd Nat.eqb j v l) = map fst l.
Proof.
  induction l as [|[j' v'] r IH]; cbn; [intros []|].
  destruct (Nat.eqb j j') eqn:E; intros H; cbn.
  - apply Nat.eqb_eq in E. subst. reflexivity.
  - f_equal. apply IH. destruct H as [H|H]; [|exact H]. subst. rewrite Nat.eqb_refl in E. discriminate.
Qed.

Lemma in_map_fst_del {B} x j (l : list (nat * B)) :
  In x (map fst (del Nat.eqb j l)) <-> x <> j /\ In x (map fst l).
Proof.
  induction l as [|[j' v'] r IH]; cbn; [tauto|].
  destruct (Nat.eqb j j') eqn:E.
  - apply Nat.eqb_eq in E. subst j'. rewrite IH. split; [tauto|]. intros [Hn [H|H]]; [congruence|tauto].
  - apply Nat.eqb_neq in E. cbn. rewrite IH. split.
    + intros [H|H]; [subst; split; [congruence|tauto] | tauto].
    + intros [Hn [H|H]]; [left; exact H | right; tauto].
Qed.

Lemma nodup_map_fst_del {B} j (l : list (nat * B)) : NoDup (map fst l) -> NoDup (map fst (del Nat.eqb j l)).
Proof.
  induction l as [|[j' v'] r IH]; cbn; [intros; constructor|].
  intros H. inversion H as [|? ? Hn Hr]; subst.
  destruct (Nat.eqb j j'); [apply IH; exact Hr|].
  cbn. constructor; [|apply IH; exact Hr].
  intros Hin. apply in_map_fst_del in Hin. tauto.
Qed.

Lemma in_remove1_neq x j l : x <> j -> In x l -> In x (remove1 Nat.eqb j l).
Proof.
  intros Hn. induction l as [|y r IH]; cbn; [tauto|].
  destruct (Nat.eqb j y) eqn:E; intros [H|H].
  - apply Nat.eqb_eq in E. congruence.
  - exact H.
  - left. exact H.
  - right. apply IH. exact H.
Qed.

Lemma nodupb_NoDup l : nodupb Nat.eqb l = true -> NoDup l.
Proof.
  induction l as [|x r IH]; cbn; [constructor|].
  intros H. apply andb_true_iff in H. destruct H as [H1 H2]. constructor; [|apply IH; exact H2].
  intros Hin. apply memn_In in Hin. unfold memn in Hin. rewrite Hin in H1. discriminate.
Qed.

Lemma fresh_spec s starts : fresh s starts = true ->
  NoDup (map fst starts) /\ forall j, In j (map fst starts) -> ~ In j (map fst (workers s)).
Proof.
  unfold fresh. intros H. apply andb_true_iff in H. destruct H as [H1 H2]. split; [apply nodupb_NoDup; exact H1|].
  intros j Hj Hin. rewrite forallb_forall in H2. specialize (H2 j Hj).
  apply memn_In in Hin. rewrite Hin in H2. discriminate.
Qed.

Lemma NoDup_app_intro (a b : list nat) :
  NoDup a -> NoDup b -> (forall x, In x b -> ~ In x a) -> NoDup (a ++ b).
Proof.
  intros Ha Hb Hd. induction a as [|x r IH]; cbn; [exact Hb|].
  inversion Ha as [|? ? Hn Hr]; subst. constructor.
  - intros Hin. apply in_app_or in Hin. destruct Hin as [H|H]; [tauto|]. apply (Hd x H). left. reflexivity.
  - apply IH; [exact Hr|]. intros y Hy Hin. apply (Hd y Hy). right. exact Hin.
Qed.

(* ---- the invariant of the code's orders ------------------------------------------------- *)
Definition Inv (s : pstate) : Prop :=
  NoDup (map fst (workers s)) /\
  (forall j, In j (map fst (workers s)) -> In j (running s)) /\
  ((pc s = PQueue \/ pc s = PExit) -> running s = []) /\
  (pc s = PExit -> queue s = 0).

Lemma inv_init enq starts : nodupb Nat.eqb (map fst starts) = true -> Inv (pinit false enq starts).
Proof.
  intros H. unfold Inv, pinit, first_pc; cbn. repeat split.
  - apply nodupb_NoDup. exact H.
  - intros j Hj. exact Hj.
  - intros [E|E]; discriminate.
  - discriminate.
Qed.

Lemma inv_step s o : Inv s -> Inv (pstep false false s o).
Proof.
  intros (I1 & I2 & I3 & I4). destruct o as [|enq starts|j]; cbn.
  - (* read *)
    destruct (pc s) eqn:Epc; cbn.
    + destruct (running s) eqn:Er; unfold Inv; cbn; rewrite ?Er; repeat split; auto; try discriminate;
        try (intros [E|E]; discriminate).
    + destruct (queue s) eqn:Eq; unfold Inv; cbn; repeat split; auto; try discriminate;
        try (intros _; apply I3; left; reflexivity); try (intros [E|E]; discriminate).
    + unfold Inv; cbn. rewrite Epc. repeat split; auto; try discriminate; try (intros [E|E]; discriminate).
    + unfold Inv; cbn. rewrite Epc. repeat split; auto.
  - (* body *)
    destruct (pc s) eqn:Epc; cbn; try (unfold Inv; cbn; rewrite Epc; repeat split; auto; fail).
    destruct (queue s) as [|q] eqn:Eq.
    + destruct enq; [destruct starts|]; unfold Inv, first_pc; cbn; rewrite ?Epc; repeat split; auto; try discriminate;
        try (intros [E|E]; discriminate).
    + destruct (fresh s starts) eqn:Ef.
      * apply fresh_spec in Ef. destruct Ef as [F1 F2]. unfold Inv, first_pc; cbn. rewrite !map_app. repeat split.
        -- apply NoDup_app_intro; auto.
        -- intros j Hj. apply in_or_app. apply in_app_or in Hj. destruct Hj as [H|H]; [left; apply I2; exact H | right; exact H].
        -- intros [E|E]; discriminate.
        -- discriminate.
      * unfold Inv; cbn. rewrite Epc. repeat split; auto; try discriminate; try (intros [E|E]; discriminate).
  - (* worker *)
    destruct (assoc Nat.eqb j (workers s)) as [k|] eqn:Ea; [|unfold Inv; cbn; repeat split; auto].
    pose proof (assoc_In_fst _ _ _ Ea) as Hj.
    assert (Hrun : In j (running s)) by (apply I2; exact Hj).
    assert (Hpc : ~ (pc s = PQueue \/ pc s = PExit)).
    { intros H. rewrite (I3 H) in Hrun. exact Hrun. }
    destruct k as [|k']; unfold Inv; cbn.
    + repeat split.
      * apply nodup_map_fst_del. exact I1.
      * intros x Hx. apply in_map_fst_del in Hx. destruct Hx as [Hn Hx]. apply in_remove1_neq; [exact Hn | apply I2; exact Hx].
      * intros H. tauto.
      * intros H. exfalso. apply Hpc. right. exact H.
    + rewrite (map_fst_upd_in j k' (workers s) Hj). repeat split; auto.
      intros H. exfalso. apply Hpc. right. exact H.
Qed.

Lemma inv_run ops : forall s, Inv s -> Inv (prun false false s ops).
Proof.
  induction ops as [|o r IH]; cbn; intros s H; [exact H|]. apply IH. apply inv_step. exact H.
Qed.

Theorem poll_exit_quiescent enq starts ops :
  nodupb Nat.eqb (map fst starts) = true ->
  let s := prun false false (pinit false enq starts) ops in
  pc s = PExit -> running s = [] /\ workers s = [] /\ queue s = 0.
Proof.
  intros H s E. destruct (inv_run ops _ (inv_init enq starts H)) as (I1 & I2 & I3 & I4). fold s in I1, I2, I3, I4.
  assert (Hr : running s = []) by (apply I3; right; exact E).
  repeat split; [exact Hr | | apply I4; exact E].
  destruct (workers s) as [|[j k] r] eqn:Ew; [reflexivity|].
  exfalso. specialize (I2 j). cbn in I2. rewrite Hr in I2. apply I2. left. reflexivity.
Qed.

(* the parent is never stuck: whatever the state, its next step is enabled *)
Theorem poll_parent_enabled s : bad s = false -> pc s <> PExit ->
  exists o, match o with OW _ => False | _ => True end /\ bad (pstep false false s o) = false.
Proof.
  intros Hb Hp. destruct (pc s) eqn:E; [exists ORead | exists ORead | exists (OBody 0 []) | congruence]; cbn; rewrite E; split; auto.
  - destruct (running s); cbn; exact Hb.
  - destruct (queue s); cbn; exact Hb.
  - destruct (queue s); cbn; exact Hb.
Qed.

(* ---- what the theorem excludes ----------------------------------------------------------- *)
(* reading the queue first: the job comes back between the two reads *)
Theorem poll_queue_first_refuted :
  exists ops, let s := prun true false (pinit true 0 [(0, 1)]) ops in
              pc s = PExit /\ queue s = 1 /\ bad s = false.
Proof. exists [ORead; OW 0; OW 0; ORead]. vm_compute. repeat split. Qed.

(* un-registering before enqueueing: the parent looks in between *)
Theorem poll_unregister_first_refuted :
  exists ops, let s := prun false true (pinit false 0 [(0, 1)]) ops in
              pc s = PExit /\ queue s = 1 /\ bad s = false.
Proof. exists [OW 0; ORead; ORead; OW 0]. vm_compute. repeat split. Qed.

(* non-vacuity: an interleaved history of the code's orders that exits, after everything was consumed *)
Example poll_example :
  let ops := [ORead; OW 0; OBody 1 [(1, 0)]; ORead; OW 0; OW 1; OBody 0 []; ORead; ORead] in
  let s := prun false false (pinit false 0 [(0, 1)]) ops in
  pc s = PExit /\ bad s = false.
Proof. vm_compute. split; reflexivity. Qed.
