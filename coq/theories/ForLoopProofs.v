(* ForLoopProofs.v -- proofs about the model of for_loop.py (ForLoop.v), for C16. *)
From PW Require Import Base ForLoop.
From Coq Require Import Permutation.
Open Scope nat_scope.

(* ================================================================================== *)
(* A. enumeration: itertools.product = mixed-radix counting                             *)

Lemma seq_add_map a k : seq a k = map (Nat.add a) (seq 0 k).
Proof.
  revert a; induction k as [|k IH]; intro a; [reflexivity|].
  simpl. rewrite Nat.add_0_r. f_equal. rewrite (IH (S a)), (IH 1), map_map.
  apply map_ext; intro x; lia.
Qed.

Lemma divmod_block n P j : j < P -> (n * P + j) / P = n /\ (n * P + j) mod P = j.
Proof.
  intro H. split.
  - symmetry. apply (Nat.div_unique (n * P + j) P n j); lia.
  - symmetry. apply (Nat.mod_unique (n * P + j) P n j); lia.
Qed.

Lemma flat_map_seq_divmod {B} (f : nat -> nat -> B) n P :
  flat_map (fun i => map (f i) (seq 0 P)) (seq 0 n)
  = map (fun r => f (r / P) (r mod P)) (seq 0 (n * P)).
Proof.
  induction n as [|n IH]; [reflexivity|].
  rewrite seq_S, flat_map_app, IH. simpl flat_map. rewrite app_nil_r.
  replace (S n * P) with (n * P + P) by lia.
  rewrite seq_app, map_app. f_equal. simpl.
  rewrite (seq_add_map (n * P) P), map_map.
  apply map_ext_in. intros j Hj. apply in_seq in Hj.
  destruct (divmod_block n P j) as [Hd Hm]; [lia|]. rewrite Hd, Hm. reflexivity.
Qed.

Lemma flat_map_map {A B C} (g : A -> B) (f : B -> list C) l :
  flat_map f (map g l) = flat_map (fun x => f (g x)) l.
Proof. induction l as [|x r IH]; [reflexivity|]. simpl. now rewrite IH. Qed.

Lemma product_digits ls : product ls = map (digits ls) (seq 0 (prod ls)).
Proof.
  induction ls as [|n rest IH]; [reflexivity|].
  simpl product. simpl prod. rewrite IH.
  rewrite (flat_map_ext _ (fun i => map (fun q => i :: digits rest q) (seq 0 (prod rest)))).
  2:{ intro i. now rewrite map_map. }
  rewrite (flat_map_seq_divmod (fun i q => i :: digits rest q)). reflexivity.
Qed.

Lemma product_length ls : List.length (product ls) = prod ls.
Proof. now rewrite product_digits, map_length, seq_length. Qed.

Lemma digits_length ls r : List.length (digits ls r) = List.length ls.
Proof. revert r; induction ls as [|n rest IH]; intro r; [reflexivity|]. simpl. now rewrite IH. Qed.

(* each digit is a valid position of its own list *)
Lemma digits_bound ls r : r < prod ls -> Forall2 (fun d n => d < n) (digits ls r) ls.
Proof.
  revert r; induction ls as [|n rest IH]; intros r H; [constructor|].
  simpl in *. assert (0 < prod rest) by (destruct (prod rest); lia).
  constructor.
  - apply Nat.div_lt_upper_bound; lia.
  - apply IH. apply Nat.mod_upper_bound. lia.
Qed.

(* ================================================================================== *)
(* B. python dict updates on association lists with distinct keys                       *)

Lemma nodupb_NoDup l : nodupb String.eqb l = true <-> NoDup l.
Proof.
  induction l as [|x r IH]; simpl.
  - split; [constructor|reflexivity].
  - rewrite andb_true_iff, negb_true_iff, IH. split.
    + intros [Hm Hn]. constructor; [|assumption]. intro Hin.
      apply mems_In in Hin. unfold mems in Hin. congruence.
    + intro H. inversion H as [|? ? Hnin Hnd]; subst. split; [|assumption].
      destruct (memb String.eqb x r) eqn:E; [|reflexivity].
      exfalso. apply Hnin. apply mems_In. exact E.
Qed.

Lemma mems_false x l : mems x l = false <-> ~ In x l.
Proof.
  split.
  - intros H Hin. apply mems_In in Hin. congruence.
  - intro H. destruct (mems x l) eqn:E; [|reflexivity]. exfalso. apply H, mems_In, E.
Qed.

Lemma supd_notin {B} k (v : B) d : ~ In k (map fst d) -> supd k v d = d ++ [(k, v)].
Proof.
  unfold supd. induction d as [|[k' v'] r IH]; intro H; [reflexivity|].
  simpl in *. destruct (String.eqb k k') eqn:E.
  - apply String.eqb_eq in E. subst. exfalso. apply H. now left.
  - f_equal. apply IH. intro Hin. apply H. now right.
Qed.

Lemma NoDup_app_l {A} (a b : list A) : NoDup (a ++ b) -> NoDup a.
Proof. intro H. induction a as [|x a IH]; [constructor|]. simpl in H. inversion H; subst.
  constructor; [|auto]. intro Hin. apply H2. apply in_or_app. now left. Qed.

Lemma NoDup_app_r {A} (a b : list A) : NoDup (a ++ b) -> NoDup b.
Proof. induction a as [|x a IH]; [auto|]. simpl. intro H. inversion H; auto. Qed.

Lemma NoDup_app_disj {A} (a b : list A) x : NoDup (a ++ b) -> In x a -> ~ In x b.
Proof.
  induction a as [|y a IH]; [contradiction|]. simpl. intros H [->|Hin] Hb.
  - inversion H; subst. apply H2. apply in_or_app. now right.
  - inversion H; subst. exact (IH H3 Hin Hb).
Qed.

Lemma NoDup_app_intro {A} (a b : list A) :
  NoDup a -> NoDup b -> (forall x, In x a -> ~ In x b) -> NoDup (a ++ b).
Proof.
  induction a as [|x a IH]; intros Ha Hb Hd; [assumption|].
  simpl. inversion Ha; subst. constructor.
  - intro Hin. apply in_app_or in Hin. destruct Hin as [Hin|Hin]; [contradiction|].
    apply (Hd x); [now left|assumption].
  - apply IH; auto. intros y Hy. apply Hd. now right.
Qed.

Lemma dict_fold_nodup {B} (l acc : list (string * B)) :
  NoDup (map fst (acc ++ l)) ->
  fold_left (fun d kv => supd (fst kv) (snd kv) d) l acc = acc ++ l.
Proof.
  revert acc. induction l as [|[k v] r IH]; intros acc H; simpl.
  - now rewrite app_nil_r.
  - rewrite supd_notin.
    + rewrite IH; [now rewrite <- app_assoc|]. now rewrite <- app_assoc.
    + rewrite map_app in H. simpl in H. intro Hin.
      apply (NoDup_app_disj _ _ k H Hin). now left.
Qed.

Lemma dict_of_nodup {B} (l : list (string * B)) : NoDup (map fst l) -> dict_of l = l.
Proof. intro H. unfold dict_of. now rewrite dict_fold_nodup. Qed.

Lemma map_fst_combine {A B} (l : list A) (v : list B) :
  List.length l = List.length v -> map fst (combine l v) = l.
Proof.
  revert v; induction l as [|x l IH]; intros [|y v] H; simpl in *; try discriminate; [reflexivity|].
  f_equal. apply IH. lia.
Qed.

Lemma nmap_nodup nk ds : NoDup nk -> List.length ds = List.length nk -> nmap nk ds = combine nk ds.
Proof.
  intros Hn Hl. unfold nmap. rewrite dict_fold_nodup; [reflexivity|].
  simpl. now rewrite map_fst_combine.
Qed.

Lemma zfold_nodup zk z (acc : imap) :
  NoDup (map fst acc ++ zk) ->
  fold_left (fun m k => supd k z m) zk acc = acc ++ map (fun k => (k, z)) zk.
Proof.
  revert acc. induction zk as [|k r IH]; intros acc H; simpl.
  - now rewrite app_nil_r.
  - rewrite supd_notin.
    + rewrite IH; [now rewrite <- app_assoc|].
      rewrite map_app. simpl. now rewrite <- app_assoc.
    + intro Hin. apply (NoDup_app_disj _ _ k H Hin). now left.
Qed.

Lemma zmap_nodup zk z : NoDup zk -> zmap zk z = map (fun k => (k, z)) zk.
Proof. intro H. unfold zmap. now rewrite zfold_nodup. Qed.

Lemma entry_eq nk zk ds z :
  NoDup (nk ++ zk) -> List.length ds = List.length nk ->
  merge (nmap nk ds) (zmap zk z) = combine nk ds ++ map (fun k => (k, z)) zk.
Proof.
  intros H Hl.
  rewrite nmap_nodup; [|exact (NoDup_app_l _ _ H)|exact Hl].
  rewrite zmap_nodup; [|exact (NoDup_app_r _ _ H)].
  unfold merge. apply dict_fold_nodup.
  rewrite map_app, map_fst_combine, map_map; [|now symmetry]. simpl. now rewrite map_id.
Qed.

(* ================================================================================== *)
(* C. dictionary_to_index_maps                                                          *)

Lemma lengths_length data ks ns : lengths data ks = Ok ns -> List.length ns = List.length ks.
Proof.
  revert ns; induction ks as [|k r IH]; intros ns H; simpl in H.
  - now inversion H.
  - destruct (sassoc k data) as [[n|]|]; try discriminate.
    destruct (lengths data r) as [ns'|e]; [|discriminate]. inversion H; subst. simpl. f_equal. now apply IH.
Qed.

Lemma spec_entry_keys nk nls zk nz r :
  List.length nls = List.length nk -> map fst (spec_entry nk nls zk nz r) = nk ++ zk.
Proof.
  intro H. unfold spec_entry. rewrite map_app, map_fst_combine, map_map.
  - simpl. now rewrite map_id.
  - now rewrite digits_length.
Qed.

Theorem index_maps_spec data nk zk nls zls :
  lengths data (okeys nk) = Ok nls -> lengths data (okeys zk) = Ok zls ->
  NoDup (okeys nk ++ okeys zk) ->
  mixed_zero (okeys nk) nls (okeys zk) zls = false ->
  index_maps data nk zk =
    if isnil (okeys nk) && isnil (okeys zk) then
      (if isnone nk && isnone zk then Err ValueErrorNoKeys else Err ValueErrorAllZero)
    else if prod nls * zfac (okeys zk) zls =? 0 then Err ValueErrorAllZero
    else Ok (spec_maps (okeys nk) nls (okeys zk) zls).
Proof.
  intros Hn Hz Hnd Hmix. unfold index_maps. rewrite Hn, Hz.
  pose proof (lengths_length _ _ _ Hn) as Ln. pose proof (lengths_length _ _ _ Hz) as Lz.
  set (NK := okeys nk) in *. set (ZK := okeys zk) in *.
  destruct NK as [|k1 NK'] eqn:ENK; destruct ZK as [|z1 ZK'] eqn:EZK.
  - (* nothing to loop on *)
    destruct nls; [|discriminate]. destruct zls; [|discriminate]. reflexivity.
  - (* zipped only *)
    destruct nls; [|discriminate]. destruct zls as [|zl zls']; [discriminate|].
    cbn [isnil andb negb]. unfold zfac. cbn [prod]. rewrite Nat.mul_1_l.
    set (m := minl (zl :: zls')).
    replace (0 <? 0) with false by reflexivity. simpl andb.
    destruct (0 <? m) eqn:Em.
    + apply Nat.ltb_lt in Em. destruct (m =? 0) eqn:E0; [apply Nat.eqb_eq in E0; lia|].
      f_equal. unfold spec_maps, zfac. cbn [prod]. rewrite Nat.mul_1_l. fold m.
      apply map_ext_in. intros r Hr. apply in_seq in Hr.
      unfold spec_entry. simpl. rewrite zmap_nodup by exact Hnd.
      rewrite Nat.mod_small by lia. reflexivity.
    + apply Nat.ltb_ge in Em. assert (m = 0) by lia.
      destruct (m =? 0) eqn:E0; [|apply Nat.eqb_neq in E0; lia].
      assert (isnone zk = false) as -> by (subst ZK; destruct zk; [reflexivity|discriminate]).
      now rewrite andb_false_r.
  - (* nested only *)
    destruct zls; [|discriminate]. destruct nls as [|nl nls']; [discriminate|].
    cbn [isnil andb negb]. unfold zfac. rewrite Nat.mul_1_r.
    set (P := prod (nl :: nls')).
    replace (0 <? 0) with false by reflexivity. rewrite andb_false_r.
    destruct (0 <? P) eqn:Ep.
    + apply Nat.ltb_lt in Ep. destruct (P =? 0) eqn:E0; [apply Nat.eqb_eq in E0; lia|].
      f_equal. unfold spec_maps, zfac. rewrite Nat.mul_1_r. fold P.
      rewrite product_digits, map_map. fold P.
      apply map_ext. intro r. unfold spec_entry. rewrite Nat.div_1_r. simpl map. rewrite app_nil_r.
      apply nmap_nodup.
      * rewrite app_nil_r in Hnd. exact Hnd.
      * rewrite digits_length. exact Ln.
    + apply Nat.ltb_ge in Ep. assert (P = 0) by lia.
      destruct (P =? 0) eqn:E0; [|apply Nat.eqb_neq in E0; lia].
      assert (isnone nk = false) as -> by (subst NK; destruct nk; [reflexivity|discriminate]).
      reflexivity.
  - (* nested and zipped *)
    destruct nls as [|nl nls']; [discriminate|]. destruct zls as [|zl zls']; [discriminate|].
    cbn [isnil andb negb]. unfold zfac.
    set (P := prod (nl :: nls')) in *. set (m := minl (zl :: zls')) in *.
    unfold mixed_zero in Hmix. cbn [isnil andb negb] in Hmix.
    fold P in Hmix. fold m in Hmix.
    destruct (0 <? P) eqn:Ep; destruct (0 <? m) eqn:Em; simpl andb.
    + apply Nat.ltb_lt in Ep, Em.
      destruct (P * m =? 0) eqn:E0; [apply Nat.eqb_eq in E0; nia|].
      f_equal. unfold spec_maps, zfac. fold P. fold m.
      rewrite product_digits. fold P. rewrite flat_map_map.
      rewrite (flat_map_seq_divmod
                 (fun q z => merge (nmap (k1 :: NK') (digits (nl :: nls') q)) (zmap (z1 :: ZK') z))).
      apply map_ext. intro r. unfold spec_entry.
      apply entry_eq; [exact Hnd|]. rewrite digits_length. exact Ln.
    + apply Nat.ltb_lt in Ep. apply Nat.ltb_ge in Em. exfalso.
      assert (m = 0) by lia. subst m.
      destruct (P =? 0) eqn:E1; [apply Nat.eqb_eq in E1; lia|].
      rewrite H in Hmix. simpl in Hmix. discriminate.
    + apply Nat.ltb_ge in Ep. apply Nat.ltb_lt in Em. exfalso.
      assert (P = 0) by lia.
      destruct (m =? 0) eqn:E1; [apply Nat.eqb_eq in E1; lia|].
      rewrite H in Hmix. simpl in Hmix. discriminate.
    + apply Nat.ltb_ge in Ep, Em. assert (P = 0) by lia. rewrite H. simpl.
      assert (isnone nk = false) as -> by (subst NK; destruct nk; [reflexivity|discriminate]).
      reflexivity.
Qed.

(* ================================================================================== *)
(* D. collectors are keyed by row number: any completion order gives the same slots      *)

Lemma set_nth_length {A} i (x : A) l : List.length (set_nth i x l) = List.length l.
Proof. revert i; induction l as [|y r IH]; intros [|i]; simpl; auto. Qed.

Lemma nth_error_set_nth {A} i (x : A) l j :
  nth_error (set_nth i x l) j =
  if (i =? j) && (j <? List.length l) then Some x else nth_error l j.
Proof.
  revert i j; induction l as [|y r IH]; intros i j.
  - simpl. destruct i; simpl; rewrite andb_false_r; reflexivity.
  - destruct i as [|i]; destruct j as [|j]; simpl; try reflexivity.
    rewrite IH. reflexivity.
Qed.

Lemma nth_error_seq a n j : nth_error (seq a n) j = if j <? n then Some (a + j) else None.
Proof.
  revert a j; induction n as [|n IH]; intros a j.
  - now destruct j.
  - destruct j as [|j]; simpl; [now rewrite Nat.add_0_r|].
    rewrite IH. replace (S j <? S n) with (j <? n) by reflexivity.
    destruct (j <? n); [f_equal; lia|reflexivity].
Qed.

Lemma nth_error_ext_eq {A} (l1 l2 : list A) :
  (forall j, nth_error l1 j = nth_error l2 j) -> l1 = l2.
Proof.
  revert l2; induction l1 as [|x r IH]; intros [|y s] H.
  - reflexivity.
  - specialize (H 0). discriminate.
  - specialize (H 0). discriminate.
  - pose proof (H 0) as H0. simpl in H0. inversion H0; subst. f_equal.
    apply IH. intro j. exact (H (S j)).
Qed.

Lemma collect_fold {A} (f : nat -> A) sch sl j :
  nth_error (fold_left (fun sl i => set_nth i (Some (f i)) sl) sch sl) j =
  if memn j sch && (j <? List.length sl) then Some (Some (f j)) else nth_error sl j.
Proof.
  revert sl; induction sch as [|i r IH]; intro sl; [reflexivity|].
  simpl fold_left. rewrite IH, set_nth_length, nth_error_set_nth.
  unfold memn. simpl memb. fold (memn j r).
  rewrite (Nat.eqb_sym j i).
  destruct (memn j r); destruct (i =? j) eqn:E; destruct (j <? List.length sl); simpl; try reflexivity.
  apply Nat.eqb_eq in E. now subst.
Qed.

Lemma nth_error_repeat {A} (x : A) n j : nth_error (repeat x n) j = if j <? n then Some x else None.
Proof.
  revert j; induction n as [|n IH]; intro j; [now destruct j|].
  destruct j as [|j]; [reflexivity|]. simpl. rewrite IH. reflexivity.
Qed.

(* whatever the completion order, provided every body node eventually completes *)
Theorem collect_any_order {A} n (f : nat -> A) sch :
  (forall i, i < n -> In i sch) ->
  collect n f sch = map (fun i => Some (f i)) (seq 0 n).
Proof.
  intro H. apply nth_error_ext_eq. intro j. unfold collect.
  rewrite collect_fold, repeat_length, nth_error_repeat.
  rewrite nth_error_map, nth_error_seq.
  destruct (j <? n) eqn:E.
  - apply Nat.ltb_lt in E. assert (memn j sch = true) as -> by (apply memn_In; auto). reflexivity.
  - rewrite andb_false_r. reflexivity.
Qed.

Lemma collect_sched {A} n (f : nat -> A) order :
  collect n f (sched n order) = map (fun i => Some (f i)) (seq 0 n).
Proof.
  apply collect_any_order. intros i Hi. unfold sched. apply in_or_app. right. apply in_seq. lia.
Qed.

(* every permutation of the body nodes is a completion order the model can be run with, and
   the slots are the same for all of them *)
Corollary collect_permutation {A} n (f : nat -> A) p :
  Permutation p (seq 0 n) -> collect n f p = map (fun i => Some (f i)) (seq 0 n).
Proof.
  intro H. apply collect_any_order. intros i Hi.
  apply (Permutation_in i (Permutation_sym H)). apply in_seq. lia.
Qed.

Theorem run_order_irrelevant c o1 o2 st : run c o1 st = run c o2 st.
Proof.
  unfold run. cbv zeta.
  destruct (c_cache c && _); [reflexivity|].
  destruct (negb _); [reflexivity|].
  destruct (index_maps _ _ _) as [maps|e]; [|reflexivity].
  destruct (negb (c_df c) && _); [reflexivity|].
  destruct (dropped c maps); [|reflexivity].
  destruct (all_some _) as [argss|]; [|reflexivity].
  rewrite !collect_sched. reflexivity.
Qed.
