(* ForLoopProofs.v -- proofs about the model of for_loop.py (ForLoop.v), for C16. *)
From PW Require Import Base ForLoop.
From Coq Require Import Permutation.
Open Scope nat_scope.

(* ================================================================================== *)
(* A. enumeration: itertools.product = mixed-radix counting                             *)

Lemma seq_add_map a k : seq a k = map (Nat.add a) (seq 0 k).
Proof.
  revert a; induction k as [|k IH]; intro a; [reflexivity|].
  simpl. rewrite Nat.add_0_r. f_equal. rewrite (IH (S a)), (IH 1), map_map.
  apply map_ext; intro x; lia.
Qed.

Lemma divmod_block n P j : j < P -> (n * P + j) / P = n /\ (n * P + j) mod P = j.
Proof.
  intro H. split.
  - symmetry. apply (Nat.div_unique (n * P + j) P n j); lia.
  - symmetry. apply (Nat.mod_unique (n * P + j) P n j); lia.
Qed.

Lemma flat_map_seq_divmod {B} (f : nat -> nat -> B) n P :
  flat_map (fun i => map (f i) (seq 0 P)) (seq 0 n)
  = map (fun r => f (r / P) (r mod P)) (seq 0 (n * P)).
Proof.
  induction n as [|n IH]; [reflexivity|].
  rewrite seq_S, flat_map_app, IH. simpl flat_map. rewrite app_nil_r.
  replace (S n * P) with (n * P + P) by lia.
  rewrite seq_app, map_app. f_equal. simpl.
  rewrite (seq_add_map (n * P) P), map_map.
  apply map_ext_in. intros j Hj. apply in_seq in Hj.
  destruct (divmod_block n P j) as [Hd Hm]; [lia|]. rewrite Hd, Hm. reflexivity.
Qed.

Lemma flat_map_map {A B C} (g : A -> B) (f : B -> list C) l :
  flat_map f (map g l) = flat_map (fun x => f (g x)) l.
Proof. induction l as [|x r IH]; [reflexivity|]. simpl. now rewrite IH. Qed.

Lemma product_digits ls : product ls = map (digits ls) (seq 0 (prod ls)).
Proof.
  induction ls as [|n rest IH]; [reflexivity|].
  simpl product. simpl prod. rewrite IH.
  rewrite (flat_map_ext _ (fun i => map (fun q => i :: digits rest q) (seq 0 (prod rest)))).
  2:{ intro i. now rewrite map_map. }
  rewrite (flat_map_seq_divmod (fun i q => i :: digits rest q)). reflexivity.
Qed.

Lemma product_length ls : List.length (product ls) = prod ls.
Proof. now rewrite product_digits, map_length, seq_length. Qed.

Lemma digits_length ls r : List.length (digits ls r) = List.length ls.
Proof. revert r; induction ls as [|n rest IH]; intro r; [reflexivity|]. simpl. now rewrite IH. Qed.

(* each digit is a valid position of its own list *)
Lemma digits_bound ls r : r < prod ls -> Forall2 (fun d n => d < n) (digits ls r) ls.
Proof.
  revert r; induction ls as [|n rest IH]; intros r H; [constructor|].
  simpl in *. assert (0 < prod rest) by (destruct (prod rest); lia).
  constructor.
  - apply Nat.div_lt_upper_bound; lia.
  - apply IH. apply Nat.mod_upper_bound. lia.
Qed.

(* ================================================================================== *)
(* B. python dict updates on association lists with distinct keys                       *)

Lemma nodupb_NoDup l : nodupb String.eqb l = true <-> NoDup l.
Proof.
  induction l as [|x r IH]; simpl.
  - split; [constructor|reflexivity].
  - rewrite andb_true_iff, negb_true_iff, IH. split.
    + intros [Hm Hn]. constructor; [|assumption]. intro Hin.
      apply mems_In in Hin. unfold mems in Hin. congruence.
    + intro H. inversion H as [|? ? Hnin Hnd]; subst. split; [|assumption].
      destruct (memb String.eqb x r) eqn:E; [|reflexivity].
      exfalso. apply Hnin. apply mems_In. exact E.
Qed.

Lemma mems_false x l : mems x l = false <-> ~ In x l.
Proof.
  split.
  - intros H Hin. apply mems_In in Hin. congruence.
  - intro H. destruct (mems x l) eqn:E; [|reflexivity]. exfalso. apply H, mems_In, E.
Qed.

Lemma supd_notin {B} k (v : B) d : ~ In k (map fst d) -> supd k v d = d ++ [(k, v)].
Proof.
  unfold supd. induction d as [|[k' v'] r IH]; intro H; [reflexivity|].
  simpl in *. destruct (String.eqb k k') eqn:E.
  - apply String.eqb_eq in E. subst. exfalso. apply H. now left.
  - f_equal. apply IH. intro Hin. apply H. now right.
Qed.

Lemma NoDup_app_l {A} (a b : list A) : NoDup (a ++ b) -> NoDup a.
Proof. intro H. induction a as [|x a IH]; [constructor|]. simpl in H. inversion H; subst.
  constructor; [|auto]. intro Hin. apply H2. apply in_or_app. now left. Qed.

Lemma NoDup_app_r {A} (a b : list A) : NoDup (a ++ b) -> NoDup b.
Proof. induction a as [|x a IH]; [auto|]. simpl. intro H. inversion H; auto. Qed.

Lemma NoDup_app_disj {A} (a b : list A) x : NoDup (a ++ b) -> In x a -> ~ In x b.
Proof.
  induction a as [|y a IH]; [contradiction|]. simpl. intros H [->|Hin] Hb.
  - inversion H; subst. apply H2. apply in_or_app. now right.
  - inversion H; subst. exact (IH H3 Hin Hb).
Qed.

Lemma NoDup_app_intro {A} (a b : list A) :
  NoDup a -> NoDup b -> (forall x, In x a -> ~ In x b) -> NoDup (a ++ b).
Proof.
  induction a as [|x a IH]; intros Ha Hb Hd; [assumption|].
  simpl. inversion Ha; subst. constructor.
  - intro Hin. apply in_app_or in Hin. destruct Hin as [Hin|Hin]; [contradiction|].
    apply (Hd x); [now left|assumption].
  - apply IH; auto. intros y Hy. apply Hd. now right.
Qed.

Lemma dict_fold_nodup {B} (l acc : list (string * B)) :
  NoDup (map fst (acc ++ l)) ->
  fold_left (fun d kv => supd (fst kv) (snd kv) d) l acc = acc ++ l.
Proof.
  revert acc. induction l as [|[k v] r IH]; intros acc H; simpl.
  - now rewrite app_nil_r.
  - rewrite supd_notin.
    + rewrite IH; [now rewrite <- app_assoc|]. now rewrite <- app_assoc.
    + rewrite map_app in H. simpl in H. intro Hin.
      apply (NoDup_app_disj _ _ k H Hin). now left.
Qed.

Lemma dict_of_nodup {B} (l : list (string * B)) : NoDup (map fst l) -> dict_of l = l.
Proof. intro H. unfold dict_of. now rewrite dict_fold_nodup. Qed.

Lemma map_fst_combine {A B} (l : list A) (v : list B) :
  List.length l = List.length v -> map fst (combine l v) = l.
Proof.
  revert v; induction l as [|x l IH]; intros [|y v] H; simpl in *; try discriminate; [reflexivity|].
  f_equal. apply IH. lia.
Qed.

Lemma nmap_nodup nk ds : NoDup nk -> List.length ds = List.length nk -> nmap nk ds = combine nk ds.
Proof.
  intros Hn Hl. unfold nmap. rewrite dict_fold_nodup; [reflexivity|].
  simpl. now rewrite map_fst_combine.
Qed.

Lemma zfold_nodup zk z (acc : imap) :
  NoDup (map fst acc ++ zk) ->
  fold_left (fun m k => supd k z m) zk acc = acc ++ map (fun k => (k, z)) zk.
Proof.
  revert acc. induction zk as [|k r IH]; intros acc H; simpl.
  - now rewrite app_nil_r.
  - rewrite supd_notin.
    + rewrite IH; [now rewrite <- app_assoc|].
      rewrite map_app. simpl. now rewrite <- app_assoc.
    + intro Hin. apply (NoDup_app_disj _ _ k H Hin). now left.
Qed.

Lemma zmap_nodup zk z : NoDup zk -> zmap zk z = map (fun k => (k, z)) zk.
Proof. intro H. unfold zmap. now rewrite zfold_nodup. Qed.

Lemma entry_eq nk zk ds z :
  NoDup (nk ++ zk) -> List.length ds = List.length nk ->
  merge (nmap nk ds) (zmap zk z) = combine nk ds ++ map (fun k => (k, z)) zk.
Proof.
  intros H Hl.
  rewrite nmap_nodup; [|exact (NoDup_app_l _ _ H)|exact Hl].
  rewrite zmap_nodup; [|exact (NoDup_app_r _ _ H)].
  unfold merge. apply dict_fold_nodup.
  rewrite map_app, map_fst_combine, map_map; [|now symmetry]. simpl. now rewrite map_id.
Qed.

(* ================================================================================== *)
(* C. dictionary_to_index_maps                                                          *)

Lemma lengths_length data ks ns : lengths data ks = Ok ns -> List.length ns = List.length ks.
Proof.
  revert ns; induction ks as [|k r IH]; intros ns H; simpl in H.
  - now inversion H.
  - destruct (sassoc k data) as [[n|]|]; try discriminate.
    destruct (lengths data r) as [ns'|e]; [|discriminate]. inversion H; subst. simpl. f_equal. now apply IH.
Qed.

Lemma spec_entry_keys nk nls zk nz r :
  List.length nls = List.length nk -> map fst (spec_entry nk nls zk nz r) = nk ++ zk.
Proof.
  intro H. unfold spec_entry. rewrite map_app, map_fst_combine, map_map.
  - simpl. now rewrite map_id.
  - now rewrite digits_length.
Qed.

Theorem index_maps_spec data nk zk nls zls :
  lengths data (okeys nk) = Ok nls -> lengths data (okeys zk) = Ok zls ->
  NoDup (okeys nk ++ okeys zk) ->
  mixed_zero (okeys nk) nls (okeys zk) zls = false ->
  index_maps data nk zk =
    if isnil (okeys nk) && isnil (okeys zk) then
      (if isnone nk && isnone zk then Err ValueErrorNoKeys else Err ValueErrorAllZero)
    else if prod nls * zfac (okeys zk) zls =? 0 then Err ValueErrorAllZero
    else Ok (spec_maps (okeys nk) nls (okeys zk) zls).
Proof.
  intros Hn Hz Hnd Hmix. unfold index_maps. rewrite Hn, Hz.
  pose proof (lengths_length _ _ _ Hn) as Ln. pose proof (lengths_length _ _ _ Hz) as Lz.
  set (NK := okeys nk) in *. set (ZK := okeys zk) in *.
  destruct NK as [|k1 NK'] eqn:ENK; destruct ZK as [|z1 ZK'] eqn:EZK.
  - (* nothing to loop on *)
    destruct nls; [|discriminate]. destruct zls; [|discriminate]. reflexivity.
  - (* zipped only *)
    destruct nls; [|discriminate]. destruct zls as [|zl zls']; [discriminate|].
    cbn [isnil andb negb]. unfold zfac. cbn [prod]. rewrite Nat.mul_1_l.
    set (m := minl (zl :: zls')).
    replace (0 <? 0) with false by reflexivity. simpl andb.
    destruct (0 <? m) eqn:Em.
    + apply Nat.ltb_lt in Em. destruct (m =? 0) eqn:E0; [apply Nat.eqb_eq in E0; lia|].
      f_equal. unfold spec_maps, zfac. cbn [prod]. rewrite Nat.mul_1_l. fold m.
      apply map_ext_in. intros r Hr. apply in_seq in Hr.
      unfold spec_entry. simpl. rewrite zmap_nodup by exact Hnd.
      rewrite Nat.mod_small by lia. reflexivity.
    + apply Nat.ltb_ge in Em. assert (m = 0) by lia.
      destruct (m =? 0) eqn:E0; [|apply Nat.eqb_neq in E0; lia].
      assert (isnone zk = false) as -> by (subst ZK; destruct zk; [reflexivity|discriminate]).
      now rewrite andb_false_r.
  - (* nested only *)
    destruct zls; [|discriminate]. destruct nls as [|nl nls']; [discriminate|].
    cbn [isnil andb negb]. unfold zfac. rewrite Nat.mul_1_r.
    set (P := prod (nl :: nls')).
    replace (0 <? 0) with false by reflexivity. rewrite andb_false_r.
    destruct (0 <? P) eqn:Ep.
    + apply Nat.ltb_lt in Ep. destruct (P =? 0) eqn:E0; [apply Nat.eqb_eq in E0; lia|].
      f_equal. unfold spec_maps, zfac. rewrite Nat.mul_1_r. fold P.
      rewrite product_digits, map_map. fold P.
      apply map_ext. intro r. unfold spec_entry. rewrite Nat.div_1_r. simpl map. rewrite app_nil_r.
      apply nmap_nodup.
      * rewrite app_nil_r in Hnd. exact Hnd.
      * rewrite digits_length. exact Ln.
    + apply Nat.ltb_ge in Ep. assert (P = 0) by lia.
      destruct (P =? 0) eqn:E0; [|apply Nat.eqb_neq in E0; lia].
      assert (isnone nk = false) as -> by (subst NK; destruct nk; [reflexivity|discriminate]).
      reflexivity.
  - (* nested and zipped *)
    destruct nls as [|nl nls']; [discriminate|]. destruct zls as [|zl zls']; [discriminate|].
    cbn [isnil andb negb]. unfold zfac.
    set (P := prod (nl :: nls')) in *. set (m := minl (zl :: zls')) in *.
    unfold mixed_zero in Hmix. cbn [isnil andb negb] in Hmix.
    fold P in Hmix. fold m in Hmix.
    destruct (0 <? P) eqn:Ep; destruct (0 <? m) eqn:Em; simpl andb.
    + apply Nat.ltb_lt in Ep, Em.
      destruct (P * m =? 0) eqn:E0; [apply Nat.eqb_eq in E0; nia|].
      f_equal. unfold spec_maps, zfac. fold P. fold m.
      rewrite product_digits. fold P. rewrite flat_map_map.
      rewrite (flat_map_seq_divmod
                 (fun q z => merge (nmap (k1 :: NK') (digits (nl :: nls') q)) (zmap (z1 :: ZK') z))).
      apply map_ext. intro r. unfold spec_entry.
      apply entry_eq; [exact Hnd|]. rewrite digits_length. exact Ln.
    + apply Nat.ltb_lt in Ep. apply Nat.ltb_ge in Em. exfalso.
      assert (m = 0) by lia. subst m.
      destruct (P =? 0) eqn:E1; [apply Nat.eqb_eq in E1; lia|].
      rewrite H in Hmix. simpl in Hmix. discriminate.
    + apply Nat.ltb_ge in Ep. apply Nat.ltb_lt in Em. exfalso.
      assert (P = 0) by lia.
      destruct (m =? 0) eqn:E1; [apply Nat.eqb_eq in E1; lia|].
      rewrite H in Hmix. simpl in Hmix. discriminate.
    + apply Nat.ltb_ge in Ep, Em. assert (P = 0) by lia. rewrite H. simpl.
      assert (isnone nk = false) as -> by (subst NK; destruct nk; [reflexivity|discriminate]).
      reflexivity.
Qed.

(* the closed form is the plain nested loops: iterated keys outermost in key order (last one
   fastest), the zipped position innermost *)
Lemma spec_maps_loops nk nls zk zls :
  spec_maps nk nls zk zls =
  flat_map (fun ixs => map (fun z => combine nk ixs ++ map (fun k => (k, z)) zk)
                           (seq 0 (zfac zk zls)))
           (product nls).
Proof.
  unfold spec_maps. rewrite product_digits, flat_map_map.
  rewrite (flat_map_seq_divmod (fun q z => combine nk (digits nls q) ++ map (fun k => (k, z)) zk)).
  reflexivity.
Qed.

(* ================================================================================== *)
(* D. collectors are keyed by row number: any completion order gives the same slots      *)

Lemma set_nth_length {A} i (x : A) l : List.length (set_nth i x l) = List.length l.
Proof. revert i; induction l as [|y r IH]; intros [|i]; simpl; auto. Qed.

Lemma nth_error_set_nth {A} i (x : A) l j :
  nth_error (set_nth i x l) j =
  if (i =? j) && (j <? List.length l) then Some x else nth_error l j.
Proof.
  revert i j; induction l as [|y r IH]; intros i j.
  - simpl. destruct i; simpl; rewrite andb_false_r; reflexivity.
  - destruct i as [|i]; destruct j as [|j]; simpl; try reflexivity.
    rewrite IH. reflexivity.
Qed.

Lemma nth_error_seq a n j : nth_error (seq a n) j = if j <? n then Some (a + j) else None.
Proof.
  revert a j; induction n as [|n IH]; intros a j.
  - now destruct j.
  - destruct j as [|j]; simpl; [now rewrite Nat.add_0_r|].
    rewrite IH. replace (S j <? S n) with (j <? n) by reflexivity.
    destruct (j <? n); [f_equal; lia|reflexivity].
Qed.

Lemma nth_error_ext_eq {A} (l1 l2 : list A) :
  (forall j, nth_error l1 j = nth_error l2 j) -> l1 = l2.
Proof.
  revert l2; induction l1 as [|x r IH]; intros [|y s] H.
  - reflexivity.
  - specialize (H 0). discriminate.
  - specialize (H 0). discriminate.
  - pose proof (H 0) as H0. simpl in H0. inversion H0; subst. f_equal.
    apply IH. intro j. exact (H (S j)).
Qed.

Lemma collect_fold {A} (f : nat -> A) sch sl j :
  nth_error (fold_left (fun sl i => set_nth i (Some (f i)) sl) sch sl) j =
  if memn j sch && (j <? List.length sl) then Some (Some (f j)) else nth_error sl j.
Proof.
  revert sl; induction sch as [|i r IH]; intro sl; [reflexivity|].
  simpl fold_left. rewrite IH, set_nth_length, nth_error_set_nth.
  unfold memn. simpl memb. fold (memn j r).
  rewrite (Nat.eqb_sym j i).
  destruct (memn j r); destruct (i =? j) eqn:E; destruct (j <? List.length sl); simpl; try reflexivity.
  apply Nat.eqb_eq in E. now subst.
Qed.

Lemma nth_error_repeat {A} (x : A) n j : nth_error (repeat x n) j = if j <? n then Some x else None.
Proof.
  revert j; induction n as [|n IH]; intro j; [now destruct j|].
  destruct j as [|j]; [reflexivity|]. simpl. rewrite IH. reflexivity.
Qed.

(* whatever the completion order, provided every body node eventually completes *)
Theorem collect_any_order {A} n (f : nat -> A) sch :
  (forall i, i < n -> In i sch) ->
  collect n f sch = map (fun i => Some (f i)) (seq 0 n).
Proof.
  intro H. apply nth_error_ext_eq. intro j. unfold collect.
  rewrite collect_fold, repeat_length, nth_error_repeat.
  rewrite nth_error_map, nth_error_seq.
  destruct (j <? n) eqn:E.
  - apply Nat.ltb_lt in E. assert (memn j sch = true) as -> by (apply memn_In; auto). reflexivity.
  - rewrite andb_false_r. reflexivity.
Qed.

Lemma collect_sched {A} n (f : nat -> A) order :
  collect n f (sched n order) = map (fun i => Some (f i)) (seq 0 n).
Proof.
  apply collect_any_order. intros i Hi. unfold sched. apply in_or_app. right. apply in_seq. lia.
Qed.

(* every permutation of the body nodes is a completion order the model can be run with, and
   the slots are the same for all of them *)
Corollary collect_permutation {A} n (f : nat -> A) p :
  Permutation p (seq 0 n) -> collect n f p = map (fun i => Some (f i)) (seq 0 n).
Proof.
  intro H. apply collect_any_order. intros i Hi.
  apply (Permutation_in i (Permutation_sym H)). apply in_seq. lia.
Qed.

Theorem run_order_irrelevant c o1 o2 st : run c o1 st = run c o2 st.
Proof.
  unfold run. cbv zeta.
  destruct (hit c st); [reflexivity|].
  destruct (negb _); [reflexivity|].
  destruct (index_maps _ _ _) as [maps|e]; [|reflexivity].
  destruct (negb (c_df c) && negb (nodupb _ _)); [reflexivity|].
  destruct (negb (c_df c) && negb (isnil _)); [reflexivity|].
  destruct (filter _ (dropped c maps)); [|reflexivity].
  destruct (all_some _) as [argss|]; [|reflexivity].
  rewrite !collect_sched. reflexivity.
Qed.

(* ================================================================================== *)
(* E. one rebuilding run                                                                *)

Lemma list_eqb_eq (a b : list string) : list_eqb String.eqb a b = true -> a = b.
Proof.
  revert b; induction a as [|x a IH]; intros [|y b] H; simpl in H; try discriminate; [reflexivity|].
  apply andb_true_iff in H. destruct H as [H1 H2]. apply String.eqb_eq in H1. subst. f_equal. auto.
Qed.

Lemma sassoc_In {B} l (d : list (string * B)) v : sassoc l d = Some v -> In (l, v) d.
Proof.
  unfold sassoc. induction d as [|[k w] r IH]; simpl; [discriminate|].
  destruct (String.eqb l k) eqn:E.
  - apply String.eqb_eq in E. subst. intro H. inversion H. now left.
  - intro H. right. auto.
Qed.

Lemma sassoc_some {B} l (d : list (string * B)) : In l (map fst d) -> exists v, sassoc l d = Some v.
Proof.
  unfold sassoc. induction d as [|[k w] r IH]; simpl; [contradiction|].
  destruct (String.eqb l k) eqn:E; [eauto|].
  intros [H|H]; [subst; rewrite String.eqb_refl in E; discriminate|auto].
Qed.

Lemma sassoc_data_of l i :
  sassoc l (data_of i) =
  match sassoc l i with
  | Some v => Some (match v with Some (IL xs) => Some (List.length xs) | _ => None end)
  | None => None
  end.
Proof.
  unfold sassoc, data_of. induction i as [|[k v] r IH]; simpl; [reflexivity|].
  destruct (String.eqb l k); [reflexivity|exact IH].
Qed.

Section Shaped.
  Variable c : cfg.
  Variable i : inputs.
  Hypothesis Hsh : shaped c i = true.

  Lemma shaped_labels : map fst i = in_labels c.
  Proof.
    unfold shaped, typed in Hsh. apply andb_true_iff in Hsh. destruct Hsh as [H _].
    apply andb_true_iff in H. destruct H as [H _]. now apply list_eqb_eq.
  Qed.

  Lemma shaped_entry l v : In (l, v) i ->
    match v with
    | Some (IL _) => mems l (looped c) = true
    | Some (IZ _) => mems l (looped c) = false
    | None => False
    end.
  Proof.
    intro Hin. unfold shaped, typed in Hsh. apply andb_true_iff in Hsh. destruct Hsh as [H Hall].
    apply andb_true_iff in H. destruct H as [_ H].
    rewrite forallb_forall in H. specialize (H _ Hin). simpl in H.
    unfold all_data in Hall. rewrite forallb_forall in Hall. specialize (Hall _ Hin). simpl in Hall.
    destruct v as [[z|xs]|]; simpl in *; try assumption; try discriminate.
    now apply negb_true_iff.
  Qed.

  Lemma shaped_all_data : all_data i = true.
  Proof. unfold shaped in Hsh. now apply andb_true_iff in Hsh. Qed.

  Lemma looped_list l : In l (in_labels c) -> mems l (looped c) = true ->
    exists xs, sassoc l i = Some (Some (IL xs)).
  Proof.
    intros Hin Hl. rewrite <- shaped_labels in Hin. destruct (sassoc_some _ _ Hin) as [v Hv].
    pose proof (shaped_entry _ _ (sassoc_In _ _ _ Hv)) as He.
    destruct v as [[z|xs]|]; [congruence|eauto|contradiction].
  Qed.

  Lemma bcast_val l : In l (in_labels c) -> mems l (looped c) = false -> exists z, bval i l = Some z.
  Proof.
    intros Hin Hl. rewrite <- shaped_labels in Hin. destruct (sassoc_some _ _ Hin) as [v Hv].
    pose proof (shaped_entry _ _ (sassoc_In _ _ _ Hv)) as He. unfold bval. rewrite Hv.
    destruct v as [[z|xs]|]; [eauto|congruence|contradiction].
  Qed.

  Lemma lengths_data_of ks :
    (forall l, In l ks -> In l (in_labels c) /\ mems l (looped c) = true) ->
    lengths (data_of i) ks = Ok (lens i ks).
  Proof.
    induction ks as [|k r IH]; intro H; [reflexivity|].
    simpl. destruct (H k (or_introl eq_refl)) as [Hin Hl].
    destruct (looped_list k Hin Hl) as [xs Hx].
    rewrite sassoc_data_of, Hx. rewrite IH by (intros l Hl'; apply H; now right).
    unfold listof. rewrite Hx. reflexivity.
  Qed.
End Shaped.

Lemma isnil_app {A} (a b : list A) : isnil (a ++ b) = isnil a && isnil b.
Proof. destruct a; reflexivity. Qed.

Lemma subsetb_In a b x : subsetb String.eqb a b = true -> In x a -> In x b.
Proof.
  unfold subsetb. rewrite forallb_forall. intros H Hin. apply mems_In. exact (H _ Hin).
Qed.

Record wf_facts (c : cfg) : Prop := {
  wf_some : isnil (c_iter c) && isnil (c_zip c) = false;
  wf_ins : NoDup (in_labels c);
  wf_loop : NoDup (c_iter c ++ c_zip c);
  wf_sub : forall l, In l (looped c) -> In l (in_labels c);
  wf_cols : NoDup (looped c ++ out_cols c)
}.

Lemma wf_unpack c : wf_cfg c = true -> wf_facts c.
Proof.
  unfold wf_cfg. rewrite !andb_true_iff. intros [[[[[H0 H1] H2] H3] H4] H5].
  constructor.
  - unfold looped in H0. rewrite isnil_app in H0. now apply negb_true_iff.
  - now apply nodupb_NoDup.
  - now apply nodupb_NoDup.
  - intros l. now apply subsetb_In.
  - now apply nodupb_NoDup.
Qed.

Lemma filter_all_in (L K : list string) :
  (forall l, In l K -> In l L) -> filter (fun l => negb (mems l L)) K = [].
Proof.
  induction K as [|k r IH]; intro H; [reflexivity|].
  simpl. assert (mems k L = true) as -> by (apply mems_In, H; now left).
  simpl. apply IH. intros l Hl. apply H. now right.
Qed.

Lemma sassoc_none_notin {B} l (d : list (string * B)) : sassoc l d = None -> ~ In l (map fst d).
Proof.
  intros H Hin. destruct (sassoc_some _ _ Hin) as [v Hv]. congruence.
Qed.

Lemma all_some_map {A B} (f : A -> option B) (g : A -> B) l :
  (forall x, In x l -> f x = Some (g x)) -> all_some (map f l) = Some (map g l).
Proof.
  induction l as [|x r IH]; intro H; [reflexivity|].
  simpl. rewrite (H x (or_introl eq_refl)), IH; [reflexivity|]. intros y Hy. apply H. now right.
Qed.

Lemma combine_map_same {A B C} (f : A -> B) (g : A -> C) s :
  combine (map f s) (map g s) = map (fun r => (f r, g r)) s.
Proof. induction s as [|x r IH]; [reflexivity|]. simpl. now rewrite IH. Qed.

Lemma map_nth_seq {A} (l : list A) d : map (fun r => nth r l d) (seq 0 (List.length l)) = l.
Proof.
  apply nth_error_ext_eq. intro j. rewrite nth_error_map, nth_error_seq.
  destruct (j <? List.length l) eqn:E.
  - apply Nat.ltb_lt in E. simpl. symmetry. now apply nth_error_nth'.
  - apply Nat.ltb_ge in E. simpl. symmetry. now apply nth_error_None.
Qed.

Lemma perm_collectors (a b o : list string) : Permutation (o ++ b ++ a) ((a ++ b) ++ o).
Proof.
  rewrite (Permutation_app_comm o). apply Permutation_app_tail. apply Permutation_app_comm.
Qed.

Lemma lookupz_cons_ne k k' v d : k' <> k -> lookupz k' ((k, v) :: d) = lookupz k' d.
Proof.
  intro H. unfold lookupz, sassoc. simpl. destruct (String.eqb k' k) eqn:E; [|reflexivity].
  apply String.eqb_eq in E. contradiction.
Qed.

Lemma map_lookup_self (d : list (string * Z)) :
  NoDup (map fst d) -> map (fun k => (k, lookupz k d)) (map fst d) = d.
Proof.
  induction d as [|[k v] r IH]; intro H; [reflexivity|].
  simpl map. inversion H; subst. f_equal.
  - unfold lookupz, sassoc. simpl. now rewrite String.eqb_refl.
  - rewrite <- (IH H3) at 2. apply map_ext_in. intros k' Hk'. f_equal.
    apply lookupz_cons_ne. intro E. subst. contradiction.
Qed.

Section Miss.
  Variable c : cfg.
  Variable i : inputs.
  Hypothesis Hwf : wf_cfg c = true.
  Hypothesis Htot : body_total c.
  Hypothesis Hsh : shaped c i = true.

  Let W := wf_unpack c Hwf.

  Lemma entry_keys r : map fst (entry_of c i r) = looped c.
  Proof. unfold entry_of. apply spec_entry_keys. unfold lens. now rewrite map_length. Qed.

  Lemma args_entry r : args_of c i (entry_of c i r) = Some (spec_args c i r).
  Proof.
    unfold args_of, spec_args. apply all_some_map. intros [l d] Hin.
    unfold arg_of, spec_arg. simpl fst. simpl snd.
    destruct (sassoc l (entry_of c i r)) as [ix|] eqn:E; [reflexivity|].
    destruct (mems l (looped c)) eqn:El.
    - exfalso. apply (sassoc_none_notin _ _ E). rewrite entry_keys. now apply mems_In.
    - assert (In l (in_labels c)) as Hl by (unfold in_labels; apply in_map_iff; exists (l, d); auto).
      destruct (bcast_val c i Hsh l Hl El) as [z Hz]. now rewrite Hz.
  Qed.

  Lemma out_cols_length a : List.length (out_cols c) = List.length (b_fun (c_body c) a).
  Proof. unfold out_cols. now rewrite map_length, Htot. Qed.

  Lemma spec_row_keys r : map fst (spec_row c i r) = looped c ++ out_cols c.
  Proof.
    unfold spec_row. rewrite map_app. unfold picked. rewrite map_map. simpl.
    rewrite map_fst_combine by apply out_cols_length.
    f_equal. rewrite <- (entry_keys r). reflexivity.
  Qed.

  Lemma row_keys_ok : row_keys c = looped c ++ out_cols c.
  Proof.
    unfold row_keys. rewrite dict_of_nodup; rewrite map_map; simpl; rewrite map_id; [reflexivity|].
    exact (wf_cols c W).
  Qed.

  Lemma row_entry r : row_of c i (entry_of c i r) (spec_args c i r) = spec_row c i r.
  Proof.
    unfold row_of. cbv zeta. fold (spec_row c i r).
    rewrite dict_of_nodup by (rewrite spec_row_keys; exact (wf_cols c W)).
    rewrite row_keys_ok, <- (spec_row_keys r). apply map_lookup_self.
    rewrite spec_row_keys. exact (wf_cols c W).
  Qed.

  Lemma collectors_ok : negb (c_df c) && negb (nodupb String.eqb (collector_names c)) = false.
  Proof.
    assert (nodupb String.eqb (collector_names c) = true) as ->; [|now rewrite andb_false_r].
    apply nodupb_NoDup. unfold collector_names.
    apply (Permutation_NoDup (l := looped c ++ out_cols c)); [|exact (wf_cols c W)].
    symmetry. unfold looped. apply perm_collectors.
  Qed.

  Lemma list_names_ok : list_names c = spec_list_names c.
  Proof.
    unfold list_names, spec_list_names.
    set (X := filter (fun l => mems l (looped c)) (in_labels c) ++ out_cols c).
    rewrite dict_of_nodup; rewrite map_map; simpl; rewrite map_id; [reflexivity|].
    unfold X. apply NoDup_app_intro.
    - apply NoDup_filter. exact (wf_ins c W).
    - exact (NoDup_app_r _ _ (wf_cols c W)).
    - intros x Hx. apply filter_In in Hx. destruct Hx as [_ Hx]. apply mems_In in Hx.
      exact (NoDup_app_disj _ _ x (wf_cols c W) Hx).
  Qed.

  Lemma table_ok : 0 < nrows c i -> table_of c (spec_rows c i) = spec_table c i.
  Proof.
    intro Hn. unfold table_of, spec_table. destruct (c_df c).
    - f_equal. unfold spec_rows. destruct (nrows c i) as [|n]; [lia|]. simpl. apply spec_row_keys.
    - now rewrite list_names_ok.
  Qed.

  Lemma maps_are_entries :
    mixed_zero_in c i = false ->
    index_maps (data_of i) (Some (c_iter c)) (Some (c_zip c)) =
      if nrows c i =? 0 then Err ValueErrorAllZero else Ok (map (entry_of c i) (seq 0 (nrows c i))).
  Proof.
    intro Hmix.
    rewrite (index_maps_spec (data_of i) (Some (c_iter c)) (Some (c_zip c))
                             (lens i (c_iter c)) (lens i (c_zip c))).
    - simpl okeys. rewrite (wf_some c W). reflexivity.
    - simpl okeys. apply (lengths_data_of c i Hsh). intros l Hl. split.
      + apply (wf_sub c W). unfold looped. apply in_or_app. now left.
      + apply mems_In. unfold looped. apply in_or_app. now left.
    - simpl okeys. apply (lengths_data_of c i Hsh). intros l Hl. split.
      + apply (wf_sub c W). unfold looped. apply in_or_app. now right.
      + apply mems_In. unfold looped. apply in_or_app. now right.
    - exact (wf_loop c W).
    - exact Hmix.
  Qed.

  Theorem run_miss order st :
    s_in st = i -> mixed_zero_in c i = false -> s_failed st = false -> hit c st = false ->
    run c order st =
      if nrows c i =? 0 then (st, Raised ValueErrorAllZero false [])
      else (built c (s_cache st) i, Returned (Some (spec_table c i)) (spec_calls c i)).
  Proof.
    intros Hi Hmix Hf Hhit. unfold run. cbv zeta. rewrite Hhit, Hi, Hf, (shaped_all_data c i Hsh).
    cbn [andb negb]. rewrite (maps_are_entries Hmix).
    destruct (nrows c i =? 0) eqn:En; [reflexivity|].
    apply Nat.eqb_neq in En. assert (0 < nrows c i) as Hpos by lia.
    set (n := nrows c i) in *. set (maps := map (entry_of c i) (seq 0 n)).
    rewrite collectors_ok.
    assert (dropped c maps = []) as ->.
    { unfold dropped, maps. destruct n as [|n']; [lia|]. simpl hd. rewrite entry_keys.
      apply filter_all_in. auto. }
    cbn [isnil negb filter]. rewrite andb_false_r.
    assert (all_some (map (args_of c i) maps) = Some (map (spec_args c i) (seq 0 n))) as ->.
    { unfold maps. rewrite map_map. apply all_some_map. intros r _. apply args_entry. }
    assert (List.length maps = n) as -> by (unfold maps; now rewrite map_length, seq_length).
    rewrite collect_sched.
    assert (map (fun ma : imap * list Z => row_of c i (fst ma) (snd ma))
                (combine maps (map (spec_args c i) (seq 0 n))) = spec_rows c i) as Hrows.
    { unfold maps. rewrite combine_map_same, map_map. unfold spec_rows. fold n.
      apply map_ext. intro r. simpl. apply row_entry. }
    rewrite Hrows, map_map.
    assert (map (fun r => nth r (spec_rows c i) []) (seq 0 n) = spec_rows c i) as ->.
    { replace n with (List.length (spec_rows c i)) at 1; [apply map_nth_seq|].
      unfold spec_rows. now rewrite map_length, seq_length. }
    rewrite (table_ok Hpos). unfold built, spec_children, spec_calls. fold n. fold maps.
    reflexivity.
  Qed.
End Miss.

(* ================================================================================== *)
(* F. all histories: re-runs with changed inputs, cache hits and misses                 *)

Lemma list_eqb_eq_gen {A} (eqb : A -> A -> bool) :
  (forall x y, eqb x y = true -> x = y) -> forall a b, list_eqb eqb a b = true -> a = b.
Proof.
  intros He a. induction a as [|x a IH]; intros [|y b] H; simpl in H; try discriminate; [reflexivity|].
  apply andb_true_iff in H. destruct H as [H1 H2]. f_equal; auto.
Qed.

Lemma ival_eqb_eq a b : ival_eqb a b = true -> a = b.
Proof.
  destruct a as [x|x]; destruct b as [y|y]; simpl; try discriminate.
  - intro H. apply Z.eqb_eq in H. now subst.
  - intro H. f_equal. revert H. apply list_eqb_eq_gen. intros ? ?. apply Z.eqb_eq.
Qed.

Lemma inputs_eqb_eq a b : inputs_eqb a b = true -> a = b.
Proof.
  apply list_eqb_eq_gen. intros [k v] [k' v']. simpl. intro H.
  apply andb_true_iff in H. destruct H as [H1 H2]. apply String.eqb_eq in H1. subst.
  destruct v as [v|]; destruct v' as [v'|]; simpl in H2; try discriminate; [|reflexivity].
  apply ival_eqb_eq in H2. now subst.
Qed.

(* what a reachable node remembers is right: whenever its cache answers for complete,
   well-shaped inputs, the stored table and the sub-graph are those of these inputs *)
Definition Inv (c : cfg) (st : fstate) : Prop :=
  s_failed st = false /\
  forall ci, s_cached st = Some ci -> shaped c ci = true ->
    0 < nrows c ci /\ s_out st = Some (spec_table c ci) /\ s_children st = spec_children c ci.

(* inputs of one step: right labels and shapes; if complete, not the mixed zero-length layout *)
Definition ok_inputs (c : cfg) (i : inputs) : Prop :=
  typed c i = true /\ (all_data i = true -> mixed_zero_in c i = false).

Inductive reach (c : cfg) : fstate -> Prop :=
| reach_create st : create c = Ok st -> reach c st
| reach_step st s : reach c st -> ok_inputs c (s_in (assign_all st (fst s))) ->
                    reach c (fst (do_step c st s))
| reach_use_cache st b : reach c st -> reach c (set_cache st b).

Lemma assign_all_keeps st a :
  s_children (assign_all st a) = s_children st /\ s_cached (assign_all st a) = s_cached st /\
  s_out (assign_all st a) = s_out st /\ s_failed (assign_all st a) = s_failed st /\
  s_cache (assign_all st a) = s_cache st.
Proof.
  unfold assign_all. revert st. induction a as [|[l v] r IH]; intro st; simpl; [auto 6|].
  destruct (IH (assign st l v)) as (H1 & H2 & H3 & H4 & H5). rewrite H1, H2, H3, H4, H5. auto 6.
Qed.

Lemma assign_all_inv c st a : Inv c st -> Inv c (assign_all st a).
Proof.
  destruct (assign_all_keeps st a) as (H1 & H2 & H3 & H4 & _).
  unfold Inv. now rewrite H1, H2, H3, H4.
Qed.

Lemma create_inv c st : create c = Ok st -> Inv c st.
Proof.
  unfold create. destruct (check_class c); [discriminate|]. intro H. inversion H; subst.
  split; [reflexivity|]. simpl. discriminate.
Qed.

Lemma built_inv c b i : 0 < nrows c i -> Inv c (built c b i).
Proof.
  intro Hn. split; [reflexivity|]. unfold built. simpl. intros ci Hc _.
  destruct b; [|discriminate]. inversion Hc; subst. auto.
Qed.

Lemma set_cache_inv c st o : Inv c st -> Inv c (set_cache_opt st o).
Proof. destruct o; auto. Qed.

Lemma run_inv c order st :
  wf_cfg c = true -> body_total c -> Inv c st -> ok_inputs c (s_in st) -> Inv c (fst (run c order st)).
Proof.
  intros Hwf Htot [Hf Hc] [Hty Hmz].
  destruct (hit c st) eqn:Hhit.
  - unfold run. cbv zeta. rewrite Hhit. simpl. now split.
  - destruct (all_data (s_in st)) eqn:Had.
    + assert (shaped c (s_in st) = true) as Hsh by (unfold shaped; now rewrite Hty, Had).
      rewrite (run_miss c (s_in st) Hwf Htot Hsh order st eq_refl (Hmz eq_refl) Hf Hhit).
      destruct (nrows c (s_in st) =? 0) eqn:En; simpl.
      * now split.
      * apply built_inv. apply Nat.eqb_neq in En. lia.
    + unfold run. cbv zeta. rewrite Hhit, Had. cbn [andb negb fst]. now split.
Qed.

Lemma reach_inv c st : wf_cfg c = true -> body_total c -> reach c st -> Inv c st.
Proof.
  intros Hwf Htot H. induction H as [st H|st s H IH Hok|st b H IH].
  - now apply create_inv.
  - unfold do_step. apply run_inv; auto. now apply assign_all_inv.
  - exact IH.
Qed.

(* after ANY history of (re-)assignments and runs, one more run on complete inputs returns
   exactly the table of these inputs and leaves exactly their sub-graph *)
Theorem rerun_spec c :
  wf_cfg c = true -> body_total c ->
  forall st, reach c st ->
  forall s, let i := s_in (assign_all st (fst s)) in
    shaped c i = true -> mixed_zero_in c i = false ->
    if nrows c i =? 0 then
      do_step c st s = (assign_all st (fst s), Raised ValueErrorAllZero false [])
    else
      exists calls,
        snd (do_step c st s) = Returned (Some (spec_table c i)) calls /\
        (calls = [] \/ calls = spec_calls c i) /\
        s_children (fst (do_step c st s)) = spec_children c i /\
        s_out (fst (do_step c st s)) = Some (spec_table c i).
Proof.
  intros Hwf Htot st Hr s i Hsh Hmix.
  pose proof (assign_all_inv c st (fst s) (reach_inv c st Hwf Htot Hr)) as [Hf Hc].
  unfold do_step. fold i in Hf, Hc |- *. set (st1 := assign_all st (fst s)) in *.
  destruct (hit c st1) eqn:Hhit.
  - unfold run. cbv zeta. rewrite Hhit. cbn [fst snd].
    unfold hit in Hhit. apply andb_true_iff in Hhit. destruct Hhit as [_ Hh].
    destruct (s_cached st1) as [ci|] eqn:Eci; [|discriminate].
    apply inputs_eqb_eq in Hh. fold i in Hh. subst ci.
    destruct (Hc i eq_refl Hsh) as (Hn & Ho & Hch).
    destruct (nrows c i =? 0) eqn:En; [apply Nat.eqb_eq in En; lia|].
    exists []. rewrite Ho. auto.
  - rewrite (run_miss c i Hwf Htot Hsh (snd s) st1 eq_refl Hmix Hf Hhit).
    destruct (nrows c i =? 0); [reflexivity|].
    exists (spec_calls c i). cbn [fst snd built s_children s_out]. auto.
Qed.

(* ================================================================================== *)
(* G. the sub-graph: as many body nodes as rows                                          *)

Lemma count_kind_app k a b : count_kind k (a ++ b) = count_kind k a + count_kind k b.
Proof. unfold count_kind. now rewrite filter_app, app_length. Qed.

Lemma count_body_gi_fold (m : imap) ch :
  count_kind "body" (fold_left (fun ch' (ki : string * nat) => add_child (gi_child (fst ki) (snd ki)) ch') m ch)
  = count_kind "body" ch.
Proof.
  revert ch; induction m as [|[l ix] r IH]; intro ch; [reflexivity|].
  simpl fold_left. rewrite IH. unfold add_child.
  destruct (memb obs_eqb _ ch); [reflexivity|]. rewrite count_kind_app.
  assert (count_kind "body" [gi_child l ix] = 0) as -> by reflexivity. lia.
Qed.

Lemma count_body_fold (nms : list (nat * imap)) ch :
  count_kind "body"
    (fold_left (fun ch (nm : nat * imap) =>
                  fold_left (fun ch' (ki : string * nat) => add_child (gi_child (fst ki) (snd ki)) ch')
                            (snd nm) (ch ++ [body_child (fst nm)])) nms ch)
  = count_kind "body" ch + List.length nms.
Proof.
  revert ch; induction nms as [|[n m] r IH]; intro ch; [simpl; lia|].
  simpl fold_left. rewrite IH, count_body_gi_fold, count_kind_app.
  assert (count_kind "body" [body_child n] = 1) as -> by reflexivity. simpl List.length. lia.
Qed.

Lemma count_body_map {A} (f : A -> obs) l :
  (forall x, count_kind "body" [f x] = 0) -> count_kind "body" (map f l) = 0.
Proof.
  intro H. induction l as [|x r IH]; [reflexivity|].
  change (map f (x :: r)) with ([f x] ++ map f r). now rewrite count_kind_app, H, IH.
Qed.

Theorem body_nodes_count c maps : count_kind "body" (build_children c maps) = List.length maps.
Proof.
  unfold build_children, body_children.
  assert (count_kind "body"
            (fold_left (fun ch (nm : nat * imap) =>
               fold_left (fun ch' (ki : string * nat) => add_child (gi_child (fst ki) (snd ki)) ch')
                         (snd nm) (ch ++ [body_child (fst nm)]))
               (combine (seq 0 (List.length maps)) maps) (map in_child (in_labels c)))
          = List.length maps) as H.
  { rewrite count_body_fold, combine_length, seq_length, Nat.min_id.
    rewrite count_body_map; [reflexivity|]. reflexivity. }
  destruct (c_df c); rewrite !count_kind_app, H.
  - rewrite count_body_map by reflexivity.
    assert (count_kind "body" [df_child] = 0) as -> by reflexivity. lia.
  - rewrite count_body_map by reflexivity. lia.
Qed.

Corollary spec_children_bodies c i : count_kind "body" (spec_children c i) = nrows c i.
Proof. unfold spec_children. now rewrite body_nodes_count, map_length, seq_length. Qed.

(* ================================================================================== *)
(* H. reading a row: the decoded positions                                              *)

Lemma sassoc_app_l {B} l (a b : list (string * B)) v : sassoc l a = Some v -> sassoc l (a ++ b) = Some v.
Proof.
  unfold sassoc. induction a as [|[k w] r IH]; simpl; [discriminate|].
  destruct (String.eqb l k); auto.
Qed.

Lemma sassoc_app_r {B} l (a b : list (string * B)) :
  ~ In l (map fst a) -> sassoc l (a ++ b) = sassoc l b.
Proof.
  unfold sassoc. induction a as [|[k w] r IH]; simpl; intro H; [reflexivity|].
  destruct (String.eqb l k) eqn:E.
  - apply String.eqb_eq in E. subst. exfalso. apply H. now left.
  - apply IH. intro Hin. apply H. now right.
Qed.

Lemma sassoc_combine_nth (ks : list string) (ds : list nat) j k :
  NoDup ks -> List.length ds = List.length ks -> nth_error ks j = Some k ->
  sassoc k (combine ks ds) = Some (nth j ds 0).
Proof.
  unfold sassoc. revert ds j. induction ks as [|x ks IH]; intros ds j Hnd Hl Hj.
  - destruct j; discriminate.
  - destruct ds as [|d ds]; [discriminate|]. inversion Hnd; subst. simpl.
    destruct j as [|j]; simpl in Hj.
    + inversion Hj; subst. now rewrite String.eqb_refl.
    + destruct (String.eqb k x) eqn:E.
      * apply String.eqb_eq in E. subst. exfalso. apply H1. eapply nth_error_In; eauto.
      * apply IH; auto.
Qed.

Lemma sassoc_const_map (ks : list string) (z : nat) k :
  In k ks -> sassoc k (map (fun k => (k, z)) ks) = Some z.
Proof.
  unfold sassoc. induction ks as [|x ks IH]; [contradiction|]. simpl.
  destruct (String.eqb k x) eqn:E; [reflexivity|].
  intros [H|H]; [subst; rewrite String.eqb_refl in E; discriminate|auto].
Qed.

(* the r-th combination gives iterated key number j the j-th mixed-radix digit of r / nz, and
   every zipped key the position r mod nz *)
Theorem entry_decodes nk nls zk nz r :
  NoDup (nk ++ zk) -> List.length nls = List.length nk ->
  (forall j k, nth_error nk j = Some k ->
     sassoc k (spec_entry nk nls zk nz r) = Some (nth j (digits nls (r / nz)) 0)) /\
  (forall k, In k zk -> sassoc k (spec_entry nk nls zk nz r) = Some (r mod nz)).
Proof.
  intros Hnd Hl. unfold spec_entry. split.
  - intros j k Hj. apply sassoc_app_l. apply sassoc_combine_nth; auto.
    + exact (NoDup_app_l _ _ Hnd).
    + now rewrite digits_length.
  - intros k Hk. rewrite sassoc_app_r.
    + now apply sassoc_const_map.
    + rewrite map_fst_combine by now rewrite digits_length.
      intro Hin. exact (NoDup_app_disj _ _ k Hnd Hin Hk).
Qed.

(* ================================================================================== *)
(* I. for_node and the class registry: earlier for-nodes never leak into a new one       *)

Lemma sassoc_del_same {B} k (d : list (string * B)) : sassoc k (del String.eqb k d) = None.
Proof.
  unfold sassoc. induction d as [|[k' v] r IH]; [reflexivity|].
  simpl. destruct (String.eqb k k') eqn:E; [exact IH|]. simpl. now rewrite E.
Qed.

(* whatever classes earlier calls registered -- however they spelled their fields -- the class
   a for_node call works with is the one built from ITS arguments (or its creation error) *)
Theorem for_node_class_fresh reg q :
  snd (for_node_class reg q) =
  match check_class (cfg_of q) with Some e => Err e | None => Ok (cfg_of q) end.
Proof.
  unfold for_node_class. cbv zeta. rewrite sassoc_del_same.
  destruct (check_class (cfg_of q)); reflexivity.
Qed.

Lemma scenario_of_fresh q (steps : list xstep) :
  scenario_of (match check_class (cfg_of q) with Some e => Err e | None => Ok (cfg_of q) end) steps
  = scenario (cfg_of q) steps.
Proof. unfold scenario, create. destruct (check_class (cfg_of q)); reflexivity. Qed.

(* a session of for-nodes behaves as that many independent nodes, each of its own configuration *)
Definition fresh_class (q : request) : res cfg :=
  match check_class (cfg_of q) with Some e => Err e | None => Ok (cfg_of q) end.

Theorem session_independent reg qs :
  session_go reg qs =
  map (fun qs : request * list xstep =>
         OL [OS (name_of (fst qs) (fresh_class (fst qs))); scenario (cfg_of (fst qs)) (snd qs)]) qs.
Proof.
  revert reg. induction qs as [|[q steps] r IH]; intro reg; [reflexivity|].
  simpl session_go. pose proof (for_node_class_fresh reg q) as H.
  destruct (for_node_class reg q) as [reg' c]. simpl in H. subst c.
  rewrite scenario_of_fresh, IH. reflexivity.
Qed.
