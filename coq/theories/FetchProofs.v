(* FetchProofs.v -- C03: priority of fetch, the readiness gate, no hint-violating store. *)
From PW Require Import Base Fetch.

Lemma nth_set_nth_same {A} (l : list A) n x d : n < List.length l -> nth n (set_nth l n x) d = x.
Proof. revert n; induction l as [|y r IH]; intros [|n] H; cbn in *; try lia; auto. apply IH. lia. Qed.
Lemma nth_set_nth_other {A} (l : list A) n m x d : n <> m -> nth m (set_nth l n x) d = nth m l d.
Proof. revert n m; induction l as [|y r IH]; intros [|n] [|m] H; cbn; auto; try congruence. Qed.
Lemma set_nth_length {A} (l : list A) n x : List.length (set_nth l n x) = List.length l.
Proof. revert n; induction l as [|y r IH]; intros [|n]; cbn; auto. Qed.
Lemma set_nth_overflow {A} (l : list A) n x : List.length l <= n -> set_nth l n x = l.
Proof. revert n; induction l as [|y r IH]; intros [|n] H; cbn in *; auto; try lia. f_equal. apply IH. lia. Qed.

(* ---- put ---------------------------------------------------------------------------------- *)
Lemma getc_put_other s c v d : d <> c -> getc (put s c v) d = getc s d.
Proof. intros H. unfold getc, put. cbn. apply nth_set_nth_other. auto. Qed.

Lemma getc_put_same s c v : c < List.length (chans s) ->
  getc (put s c v) c = {| c_val := v; c_hinted := c_hinted (getc s c); c_strict := c_strict (getc s c);
                          c_recv := c_recv (getc s c); c_conns := c_conns (getc s c); c_owner := c_owner (getc s c) |}.
Proof. intros H. unfold getc, put. cbn. apply nth_set_nth_same. exact H. Qed.

Lemma put_overflow s c v : List.length (chans s) <= c -> put s c v = s.
Proof. intros H. unfold put. rewrite set_nth_overflow by assumption. destruct s; reflexivity. Qed.

Lemma put_length s c v : List.length (chans (put s c v)) = List.length (chans s).
Proof. unfold put. cbn. apply set_nth_length. Qed.

Lemma put_running s c v : running (put s c v) = running s.
Proof. reflexivity. Qed.

(* everything except values is left alone by put *)
Definition same_shape (a b : chan) : Prop :=
  c_hinted a = c_hinted b /\ c_strict a = c_strict b /\ c_recv a = c_recv b /\ c_conns a = c_conns b /\ c_owner a = c_owner b.

Lemma put_shape s c v d : same_shape (getc (put s c v) d) (getc s d).
Proof.
  destruct (Nat.eq_dec d c) as [->|H]; [|rewrite getc_put_other by assumption; repeat split].
  destruct (Nat.lt_ge_cases c (List.length (chans s))) as [L|L].
  - rewrite getc_put_same by assumption. repeat split.
  - rewrite put_overflow by assumption. repeat split.
Qed.

Lemma set_value_shape fuel : forall s c v s', set_value fuel s c v = Ok s' ->
  (forall d, same_shape (getc s' d) (getc s d)) /\ running s' = running s /\
  List.length (chans s') = List.length (chans s).
Proof.
  induction fuel as [|fuel IH]; intros s c v s' H; cbn in H; [discriminate|].
  destruct (locked s c); [discriminate|]. destruct (negb (type_ok (getc s c) v)); [discriminate|].
  destruct (c_recv (getc s c)) as [r|].
  - destruct (set_value fuel s r v) as [s1|e] eqn:E; [|discriminate]. inversion H; subst s'.
    destruct (IH _ _ _ _ E) as [A [B C]]. split; [|split].
    + intros d. destruct (put_shape s1 c v d) as [P1 [P2 [P3 [P4 P5]]]]. destruct (A d) as [Q1 [Q2 [Q3 [Q4 Q5]]]].
      repeat split; congruence.
    + rewrite put_running. exact B.
    + rewrite put_length. exact C.
  - inversion H; subst s'. split; [intros d; apply put_shape|]. split; [reflexivity|apply put_length].
Qed.

(* ---- no hint-violating value is ever stored in a strictly hinted channel ---------------------- *)
Definition good_chan (ch : chan) : Prop :=
  c_strict ch = true -> c_hinted ch = true -> match c_val ch with None => True | Some v => admits v = true end.
Definition Good (s : store) : Prop := forall d, good_chan (getc s d).

Lemma good_put s c v : Good s -> type_ok (getc s c) v = true -> Good (put s c v).
Proof.
  intros G T d. destruct (Nat.eq_dec d c) as [->|H]; [|rewrite getc_put_other by assumption; apply G].
  destruct (Nat.lt_ge_cases c (List.length (chans s))) as [L|L]; [|rewrite put_overflow by assumption; apply G].
  rewrite getc_put_same by assumption. intros Hs Hh. cbn in *. unfold type_ok in T.
  destruct v as [x|]; [|exact I]. rewrite Hs, Hh in T. cbn in T. exact T.
Qed.

Theorem set_value_good fuel : forall s c v s', Good s -> set_value fuel s c v = Ok s' -> Good s'.
Proof.
  induction fuel as [|fuel IH]; intros s c v s' G H; cbn in H; [discriminate|].
  destruct (locked s c); [discriminate|].
  destruct (type_ok (getc s c) v) eqn:T; cbn in H; [|discriminate].
  destruct (c_recv (getc s c)) as [r|].
  - destruct (set_value fuel s r v) as [s1|e] eqn:E; [|discriminate]. inversion H; subst s'.
    apply good_put; [eapply IH; eauto|].
    destruct (set_value_shape _ _ _ _ _ E) as [A _]. destruct (A c) as [Q1 [Q2 _]].
    unfold type_ok in *. rewrite Q1, Q2. exact T.
  - inversion H; subst s'. apply good_put; assumption.
Qed.

Lemma fetch_good fuel s c s' : Good s -> fetch fuel s c = Ok s' -> Good s'.
Proof.
  unfold fetch. intros G. destruct (first_data s (c_conns (getc s c))); [apply set_value_good; exact G|].
  intros H; inversion H; subst; exact G.
Qed.

Lemma fetch_all_good fuel inputs : forall s, Good s -> Good (fst (fetch_all fuel s inputs)).
Proof.
  induction inputs as [|c r IH]; intros s G; cbn; [exact G|].
  destruct (fetch fuel s c) as [s1|e] eqn:E; [apply IH; eapply fetch_good; eauto|exact G].
Qed.

Lemma assign_all_good fuel kw : forall s, Good s -> Good (fst (assign_all fuel s kw)).
Proof.
  induction kw as [|[c v] r IH]; intros s G; cbn; [exact G|].
  destruct (set_value fuel s c v) as [s1|e] eqn:E; [apply IH; eapply set_value_good; eauto|exact G].
Qed.

(* ---- who is touched: only the receiver chain ------------------------------------------------------- *)
Fixpoint chain (fuel : nat) (s : store) (c : nat) : list nat :=
  match fuel with
  | O => []
  | S f => c :: match c_recv (getc s c) with Some r => chain f s r | None => [] end
  end.

Lemma chain_shape fuel : forall s s' c, (forall d, same_shape (getc s' d) (getc s d)) -> chain fuel s' c = chain fuel s c.
Proof.
  induction fuel as [|f IH]; intros s s' c H; cbn; [reflexivity|].
  destruct (H c) as [_ [_ [R _]]]. rewrite R. destruct (c_recv (getc s c)); [f_equal; apply IH; exact H|reflexivity].
Qed.

Theorem set_value_touches_chain fuel : forall s c v s', set_value fuel s c v = Ok s' ->
  (forall d, ~ In d (chain fuel s c) -> getc s' d = getc s d) /\
  (forall d, In d (chain fuel s c) -> d < List.length (chans s) -> c_val (getc s' d) = v).
Proof.
  induction fuel as [|fuel IH]; intros s c v s' H; cbn in H; [discriminate|].
  destruct (locked s c); [discriminate|]. destruct (negb (type_ok (getc s c) v)); [discriminate|].
  cbn [chain]. destruct (c_recv (getc s c)) as [r|].
  - destruct (set_value fuel s r v) as [s1|e] eqn:E; [|discriminate]. inversion H; subst s'.
    destruct (IH _ _ _ _ E) as [A B]. destruct (set_value_shape _ _ _ _ _ E) as [_ [_ L]]. split.
    + intros d Hd. cbn in Hd. rewrite getc_put_other by (intros ->; apply Hd; left; reflexivity).
      apply A. intros Hin. apply Hd. right. exact Hin.
    + intros d Hd Hl. destruct (Nat.eq_dec d c) as [->|Hn].
      * rewrite getc_put_same by (rewrite L; exact Hl). reflexivity.
      * rewrite getc_put_other by assumption. destruct Hd as [->|Hd]; [congruence|]. apply B; assumption.
  - inversion H; subst s'. split.
    + intros d Hd. cbn in Hd. apply getc_put_other. intros ->. apply Hd. left. reflexivity.
    + intros d [<-|[]] Hl. rewrite getc_put_same by assumption. reflexivity.
Qed.

(* ---- fetch takes the most recently connected upstream output that holds data ----------------------- *)
Fixpoint first_data_spec (vals : list slot) : slot :=
  match vals with [] => None | Some v :: _ => Some v | None :: r => first_data_spec r end.

Lemma first_data_is_spec s conns : first_data s conns = first_data_spec (map (fun u => c_val (getc s u)) conns).
Proof. induction conns as [|u r IH]; cbn; [reflexivity|]. destruct (c_val (getc s u)); auto. Qed.

Theorem fetch_priority fuel s c s' : fetch fuel s c = Ok s' -> c < List.length (chans s) ->
  c_val (getc s' c) = match first_data_spec (map (fun u => c_val (getc s u)) (c_conns (getc s c))) with
                      | Some v => Some v
                      | None => c_val (getc s c)
                      end /\
  (forall d, ~ In d (chain fuel s c) -> getc s' d = getc s d).
Proof.
  unfold fetch. rewrite first_data_is_spec. intros H L.
  destruct (first_data_spec _) as [v|].
  - destruct (set_value_touches_chain _ _ _ _ _ H) as [A B]. split; [|exact A].
    apply B; [|exact L]. destruct fuel; [discriminate|]. cbn. left. reflexivity.
  - inversion H; subst. split; auto.
Qed.

(* ---- the gate ------------------------------------------------------------------------------------------ *)
Section Gate.
Variable sem : list val -> val.

Theorem gate fuel s nd me node_failed kw s' called e :
  run_node sem fuel s nd me node_failed kw = (s', called, e) ->
  (* the function is called only on data that satisfies the hints, with exactly the resolved input values,
     by a node that is neither running nor failed *)
  (forall args, called = Some args ->
     e = None /\ node_failed = false /\
     exists s2, fst (fetch_all fuel (fst (assign_all fuel s kw)) (n_inputs nd)) = s2 /\
       nth me (running s2) false = false /\
       all_ready s2 (n_inputs nd) = true /\ args = map (arg_of s2) (n_inputs nd) /\
       s' = put s2 (n_output nd) (Some (sem args))) /\
  (* otherwise: refused; the function is not called and the store is the store after delivery: outputs untouched *)
  (called = None -> exists err, e = Some err /\
     (s' = fst (assign_all fuel s kw) \/ s' = fst (fetch_all fuel (fst (assign_all fuel s kw)) (n_inputs nd)))).
Proof.
  unfold run_node. destruct (assign_all fuel s kw) as [s1 [e1|]] eqn:E1.
  - intros H; inversion H; subst. split; [intros a Ha; discriminate|]. intros _. exists e1. cbn. auto.
  - destruct (fetch_all fuel s1 (n_inputs nd)) as [s2 [e2|]] eqn:E2.
    + intros H; inversion H; subst. split; [intros a Ha; discriminate|]. intros _. exists e2. cbn [fst]. rewrite E2. cbn. auto.
    + destruct (nth me (running s2) false) eqn:Er; cbn [orb].
      * intros H; inversion H; subst. split; [intros a Ha; discriminate|]. intros _. exists Readiness. cbn [fst]. rewrite E2. cbn. auto.
      * destruct node_failed; cbn [orb].
        -- intros H; inversion H; subst. split; [intros a Ha; discriminate|]. intros _. exists Readiness. cbn [fst]. rewrite E2. cbn. auto.
        -- destruct (all_ready s2 (n_inputs nd)) eqn:Ea; cbn [negb].
           ++ intros H; inversion H; subst. split; [|discriminate].
              intros a Ha. inversion Ha; subst a. split; [reflexivity|]. split; [reflexivity|].
              exists s2. cbn [fst]. rewrite E2. cbn. auto.
           ++ intros H; inversion H; subst. split; [intros a Ha; discriminate|]. intros _. exists Readiness. cbn [fst]. rewrite E2. cbn. auto.
Qed.

(* ready means: data that satisfies a strict hint *)
Lemma ready_spec ch : ready ch = true <->
  exists v, c_val ch = Some v /\ (c_hinted ch = true -> c_strict ch = true -> admits v = true).
Proof.
  unfold ready. destruct (c_val ch) as [v|]; [|split; [discriminate|intros [v [H _]]; discriminate]].
  split.
  - intros H. exists v. split; [reflexivity|]. intros Hh Hs. rewrite Hh, Hs in H. exact H.
  - intros [w [E F]]. inversion E; subst w. destruct (c_hinted ch), (c_strict ch); cbn; auto.
Qed.
End Gate.
