(* Dag.v -- the abstract machine for C01: running a composite whose execution signals were
   derived from an acyclic data graph (topology.set_run_connections_according_to_dag):
   every node has an all-of trigger (accumulate_and_run) connected to the `ran` signal of
   each distinct upstream owner; nodes without upstream are the starting nodes.

   Events over-approximate what Composite._run_while_children_or_signals_exist and the
   executor callbacks can do: [Deliver i] hands ANY pending (emitter, receiver) signal to
   its receiver (the code pops the head; executor callbacks append from other threads in
   any interleaving), [Complete n] finishes ANY node that is out on an executor.
   [sched] is the code-shaped scheduler (FIFO head first, poll only when the queue is
   empty) used by the correspondence check; it only ever applies [step].  Stdlib only. *)
From PW Require Import Base.

Inductive st := Idle | Out | Done.
Definition st_eqb a b := match a, b with Idle, Idle | Out, Out | Done, Done => true | _, _ => false end.

Definition updf {A} (f : nat -> A) (k : nat) (v : A) : nat -> A :=
  fun x => if Nat.eqb x k then v else f x.

Fixpoint remove_nth {A} (i : nat) (l : list A) : list A :=
  match i, l with _, [] => [] | 0, _ :: r => r | S j, x :: r => x :: remove_nth j r end.

Inductive logev := LStart (n : nat) | LFinish (n : nat).

Section Dag.
  Variable N : nat.                          (* nodes are 0 .. N-1                         *)
  Variable ups : nat -> list nat.            (* distinct upstream owners of node n          *)
  Variable sem : nat -> (nat -> Z) -> Z.     (* node function, reading upstream outputs     *)
  Variable remote : nat -> bool.             (* handed to an executor?                      *)

  (* receivers of n's `ran`, in the order the code enqueues them: ran.connections is newest
     first and the wiring loop connects children in order, so later children come first *)
  Definition downs (n : nat) : list nat := rev (filter (fun m => memn n (ups m)) (seq 0 N)).

  Record state := { status : nat -> st; recv : nat -> list nat; pend : list (nat * nat);
                    out : nat -> Z; log : list logev }.

  (* _finish_run + _run_finally: outputs stored, `ran` enqueued to every connected trigger *)
  Definition finish (s : state) (n : nat) : state :=
    {| status := updf (status s) n Done; recv := recv s;
       pend := pend s ++ map (fun m => (n, m)) (downs n);
       out := updf (out s) n (sem n (out s));
       log := log s ++ [LFinish n] |}.

  (* the trigger fired: received set reset, node runs (locally: to completion) *)
  Definition fire (s : state) (n : nat) : state :=
    {| status := updf (status s) n Out; recv := updf (recv s) n []; pend := pend s; out := out s;
       log := log s ++ [LStart n] |}.

  Definition start (s : state) (n : nat) : state :=
    if remote n then fire s n else finish (fire s n) n.

  Definition deliver (s : state) (i : nat) : option state :=
    match nth_error (pend s) i with
    | None => None
    | Some (u, n) =>
        let r := u :: recv s n in
        let s1 := {| status := status s; recv := updf (recv s) n r; pend := remove_nth i (pend s);
                     out := out s; log := log s |} in
        Some (if forallb (fun x => memn x r) (ups n) then start s1 n else s1)
    end.

  Definition complete (s : state) (n : nat) : option state :=
    if Nat.ltb n N && st_eqb (status s n) Out then Some (finish s n) else None.

  Inductive ev := Deliver (i : nat) | Complete (n : nat).

  Definition step (s : state) (e : ev) : option state :=
    match e with Deliver i => deliver s i | Complete n => complete s n end.

  Fixpoint run (s : state) (es : list ev) : option state :=
    match es with [] => Some s | e :: r => match step s e with None => None | Some s' => run s' r end end.

  Definition sources : list nat :=
    filter (fun n => match ups n with [] => true | _ => false end) (seq 0 N).

  Definition empty : state :=
    {| status := fun _ => Idle; recv := fun _ => []; pend := []; out := fun _ => 0%Z; log := [] |}.

  (* Composite._on_run: the starting nodes are run one after the other, in ANY order *)
  Definition init (order : list nat) : state := fold_left start order empty.

  Definition quiescent (s : state) : Prop := pend s = [] /\ forall n, n < N -> status s n <> Out.

  Definition quiescentb (s : state) : bool :=
    match pend s with [] => forallb (fun n => negb (st_eqb (status s n) Out)) (seq 0 N) | _ => false end.

  (* the code-shaped scheduler: pop the queue head; when the queue is empty and children
     are still out, the poll completes one of them: the oracle's next number picks among
     the outstanding children (sorted), an exhausted oracle picks the first *)
  Definition outs (s : state) : list nat := filter (fun n => st_eqb (status s n) Out) (seq 0 N).

  Fixpoint sched (fuel : nat) (oracle : list nat) (s : state) : option state :=
    match fuel with
    | O => if quiescentb s then Some s else None
    | S fuel' =>
        match pend s with
        | _ :: _ => match deliver s 0 with Some s' => sched fuel' oracle s' | None => None end
        | [] => if quiescentb s then Some s else
                  let n := nth (hd 0 oracle mod List.length (outs s)) (outs s) 0 in
                  match complete s n with Some s' => sched fuel' (tl oracle) s' | None => None end
        end
    end.
End Dag.

(* ---- concrete graphs for evaluation (the correspondence check) -------------------------- *)
Inductive input := IConst (z : Z) | IConn (l : list nat).   (* connections, newest (= highest priority) first *)
Record nodespec := { n_k : Z; n_ins : list input; n_remote : bool;
                    n_macro : bool (* a nested macro child: two chained function nodes behind by-value IO *) }.
Definition graph := list nodespec.

Fixpoint nodup_nat (l : list nat) : list nat :=
  match l with [] => [] | x :: r => if memn x r then nodup_nat r else x :: nodup_nat r end.

Definition g_node (g : graph) (n : nat) : nodespec :=
  nth n g {| n_k := 0; n_ins := []; n_remote := false; n_macro := false |}.
Definition in_conns (i : input) : list nat := match i with IConst _ => [] | IConn l => l end.
Definition g_ups (g : graph) (n : nat) : list nat := nodup_nat (flat_map in_conns (n_ins (g_node g n))).
Definition g_remote (g : graph) (n : nat) : bool := n_remote (g_node g n).

Definition MODULUS : Z := 1000003.
(* lin_k(args) = (k + sum (i+1) * a_i) mod 1000003: the harness's node function *)
Fixpoint lin_sum (i : Z) (args : list Z) : Z :=
  match args with [] => 0 | a :: r => (i * a + lin_sum (i + 1) r)%Z end.
Definition lin (k : Z) (args : list Z) : Z := ((k + lin_sum 1 args) mod MODULUS)%Z.

Definition in_val (env : nat -> Z) (i : input) : Z :=
  match i with IConst z => z | IConn [] => 0%Z | IConn (u :: _) => env u end.
(* a macro child M(k, x) = Lin2(k=5, a=Lin1(k=k, a=x), b=7): as a node of the enclosing graph it is a
   leaf whose function is that composition (its own internal run is again a DAG run, one level down) *)
Definition g_sem (g : graph) (n : nat) (env : nat -> Z) : Z :=
  let nd := g_node g n in
  let args := map (in_val env) (n_ins nd) in
  if n_macro nd then lin 5 [lin (n_k nd) args; 7%Z] else lin (n_k nd) args.

Definition obs_log (l : list logev) : obs :=
  OL (map (fun e => match e with LStart n => OL [OS "s"; on n] | LFinish n => OL [OS "f"; on n] end) l).

(* run graph g: starting nodes in the given order, then the FIFO scheduler with the
   completion oracle.  Observation: start/finish log, outputs, anything left running *)
Definition g_run (g : graph) (order oracle : list nat) : obs :=
  let N := List.length g in
  let s0 := init N (g_ups g) (g_sem g) (g_remote g) order in
  match sched N (g_ups g) (g_sem g) (g_remote g) (3 * N * N + 3 * N + 5) oracle s0 with
  | None => OS "stuck"
  | Some s => OL [obs_log (log s);
                  OL (map (fun n => OZ (out s n)) (seq 0 N));
                  OL (map (fun n => ob (st_eqb (status s n) Done)) (seq 0 N))]
  end.

Definition g_wiring (g : graph) : obs :=
  let N := List.length g in
  OL [OL (map (fun n => OL (map on (g_ups g n))) (seq 0 N)); OL (map on (sources N (g_ups g)))].

(* well-formedness of a concrete graph: data edges point to earlier nodes (acyclic) *)
Definition wf_graph (g : graph) : bool :=
  forallb (fun n => forallb (fun u => Nat.ltb u n) (g_ups g n)) (seq 0 (List.length g)).

Definition g_wiring_sorted (g : graph) : obs :=
  let N := List.length g in
  OL [OL (map (fun n => OL (map on (filter (fun u => memn u (g_ups g n)) (seq 0 N)))) (seq 0 N));
      OL (map on (sources N (g_ups g)))].

Definition g_obs (g : graph) (order oracle : list nat) : obs :=
  OL [g_run g order oracle; g_wiring_sorted g].
