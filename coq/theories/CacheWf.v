(* CacheWf.v -- C05 at the level of a Workflow of function nodes (the `wfd` family): every child has one data
   input `a` (own value, optionally connected to the output of an EARLIER child) and computes k + a, raising
   on a negative argument.  The workflow's inputs are its children's unconnected inputs, so its cache key is
   the dictionary {child -> own value} over the currently unconnected children; children have their own
   caches.  [uc] = use_cache on the workflow and on every child.

   Run of the workflow (Workflow.run -> Node.run -> Composite._on_run with automate_execution):
     * a failed workflow refuses (ReadinessError);
     * hit (not failed, key = remembered key): nothing runs, the outputs are returned;
     * miss: starting nodes (the unconnected children) run in child order -- the first one that raises or
       refuses aborts the run at once; then every child whose upstream ran is run (order irrelevant: one
       upstream each, edges point forward), failures there are collected; success remembers the key, failure
       marks the workflow failed and (fix 4d10bb8) forgets the key.
   A child's run: fetch (a connected input takes the upstream's output if it has data), refuse if failed,
   hit if not failed and the fetched value is the remembered one, else compute (raise: failed, key forgotten). *)
From PW Require Import Base.

Record child := { ck : Z; own : Z; src : option nat; out : option Z; ccache : option Z; cfailed : bool }.
Record wstate := { kids : list child; wcache : option (list (nat * Z)); wfailed : bool }.

Definition dchild : child := {| ck := 0; own := 0; src := None; out := None; ccache := None; cfailed := false |}.
Definition kid (st : wstate) (i : nat) : child := nth i (kids st) dchild.

Fixpoint set_nth {A} (l : list A) (n : nat) (x : A) : list A :=
  match l, n with [], _ => [] | _ :: r, O => x :: r | y :: r, S m => y :: set_nth r m x end.
Definition set_kid (st : wstate) (i : nat) (c : child) : wstate :=
  {| kids := set_nth (kids st) i c; wcache := wcache st; wfailed := wfailed st |}.

(* the workflow's input dictionary: unconnected children, in child order *)
Fixpoint key_from (i : nat) (l : list child) : list (nat * Z) :=
  match l with
  | [] => []
  | c :: r => match src c with None => (i, own c) :: key_from (S i) r | Some _ => key_from (S i) r end
  end.
Definition key (st : wstate) : list (nat * Z) := key_from 0 (kids st).

Fixpoint key_eqb (a b : list (nat * Z)) : bool :=
  match a, b with
  | [], [] => true
  | (i, x) :: a', (j, y) :: b' => Nat.eqb i j && Z.eqb x y && key_eqb a' b'
  | _, _ => false
  end.

Inductive cres := CRan | CRaised | CRefused.

Definition fetched (st : wstate) (c : child) : Z :=
  match src c with
  | Some j => match out (kid st j) with Some v => v | None => own c end
  | None => own c
  end.

Definition run_child (uc : bool) (st : wstate) (i : nat) : wstate * cres :=
  let c := kid st i in
  let a := fetched st c in
  if cfailed c then
    (set_kid st i {| ck := ck c; own := a; src := src c; out := out c; ccache := ccache c; cfailed := true |}, CRefused)
  else if uc && match ccache c with Some x => Z.eqb x a | None => false end then
    (set_kid st i {| ck := ck c; own := a; src := src c; out := out c; ccache := ccache c; cfailed := false |}, CRan)
  else if (a <? 0)%Z then
    (set_kid st i {| ck := ck c; own := a; src := src c; out := out c; ccache := None; cfailed := true |}, CRaised)
  else
    (set_kid st i {| ck := ck c; own := a; src := src c; out := Some (ck c + a)%Z;
                     ccache := if uc then Some a else ccache c; cfailed := false |}, CRan).

(* starting phase: unconnected children in child order, abort at the first that does not run *)
Fixpoint start_phase (uc : bool) (st : wstate) (is : list nat) (ran : list nat) : wstate * list nat * cres :=
  match is with
  | [] => (st, ran, CRan)
  | i :: r => match src (kid st i) with
              | Some _ => start_phase uc st r ran
              | None => let '(st1, x) := run_child uc st i in
                        match x with CRan => start_phase uc st1 r (i :: ran) | _ => (st1, ran, x) end
              end
  end.

(* signal phase: a connected child runs iff its upstream ran in this run *)
Fixpoint loop_phase (uc : bool) (st : wstate) (is : list nat) (ran : list nat) (ok : bool) : wstate * bool :=
  match is with
  | [] => (st, ok)
  | i :: r => match src (kid st i) with
              | None => loop_phase uc st r ran ok
              | Some j => if memn j ran then
                            let '(st1, x) := run_child uc st i in
                            match x with
                            | CRan => loop_phase uc st1 r (i :: ran) ok
                            | _ => loop_phase uc st1 r ran false
                            end
                          else loop_phase uc st r ran ok
              end
  end.

Inductive wres := WValue | WReadiness | WRaised | WFailedChild | WDone.

Definition body (uc : bool) (st : wstate) : wstate * wres :=
  let idx := seq 0 (List.length (kids st)) in
  let '(st1, ran, x) := start_phase uc st idx [] in
  match x with
  | CRan => let '(st2, ok2) := loop_phase uc st1 idx ran true in
            (st2, if ok2 then WValue else WFailedChild)
  | CRaised => (st1, WRaised)
  | CRefused => (st1, WReadiness)
  end.

Definition run_wf (uc : bool) (st : wstate) : wstate * wres :=
  if wfailed st then (st, WReadiness)
  else if uc && match wcache st with Some k => key_eqb k (key st) | None => false end then (st, WValue)
  else
    let '(st1, r) := body uc st in
    match r with
    | WValue => ({| kids := kids st1; wcache := if uc then Some (key st1) else wcache st1; wfailed := false |}, WValue)
    | _ => ({| kids := kids st1; wcache := None; wfailed := true |}, r)
    end.

Inductive wop :=
| WAssign (i : nat) (v : Z)
| WConnect (d s : nat)          (* disconnect_all + connect; s < d *)
| WDisconnect (d : nat)
| WRun
| WClear.

Definition upd_kid (st : wstate) (i : nat) (f : child -> child) : wstate :=
  if Nat.ltb i (List.length (kids st)) then set_kid st i (f (kid st i)) else st.

Definition wstep (uc : bool) (st : wstate) (o : wop) : wstate * wres :=
  match o with
  | WAssign i v => (upd_kid st i (fun c => {| ck := ck c; own := v; src := src c; out := out c; ccache := ccache c; cfailed := cfailed c |}), WDone)
  | WConnect d s => (if Nat.ltb s d then upd_kid st d (fun c => {| ck := ck c; own := own c; src := Some s; out := out c; ccache := ccache c; cfailed := cfailed c |}) else st, WDone)
  | WDisconnect d => (upd_kid st d (fun c => {| ck := ck c; own := own c; src := None; out := out c; ccache := ccache c; cfailed := cfailed c |}), WDone)
  | WRun => run_wf uc st
  | WClear => ({| kids := map (fun c => {| ck := ck c; own := own c; src := src c; out := out c; ccache := ccache c; cfailed := false |}) (kids st);
                  wcache := wcache st; wfailed := false |}, WDone)
  end.

Definition winit (ks : list (Z * Z)) : wstate :=
  {| kids := map (fun p => {| ck := fst p; own := snd p; src := None; out := None; ccache := None; cfailed := false |}) ks;
     wcache := None; wfailed := false |}.

(* what the property speaks about: what a run returns, the outputs, the failed flags *)
Definition visible (st : wstate) : list (option Z) * list bool * bool :=
  (map out (kids st), map cfailed (kids st), wfailed st).

Fixpoint wtrace (uc : bool) (st : wstate) (ops : list wop) : list (wres * (list (option Z) * list bool * bool)) :=
  match ops with
  | [] => []
  | o :: r => let '(st1, x) := wstep uc st o in (x, visible st1) :: wtrace uc st1 r
  end.

(* ---- observations for the correspondence check -------------------------------------------------------- *)
Definition obs_wres (r : wres) : obs :=
  OS (match r with WValue => "val" | WReadiness => "Readiness" | WRaised => "UserExc" | WFailedChild => "FailedChild" | WDone => "done" end).
Definition obs_slot (o : option Z) : obs := match o with None => OS "nd" | Some z => OZ z end.
Definition obs_wtrace (uc : bool) (ks : list (Z * Z)) (ops : list wop) : obs :=
  OL (map (fun p : wres * (list (option Z) * list bool * bool) =>
             let '(r, (outs, fl, wf)) := p in OL [obs_wres r; OL (map obs_slot outs); OL (map ob fl); ob wf])
          (wtrace uc (winit ks) ops)).
