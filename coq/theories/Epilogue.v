(* Epilogue.v -- Node._run_finally (node.py): what a node does after EVERY run, in order.
   The method is a straight line of guarded effects; the guards read flags that do not change inside the method
   (failed, the parent's running flag, the arguments).  Several properties rest on the ORDER and the GUARDS:
     C01  signals are enqueued with the parent BEFORE the child un-registers (Poll.v shows the opposite order loses a signal)
     C05  inputs are remembered only after a success, forgotten after a failure, and that happens BEFORE a checkpoint is written
     C08  the recovery file is written exactly by a failed root whose exception will be raised and that has a recovery back end
     C06  signals are emitted directly only when no running parent will deliver them
   Stdlib only. *)
From PW Require Import Base.

Inductive effect :=
| ECacheWrite      (* self._cached_inputs = self.inputs.to_value_dict() *)
| ECacheClear      (* self._cached_inputs = None *)
| EEnqueue         (* self.parent.register_child_emitting(self) *)
| EUnregister      (* self.parent.register_child_finished(self) *)
| ECheckpoint      (* self.save_checkpoint(self.checkpoint) *)
| EEmit            (* self.emit() *)
| ERecoverySave    (* self.save(backend=self.recovery, filename=<graph dir>/recovery) *)
| EClean.          (* self._clean_graph_directory() *)

Definition effect_eqb (a b : effect) : bool :=
  match a, b with
  | ECacheWrite, ECacheWrite | ECacheClear, ECacheClear | EEnqueue, EEnqueue | EUnregister, EUnregister
  | ECheckpoint, ECheckpoint | EEmit, EEmit | ERecoverySave, ERecoverySave | EClean, EClean => true
  | _, _ => false
  end.

Record flags := {
  use_cache : bool; failed : bool;
  has_parent : bool; parent_running : bool;        (* self.parent is not None ; self.parent.running *)
  emit_ran : bool; raise_exc : bool;               (* the two arguments *)
  has_checkpoint : bool; has_recovery : bool;      (* self.checkpoint / self.recovery is not None *)
  is_root : bool;                                  (* self.graph_root is self *)
  do_clean : bool }.

Definition when (b : bool) (e : effect) : list effect := if b then [e] else [].

Definition epilogue (f : flags) : list effect :=
  let pr := has_parent f && parent_running f in
  (if use_cache f && negb (failed f) then [ECacheWrite] else if failed f then [ECacheClear] else []) ++
  when (pr && emit_ran f) EEnqueue ++
  when pr EUnregister ++
  when (has_checkpoint f) ECheckpoint ++
  when (emit_ran f && negb pr) EEmit ++
  when (failed f && raise_exc f && has_recovery f && is_root f) ERecoverySave ++
  when (do_clean f) EClean.

(* position of the first occurrence *)
Fixpoint index_of (e : effect) (l : list effect) : option nat :=
  match l with
  | [] => None
  | x :: r => if effect_eqb e x then Some 0 else option_map S (index_of e r)
  end.

Definition before (a b : effect) (l : list effect) : Prop :=
  forall i j, index_of a l = Some i -> index_of b l = Some j -> i < j.
