(* Chan.v -- executable model of the connection store of pyiron_workflow (property C12).

   Mirrors, step by step and in source order,
     channels.py   Channel.connect / _valid_connection / disconnect / disconnect_all /
                   copy_connections (with its undo log as written), the >> and << sugar
     io.py         IO.__setattr__ (assignment = connect), IO.disconnect, Signals.disconnect,
                   InputSignals.disconnect_run, HasIO.disconnect, set_input_values,
                   _copy_connections / copy_io (undo logs as written), __rshift__/__lshift__
     composite.py  remove_child, add_child (parent bookkeeping only), replace_child,
                   disconnect_run, set_run_signals_to_dag_execution
     topology.py   nodes_to_data_digraph, _set_new_run_connections_with_fallback_recovery,
                   _set_run_connections_according_to_dag / _linear_dag, get_nodes_in_data_tree
     node.py       run_data_tree (what pull / __call__ do to the signal connections)

   A world [W] is the static description of every channel (owner node, label, flavour,
   direction, hint tag, strictness, accumulating flag); channel ids are positions in [W].
   The mutable part is one ordered list of partner ids per channel (newest first), the
   parent of every node, the ordered children of every workflow and the node labels.
   Iteration orders of Python *sets* of nodes (hash/id dependent) are inputs of the ops that
   depend on them; every theorem quantifies over them.  Stdlib only. *)
From PW Require Import Base.

Inductive flavor := Data | Signal.
Inductive dir := DIn | DOut.
Inductive htag := HInt | HStr | HBool | HIntStr.     (* int, str, bool, int | str *)

Definition flavor_eqb (a b : flavor) : bool :=
  match a, b with Data, Data | Signal, Signal => true | _, _ => false end.
Definition dir_eqb (a b : dir) : bool :=
  match a, b with DIn, DIn | DOut, DOut => true | _, _ => false end.

(* type_hint_is_as_or_more_specific_than on the four tags (validated against the real
   function by the harness on every run) *)
Definition compat (o i : htag) : bool :=
  match o, i with
  | HInt, HInt | HStr, HStr | HBool, HBool | HIntStr, HIntStr => true
  | HBool, HInt => true
  | HInt, HIntStr | HStr, HIntStr | HBool, HIntStr => true
  | _, _ => false
  end.

Record cstat := mkc {
  c_owner : nat;            (* node index *)
  c_label : nat;            (* index in the harness' table of channel labels *)
  c_flavor : flavor;
  c_dir : dir;
  c_hint : option htag;     (* data channels only *)
  c_strict : bool;          (* strict_hints *)
  c_acc : bool              (* AccumulatingInputSignal *)
}.
Definition world := list cstat.

(* channel label indices fixed by the harness *)
Definition L_RUN := 5.
Definition L_ACC := 6.
Definition L_RAN := 7.

Inductive exn :=
| TypeErr | ConnErr | ValueErr | AttrErr | KeyErr | ConnCopyErr | ValueCopyErr | CircErr | AmbigErr.
Inductive res := Ok | Err (e : exn).

Definition cstore := list (list nat).       (* per channel: partners, newest first *)

Definition conns (s : cstore) (c : nat) : list nat := nth c s [].

Fixpoint setc (s : cstore) (c : nat) (l : list nat) : cstore :=
  match s, c with
  | [], _ => []
  | _ :: r, 0 => l :: r
  | x :: r, S c' => x :: setc r c' l
  end.

Definition opt_list {A} (o : option A) : list A := match o with Some a => [a] | None => [] end.

Fixpoint dedup (l : list nat) : list nat :=
  match l with [] => [] | x :: r => if memn x r then dedup r else x :: dedup r end.

(* keep the first occurrence (order of first appearance) *)
Fixpoint dedup_first (seen l : list nat) : list nat :=
  match l with
  | [] => []
  | x :: r => if memn x seen then dedup_first seen r else x :: dedup_first (x :: seen) r
  end.

(* the members of [C], first those named by [order] (in that order, once), then the rest *)
Definition arrange (order C : list nat) : list nat :=
  filter (fun v => memn v C) (dedup_first [] order) ++ filter (fun v => negb (memn v order)) C.

Fixpoint insert_by (key : nat -> nat) (v : nat) (l : list nat) : list nat :=
  match l with
  | [] => [v]
  | x :: r => if Nat.leb (key v) (key x) then v :: l else x :: insert_by key v r
  end.
Definition sort_by (key : nat -> nat) (l : list nat) : list nat := fold_right (insert_by key) [] l.

Definition optnat_eqb (a b : option nat) : bool :=
  match a, b with
  | None, None => true
  | Some x, Some y => Nat.eqb x y
  | _, _ => false
  end.

Section Model.
Variable W : world.

Definition cget (c : nat) : option cstat := nth_error W c.
Definition owner_of (c : nat) : nat := match cget c with Some x => c_owner x | None => 0 end.

(* isinstance(other, self.connection_conjugate()) : same flavour, opposite direction *)
Definition conjb (a b : nat) : bool :=
  match cget a, cget b with
  | Some x, Some y => flavor_eqb (c_flavor x) (c_flavor y) && negb (dir_eqb (c_dir x) (c_dir y))
  | _, _ => false
  end.

(* DataChannel._valid_connection (signals: Channel._valid_connection = True) *)
Definition validb (a b : nat) : bool :=
  match cget a, cget b with
  | Some x, Some y =>
      match c_flavor x with
      | Signal => true
      | Data =>
          match c_hint x, c_hint y with
          | Some hx, Some hy =>
              match c_dir x with
              | DIn => if c_strict x then compat hy hx else true     (* out = other, inp = self *)
              | DOut => if c_strict y then compat hx hy else true    (* out = self, inp = other *)
              end
          | _, _ => true
          end
      end
  | _, _ => false
  end.

(* ---- channels.py ----------------------------------------------------------------- *)
(* Channel.connect, body of the loop for one [other] *)
Definition connect1 (s : cstore) (a b : nat) : cstore * res :=
  if memn b (conns s a) then (s, Ok)                               (* continue *)
  else if conjb a b then
    if validb a b then
      let s1 := setc s a (b :: conns s a) in                       (* self.connections.insert(0, other) *)
      (setc s1 b (a :: conns s1 b), Ok)                            (* other.connections.insert(0, self) *)
    else (s, Err ConnErr)
  else (s, Err TypeErr).

(* Channel.connect(others...): stops at the first exception *)
Fixpoint connect (s : cstore) (a : nat) (bs : list nat) : cstore * res :=
  match bs with
  | [] => (s, Ok)
  | b :: r => match connect1 s a b with
              | (s', Ok) => connect s' a r
              | (s', Err e) => (s', Err e)
              end
  end.

(* one [other] of Channel.disconnect: `if other in self.connections: remove; other.disconnect(self)`,
   the callee doing the same with the roles swapped, until a membership test fails *)
Fixpoint disc_rec (fuel : nat) (s : cstore) (a b : nat) : cstore :=
  match fuel with
  | 0 => s
  | S f => if memn b (conns s a)
           then disc_rec f (setc s a (remove1 Nat.eqb b (conns s a))) b a
           else s
  end.
Definition disc1 (s : cstore) (a b : nat) : cstore :=
  disc_rec (S (List.length (conns s a) + List.length (conns s b))) s a b.

(* Channel.disconnect(others...) -> destroyed (self, other) pairs *)
Fixpoint disconnect (s : cstore) (a : nat) (bs : list nat) : cstore * list (nat * nat) :=
  match bs with
  | [] => (s, [])
  | b :: r => if memn b (conns s a)
              then let '(s', ps) := disconnect (disc1 s a b) a r in (s', (a, b) :: ps)
              else disconnect s a r
  end.

Definition disconnect_all (s : cstore) (a : nat) := disconnect s a (conns s a).

(* Channel.copy_connections: `new_connections` also records the already-connected ones *)
Fixpoint copy_go (a : nat) (ts new : list nat) (s : cstore) : cstore * res :=
  match ts with
  | [] => (s, Ok)
  | t :: r => match connect1 s a t with
              | (s', Ok) => copy_go a r (new ++ [t]) s'
              | (s', Err e) => (fst (disconnect s' a new), Err e)
              end
  end.
Definition copy_conns (s : cstore) (a o : nat) : cstore * res := copy_go a (conns s o) [] s.

(* ---- io.py ------------------------------------------------------------------------- *)
Definition ids : list nat := seq 0 (List.length W).

Definition in_panel (n : nat) (fl : flavor) (d : dir) (c : nat) : bool :=
  match cget c with
  | Some x => Nat.eqb (c_owner x) n && flavor_eqb (c_flavor x) fl && dir_eqb (c_dir x) d
  | None => false
  end.
Definition panel_chans (n : nat) (fl : flavor) (d : dir) : list nat := filter (in_panel n fl d) ids.

Definition has_label (l : nat) (c : nat) : bool :=
  match cget c with Some x => Nat.eqb (c_label x) l | None => false end.
Definition find_chan (n : nat) (fl : flavor) (d : dir) (l : nat) : option nat :=
  find (has_label l) (panel_chans n fl d).

(* _owned_io_panels: inputs, outputs, signals.input, signals.output *)
Definition all_chans (n : nat) : list nat :=
  panel_chans n Data DIn ++ panel_chans n Data DOut ++ panel_chans n Signal DIn ++ panel_chans n Signal DOut.

(* `for c in panel: destroyed.extend(c.disconnect_all())` *)
Fixpoint disconnect_all_list (s : cstore) (cs : list nat) : cstore * list (nat * nat) :=
  match cs with
  | [] => (s, [])
  | c :: r => let '(s1, p1) := disconnect_all s c in
              let '(s2, p2) := disconnect_all_list s1 r in (s2, p1 ++ p2)
  end.

(* HasIO.disconnect: inputs, outputs, signals (input, output) *)
Definition node_disconnect (s : cstore) (n : nat) := disconnect_all_list s (all_chans n).

(* InputSignals.disconnect_run: run, then accumulate_and_run *)
Definition run_chans (n : nat) : list nat :=
  opt_list (find_chan n Signal DIn L_RUN) ++ opt_list (find_chan n Signal DIn L_ACC).
Definition disconnect_run (s : cstore) (n : nat) := disconnect_all_list s (run_chans n).

(* `for this, that in new_connections: this.disconnect(that)` *)
Definition undo_pairs (s : cstore) (ps : list (nat * nat)) : cstore :=
  fold_left (fun s p => fst (disconnect s (fst p) [snd p])) ps s.

(* HasIO._copy_connections, innermost loop (targets of one channel of [other]);
   [my] = my_panel[key] (None: no such key -> AttributeError inside the try) *)
Fixpoint cc_targets (fh : bool) (my : option nat) (ts : list nat) (s : cstore) (new : list (nat * nat))
  : cstore * list (nat * nat) * bool :=
  match ts with
  | [] => (s, new, false)
  | t :: r =>
      match my with
      | None => if fh then (undo_pairs s new, new, true) else cc_targets fh my r s new
      | Some c =>
          match connect1 s c t with
          | (s', Ok) => cc_targets fh my r s' (new ++ [(c, t)])
          | (s', Err _) => if fh then (undo_pairs s' new, new, true) else cc_targets fh my r s' new
          end
      end
  end.

Definition my_chan (n : nat) (ch : nat) : option nat :=
  match cget ch with Some x => find_chan n (c_flavor x) (c_dir x) (c_label x) | None => None end.

(* the two outer loops: panels zipped, then the other panel's channels *)
Fixpoint cc_channels (fh : bool) (n : nat) (chs : list nat) (s : cstore) (new : list (nat * nat))
  : cstore * list (nat * nat) * bool :=
  match chs with
  | [] => (s, new, false)
  | ch :: r =>
      let '(s1, new1, raised) := cc_targets fh (my_chan n ch) (conns s ch) s new in
      if raised then (s1, new1, true) else cc_channels fh n r s1 new1
  end.

Definition copy_connections_io (fh : bool) (n m : nat) (s : cstore) := cc_channels fh n (all_chans m) s [].

(* HasIO.copy_io; [vfail] = did _copy_values raise (only possible with values_fail_hard) *)
Definition copy_io (n m : nat) (cfh vfh vfail : bool) (s : cstore) : cstore * res :=
  let '(s1, new, raised) := copy_connections_io cfh n m s in
  if raised then (s1, Err ConnCopyErr)
  else if vfh && vfail then (undo_pairs s1 new, Err ValueCopyErr)
  else (s1, Ok).

(* ---- graph state ----------------------------------------------------------------- *)
Record state := mks {
  cn : cstore;
  par : list (option nat);      (* node -> its workflow *)
  kids : list (list nat);       (* workflow -> children, in `children` order *)
  lab : list nat                (* node -> rank of its label *)
}.
Definition with_cn (st : state) (s : cstore) : state := mks s (par st) (kids st) (lab st).
Definition parent (st : state) (n : nat) : option nat := nth n (par st) None.
Definition children (st : state) (w : nat) : list nat := nth w (kids st) [].
Definition label_of (st : state) (n : nat) : nat := nth n (lab st) 0.

Fixpoint set_nth {A} (l : list A) (i : nat) (v : A) : list A :=
  match l, i with
  | [], _ => []
  | _ :: r, 0 => v :: r
  | x :: r, S i' => x :: set_nth r i' v
  end.

(* ---- topology.py ------------------------------------------------------------------ *)
(* owners of everything connected to the data inputs of [n], in iteration order *)
Definition ups (s : cstore) (n : nat) : list nat :=
  flat_map (fun c => map owner_of (conns s c)) (panel_chans n Data DIn).

(* get_nodes_in_data_tree as a set (work-list; enough fuel for every duplicate-free store) *)
Fixpoint closure (fuel : nat) (s : cstore) (front seen : list nat) : list nat :=
  match fuel with
  | 0 => seen
  | S f => match front with
           | [] => seen
           | v :: r => if memn v seen then closure f s r seen
                       else closure f s (r ++ ups s v) (seen ++ [v])
           end
  end.
Definition cfuel : nat := S (List.length W * List.length W + List.length W).
Definition data_tree (s : cstore) (n : nat) : list nat := closure cfuel s [n] [].
(* the recursion of get_nodes_in_data_tree does not terminate (RecursionError ->
   CircularDataFlowError) iff a cycle is reachable upstream *)
Definition cyclic_up (s : cstore) (n : nat) : bool :=
  existsb (fun v => memn v (closure cfuel s (ups s v) [])) (data_tree s n).

(* nodes_to_data_digraph: which exception (if any) *)
Definition same_parents (st : state) (nodes : list nat) : bool :=
  match nodes with
  | [] => true
  | v :: _ => forallb (fun u => optnat_eqb (parent st u) (parent st v)) nodes
  end.
Fixpoint dg_nodes (s : cstore) (nodes todo : list nat) : option exn :=
  match todo with
  | [] => None
  | v :: r => if existsb (fun u => negb (memn u nodes)) (ups s v) then Some KeyErr
              else if memn v (ups s v) then Some CircErr
              else dg_nodes s nodes r
  end.
Definition digraph_check (st : state) (s : cstore) (nodes : list nat) : option exn :=
  if same_parents st nodes then dg_nodes s nodes nodes else Some ValueErr.

(* toposort (layers; each layer sorted by label as toposort_flatten does); None = cycle *)
Fixpoint kahn (fuel : nat) (key : nat -> nat) (s : cstore) (rem done : list nat) : option (list nat) :=
  match rem with
  | [] => Some []
  | _ =>
      match fuel with
      | 0 => None
      | S f =>
          let ready := filter (fun v => forallb (fun d => Nat.eqb d v || memn d done) (ups s v)) rem in
          match ready with
          | [] => None
          | _ => match kahn f key s (filter (fun v => negb (memn v ready)) rem) (done ++ ready) with
                 | None => None
                 | Some o => Some (sort_by key ready ++ o)
                 end
          end
      end
  end.

(* _set_new_run_connections_with_fallback_recovery, first loop *)
Fixpoint disc_phase (s : cstore) (nodes : list nat) : cstore * list (nat * nat) :=
  match nodes with
  | [] => (s, [])
  | v :: r => let '(s1, p1) := disconnect_run s v in
              let '(s2, p2) := disconnect_all_list s1 (opt_list (find_chan v Signal DOut L_RAN)) in
              let '(s3, p3) := disc_phase s2 r in (s3, p1 ++ p2 ++ p3)
  end.
(* `for c1, c2 in disconnected_pairs: c1.connect(c2)` *)
Definition restore (s : cstore) (ps : list (nat * nat)) : cstore :=
  fold_left (fun s p => fst (connect1 s (fst p) (snd p))) ps s.

(* _set_run_connections_according_to_dag, second loop; [order] = iteration order of the
   set of upstream nodes *)
Definition wire_one (s : cstore) (v : nat) (order : list nat) : cstore :=
  match find_chan v Signal DIn L_ACC with
  | None => s
  | Some acc =>
      fst (connect s acc
             (flat_map (fun u => opt_list (find_chan u Signal DOut L_RAN))
                       (arrange order (dedup (ups s v)))))
  end.
Fixpoint wire_all (s : cstore) (nodes : list nat) (orders : list (list nat)) : cstore :=
  match nodes with
  | [] => s
  | v :: r => wire_all (wire_one s v (hd [] orders)) r (tl orders)
  end.

Definition wire_dag (st : state) (nodes : list nat) (orders : list (list nat)) : cstore * res :=
  let '(s1, pairs) := disc_phase (cn st) nodes in
  match digraph_check st s1 nodes with
  | Some e => (restore s1 pairs, Err e)
  | None =>
      match kahn (S (List.length nodes)) (label_of st) s1 nodes [] with
      | None => (restore s1 pairs, Err CircErr)
      | Some _ => (wire_all s1 nodes orders, Ok)
      end
  end.

(* _set_run_connections_according_to_linear_dag: `nodes[label] >> nodes[next_node]` *)
Fixpoint chain (s : cstore) (ord : list nat) : cstore :=
  match ord with
  | a :: ((b :: _) as r) =>
      match find_chan b Signal DIn L_RUN, find_chan a Signal DOut L_RAN with
      | Some rb, Some ra => chain (fst (connect1 s rb ra)) r
      | _, _ => chain s r
      end
  | _ => s
  end.

Fixpoint disconnect_run_list (s : cstore) (nodes : list nat) : cstore :=
  match nodes with [] => s | v :: r => disconnect_run_list (fst (disconnect_run s v)) r end.

(* Node.run_data_tree, as far as connections go; [order] = iteration order of the set
   returned by get_nodes_in_data_tree.  (A workflow parent pulled first has no data
   upstream and no signal connections in the scenarios: nothing to do there.) *)
Definition pull (st : state) (n : nat) (order : list nat) : cstore * res :=
  let s := cn st in
  if cyclic_up s n then (s, Err CircErr)
  else
    let tree := arrange order (data_tree s n) in
    let '(s1, pairs) := disc_phase s tree in
    match digraph_check st s1 tree with
    | Some e => (restore s1 pairs, Err e)
    | None =>
        match kahn (S (List.length tree)) (label_of st) s1 tree [] with
        | None => (restore s1 pairs, Err CircErr)
        | Some ord =>
            let s2 := chain s1 ord in
            let s3 := if Nat.eqb (hd n ord) n then s2 else fst (disconnect_run s2 n) in
            let s4 := disconnect_run_list s3 tree in       (* finally: *)
            (restore s4 pairs, Ok)
        end
    end.

(* ---- the op language ----------------------------------------------------------------- *)
Inductive src := SChan (c : nat) | SNode (n : nat).
Inductive panel := PIn | POut | PSigIn | PSigOut | PSignals | PRun.

Inductive op :=
| OConnect (a : nat) (bs : list nat)                  (* a.connect(bs...) *)
| ODisconnect (a : nat) (bs : list nat)               (* a.disconnect(bs...) *)
| ODisconnectAll (a : nat)
| OCopyConns (a o : nat)                              (* a.copy_connections(o) *)
| OAssign (c : nat) (v : src)                         (* panel[label] = v *)
| OSetInputs (n : nat) (kw : list (nat * src))        (* n.set_input_values(kw...) *)
| OCall (n : nat) (kw : list (nat * src)) (tree : list nat)   (* n(kw...) *)
| ORshift (l r : src)                                 (* l >> r *)
| OLshift (t : src) (ss : list src)                   (* t << ss *)
| OPanelDisconnect (n : nat) (p : panel)
| ONodeDisconnect (n : nat)                           (* n.disconnect() *)
| OCopyIO (n m : nat) (cfh vfh vfail : bool)          (* n.copy_io(m, cfh, vfh) *)
| ORemove (w n : nat)                                 (* w.remove_child(n) *)
| OAdd (w n : nat)                                    (* w.add_child(n) *)
| OReplace (w n m : nat)                              (* w.replace_child(n, m) *)
| OWireDag (w : nat) (orders : list (list nat))       (* w.set_run_signals_to_dag_execution() *)
| ORunWf (w : nat) (orders : list (list nat))         (* w.run() *)
| OWfDisconnectRun (w : nat)                          (* w.disconnect_run() *)
| OPull (n : nat) (tree : list nat)                   (* n.pull() *)
| ORemoveLabel (w n : nat)                            (* w.remove_child(n.label) *)
| OSetParent (n : nat) (p : option nat).              (* n.parent = p  (None, or another / the same composite) *)

Definition is_kind (c : nat) (fl : flavor) (d : dir) : bool :=
  match cget c with Some x => flavor_eqb (c_flavor x) fl && dir_eqb (c_dir x) d | None => false end.
Definition is_acc (c : nat) : bool := match cget c with Some x => c_acc x | None => false end.

(* value.channel : a channel is its own channel, a node its single output *)
Definition src_channel (v : src) : option nat :=
  match v with
  | SChan c => Some c
  | SNode m => match panel_chans m Data DOut with [c] => Some c | _ => None end
  end.

Definition lift (st : state) (r : cstore * res) : state * res := (with_cn st (fst r), snd r).

(* IO._assign_value_to_existing_channel with a HasChannel value *)
Definition assign (s : cstore) (c : nat) (v : src) : cstore * res :=
  match src_channel v with
  | None => (s, Err AmbigErr)
  | Some x => connect1 s c x
  end.

(* the loop of set_input_values *)
Fixpoint set_inputs_go (s : cstore) (n : nat) (kw : list (nat * src)) : cstore * res :=
  match kw with
  | [] => (s, Ok)
  | (k, v) :: r =>
      match find_chan n Data DIn k with
      | None => (s, Err AttrErr)                       (* unreachable after the key check *)
      | Some c => match assign s c v with
                  | (s', Ok) => set_inputs_go s' n r
                  | (s', Err e) => (s', Err e)
                  end
      end
  end.
Definition set_inputs (s : cstore) (n : nat) (kw : list (nat * src)) : cstore * res :=
  if forallb (fun kv => match find_chan n Data DIn (fst kv) with Some _ => true | None => false end) kw
  then set_inputs_go s n kw
  else (s, Err ValueErr).                              (* _ensure_all_input_keys_present *)

Definition rshift (s : cstore) (l r : src) : cstore * res :=
  let lsig := match l with
              | SNode n => find_chan n Signal DOut L_RAN
              | SChan c => if is_kind c Signal DOut then Some c else None
              end in
  match lsig with
  | None => (s, Err TypeErr)                           (* no __rshift__ on the left operand *)
  | Some o =>
      match r with
      | SNode m => match find_chan m Signal DIn L_RUN with
                   | Some i => connect1 s i o          (* HasIO._connect_output_signal *)
                   | None => (s, Err AttrErr)
                   end
      | SChan c => if is_kind c Signal DIn then connect1 s c o   (* InputSignal._connect_output_signal *)
                   else (s, Err AttrErr)
      end
  end.

Fixpoint lshift_go (s : cstore) (acc : nat) (ss : list src) : cstore * res :=
  match ss with
  | [] => (s, Ok)
  | x :: r =>
      let o := match x with
               | SNode m => find_chan m Signal DOut L_RAN            (* HasIO._connect_accumulating_input_signal *)
               | SChan c => if is_kind c Signal DOut then Some c else None
               end in
      match o with
      | None => (s, Err AttrErr)
      | Some oc => match connect1 s oc acc with
                   | (s', Ok) => lshift_go s' acc r
                   | (s', Err e) => (s', Err e)
                   end
      end
  end.
Definition lshift (s : cstore) (t : src) (ss : list src) : cstore * res :=
  let acc := match t with
             | SNode n => find_chan n Signal DIn L_ACC
             | SChan c => if is_acc c then Some c else None
             end in
  match acc with
  | None => (s, Err TypeErr)
  | Some a => lshift_go s a ss
  end.

Definition panel_list (n : nat) (p : panel) : list nat :=
  match p with
  | PIn => panel_chans n Data DIn
  | POut => panel_chans n Data DOut
  | PSigIn => panel_chans n Signal DIn
  | PSigOut => panel_chans n Signal DOut
  | PSignals => panel_chans n Signal DIn ++ panel_chans n Signal DOut
  | PRun => run_chans n
  end.

Definition connected (s : cstore) (n : nat) : bool :=
  existsb (fun c => match conns s c with [] => false | _ => true end) (all_chans n).

(* Composite.remove_child: Lexical bookkeeping, then child.disconnect() *)
Definition remove_child (st : state) (w n : nat) : state :=
  mks (fst (node_disconnect (cn st) n))
      (set_nth (par st) n None)
      (set_nth (kids st) w (filter (fun k => negb (Nat.eqb k n)) (children st w)))
      (lab st).

Definition add_child (st : state) (w n : nat) : state :=
  mks (cn st) (set_nth (par st) n (Some w)) (set_nth (kids st) w (children st w ++ [n])) (lab st).

Definition swap_labels (st : state) (n m : nat) : state :=
  mks (cn st) (par st) (kids st)
      (set_nth (set_nth (lab st) n (label_of st m)) m (label_of st n)).

Definition replace_child (st : state) (w n m : nat) : state * res :=
  if negb (optnat_eqb (parent st n) (Some w)) then (st, Err ValueErr)
  else if negb (optnat_eqb (parent st m) None) then (st, Err ValueErr)
  else if connected (cn st) m then (st, Err ValueErr)
  else
    match copy_io m n true false false (cn st) with
    | (s1, Err e) => (with_cn st s1, Err e)
    | (s1, Ok) => (add_child (swap_labels (remove_child (with_cn st s1) w n) n m) w m, Ok)
    end.

(* Lexical._set_parent: nothing if unchanged; the old parent's remove_child (the Composite
   override: it disconnects the node), then the new parent's add_child *)
Definition set_parent (st : state) (n : nat) (p : option nat) : state :=
  if optnat_eqb (parent st n) p then st
  else
    let st1 := match parent st n with Some w' => remove_child st w' n | None => st end in
    match p with Some w => add_child st1 w n | None => st1 end.

(* LexicalParent.remove_child(label): children.pop(label) *)
Definition remove_by_label (st : state) (w n : nat) : state * res :=
  match find (fun k => Nat.eqb (label_of st k) (label_of st n)) (children st w) with
  | Some k => (remove_child st w k, Ok)
  | None => (st, Err KeyErr)
  end.

Definition wf_wire (st : state) (w : nat) (orders : list (list nat)) : state * res :=
  match children st w with
  | [] => (st, Ok)
  | nodes => lift st (wire_dag st nodes orders)
  end.

Definition step (st : state) (o : op) : state * res :=
  let s := cn st in
  match o with
  | OConnect a bs => lift st (connect s a bs)
  | ODisconnect a bs => (with_cn st (fst (disconnect s a bs)), Ok)
  | ODisconnectAll a => (with_cn st (fst (disconnect_all s a)), Ok)
  | OCopyConns a o' => lift st (copy_conns s a o')
  | OAssign c v => lift st (assign s c v)
  | OSetInputs n kw => lift st (set_inputs s n kw)
  | OCall n kw tree =>
      match set_inputs s n kw with
      | (s', Ok) => lift st (pull (with_cn st s') n tree)
      | (s', Err e) => (with_cn st s', Err e)
      end
  | ORshift l r => lift st (rshift s l r)
  | OLshift t ss => lift st (lshift s t ss)
  | OPanelDisconnect n p => (with_cn st (fst (disconnect_all_list s (panel_list n p))), Ok)
  | ONodeDisconnect n => (with_cn st (fst (node_disconnect s n)), Ok)
  | OCopyIO n m cfh vfh vfail => lift st (copy_io n m cfh vfh vfail s)
  | ORemove w n =>
      if optnat_eqb (parent st n) (Some w) then (remove_child st w n, Ok) else (st, Err KeyErr)
  | OAdd w n =>
      match parent st n with
      | None => (add_child st w n, Ok)
      | Some w' => if Nat.eqb w' w then (st, Ok) else (st, Err ValueErr)
      end
  | OReplace w n m => replace_child st w n m
  | OWireDag w orders => wf_wire st w orders
  | ORunWf w orders => wf_wire st w orders
  | OWfDisconnectRun w => (with_cn st (disconnect_run_list s (children st w)), Ok)
  | OPull n tree => lift st (pull st n tree)
  | ORemoveLabel w n => remove_by_label st w n
  | OSetParent n p => (set_parent st n p, Ok)
  end.

Definition exec (st : state) (ops : list op) : state := fold_left (fun st o => fst (step st o)) ops st.

(* ---- observation --------------------------------------------------------------------- *)
Definition exn_code (e : exn) : Z :=
  match e with
  | TypeErr => 1 | ConnErr => 2 | ValueErr => 3 | AttrErr => 4 | KeyErr => 5
  | ConnCopyErr => 6 | ValueCopyErr => 7 | CircErr => 8 | AmbigErr => 9
  end.
Definition res_code (r : res) : Z := match r with Ok => 0 | Err e => exn_code e end.

(* a partner is shown as (label of its owner, its channel label) packed into one number *)
Definition pair_code (st : state) (c : nat) : Z :=
  match cget c with
  | Some x => Z.of_nat (label_of st (c_owner x) * 32 + c_label x)%nat
  | None => (-1)
  end.

Definition list_eqb (a b : list nat) : bool :=
  (fix go (a b : list nat) : bool :=
     match a, b with
     | [], [] => true
     | x :: a', y :: b' => Nat.eqb x y && go a' b'
     | _, _ => false
     end) a b.

(* the channels whose rendered list differs from the one before the op *)
Definition delta (st st' : state) : list obs :=
  flat_map (fun c =>
              let old := map (pair_code st) (conns (cn st) c) in
              let new := map (pair_code st') (conns (cn st') c) in
              if (fix eq (a b : list Z) : bool :=
                    match a, b with
                    | [], [] => true
                    | x :: a', y :: b' => Z.eqb x y && eq a' b'
                    | _, _ => false
                    end) old new
              then [] else [OL (on c :: map OZ new)]) ids.

(* per op: outcome, node labels (only when they changed), parents and children lists (only
   when they changed), changed connection lists, and the
   driver's count of partners outside the universe / ill-typed strict data connections
   (0 in the model: see ChanProofs.Inv) *)
Definition opt_code (o : option nat) : obs := match o with None => on 0 | Some w => on (S w) end.
Definition tree_obs (st : state) : list obs :=
  [OL (map opt_code (par st)); OL (map (fun l => OL (map on l)) (kids st))].
Definition tree_eqb (st st' : state) : bool :=
  obs_eqb (OL (tree_obs st)) (OL (tree_obs st')).

Definition obs_op (st st' : state) (o : op) (r : res) : obs :=
  OL [OZ (res_code r);
      OL (if list_eqb (lab st) (lab st') then [] else map on (lab st'));
      OL (if tree_eqb st st' then [] else tree_obs st');
      OL (delta st st');
      OZ 0].

Fixpoint trace (st : state) (ops : list op) : list obs :=
  match ops with
  | [] => []
  | o :: r => let '(st', rs) := step st o in obs_op st st' o rs :: trace st' r
  end.

End Model.

Definition init_state (W : world) (par : list (option nat)) (kids : list (list nat)) (lab : list nat) : state :=
  mks (map (fun _ => []) W) par kids lab.

Definition run_case (W : world) (par : list (option nat)) (kids : list (list nat)) (lab : list nat)
           (ops : list op) : obs :=
  OL (trace W (init_state W par kids lab) ops).
