(* ChanPrim.v -- the primitives that tools/py2gallina_chan.py targets when it regenerates the trigger and data
   delivery methods of channels.py (TrigGen.v, FetchGen.v).  One primitive per accepted Python idiom:

     set()                                  pyset_empty
     S.update([x, ...])                     pyset_update S [x; ...]
     {f(c) for c in L}                      pyset_of (map f L)
     S.difference(T)   /  S - T             pyset_difference S T
     len(S)                                 pyset_len S
     S.issubset(T)     /  S <= T            pyset_subset S T
     x is not NOT_DATA                      is_data x
     valid_value(x, self.type_hint)         valid_slot x      (only reached for data: python's `and` short-circuits,
                                                              and both theorems hold whatever it answers for NOT_DATA)
   python sets are lists here (the model of received_signals is a duplicate-free list, newest first). *)
From PW Require Import Base Trig Fetch.

Definition pyset := list string.
Definition pyset_empty : pyset := [].
Definition pyset_add (s : pyset) (x : string) : pyset := if mems x s then s else x :: s.
Definition pyset_update (s : pyset) (xs : list string) : pyset := fold_left pyset_add xs s.
Definition pyset_of (l : list string) : pyset := fold_left pyset_add l [].
Definition pyset_difference (a b : pyset) : pyset := filter (fun x => negb (mems x b)) a.
Definition pyset_len (s : pyset) : nat := List.length s.
Definition pyset_subset (a b : pyset) : bool := forallb (fun x => mems x b) a.

Definition set_recv (s : acc) (r : pyset) : acc := {| a_conns := a_conns s; a_recv := r |}.

Definition is_data (v : slot) : bool := match v with Some _ => true | None => false end.
Definition valid_slot (v : slot) : bool := match v with Some x => admits x | None => false end.
