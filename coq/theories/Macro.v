(* Macro.v -- executable model of pyiron_workflow macros (C09).

   Part 1  values, hints, macro DEFINITIONS [mdef]: parameters (label, default?, hint?) + a
           creation script (children created in order; each argument = Param i | Out j l |
           Const z; a child is a function node or a nested definition) + returned channels
           with their output labels + the internal flow the creator sets up (none = automatic,
           a hand-wired chain `a >> b >> ...; starting_nodes = [a]`, or only one of the two).
   Part 2  instances.  A built macro is a pair (static wiring [snode], values [vnode]):
           macros are "not intended to be internally modified after instantiation", every
           later operation only changes values.  References are positional: a data connection
           of a child input names its source [SUI i] (the interface/UserInput node of
           parameter i) or [SBody j l] (output l of the j-th child the creator made); a macro
           input's value_receiver is [RUI i], [RBody j k] or [ROrphan] (the removed interface
           node of an unused parameter, which the code leaves as receiver).
   Part 3  channels.py DataChannel.value setter: store + push to the value_receiver, through
           any nesting ([set_in], [set_out_at]); updates are addressed by a path of children.
   Part 4  node.py Node.run/_before_run/_run_finally + composite.py Composite._on_run for the
           flows a macro can have: fetch (first connection holding data), cache test, readiness
           gate, function call, outputs pushed upward along the value links, cache written
           after success.  The body runs in the order fixed at construction.
   Part 5  nodes/macro.py Macro._setup_node, step by step ([build]): static IO from the
           definition (StaticNode._setup_node + ScrapesIO preview), one interface node per
           parameter, the graph creator, macro inputs linked to the interface nodes, returned
           channels linked to the macro outputs (a later link to the same channel REPLACES the
           earlier one, as in the code), _purge_single_use_ui_nodes, _configure_graph_execution.
   Part 6  the references: plain composition [denote] and the inlined definition [inline].
   Part 7  scenarios and printing to Base.obs for the correspondence check.  Stdlib only. *)
From PW Require Import Base.
Open Scope nat_scope.

(* ================================================================================== *)
(* Part 1: values, hints, definitions                                                  *)
Definition val := option Z.                   (* None = NOT_DATA *)

Inductive htag := HInt | HObj.                (* the hints the generator writes: int, object *)
Definition hint := option htag.
(* type_hint_is_as_or_more_specific_than on these tags, guarded as in the value_receiver
   setter: only when both sides are hinted (receivers are strict by default) *)
Definition compat (snd rcv : hint) : bool :=
  match snd, rcv with Some HObj, Some HInt => false | _, _ => true end.

Inductive arg := AParam (i : nat) | AOut (j l : nat) | AConst (z : Z).
Record param := mkParam { p_label : string; p_default : val; p_hint : hint }.
Inductive flow := FAuto | FChain (ord : list nat) | FBad (signals : bool).

Record stmt (M : Type) := mkStmt { s_label : string; s_mac : option M; s_args : list arg }.
Arguments mkStmt {M}. Arguments s_label {M}. Arguments s_mac {M}. Arguments s_args {M}.

Inductive mdef := MDef (ps : list param) (body : list (stmt mdef)) (rets : list (string * arg)) (fl : flow).

Definition d_params (d : mdef) := match d with MDef ps _ _ _ => ps end.
Definition d_body (d : mdef) := match d with MDef _ b _ _ => b end.
Definition d_rets (d : mdef) := match d with MDef _ _ r _ => r end.
Definition d_flow (d : mdef) := match d with MDef _ _ _ f => f end.

(* ---- small list utilities ---------------------------------------------------------- *)
Fixpoint upd_nth {A} (n : nat) (x : A) (l : list A) : list A :=
  match l, n with
  | [], _ => []
  | _ :: r, 0 => x :: r
  | y :: r, S n' => y :: upd_nth n' x r
  end.

Definition is_data (v : val) : bool := match v with Some _ => true | None => false end.
Definition all_data (l : list val) : bool := forallb is_data l.
Definition zval (v : val) : Z := match v with Some z => z | None => 0%Z end.
Definition vals (l : list val) : list Z := map zval l.

Definition val_eqb (a b : val) : bool :=
  match a, b with Some x, Some y => Z.eqb x y | None, None => true | _, _ => false end.
Fixpoint vals_eqb (a b : list val) : bool :=
  match a, b with
  | [], [] => true
  | x :: a', y :: b' => val_eqb x y && vals_eqb a' b'
  | _, _ => false
  end.
(* Node.cache_hit: inputs.to_value_dict() == _cached_inputs *)
Definition cache_hit (c : option (list val)) (ins : list val) : bool :=
  match c with Some l => vals_eqb ins l | None => false end.

Fixpoint first_data (l : list val) : val :=
  match l with [] => None | Some z :: _ => Some z | None :: r => first_data r end.

(* the harness's node functions: FnN(a0..) = (N + sum (i+1)*a_i) mod 1000003 *)
Definition MODULUS : Z := 1000003.
Fixpoint lin_sum (i : Z) (args : list Z) : Z :=
  match args with [] => 0%Z | a :: r => (i * a + lin_sum (i + 1) r)%Z end.
Definition mlin (args : list Z) : Z := ((Z.of_nat (List.length args) + lin_sum 1 args) mod MODULUS)%Z.

(* ================================================================================== *)
(* Part 2: instances                                                                   *)
Inductive src := SUI (i : nat) | SBody (j l : nat).
Inductive recv := RUI (i : nat) | RBody (j k : nat) | ROrphan.
Inductive kidref := KUI (i : nat) | KBody (j : nat).

Record sbody (S : Type) := SB { sb_node : S; sb_conns : list (list src); sb_orecv : list (option nat) }.
Arguments SB {S}. Arguments sb_node {S}. Arguments sb_conns {S}. Arguments sb_orecv {S}.

Inductive snode :=
| SFn (label : string) (idf : bool) (arity : nat)
| SMac (label : string) (ps : list param) (ols : list string)
       (recvs : list recv)               (* value_receiver of every macro input           *)
       (kept : list bool)                (* interface node i still a child?               *)
       (uirecv : list (option nat))      (* value_receiver of interface node i's output   *)
       (body : list (sbody snode))       (* children made by the creator, in order        *)
       (manual : bool) (order : list kidref).   (* execution flow fixed at construction   *)

Inductive vnode := VN (ins outs : list val) (cache : option (list val)) (ui body : list vnode).

Definition v_ins (v : vnode) := match v with VN i _ _ _ _ => i end.
Definition v_outs (v : vnode) := match v with VN _ o _ _ _ => o end.
Definition v_cache (v : vnode) := match v with VN _ _ c _ _ => c end.
Definition v_ui (v : vnode) := match v with VN _ _ _ u _ => u end.
Definition v_body (v : vnode) := match v with VN _ _ _ _ b => b end.

Definition dv : vnode := VN [] [] None [] [].
Definition dsb : sbody snode := SB (SFn "" false 0) [] [].

Definition s_nins (s : snode) : nat :=
  match s with SFn _ _ a => a | SMac _ ps _ _ _ _ _ _ _ => List.length ps end.
Definition s_nouts (s : snode) : nat :=
  match s with SFn _ _ _ => 1 | SMac _ _ ols _ _ _ _ _ _ => List.length ols end.
Definition s_in_hint (s : snode) (k : nat) : hint :=
  match s with SFn _ _ _ => None | SMac _ ps _ _ _ _ _ _ _ => p_hint (nth k ps (mkParam "" None None)) end.
Definition s_label_of (s : snode) : string :=
  match s with SFn l _ _ => l | SMac l _ _ _ _ _ _ _ _ => l end.

(* the j-th child the creator made (out of range: the default function node) *)
Definition dispatch {R} (f : snode -> R) (dflt : R) : list (sbody snode) -> nat -> R :=
  fix go (sb : list (sbody snode)) (j : nat) {struct sb} : R :=
    match sb, j with
    | e :: _, 0 => f (sb_node e)
    | _ :: r, S j' => go r j'
    | [], _ => dflt
    end.

(* ================================================================================== *)
(* Part 3: the value setter with its push to the value_receiver                        *)
Definition set_fn (v : vnode) (k : nat) (x : val) : vnode :=
  match v with VN ins outs c ui body => VN (upd_nth k x ins) outs c ui body end.

(* macro input k: `value_receiver.value = new_value` first, then `_value = new_value` *)
Definition set_mac_with (setj : nat -> vnode -> nat -> vnode) (recvs : list recv)
    (v : vnode) (k : nat) (x : val) : vnode :=
  match v with VN ins outs c ui body =>
    match nth_error recvs k with
    | Some (RUI i) => VN (upd_nth k x ins) outs c (upd_nth i (set_fn (nth i ui dv) 0 x) ui) body
    | Some (RBody j k') => VN (upd_nth k x ins) outs c ui (upd_nth j (setj j (nth j body dv) k') body)
    | _ => VN (upd_nth k x ins) outs c ui body
    end
  end.

Fixpoint set_in (s : snode) (v : vnode) (k : nat) (x : val) {struct s} : vnode :=
  match s with
  | SFn _ _ _ => set_fn v k x
  | SMac _ _ _ recvs _ _ body _ _ =>
      set_mac_with
        (fun j vj k' => dispatch (fun s' => set_in s' vj k' x) (set_fn vj k' x) body j)
        recvs v k x
  end.

(* an update addressed by a path of children (`m.c0.c1.inputs.a = x`) *)
Fixpoint set_in_at (s : snode) (v : vnode) (p : list kidref) (k : nat) (x : val) {struct s} : vnode :=
  match p with
  | [] => set_in s v k x
  | r :: p' =>
      match s with
      | SFn _ _ _ => v
      | SMac _ _ _ _ _ _ body _ _ =>
          match v with VN ins outs c ui vb =>
            match r with
            | KUI i => match p' with
                       | [] => VN ins outs c (upd_nth i (set_fn (nth i ui dv) k x) ui) vb
                       | _ => v end
            | KBody j =>
                VN ins outs c ui
                   (upd_nth j (dispatch (fun s' => set_in_at s' (nth j vb dv) p' k x) (nth j vb dv) body j) vb)
            end
          end
      end
  end.

(* pushes travelling upward: (output index of the node that emitted, value); the parent maps
   the index through the child's output receivers, stores, and passes on its own pushes *)
Fixpoint apply_pushes (orecv : list (option nat)) (ps : list (nat * val)) (outs : list val)
  : list val * list (nat * val) :=
  match ps with
  | [] => (outs, [])
  | (l, x) :: r =>
      match nth l orecv None with
      | Some o => let '(outs', q) := apply_pushes orecv r (upd_nth o x outs) in (outs', (o, x) :: q)
      | None => apply_pushes orecv r outs
      end
  end.

Definition set_out_here (v : vnode) (l : nat) (x : val) : vnode * list (nat * val) :=
  match v with VN ins outs c ui body => (VN ins (upd_nth l x outs) c ui body, [(l, x)]) end.

Fixpoint set_out_at (s : snode) (v : vnode) (p : list kidref) (l : nat) (x : val) {struct s}
  : vnode * list (nat * val) :=
  match p with
  | [] => set_out_here v l x
  | r :: p' =>
      match s with
      | SFn _ _ _ => (v, [])
      | SMac _ _ _ _ _ uirecv body _ _ =>
          match v with VN ins outs c ui vb =>
            match r with
            | KUI i =>
                match p' with
                | [] => let '(u', ps) := set_out_here (nth i ui dv) l x in
                        let '(outs', q) := apply_pushes [nth i uirecv None] ps outs in
                        (VN ins outs' c (upd_nth i u' ui) vb, q)
                | _ => (v, [])
                end
            | KBody j =>
                let '(vj', ps) := dispatch (fun s' => set_out_at s' (nth j vb dv) p' l x) (nth j vb dv, []) body j in
                let '(outs', q) := apply_pushes (sb_orecv (nth j body dsb)) ps outs in
                (VN ins outs' c ui (upd_nth j vj' vb), q)
            end
          end
      end
  end.

(* navigation (reading needs no wiring) *)
Fixpoint vget (v : vnode) (p : list kidref) : vnode :=
  match p with
  | [] => v
  | KUI i :: p' => vget (nth i (v_ui v) dv) p'
  | KBody j :: p' => vget (nth j (v_body v) dv) p'
  end.
Definition get_in (v : vnode) (p : list kidref) (k : nat) : val := nth k (v_ins (vget v p)) None.
Definition get_out (v : vnode) (p : list kidref) (l : nat) : val := nth l (v_outs (vget v p)) None.

(* ================================================================================== *)
(* Part 4: running                                                                      *)
Definition rres := option (vnode * nat * list (nat * val)).   (* new values, function calls, pushes *)

(* a function node (idf = the UserInput identity): cache test, readiness gate, call, output
   set (pushed to its receiver by the caller), cache written *)
Definition run_fn (idf : bool) (v : vnode) : rres :=
  match v with VN ins outs c ui body =>
    if cache_hit c ins then Some (v, 0, [])
    else if all_data ins then
      let o := Some (if idf then hd 0%Z (vals ins) else mlin (vals ins)) in
      Some (VN ins [o] (Some ins) ui body, if idf then 0 else 1, [(0, o)])
    else None
  end.

Definition src_val (ui body : list vnode) (s : src) : val :=
  match s with
  | SUI i => nth 0 (v_outs (nth i ui dv)) None
  | SBody j l => nth l (v_outs (nth j body dv)) None
  end.

(* Inputs.fetch of one child: every input takes the first connected value that is data *)
Fixpoint fetch_from (setk : vnode -> nat -> val -> vnode) (ui body : list vnode)
    (conns : list (list src)) (k : nat) (vj : vnode) : vnode :=
  match conns with
  | [] => vj
  | c :: r =>
      let vj' := match first_data (map (src_val ui body) c) with
                 | Some z => setk vj k (Some z)
                 | None => vj end in
      fetch_from setk ui body r (S k) vj'
  end.

Record mstate := MS { ms_outs : list val; ms_ui : list vnode; ms_body : list vnode;
                      ms_calls : nat; ms_pushes : list (nat * val) }.

Definition absorb (st : mstate) (orecv : list (option nat)) (ps : list (nat * val)) (calls : nat)
    (ui body : list vnode) : mstate :=
  let '(outs', q) := apply_pushes orecv ps (ms_outs st) in
  MS outs' ui body (ms_calls st + calls) (ms_pushes st ++ q).

Definition step_kid (setj : nat -> vnode -> nat -> val -> vnode) (runj : nat -> vnode -> rres)
    (kept : list bool) (uirecv : list (option nat))
    (cinfo : list (list (list src) * list (option nat))) (st : mstate) (r : kidref) : option mstate :=
  match r with
  | KUI i =>
      if nth i kept false then
        match run_fn true (nth i (ms_ui st) dv) with
        | Some (u', calls, ps) =>
            Some (absorb st [nth i uirecv None] ps calls (upd_nth i u' (ms_ui st)) (ms_body st))
        | None => None
        end
      else Some st
  | KBody j =>
      let '(conns, orecv) := nth j cinfo ([], []) in
      let vj := fetch_from (setj j) (ms_ui st) (ms_body st) conns 0 (nth j (ms_body st) dv) in
      match runj j vj with
      | Some (vj', calls, ps) =>
          Some (absorb st orecv ps calls (ms_ui st) (upd_nth j vj' (ms_body st)))
      | None => None
      end
  end.

Fixpoint fold_opt {A B} (f : A -> B -> option A) (l : list B) (a : A) : option A :=
  match l with [] => Some a | b :: r => match f a b with Some a' => fold_opt f r a' | None => None end end.

Definition run_mac_with (setj : nat -> vnode -> nat -> val -> vnode) (runj : nat -> vnode -> rres)
    (kept : list bool) (uirecv : list (option nat))
    (cinfo : list (list (list src) * list (option nat))) (order : list kidref) (v : vnode) : rres :=
  match v with VN ins outs c ui body =>
    if cache_hit c ins then Some (v, 0, [])
    else if all_data ins then
      match fold_opt (step_kid setj runj kept uirecv cinfo) order (MS outs ui body 0 []) with
      | Some st => Some (VN ins (ms_outs st) (Some ins) (ms_ui st) (ms_body st), ms_calls st, ms_pushes st)
      | None => None
      end
    else None
  end.

Definition cinfo_of (body : list (sbody snode)) := map (fun e => (sb_conns e, sb_orecv e)) body.

Fixpoint run (s : snode) (v : vnode) {struct s} : rres :=
  match s with
  | SFn _ idf _ => run_fn idf v
  | SMac _ _ _ _ kept uirecv body _ order =>
      run_mac_with
        (fun j vj k x => set_in (sb_node (nth j body dsb)) vj k x)
        (fun j vj => dispatch (fun s' => run s' vj) (run_fn false vj) body j)
        kept uirecv (cinfo_of body) order v
  end.

(* ================================================================================== *)
(* Part 5: construction                                                                *)
Definition arg_val (a : arg) : val := match a with AConst z => Some z | _ => None end.
Definition arg_conn (a : arg) : list src :=
  match a with AParam i => [SUI i] | AOut j l => [SBody j l] | AConst _ => [] end.

(* argument references must name a parameter / an EARLIER child and one of its outputs
   (anything else is an AttributeError while the creator runs; not part of the scenarios) *)
Definition arg_ok (np : nat) (sofar : list (sbody snode)) (a : arg) : bool :=
  match a with
  | AParam i => Nat.ltb i np
  | AOut j l => Nat.ltb j (List.length sofar) && Nat.ltb l (s_nouts (sb_node (nth j sofar dsb)))
  | AConst _ => true
  end.

Fixpoint nodup_str (l : list string) : bool :=
  match l with [] => true | x :: r => negb (mems x r) && nodup_str r end.

(* apply the positional arguments of a nested macro call: constants are assigned (and pushed
   down), channels are connected *)
Fixpoint apply_args (s : snode) (v : vnode) (k : nat) (args : list arg) : vnode :=
  match args with
  | [] => v
  | a :: r => apply_args s (match a with AConst z => set_in s v k (Some z) | _ => v end) (S k) r
  end.

Definition pad {A} (n : nat) (l : list A) (d : A) : list A := l ++ repeat d (n - List.length l).

(* every (child j, input k) connected to interface node i, newest connection first *)
Fixpoint uses_in (i : nat) (j : nat) (k : nat) (conns : list (list src)) : list (nat * nat) :=
  match conns with
  | [] => []
  | c :: r => uses_in i j (S k) r ++ (if existsb (fun s => match s with SUI i' => Nat.eqb i i' | _ => false end) c
                                      then [(j, k)] else [])
  end.
Fixpoint uses (i : nat) (j : nat) (body : list (sbody snode)) : list (nat * nat) :=
  match body with [] => [] | e :: r => uses i (S j) r ++ uses_in i j 0 (sb_conns e) end.

Definition drop_ui (i : nat) (c : list src) : list src :=
  filter (fun s => match s with SUI i' => negb (Nat.eqb i i') | _ => true end) c.

Record bst := BS { b_recvs : list recv; b_kept : list bool; b_uirecv : list (option nat);
                   b_body : list (sbody snode); b_vbody : list vnode }.

(* step 5 of _setup_node: `node.channel.value_receiver = self.outputs[label]` for the o-th
   returned object; the current value of the channel (NOT_DATA) is pushed, nothing changes *)
Definition link_ret (st : bst) (o : nat) (a : arg) : option bst :=
  match a with
  | AParam i => if Nat.ltb i (List.length (b_uirecv st))
                then Some (BS (b_recvs st) (b_kept st) (upd_nth i (Some o) (b_uirecv st)) (b_body st) (b_vbody st))
                else None
  | AOut j l =>
      if arg_ok 0 (b_body st) a then
        let e := nth j (b_body st) dsb in
        Some (BS (b_recvs st) (b_kept st) (b_uirecv st)
                 (upd_nth j (SB (sb_node e) (sb_conns e) (upd_nth l (Some o) (sb_orecv e))) (b_body st))
                 (b_vbody st))
      else None
  | AConst _ => None
  end.

Fixpoint link_rets (st : bst) (o : nat) (rets : list (string * arg)) : option bst :=
  match rets with
  | [] => Some st
  | (_, a) :: r => match link_ret st o a with Some st' => link_rets st' (S o) r | None => None end
  end.

(* _purge_single_use_ui_nodes, one macro input *)
Definition purge_one (ps : list param) (ins : list val) (st : bst) (i : nat) : option bst :=
  match nth i (b_uirecv st) None with
  | Some _ => Some st                                    (* forwards straight to an output: kept *)
  | None =>
      match uses i 0 (b_body st) with
      | [] => Some (BS (upd_nth i ROrphan (b_recvs st)) (upd_nth i false (b_kept st)) (b_uirecv st)
                       (b_body st) (b_vbody st))
      | [(j, k)] =>
          let e := nth j (b_body st) dsb in
          if compat (p_hint (nth i ps (mkParam "" None None))) (s_in_hint (sb_node e) k) then
            Some (BS (upd_nth i (RBody j k) (b_recvs st)) (upd_nth i false (b_kept st)) (b_uirecv st)
                     (upd_nth j (SB (sb_node e) (upd_nth k (drop_ui i (nth k (sb_conns e) [])) (sb_conns e))
                                    (sb_orecv e)) (b_body st))
                     (upd_nth j (set_in (sb_node e) (nth j (b_vbody st) dv) k (nth i ins None)) (b_vbody st)))
          else None                                     (* ValueError out of the receiver setter *)
      | _ => Some st                                     (* forked: kept *)
      end
  end.

Fixpoint purge (ps : list param) (ins : list val) (st : bst) (is : list nat) : option bst :=
  match is with
  | [] => Some st
  | i :: r => match purge_one ps ins st i with Some st' => purge ps ins st' r | None => None end
  end.

Definition kept_uis (kept : list bool) : list kidref :=
  map KUI (filter (fun i => nth i kept false) (seq 0 (List.length kept))).

(* _configure_graph_execution: (manual?, execution order) or ValueError *)
Definition configure (fl : flow) (kept : list bool) (nbody : nat) : option (bool * list kidref) :=
  match fl with
  | FBad _ => None
  | FAuto => Some (false, kept_uis kept ++ map KBody (seq 0 nbody))
  | FChain [] => Some (false, kept_uis kept ++ map KBody (seq 0 nbody))
  | FChain [_] => None
  | FChain ord => if forallb (fun j => Nat.ltb j nbody) ord
                  then Some (true, kept_uis kept ++ map KBody ord) else None
  end.

Definition new_fn (label : string) (idf : bool) (args : list arg) : snode * vnode :=
  (SFn label idf (List.length args), VN (map arg_val args) [None] None [] []).

(* the graph creator: the children in order; [bld] constructs a nested macro *)
Definition script (bld : mdef -> string -> option (snode * vnode)) (np : nat)
  : list (stmt mdef) -> list (sbody snode) -> list vnode -> option (list (sbody snode) * list vnode) :=
  fix go (b : list (stmt mdef)) (sofar : list (sbody snode)) (vsofar : list vnode) {struct b} :=
    match b with
    | [] => Some (sofar, vsofar)
    | st :: r =>
        if forallb (arg_ok np sofar) (s_args st) then
          match s_mac st with
          | None =>
              let '(s', v') := new_fn (s_label st) false (s_args st) in
              go r (sofar ++ [SB s' (map arg_conn (s_args st)) [None]]) (vsofar ++ [v'])
          | Some d' =>
              match bld d' (s_label st) with
              | Some (s', v') =>
                  if Nat.leb (List.length (s_args st)) (s_nins s') then
                    go r (sofar ++ [SB s' (pad (s_nins s') (map arg_conn (s_args st)) [])
                                       (repeat None (s_nouts s'))])
                         (vsofar ++ [apply_args s' v' 0 (s_args st)])
                  else None
              | None => None
              end
          end
        else None
    end.

Fixpoint build (d : mdef) (label : string) {struct d} : option (snode * vnode) :=
  match d with MDef ps body rets fl =>
    let np := List.length ps in
    let ols := map fst rets in
    if negb (nodup_str ols) then None else                 (* ScrapesIO._validate_degeneracy *)
    let ins := map p_default ps in                         (* StaticNode._setup_node          *)
    let outs := repeat (@None Z) (List.length rets) in
    let ui := map (fun p => VN [p_default p] [None] None [] []) ps in   (* interface nodes *)
    match script build np body [] [] with                  (* the graph creator *)
    | None => None
    | Some (sb, vb) =>
        (* macro inputs -> interface nodes, returned channels -> macro outputs *)
        let st0 := BS (map RUI (seq 0 np)) (repeat true np) (repeat None np) sb vb in
        match link_rets st0 0 rets with
        | None => None
        | Some st1 =>
            match purge ps ins st1 (seq 0 np) with
            | None => None
            | Some st2 =>
                match configure fl (b_kept st2) (List.length sb) with
                | None => None
                | Some (manual, order) =>
                    Some (SMac label ps ols (b_recvs st2) (b_kept st2) (b_uirecv st2) (b_body st2) manual order,
                          VN ins outs None ui (b_vbody st2))
                end
            end
        end
    end
  end.

(* ================================================================================== *)
(* Part 6: the references                                                               *)
Definition env_val (args : list val) (env : list (list val)) (a : arg) : val :=
  match a with
  | AParam i => nth i args None
  | AOut j l => nth l (nth j env []) None
  | AConst z => Some z
  end.

(* positional call of a definition: given values, then the defaults of the remaining parameters *)
Fixpoint fill (given : list val) (ps : list param) : list val :=
  match ps with
  | [] => []
  | p :: r => match given with
              | [] => p_default p :: fill [] r
              | x :: g => x :: fill g r
              end
  end.

(* plain python composition of the definition: None = some call lacks an argument *)
Definition denote_body (den : mdef -> list val -> option (list val)) (args : list val)
  : list (stmt mdef) -> list (list val) -> option (list (list val)) :=
  fix go (b : list (stmt mdef)) (env : list (list val)) {struct b} :=
    match b with
    | [] => Some env
    | st :: r =>
        let avs := map (env_val args env) (s_args st) in
        match s_mac st with
        | None => if all_data avs then go r (env ++ [[Some (mlin (vals avs))]]) else None
        | Some d' =>
            let full := fill avs (d_params d') in
            if all_data full then
              match den d' full with
              | Some outs => go r (env ++ [outs])
              | None => None
              end
            else None
        end
    end.

Fixpoint denote (d : mdef) (args : list val) {struct d} : option (list val) :=
  match d with MDef ps body rets _ =>
    match denote_body denote args body [] with
    | Some env => Some (map (fun la => env_val args env (snd la)) rets)
    | None => None
    end
  end.

(* the same body built directly: parameters replaced by the values, no interface *)
Definition subst_arg (args : list val) (a : arg) : arg :=
  match a with AParam i => match nth i args None with Some z => AConst z | None => a end | _ => a end.
Definition inline (d : mdef) (args : list val) : mdef :=
  match d with MDef ps body rets fl =>
    MDef [] (map (fun st => mkStmt (s_label st) (s_mac st) (map (subst_arg args) (s_args st))) body)
         (filter (fun la => match snd la with AOut _ _ => true | _ => false end) rets) fl
  end.

(* well-formed definitions (what the generator calls a valid macro): references point backwards,
   nested calls supply every parameter that has no default, a hand-wired chain visits every child
   once in an order compatible with the data flow *)
Definition is_aout (a : arg) := match a with AOut _ _ => true | _ => false end.
Definition perm_of_seq (ord : list nat) (n : nat) : bool :=
  Nat.eqb (List.length ord) n && forallb (fun j => memn j ord) (seq 0 n).
Fixpoint pos_of (j : nat) (ord : list nat) (k : nat) : nat :=
  match ord with [] => k | x :: r => if Nat.eqb x j then k else pos_of j r (S k) end.
Definition topo_ok (ord : list nat) (body : list (stmt mdef)) : bool :=
  forallb (fun j => forallb (fun a => match a with AOut j' _ => Nat.ltb (pos_of j' ord 0) (pos_of j ord 0) | _ => true end)
                            (s_args (nth j body (mkStmt "" None []))))
          (seq 0 (List.length body)).

Definition flow_ok (fl : flow) (body : list (stmt mdef)) : bool :=
  match fl with
  | FAuto => true
  | FChain ord => Nat.leb 2 (List.length ord) && perm_of_seq ord (List.length body) && topo_ok ord body
  | FBad _ => false
  end.

Definition d_nouts (d : mdef) : nat := List.length (d_rets d).

Definition ref_ok (np : nat) (nouts : list nat) (allow_const : bool) (a : arg) : bool :=
  match a with
  | AParam i => Nat.ltb i np
  | AOut j l => Nat.ltb j (List.length nouts) && Nat.ltb l (nth j nouts 0)
  | AConst _ => allow_const
  end.

Definition wf_body (wf : mdef -> bool) (np : nat) (rets : list (string * arg))
  : list (stmt mdef) -> list nat -> bool :=
  fix go (b : list (stmt mdef)) (nouts : list nat) {struct b} : bool :=
    match b with
    | [] => forallb (fun la => ref_ok np nouts false (snd la)) rets
    | st :: r =>
        forallb (ref_ok np nouts true) (s_args st) &&
        match s_mac st with
        | None => go r (nouts ++ [1])
        | Some d' =>
            wf d' && Nat.leb (List.length (s_args st)) (List.length (d_params d')) &&
            forallb (fun p => is_data (p_default p)) (skipn (List.length (s_args st)) (d_params d')) &&
            go r (nouts ++ [d_nouts d'])
        end
    end.

Fixpoint wfd (d : mdef) {struct d} : bool :=
  match d with MDef ps body rets fl =>
    nodup_str (map fst rets) && flow_ok fl body && wf_body wfd (List.length ps) rets body []
  end.

(* no returned channel is returned twice, at any depth (guard of the _partial theorems: the
   second link replaces the first, known finding C09-duplicate-return) *)
Definition arg_eqb (a b : arg) : bool :=
  match a, b with
  | AParam i, AParam i' => Nat.eqb i i'
  | AOut j l, AOut j' l' => Nat.eqb j j' && Nat.eqb l l'
  | AConst z, AConst z' => Z.eqb z z'
  | _, _ => false
  end.
Definition all_nested (f : mdef -> bool) : list (stmt mdef) -> bool :=
  fix go (b : list (stmt mdef)) : bool :=
    match b with
    | [] => true
    | st :: r => match s_mac st with Some d' => f d' | None => true end && go r
    end.
Fixpoint rets_distinct (d : mdef) {struct d} : bool :=
  match d with MDef _ body rets _ => nodupb arg_eqb (map snd rets) && all_nested rets_distinct body end.

(* ================================================================================== *)
(* Part 7: scenarios and observations                                                   *)
Inductive op := OSetIn (p : list kidref) (k : nat) (x : Z) | OSetOut (p : list kidref) (l : nat) (x : Z) | ORun
              | OSetBad (p : list kidref) (k : nat)    (* assign a value that is not an int (a str) *)
              | ORunKw (kw : list (nat * Z))           (* m.run(x=v, ...) / m(x=v, ...): HasIO.set_input_values, then run *)
              | OReplace (p : list kidref).            (* replace the function child at p by a fresh node of its class *)

(* Would the assignment of a non-int be refused?  DataChannel.value setter, in source order: the channel
   checks the value against its OWN hint, then hands it to its value_receiver (whose setter does the
   same, recursively), and only then stores it.  A TypeError anywhere down the chain therefore leaves
   every channel of the chain as it was.  (Function children have un-hinted inputs; an interface node's
   input carries the hint of its parameter.) *)
Fixpoint refuses (s : snode) (k : nat) {struct s} : bool :=
  match s with
  | SFn _ _ _ => false
  | SMac _ ps _ recvs _ _ body _ _ =>
      match p_hint (nth k ps (mkParam "" None None)) with
      | Some HInt => true
      | _ => match nth_error recvs k with
             | Some (RBody j k') => dispatch (fun s' => refuses s' k') false body j
             | _ => false
             end
      end
  end.

Fixpoint refuses_at (s : snode) (p : list kidref) (k : nat) {struct s} : bool :=
  match p with
  | [] => refuses s k
  | r :: p' =>
      match s with
      | SFn _ _ _ => false
      | SMac _ ps _ _ kept _ body _ _ =>
          match r with
          | KUI i => match p' with
                     | [] => nth i kept false && Nat.eqb k 0 &&
                             match p_hint (nth i ps (mkParam "" None None)) with Some HInt => true | _ => false end
                     | _ => false
                     end
          | KBody j => dispatch (fun s' => refuses_at s' p' k) false body j
          end
      end
  end.

(* Composite.replace_child(child, fresh node of the same class) for a FUNCTION child (also reached through
   child.replace_with(...) and `macro.child = Class`), in source order: copy_io gives the replacement the
   old node's connections and its data values; the parent forgets its cache (remove_child / add_child);
   the replacement starts without a cache; then every value link that touched the old node is re-forged
   ON THE REPLACEMENT -- the macro inputs linked to ITS inputs (and to no sibling's), whose current value
   the receiver setter pushes into them, and its outputs linked to the macro's outputs, which receive the
   replacement's current value (and pass it on upward).  The wiring itself (snode) is unchanged. *)
Definition is_fn_child (s : snode) : bool := match s with SFn _ false _ => true | _ => false end.

Definition relink_inputs (recvs : list recv) (ins : list val) (j : nat) (w : vnode) : vnode :=
  fold_left (fun w i => match nth i recvs ROrphan with
                        | RBody j' k => if Nat.eqb j' j then set_fn w k (nth i ins None) else w
                        | _ => w
                        end) (seq 0 (List.length recvs)) w.

Definition all_out_pushes (w : vnode) : list (nat * val) :=
  map (fun l => (l, nth l (v_outs w) None)) (seq 0 (List.length (v_outs w))).

Fixpoint replace_at (s : snode) (v : vnode) (p : list kidref) {struct s} : option (vnode * list (nat * val)) :=
  match s, p with
  | SMac _ _ _ recvs _ _ body _ _, KBody j :: p' =>
      match v with VN ins outs c ui vb =>
        if Nat.ltb j (List.length body) then
          let old := nth j vb dv in
          let orecv := sb_orecv (nth j body dsb) in
          match p' with
          | [] =>
              if dispatch is_fn_child false body j then
                let w := relink_inputs recvs ins j (VN (v_ins old) (v_outs old) None [] []) in
                let '(outs', q) := apply_pushes orecv (all_out_pushes w) outs in
                Some (VN ins outs' None ui (upd_nth j w vb), q)
              else None
          | _ =>
              match dispatch (fun s' => replace_at s' old p') None body j with
              | Some (vj', ps) =>
                  let '(outs', q) := apply_pushes orecv ps outs in
                  Some (VN ins outs' c ui (upd_nth j vj' vb), q)
              | None => None
              end
          end
        else None
      end
  | _, _ => None
  end.

Definition set_kw (s : snode) (v : vnode) (kw : list (nat * Z)) : vnode :=
  fold_left (fun w kx => set_in s w (fst kx) (Some (snd kx))) kw v.

Definition apply_op (s : snode) (v : vnode) (o : op) : option (vnode * nat) :=
  match o with
  | OSetIn p k x => Some (set_in_at s v p k (Some x), 0)
  | OSetOut p l x => Some (fst (set_out_at s v p l (Some x)), 0)
  | ORun => match run s v with Some (v', calls, _) => Some (v', calls) | None => None end
  | OSetBad p k => if refuses_at s p k then Some (v, 0) else None   (* refused: nothing changes; accepted: not modelled *)
  | ORunKw kw => match run s (set_kw s v kw) with Some (v', calls, _) => Some (v', calls) | None => None end
  | OReplace p => match replace_at s v p with Some (v', _) => Some (v', 0) | None => None end
  end.

Fixpoint apply_ops (s : snode) (v : vnode) (ops : list op) : option vnode :=
  match ops with
  | [] => Some v
  | o :: r => match apply_op s v o with Some (v', _) => apply_ops s v' r | None => None end
  end.

Definition oval (v : val) : obs := oopt OZ v.
Definition ohint (h : hint) : obs :=
  match h with None => OL [] | Some HInt => OS "int" | Some HObj => OS "object" end.
Definition osrc (s : src) : obs :=
  match s with SUI i => OL [OS "ui"; on i] | SBody j l => OL [OS "body"; on j; on l] end.
Definition orecv (r : recv) : obs :=
  match r with RUI i => OL [OS "ui"; on i] | RBody j k => OL [OS "body"; on j; on k] | ROrphan => OL [OS "orphan"] end.
Definition okid (r : kidref) : obs :=
  match r with KUI i => OL [OS "ui"; on i] | KBody j => OL [OS "body"; on j] end.

Fixpoint nodup_nat (l : list nat) : list nat :=
  match l with [] => [] | x :: r => if memn x r then nodup_nat r else x :: nodup_nat r end.

(* upstream owners of body child j, as (is interface node?, index), interface nodes first, sorted *)
Definition ups_of (conns : list (list src)) (np nb : nat) : list kidref :=
  let all := List.concat conns in
  map KUI (filter (fun i => existsb (fun s => match s with SUI i' => Nat.eqb i i' | _ => false end) all) (seq 0 np)) ++
  map KBody (filter (fun j => existsb (fun s => match s with SBody j' _ => Nat.eqb j j' | _ => false end) all) (seq 0 nb)).

Definition body_refs (order : list kidref) : list nat :=
  flat_map (fun r => match r with KBody j => [j] | _ => [] end) order.
Fixpoint chain_pairs (l : list nat) : list (nat * nat) :=
  match l with a :: ((b :: _) as r) => (a, b) :: chain_pairs r | _ => [] end.

(* what the signal wiring looks like after _configure_graph_execution:
   [starting nodes; per body child: owners on accumulate_and_run; per body child: owners on run] *)
Definition oflow (manual : bool) (order : list kidref) (kept : list bool) (body : list (sbody snode)) : obs :=
  let np := List.length kept in
  let nb := List.length body in
  let uis := kept_uis kept in
  if manual then
    let ch := body_refs order in
    let head := hd 0 ch in
    OL [OL (map okid (match uis with [] => [KBody head] | _ => uis end));
        OL (map (fun j => OL (map okid (if Nat.eqb j head then uis else []))) (seq 0 nb));
        OL (map (fun j => OL (map (fun ab => okid (KBody (fst ab)))
                                  (filter (fun ab => Nat.eqb (snd ab) j) (chain_pairs ch)))) (seq 0 nb))]
  else
    OL [OL (map okid (uis ++ map KBody (filter (fun j => match List.concat (sb_conns (nth j body dsb)) with
                                                         | [] => true | _ => false end) (seq 0 nb))));
        OL (map (fun j => OL (map okid (ups_of (sb_conns (nth j body dsb)) np nb))) (seq 0 nb));
        OL (map (fun _ => OL []) (seq 0 nb))].

Fixpoint ostatic (s : snode) {struct s} : obs :=
  match s with
  | SFn l idf a => OL [OS "fn"; OS l; on a]
  | SMac l ps ols recvs kept uirecv body manual order =>
      OL [OS "mac"; OS l;
          OL (map (fun p => OL [OS (p_label p); oval (p_default p); ohint (p_hint p)]) ps);
          OL (map OS ols);
          OL (map orecv recvs);
          OL (map ob kept);
          OL (map (fun i => if nth i kept false then ohint (p_hint (nth i ps (mkParam "" None None))) else OS "-")
                  (seq 0 (List.length kept)));     (* the hint copied onto each interface node's input *)
          OL (map (oopt on) uirecv);
          OL ((fix go (b : list (sbody snode)) : list obs :=
                 match b with
                 | [] => []
                 | e :: r => OL [ostatic (sb_node e);
                                 OL (map (fun c => OL (map osrc c)) (sb_conns e));
                                 OL (map (oopt on) (sb_orecv e))] :: go r
                 end) body);
          ob manual;
          oflow manual order kept body]
  end.

Fixpoint odyn (s : snode) (v : vnode) {struct s} : obs :=
  match s with
  | SFn _ _ _ => OL [OL (map oval (v_ins v)); OL (map oval (v_outs v))]
  | SMac _ _ _ _ kept _ body _ _ =>
      OL [OL (map oval (v_ins v)); OL (map oval (v_outs v));
          OL (map (fun i => if nth i kept false
                            then let u := nth i (v_ui v) dv in OL [OL (map oval (v_ins u)); OL (map oval (v_outs u))]
                            else OL []) (seq 0 (List.length kept)));
          OL ((fix go (b : list (sbody snode)) (vb : list vnode) : list obs :=
                 match b, vb with
                 | e :: r, vj :: vr => odyn (sb_node e) vj :: go r vr
                 | _, _ => []
                 end) body (v_body v))]
  end.

Fixpoint osteps (s : snode) (v : vnode) (ops : list op) : list obs :=
  match ops with
  | [] => []
  | o :: r =>
      match apply_op s v o with
      | Some (v', calls) =>
          (match o with
           | ORun | ORunKw _ => OL [OS "ok"; on calls; odyn s v']
           | OSetBad _ _ => OL [OS "TypeError"; odyn s v']
           | OReplace _ => OL [OS "replaced"; ostatic s; odyn s v']
           | _ => odyn s v'
           end) :: osteps s v' r
      | None => [OL [OS (match o with OSetBad _ _ => "accepted" | _ => "fail" end)]]
      end
  end.

Definition oscenario (d : mdef) (ops : list op) : obs :=
  match build d "m" with
  | None => OL [OS "ValueError"]
  | Some (s, v) => OL [ostatic s; odyn s v; OL (osteps s v ops)]
  end.

Definition odenote (d : mdef) (args : list val) : obs :=
  match denote d args with Some l => OL (map oval l) | None => OS "none" end.
