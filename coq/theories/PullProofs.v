(* PullProofs.v -- proofs about Pull.v (C11). *)
From PW Require Import Base Pull.
From Coq Require Import Permutation.

(* ================================================================== basic list facts *)
Lemma tgt_eqb_eq a b : tgt_eqb a b = true <-> a = b.
Proof.
  destruct a as [a s], b as [b t]; unfold tgt_eqb; simpl. rewrite andb_true_iff, Nat.eqb_eq. split.
  - intros [H1 H2]; subst. destruct s, t; simpl in H2; congruence.
  - intros H; inversion H; subst. split; auto. destruct t; reflexivity.
Qed.

Lemma memt_In x l : memt x l = true <-> In x l.
Proof.
  unfold memt; induction l as [|y r IH]; simpl; [split; [discriminate|tauto]|].
  rewrite orb_true_iff, IH, tgt_eqb_eq. split; intros [H|H]; auto.
Qed.

Lemma memn_false x l : memn x l = false <-> ~ In x l.
Proof. rewrite <- memn_In. destruct (memn x l); split; intros H; try congruence; try (exfalso; apply H; reflexivity). Qed.
Lemma memt_false x l : memt x l = false <-> ~ In x l.
Proof. rewrite <- memt_In. destruct (memt x l); split; intros H; try congruence; try (exfalso; apply H; reflexivity). Qed.

Section Remove1.
  Context {A : Type} (eqb : A -> A -> bool) (eqb_eq : forall a b, eqb a b = true <-> a = b).
  Lemma remove1_In_nodup x l : NoDup l -> forall y, In y (remove1 eqb x l) <-> In y l /\ y <> x.
  Proof.
    induction 1 as [|z r Hz Hr IH]; simpl; intros y; [tauto|].
    destruct (eqb x z) eqn:Ex.
    - apply eqb_eq in Ex; subst z. split.
      + intros Hy. split; auto. intros ->. contradiction.
      + intros [[->|Hy] Hn]; [congruence|auto].
    - assert (x <> z) by (intros ->; rewrite (proj2 (eqb_eq z z) eq_refl) in Ex; discriminate).
      simpl. rewrite IH. split.
      + intros [->|[Hy Hn]]; auto.
      + intros [[->|Hy] Hn]; auto.
  Qed.
  Lemma remove1_nodup x l : NoDup l -> NoDup (remove1 eqb x l).
  Proof.
    induction 1 as [|z r Hz Hr IH]; simpl; [constructor|].
    destruct (eqb x z); auto. constructor; auto.
    intros Hin. apply Hz. apply (remove1_In_nodup x r Hr z) in Hin. tauto.
  Qed.
End Remove1.

Lemma nat_eqb_eq' a b : Nat.eqb a b = true <-> a = b. Proof. apply Nat.eqb_eq. Qed.

Lemma nil_of_no_elements {A} (l : list A) : (forall x, ~ In x l) -> l = [].
Proof. destruct l; auto. intros H. exfalso. apply (H a). left; auto. Qed.

Lemma singleton_of_elements {A} (l : list A) x : NoDup l -> (forall y, In y l <-> y = x) -> l = [x].
Proof.
  intros Hn H. destruct l as [|a r].
  - exfalso. apply (proj2 (H x) eq_refl).
  - assert (a = x) by (apply H; left; auto). subst a. f_equal.
    apply nil_of_no_elements. intros y Hy. inversion Hn; subst.
    assert (y = x) by (apply H; right; auto). subst. contradiction.
Qed.

Lemma isig_dec (a b : isig) : {a = b} + {a <> b}. Proof. decide equality. Qed.

(* ================================================================== frames *)
(* everything except the three connection tables *)
Definition frame (a b : scope) : Prop :=
  (forall i, lbl b i = lbl a i) /\ (forall i, ups b i = ups a i) /\ (forall i, recv b i = recv a i) /\
  (forall i, exe b i = exe a i) /\ (forall i, bad b i = bad a i) /\ (forall i, failed b i = failed a i) /\
  par b = par a /\ starting b = starting a /\ automate b = automate a /\ pfailed b = pfailed a.

Lemma frame_refl a : frame a a.
Proof. unfold frame; repeat split; auto. Qed.
Lemma frame_trans a b c : frame a b -> frame b c -> frame a c.
Proof.
  unfold frame. intros (A1&A2&A3&A4&A5&A6&A7&A8&A9&A10) (B1&B2&B3&B4&B5&B6&B7&B8&B9&B10).
  repeat split; intros; congruence.
Qed.

(* ================================================================== well-formed signal wiring *)
Definition E sc (e r : nat) (s : isig) : Prop := In e (conns_in sc r s).

Record WF sc : Prop := {
  wf_sym : forall e r s, In e (conns_in sc r s) <-> In (r, s) (c_ran sc e);
  wf_nd_in : forall r s, NoDup (conns_in sc r s);
  wf_nd_out : forall e, NoDup (c_ran sc e) }.

Definition same_edges (a b : scope) : Prop := forall e r s, E b e r s <-> E a e r s.

(* [b] is [a] with the connection (e,(r,s)) removed on both sides *)
Definition removed (a b : scope) e r s : Prop :=
  (forall r' s', conns_in b r' s' = if Nat.eqb r' r && isig_eqb s' s then remove1 Nat.eqb e (conns_in a r s)
                                    else conns_in a r' s') /\
  (forall e', c_ran b e' = if Nat.eqb e' e then remove1 tgt_eqb (r, s) (c_ran a e) else c_ran a e').

Definition added (a b : scope) e r s : Prop :=
  (forall r' s', conns_in b r' s' = if Nat.eqb r' r && isig_eqb s' s then e :: conns_in a r s
                                    else conns_in a r' s') /\
  (forall e', c_ran b e' = if Nat.eqb e' e then (r, s) :: c_ran a e else c_ran a e').

Lemma rs_eqb r' s' r s : Nat.eqb r' r && isig_eqb s' s = true <-> r' = r /\ s' = s.
Proof.
  rewrite andb_true_iff, Nat.eqb_eq. destruct s', s; simpl; split; intros [H1 H2]; split; auto; congruence.
Qed.

Lemma removed_spec a b e r s : WF a -> removed a b e r s ->
  WF b /\ (forall e' r' s', E b e' r' s' <-> E a e' r' s' /\ ~ (e' = e /\ r' = r /\ s' = s)).
Proof.
  intros Wa [Hin Hout].
  assert (Ein : forall e' r' s', In e' (conns_in b r' s') <-> In e' (conns_in a r' s') /\ ~ (e' = e /\ r' = r /\ s' = s)).
  { intros e' r' s'. rewrite Hin. destruct (Nat.eqb r' r && isig_eqb s' s) eqn:Q.
    - apply rs_eqb in Q. destruct Q; subst.
      rewrite (remove1_In_nodup Nat.eqb nat_eqb_eq' e _ (wf_nd_in a Wa r s)). tauto.
    - split; [intros H; split; auto|tauto]. intros (?&?&?); subst.
      rewrite (proj2 (rs_eqb r s r s) (conj eq_refl eq_refl)) in Q. discriminate. }
  assert (Eout : forall e' r' s', In (r', s') (c_ran b e') <-> In (r', s') (c_ran a e') /\ ~ (e' = e /\ r' = r /\ s' = s)).
  { intros e' r' s'. rewrite Hout. destruct (Nat.eqb e' e) eqn:Q.
    - apply Nat.eqb_eq in Q; subst.
      rewrite (remove1_In_nodup tgt_eqb tgt_eqb_eq (r, s) _ (wf_nd_out a Wa e)). split.
      + intros [H1 H2]; split; auto. intros (?&?&?); subst; congruence.
      + intros [H1 H2]; split; auto. intros H; inversion H; subst. apply H2; auto.
    - apply Nat.eqb_neq in Q. split; [intros H; split; auto|tauto]. intros (?&?&?); subst; congruence. }
  split; [|exact Ein]. constructor.
  - intros e' r' s'. rewrite Ein, Eout, (wf_sym a Wa). tauto.
  - intros r' s'. rewrite Hin. destruct (Nat.eqb r' r && isig_eqb s' s).
    + apply remove1_nodup; [apply nat_eqb_eq'|apply (wf_nd_in a Wa)].
    + apply (wf_nd_in a Wa).
  - intros e'. rewrite Hout. destruct (Nat.eqb e' e).
    + apply remove1_nodup; [apply tgt_eqb_eq|apply (wf_nd_out a Wa)].
    + apply (wf_nd_out a Wa).
Qed.

Lemma added_spec a b e r s : WF a -> ~ E a e r s -> added a b e r s ->
  WF b /\ (forall e' r' s', E b e' r' s' <-> E a e' r' s' \/ (e' = e /\ r' = r /\ s' = s)).
Proof.
  intros Wa Hn [Hin Hout].
  assert (Ein : forall e' r' s', In e' (conns_in b r' s') <-> In e' (conns_in a r' s') \/ (e' = e /\ r' = r /\ s' = s)).
  { intros e' r' s'. rewrite Hin. destruct (Nat.eqb r' r && isig_eqb s' s) eqn:Q.
    - apply rs_eqb in Q. destruct Q; subst. simpl. split.
      + intros [->|H]; auto.
      + intros [H|(?&?&?)]; auto.
    - split; auto. intros [H|(?&?&?)]; auto. subst.
      rewrite (proj2 (rs_eqb r s r s) (conj eq_refl eq_refl)) in Q. discriminate. }
  assert (Eout : forall e' r' s', In (r', s') (c_ran b e') <-> In (r', s') (c_ran a e') \/ (e' = e /\ r' = r /\ s' = s)).
  { intros e' r' s'. rewrite Hout. destruct (Nat.eqb e' e) eqn:Q.
    - apply Nat.eqb_eq in Q; subst. simpl. split.
      + intros [H|H]; auto. inversion H; subst; auto.
      + intros [H|(?&?&?)]; auto. subst; auto.
    - apply Nat.eqb_neq in Q. split; auto. intros [H|(?&?&?)]; auto. subst; congruence. }
  split; [|exact Ein]. constructor.
  - intros e' r' s'. rewrite Ein, Eout, (wf_sym a Wa). tauto.
  - intros r' s'. rewrite Hin. destruct (Nat.eqb r' r && isig_eqb s' s) eqn:Q.
    + constructor; [exact Hn|apply (wf_nd_in a Wa)].
    + apply (wf_nd_in a Wa).
  - intros e'. rewrite Hout. destruct (Nat.eqb e' e) eqn:Q.
    + apply Nat.eqb_eq in Q; subst. constructor; [|apply (wf_nd_out a Wa)].
      rewrite <- (wf_sym a Wa). exact Hn.
    + apply (wf_nd_out a Wa).
Qed.

(* ---- table access after set_in / set_out ---- *)
Lemma conns_in_set_in sc r s l r' s' :
  conns_in (set_in sc r s l) r' s' = if Nat.eqb r' r && isig_eqb s' s then l else conns_in sc r' s'.
Proof.
  destruct s, s'; simpl; unfold fupd; destruct (Nat.eqb r' r); simpl; reflexivity.
Qed.
Lemma c_ran_set_in sc r s l : c_ran (set_in sc r s l) = c_ran sc.
Proof. destruct s; reflexivity. Qed.
Lemma conns_in_set_out sc e l r s : conns_in (set_out sc e l) r s = conns_in sc r s.
Proof. destruct s; reflexivity. Qed.
Lemma c_ran_set_out sc e l e' : c_ran (set_out sc e l) e' = if Nat.eqb e' e then l else c_ran sc e'.
Proof. reflexivity. Qed.
Lemma frame_set_in sc r s l : frame sc (set_in sc r s l).
Proof. destruct s; unfold frame; simpl; repeat split; auto. Qed.
Lemma frame_set_out sc e l : frame sc (set_out sc e l).
Proof. unfold frame; simpl; repeat split; auto. Qed.

(* ================================================================== the four primitives *)
Lemma disc_from_in_spec sc r s e sc' ps : WF sc -> disc_from_in sc r s e = (sc', ps) ->
  WF sc' /\ frame sc sc' /\
  (forall e' r' s', E sc' e' r' s' <-> E sc e' r' s' /\ ~ (e' = e /\ r' = r /\ s' = s)) /\
  (forall b e' t, In (b, e', t) ps <-> (b = false /\ e' = e /\ t = (r, s) /\ E sc e r s)) .
Proof.
  intros W. unfold disc_from_in. destruct (memn e (conns_in sc r s)) eqn:M.
  - apply memn_In in M.
    assert (M2 : memt (r, s) (c_ran (set_in sc r s (remove1 Nat.eqb e (conns_in sc r s))) e) = true).
    { rewrite c_ran_set_in. apply memt_In. apply (wf_sym sc W). exact M. }
    rewrite M2. intros H; inversion H; subst; clear H.
    set (sc1 := set_in sc r s (remove1 Nat.eqb e (conns_in sc r s))).
    assert (R : removed sc (set_out sc1 e (remove1 tgt_eqb (r, s) (c_ran sc1 e))) e r s).
    { split.
      - intros r' s'. rewrite conns_in_set_out. unfold sc1. rewrite conns_in_set_in. reflexivity.
      - intros e'. rewrite c_ran_set_out. unfold sc1. rewrite c_ran_set_in. reflexivity. }
    destruct (removed_spec _ _ _ _ _ W R) as [W' HE]. split; [exact W'|]. split.
    + eapply frame_trans; [apply frame_set_in|apply frame_set_out].
    + split; [exact HE|]. intros b e' t. simpl. split.
      * intros [H|[]]; inversion H; subst; auto.
      * intros (?&?&?&?); subst; auto.
  - intros H; inversion H; subst sc' ps; clear H. apply memn_false in M. split; [exact W|]. split; [apply frame_refl|]. split.
    + intros e' r' s'. split; [intros H; split; auto|tauto]. intros (?&?&?); subst; contradiction.
    + intros b e' t. simpl. split; [tauto|]. intros (?&?&?&?); contradiction.
Qed.

Lemma disc_from_out_spec sc e r s sc' ps : WF sc -> disc_from_out sc e r s = (sc', ps) ->
  WF sc' /\ frame sc sc' /\
  (forall e' r' s', E sc' e' r' s' <-> E sc e' r' s' /\ ~ (e' = e /\ r' = r /\ s' = s)) /\
  (forall b e' t, In (b, e', t) ps <-> (b = true /\ e' = e /\ t = (r, s) /\ E sc e r s)).
Proof.
  intros W. unfold disc_from_out. destruct (memt (r, s) (c_ran sc e)) eqn:M.
  - apply memt_In in M. apply (wf_sym sc W) in M.
    assert (M2 : memn e (conns_in (set_out sc e (remove1 tgt_eqb (r, s) (c_ran sc e))) r s) = true).
    { rewrite conns_in_set_out. apply memn_In. exact M. }
    rewrite M2. intros H; inversion H; subst; clear H.
    set (sc1 := set_out sc e (remove1 tgt_eqb (r, s) (c_ran sc e))).
    assert (R : removed sc (set_in sc1 r s (remove1 Nat.eqb e (conns_in sc1 r s))) e r s).
    { split.
      - intros r' s'. rewrite conns_in_set_in. unfold sc1. rewrite !conns_in_set_out. reflexivity.
      - intros e'. rewrite c_ran_set_in. unfold sc1. rewrite c_ran_set_out. reflexivity. }
    destruct (removed_spec _ _ _ _ _ W R) as [W' HE]. split; [exact W'|]. split.
    + eapply frame_trans; [apply frame_set_out|apply frame_set_in].
    + split; [exact HE|]. intros b e' t. simpl. split.
      * intros [H|[]]; inversion H; subst; auto.
      * intros (?&?&?&?); subst; auto.
  - intros H; inversion H; subst sc' ps; clear H. apply memt_false in M.
    assert (M' : ~ E sc e r s) by (unfold E; rewrite (wf_sym sc W); exact M).
    split; [exact W|]. split; [apply frame_refl|]. split.
    + intros e' r' s'. split; [intros H; split; auto|tauto]. intros (?&?&?); subst; contradiction.
    + intros b e' t. simpl. split; [tauto|]. intros (?&?&?&?); contradiction.
Qed.

Lemma connect_in_spec sc r s e : WF sc ->
  WF (connect_in sc r s e) /\ frame sc (connect_in sc r s e) /\
  (forall e' r' s', E (connect_in sc r s e) e' r' s' <-> E sc e' r' s' \/ (e' = e /\ r' = r /\ s' = s)).
Proof.
  intros W. unfold connect_in. destruct (memn e (conns_in sc r s)) eqn:M.
  - apply memn_In in M. split; [exact W|]. split; [apply frame_refl|].
    intros e' r' s'. split; auto. intros [H|(?&?&?)]; auto. subst; exact M.
  - apply memn_false in M.
    set (sc1 := set_in sc r s (e :: conns_in sc r s)).
    assert (A : added sc (set_out sc1 e ((r, s) :: c_ran sc1 e)) e r s).
    { split.
      - intros r' s'. rewrite conns_in_set_out. unfold sc1. rewrite conns_in_set_in. reflexivity.
      - intros e'. rewrite c_ran_set_out. unfold sc1. rewrite c_ran_set_in. reflexivity. }
    destruct (added_spec _ _ _ _ _ W M A) as [W' HE]. split; [exact W'|]. split; [|exact HE].
    eapply frame_trans; [apply frame_set_in|apply frame_set_out].
Qed.

Lemma connect_out_spec sc e r s : WF sc ->
  WF (connect_out sc e r s) /\ frame sc (connect_out sc e r s) /\
  (forall e' r' s', E (connect_out sc e r s) e' r' s' <-> E sc e' r' s' \/ (e' = e /\ r' = r /\ s' = s)).
Proof.
  intros W. unfold connect_out. destruct (memt (r, s) (c_ran sc e)) eqn:M.
  - apply memt_In in M. apply (wf_sym sc W) in M. split; [exact W|]. split; [apply frame_refl|].
    intros e' r' s'. split; auto. intros [H|(?&?&?)]; auto. subst; exact M.
  - apply memt_false in M. assert (M' : ~ E sc e r s) by (unfold E; rewrite (wf_sym sc W); exact M).
    set (sc1 := set_out sc e ((r, s) :: c_ran sc e)).
    assert (A : added sc (set_in sc1 r s (e :: conns_in sc1 r s)) e r s).
    { split.
      - intros r' s'. rewrite conns_in_set_in. unfold sc1. rewrite !conns_in_set_out. reflexivity.
      - intros e'. rewrite c_ran_set_in. unfold sc1. rewrite c_ran_set_out. reflexivity. }
    destruct (added_spec _ _ _ _ _ W M' A) as [W' HE]. split; [exact W'|]. split; [|exact HE].
    eapply frame_trans; [apply frame_set_out|apply frame_set_in].
Qed.

(* ================================================================== loops over connection lists *)
Lemma disc_in_list_spec L : forall sc r s sc' ps, WF sc -> disc_in_list sc r s L = (sc', ps) ->
  WF sc' /\ frame sc sc' /\
  (forall e' r' s', E sc' e' r' s' <-> E sc e' r' s' /\ ~ (In e' L /\ r' = r /\ s' = s)) /\
  (forall b e' t, In (b, e', t) ps <-> (b = false /\ In e' L /\ t = (r, s) /\ E sc e' r s)).
Proof.
  induction L as [|e rest IH]; intros sc r s sc' ps W; simpl.
  - intros H; inversion H; subst sc' ps; clear H. split; [exact W|]. split; [apply frame_refl|]. split.
    + intros. tauto.
    + intros. simpl. tauto.
  - destruct (disc_from_in sc r s e) as [sc1 p1] eqn:D1.
    destruct (disc_in_list sc1 r s rest) as [sc2 p2] eqn:D2.
    intros H; inversion H; subst sc' ps; clear H.
    destruct (disc_from_in_spec _ _ _ _ _ _ W D1) as (W1 & F1 & E1 & P1).
    destruct (IH _ _ _ _ _ W1 D2) as (W2 & F2 & E2 & P2).
    split; [exact W2|]. split; [eapply frame_trans; eauto|]. split.
    + intros e' r' s'. rewrite E2, E1. simpl. split.
      * intros [[H1 H2] H3]. split; auto. intros ([<-|?]&?&?); [apply H2|apply H3]; auto.
      * intros [H1 H2]. repeat split; auto; intros (?&?&?); apply H2; subst; auto.
    + intros b e' t. rewrite in_app_iff, P1, P2, E1. simpl.
      destruct (Nat.eq_dec e' e) as [->|Hne]; [intuition auto|]. split.
      * intros [(?&?&?&?)|(?&?&?&?&?)]; subst; auto 8.
      * intros (?&[?|?]&?&?); [congruence|]. right. repeat split; auto. intros (?&?&?); congruence.
Qed.

Lemma disc_out_list_spec L : forall sc e sc' ps, WF sc -> disc_out_list sc e L = (sc', ps) ->
  WF sc' /\ frame sc sc' /\
  (forall e' r' s', E sc' e' r' s' <-> E sc e' r' s' /\ ~ (e' = e /\ In (r', s') L)) /\
  (forall b e' t, In (b, e', t) ps <-> (b = true /\ e' = e /\ In t L /\ E sc e (fst t) (snd t))).
Proof.
  induction L as [|[r s] rest IH]; intros sc e sc' ps W; simpl.
  - intros H; inversion H; subst sc' ps; clear H. split; [exact W|]. split; [apply frame_refl|]. split.
    + intros. tauto.
    + intros. simpl. tauto.
  - destruct (disc_from_out sc e r s) as [sc1 p1] eqn:D1.
    destruct (disc_out_list sc1 e rest) as [sc2 p2] eqn:D2.
    intros H; inversion H; subst sc' ps; clear H.
    destruct (disc_from_out_spec _ _ _ _ _ _ W D1) as (W1 & F1 & E1 & P1).
    destruct (IH _ _ _ _ W1 D2) as (W2 & F2 & E2 & P2).
    split; [exact W2|]. split; [eapply frame_trans; eauto|]. split.
    + intros e' r' s'. rewrite E2, E1. split.
      * intros [[H1 H2] H3]. split; auto. intros [-> [H|H]]; [inversion H; subst; apply H2; auto|apply H3; auto].
      * intros [H1 H2]. split; [split; auto|].
        -- intros (?&?&?); subst. apply H2; auto.
        -- intros [? ?]. apply H2; auto.
    + intros b e' t. rewrite in_app_iff, P1, P2, E1. destruct t as [r' s']. simpl.
      assert (Dec : {(r', s') = (r, s)} + {(r', s') <> (r, s)}).
      { destruct (Nat.eq_dec r' r); [destruct (isig_dec s' s)|]; [left; congruence|right; congruence|right; congruence]. }
      destruct Dec as [Q|Q].
      * inversion Q; subst. split.
        -- intros [(?&?&?&?)|(?&?&?&?&?)]; subst; auto 8.
        -- intros (?&?&?&?). left. auto.
      * split.
        -- intros [(?&?&?&?)|(?&?&?&?&?)]; subst; auto 8. congruence.
        -- intros (?&?&[?|?]&?); [congruence|]. right. repeat split; auto. intros (?&?&?); subst; congruence.
Qed.

Lemma disconnect_run_spec sc v sc' ps : WF sc -> disconnect_run sc v = (sc', ps) ->
  WF sc' /\ frame sc sc' /\
  (forall e r s, E sc' e r s <-> E sc e r s /\ r <> v) /\
  (forall b e t, In (b, e, t) ps <-> (b = false /\ fst t = v /\ E sc e (fst t) (snd t))).
Proof.
  intros W. unfold disconnect_run.
  destruct (disc_in_list sc v IRun (c_run sc v)) as [sc1 p1] eqn:D1.
  destruct (disc_in_list sc1 v IAcc (c_acc sc1 v)) as [sc2 p2] eqn:D2.
  intros H; inversion H; subst sc' ps; clear H.
  destruct (disc_in_list_spec _ _ _ _ _ _ W D1) as (W1 & F1 & E1 & P1).
  destruct (disc_in_list_spec _ _ _ _ _ _ W1 D2) as (W2 & F2 & E2 & P2).
  split; [exact W2|]. split; [eapply frame_trans; eauto|]. split.
  - intros e r s. rewrite E2, E1. split.
    + intros [[H1 H2] H3]. split; auto. intros ->. destruct s.
      * apply H2. repeat split; auto.
      * apply H3. split; [|auto]. change (E sc1 e v IAcc). rewrite E1. split; auto; try (intros (?&?&?); discriminate).
    + intros [H1 H2]. split; [split; auto|]; intros (?&?&?); congruence.
  - intros b e [r s]. rewrite in_app_iff, P1, P2, E1. simpl. split.
    + intros [(?&?&Q&?)|(?&?&Q&?&?)]; inversion Q; subst; auto.
    + intros (?&?&?). subst. destruct s.
      * left. repeat split; auto.
      * right. repeat split; auto.
        -- change (E sc1 e v IAcc). rewrite E1. split; auto; try (intros (?&?&?); discriminate).
        -- intros (?&?&?); discriminate.
Qed.

Lemma ran_disconnect_all_spec sc v sc' ps : WF sc -> ran_disconnect_all sc v = (sc', ps) ->
  WF sc' /\ frame sc sc' /\
  (forall e r s, E sc' e r s <-> E sc e r s /\ e <> v) /\
  (forall b e t, In (b, e, t) ps <-> (b = true /\ e = v /\ E sc e (fst t) (snd t))).
Proof.
  intros W. unfold ran_disconnect_all. intros D.
  destruct (disc_out_list_spec _ _ _ _ _ W D) as (W1 & F1 & E1 & P1).
  split; [exact W1|]. split; [exact F1|]. split.
  - intros e r s. rewrite E1. split.
    + intros [H1 H2]. split; auto. intros ->. apply H2. split; auto. apply (wf_sym sc W). exact H1.
    + intros [H1 H2]. split; auto. intros [? ?]; congruence.
  - intros b e [r s]. rewrite P1. simpl. split.
    + intros (?&?&?&?); subst; auto.
    + intros (?&?&?); subst. repeat split; auto. apply (wf_sym sc W). assumption.
Qed.

Lemma wrap_disconnect_spec D : forall sc sc' ps, WF sc -> wrap_disconnect sc D = (sc', ps) ->
  WF sc' /\ frame sc sc' /\
  (forall e r s, E sc' e r s <-> E sc e r s /\ ~ In r D /\ ~ In e D) /\
  (forall e r s, (exists b, In (b, e, (r, s)) ps) <-> E sc e r s /\ (In r D \/ In e D)).
Proof.
  induction D as [|v rest IH]; intros sc sc' ps W; simpl.
  - intros H; inversion H; subst sc' ps; clear H. split; [exact W|]. split; [apply frame_refl|]. split.
    + intros; tauto.
    + intros; simpl. split; [intros [? []]|tauto].
  - destruct (disconnect_run sc v) as [sc1 p1] eqn:D1.
    destruct (ran_disconnect_all sc1 v) as [sc2 p2] eqn:D2.
    destruct (wrap_disconnect sc2 rest) as [sc3 p3] eqn:D3.
    intros H; inversion H; subst sc' ps; clear H.
    destruct (disconnect_run_spec _ _ _ _ W D1) as (W1 & F1 & E1 & P1).
    destruct (ran_disconnect_all_spec _ _ _ _ W1 D2) as (W2 & F2 & E2 & P2).
    destruct (IH _ _ _ W2 D3) as (W3 & F3 & E3 & P3).
    split; [exact W3|]. split; [eapply frame_trans; [eapply frame_trans|]; eauto|]. split.
    + intros e r s. rewrite E3, E2, E1. split.
      * intros [[[H1 H2] H3] [H4 H5]]. split; auto. split; intros [?|?]; auto.
      * intros [H1 [H2 H3]]. repeat split; auto.
    + intros e r s. split.
      * intros [b Hb]. rewrite !in_app_iff in Hb. destruct Hb as [Hb|[Hb|Hb]].
        -- apply P1 in Hb. simpl in Hb. destruct Hb as (?&?&?). subst. auto.
        -- apply P2 in Hb. simpl in Hb. destruct Hb as (?&?&Hb). subst. apply E1 in Hb. tauto.
        -- assert (Hx : exists b, In (b, e, (r, s)) p3) by eauto. apply P3 in Hx.
           rewrite E2, E1 in Hx. tauto.
      * intros [HE HT].
        destruct (Nat.eq_dec r v) as [->|Hr].
        { exists false. rewrite !in_app_iff. left. apply P1. simpl. auto. }
        destruct (Nat.eq_dec e v) as [->|He].
        { exists true. rewrite !in_app_iff. right; left. apply P2. simpl. repeat split; auto. apply E1. auto. }
        assert (Hx : exists b, In (b, e, (r, s)) p3).
        { apply P3. rewrite E2, E1. split; [tauto|]. destruct HT as [[?|?]|[?|?]]; try congruence; auto. }
        destruct Hx as [b Hb]. exists b. rewrite !in_app_iff. auto.
Qed.

Lemma reconnect_spec sc p : WF sc ->
  WF (reconnect sc p) /\ frame sc (reconnect sc p) /\
  (forall e r s, E (reconnect sc p) e r s <-> E sc e r s \/ (e = snd (fst p) /\ (r, s) = snd p)).
Proof.
  intros W. destruct p as [[b e0] [r0 s0]]. simpl. destruct b.
  - destruct (connect_out_spec sc e0 r0 s0 W) as (W1 & F1 & E1). split; [exact W1|]. split; [exact F1|].
    intros e r s. rewrite E1. split; (intros [?|H]; [auto|right]).
    + destruct H as (?&?&?); subst; auto.
    + destruct H as [? H]; inversion H; subst; auto.
  - destruct (connect_in_spec sc r0 s0 e0 W) as (W1 & F1 & E1). split; [exact W1|]. split; [exact F1|].
    intros e r s. rewrite E1. split; (intros [?|H]; [auto|right]).
    + destruct H as (?&?&?); subst; auto.
    + destruct H as [? H]; inversion H; subst; auto.
Qed.

Lemma reconnect_all_spec ps : forall sc, WF sc ->
  WF (reconnect_all sc ps) /\ frame sc (reconnect_all sc ps) /\
  (forall e r s, E (reconnect_all sc ps) e r s <-> E sc e r s \/ (exists b, In (b, e, (r, s)) ps)).
Proof.
  unfold reconnect_all. induction ps as [|p rest IH]; intros sc W; simpl.
  - split; [exact W|]. split; [apply frame_refl|]. intros. split; auto. intros [?|[? []]]; auto.
  - destruct (reconnect_spec sc p W) as (W1 & F1 & E1).
    destruct (IH _ W1) as (W2 & F2 & E2).
    split; [exact W2|]. split; [eapply frame_trans; eauto|].
    intros e r s. rewrite E2, E1. split.
    + intros [[?|[H1 H2]]|[b Hb]]; auto.
      * right. destruct p as [[b e0] t]. simpl in *. subst. exists b. auto.
      * right. exists b; auto.
    + intros [?|[b [Hb|Hb]]]; auto.
      * subst p. simpl. auto.
      * right. exists b; auto.
Qed.

Lemma disconnect_run_all_spec D : forall sc, WF sc ->
  WF (disconnect_run_all sc D) /\ frame sc (disconnect_run_all sc D) /\
  (forall e r s, E (disconnect_run_all sc D) e r s <-> E sc e r s /\ ~ In r D).
Proof.
  induction D as [|v rest IH]; intros sc W; simpl.
  - split; [exact W|]. split; [apply frame_refl|]. intros; tauto.
  - destruct (disconnect_run sc v) as [sc1 p1] eqn:D1. simpl.
    destruct (disconnect_run_spec _ _ _ _ W D1) as (W1 & F1 & E1 & _).
    destruct (IH _ W1) as (W2 & F2 & E2).
    split; [exact W2|]. split; [eapply frame_trans; eauto|].
    intros e r s. rewrite E2, E1. split.
    + intros [[? ?] ?]. split; auto. intros [?|?]; auto.
    + intros [? H]. repeat split; auto.
Qed.

(* consecutive elements of the linear order *)
Fixpoint consec (l : list nat) (a b : nat) : Prop :=
  match l with
  | x :: ((y :: _) as r) => (a = x /\ b = y) \/ consec r a b
  | _ => False
  end.

Lemma chain_spec order : forall sc, WF sc ->
  WF (chain sc order) /\ frame sc (chain sc order) /\
  (forall e r s, E (chain sc order) e r s <-> E sc e r s \/ (s = IRun /\ consec order e r)).
Proof.
  induction order as [|a rest IH]; intros sc W.
  - simpl. split; [exact W|]. split; [apply frame_refl|]. intros; tauto.
  - destruct rest as [|b rest'].
    + simpl. split; [exact W|]. split; [apply frame_refl|]. intros; tauto.
    + change (chain sc (a :: b :: rest')) with (chain (connect_in sc b IRun a) (b :: rest')).
      destruct (connect_in_spec sc b IRun a W) as (W1 & F1 & E1).
      destruct (IH _ W1) as (W2 & F2 & E2).
      split; [exact W2|]. split; [eapply frame_trans; eauto|].
      intros e r s. rewrite E2, E1.
      change (consec (a :: b :: rest') e r) with ((e = a /\ r = b) \/ consec (b :: rest') e r).
      split.
      * intros [[?|(?&?&?)]|[? ?]]; auto.
      * intros [?|[? [[? ?]|?]]]; auto; subst; left; right; auto.
Qed.

Lemma consec_In l a b : consec l a b -> In a l /\ In b l.
Proof.
  induction l as [|x r IH]; simpl; [tauto|]. destruct r as [|y r']; [tauto|].
  intros [[-> ->]|H]; [simpl; auto|]. destruct (IH H). split; right; auto.
Qed.
