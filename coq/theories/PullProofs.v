(* PullProofs.v -- proofs about Pull.v (C11). *)
From PW Require Import Base Pull.
From Coq Require Import Permutation.

(* ================================================================== basic list facts *)
Lemma tgt_eqb_eq a b : tgt_eqb a b = true <-> a = b.
Proof.
  destruct a as [a s], b as [b t]; unfold tgt_eqb; simpl. rewrite andb_true_iff, Nat.eqb_eq. split.
  - intros [H1 H2]; subst. destruct s, t; simpl in H2; congruence.
  - intros H; inversion H; subst. split; auto. destruct t; reflexivity.
Qed.

Lemma memt_In x l : memt x l = true <-> In x l.
Proof.
  unfold memt; induction l as [|y r IH]; simpl; [split; [discriminate|tauto]|].
  rewrite orb_true_iff, IH, tgt_eqb_eq. split; intros [H|H]; auto.
Qed.

Lemma memn_false x l : memn x l = false <-> ~ In x l.
Proof. rewrite <- memn_In. destruct (memn x l); split; intros H; try congruence; try (exfalso; apply H; reflexivity). Qed.
Lemma memt_false x l : memt x l = false <-> ~ In x l.
Proof. rewrite <- memt_In. destruct (memt x l); split; intros H; try congruence; try (exfalso; apply H; reflexivity). Qed.

Section Remove1.
  Context {A : Type} (eqb : A -> A -> bool) (eqb_eq : forall a b, eqb a b = true <-> a = b).
  Lemma remove1_In_nodup x l : NoDup l -> forall y, In y (remove1 eqb x l) <-> In y l /\ y <> x.
  Proof.
    induction 1 as [|z r Hz Hr IH]; simpl; intros y; [tauto|].
    destruct (eqb x z) eqn:Ex.
    - apply eqb_eq in Ex; subst z. split.
      + intros Hy. split; auto. intros ->. contradiction.
      + intros [[->|Hy] Hn]; [congruence|auto].
    - assert (x <> z) by (intros ->; rewrite (proj2 (eqb_eq z z) eq_refl) in Ex; discriminate).
      simpl. rewrite IH. split.
      + intros [->|[Hy Hn]]; auto.
      + intros [[->|Hy] Hn]; auto.
  Qed.
  Lemma remove1_nodup x l : NoDup l -> NoDup (remove1 eqb x l).
  Proof.
    induction 1 as [|z r Hz Hr IH]; simpl; [constructor|].
    destruct (eqb x z); auto. constructor; auto.
    intros Hin. apply Hz. apply (remove1_In_nodup x r Hr z) in Hin. tauto.
  Qed.
End Remove1.

Lemma nat_eqb_eq' a b : Nat.eqb a b = true <-> a = b. Proof. apply Nat.eqb_eq. Qed.

Lemma nil_of_no_elements {A} (l : list A) : (forall x, ~ In x l) -> l = [].
Proof. destruct l; auto. intros H. exfalso. apply (H a). left; auto. Qed.

Lemma singleton_of_elements {A} (l : list A) x : NoDup l -> (forall y, In y l <-> y = x) -> l = [x].
Proof.
  intros Hn H. destruct l as [|a r].
  - exfalso. apply (proj2 (H x) eq_refl).
  - assert (a = x) by (apply H; left; auto). subst a. f_equal.
    apply nil_of_no_elements. intros y Hy. inversion Hn; subst.
    assert (y = x) by (apply H; right; auto). subst. contradiction.
Qed.

Lemma isig_dec (a b : isig) : {a = b} + {a <> b}. Proof. decide equality. Qed.

(* ================================================================== frames *)
(* everything except the three connection tables *)
Definition frame (a b : scope) : Prop :=
  (forall i, lbl b i = lbl a i) /\ (forall i, ups b i = ups a i) /\ (forall i, recv b i = recv a i) /\
  (forall i, exe b i = exe a i) /\ (forall i, bad b i = bad a i) /\ (forall i, failed b i = failed a i) /\
  par b = par a /\ starting b = starting a /\ automate b = automate a /\ pfailed b = pfailed a.

Lemma frame_refl a : frame a a.
Proof. unfold frame; repeat split; auto. Qed.
Lemma frame_trans a b c : frame a b -> frame b c -> frame a c.
Proof.
  unfold frame. intros (A1&A2&A3&A4&A5&A6&A7&A8&A9&A10) (B1&B2&B3&B4&B5&B6&B7&B8&B9&B10).
  repeat split; intros; congruence.
Qed.

(* ================================================================== well-formed signal wiring *)
Definition E sc (e r : nat) (s : isig) : Prop := In e (conns_in sc r s).

Record WF sc : Prop := {
  wf_sym : forall e r s, In e (conns_in sc r s) <-> In (r, s) (c_ran sc e);
  wf_nd_in : forall r s, NoDup (conns_in sc r s);
  wf_nd_out : forall e, NoDup (c_ran sc e) }.

Definition same_edges (a b : scope) : Prop := forall e r s, E b e r s <-> E a e r s.

(* [b] is [a] with the connection (e,(r,s)) removed on both sides *)
Definition removed (a b : scope) e r s : Prop :=
  (forall r' s', conns_in b r' s' = if Nat.eqb r' r && isig_eqb s' s then remove1 Nat.eqb e (conns_in a r s)
                                    else conns_in a r' s') /\
  (forall e', c_ran b e' = if Nat.eqb e' e then remove1 tgt_eqb (r, s) (c_ran a e) else c_ran a e').

Definition added (a b : scope) e r s : Prop :=
  (forall r' s', conns_in b r' s' = if Nat.eqb r' r && isig_eqb s' s then e :: conns_in a r s
                                    else conns_in a r' s') /\
  (forall e', c_ran b e' = if Nat.eqb e' e then (r, s) :: c_ran a e else c_ran a e').

Lemma rs_eqb r' s' r s : Nat.eqb r' r && isig_eqb s' s = true <-> r' = r /\ s' = s.
Proof.
  rewrite andb_true_iff, Nat.eqb_eq. destruct s', s; simpl; split; intros [H1 H2]; split; auto; congruence.
Qed.

Lemma removed_spec a b e r s : WF a -> removed a b e r s ->
  WF b /\ (forall e' r' s', E b e' r' s' <-> E a e' r' s' /\ ~ (e' = e /\ r' = r /\ s' = s)).
Proof.
  intros Wa [Hin Hout].
  assert (Ein : forall e' r' s', In e' (conns_in b r' s') <-> In e' (conns_in a r' s') /\ ~ (e' = e /\ r' = r /\ s' = s)).
  { intros e' r' s'. rewrite Hin. destruct (Nat.eqb r' r && isig_eqb s' s) eqn:Q.
    - apply rs_eqb in Q. destruct Q; subst.
      rewrite (remove1_In_nodup Nat.eqb nat_eqb_eq' e _ (wf_nd_in a Wa r s)). tauto.
    - split; [intros H; split; auto|tauto]. intros (?&?&?); subst.
      rewrite (proj2 (rs_eqb r s r s) (conj eq_refl eq_refl)) in Q. discriminate. }
  assert (Eout : forall e' r' s', In (r', s') (c_ran b e') <-> In (r', s') (c_ran a e') /\ ~ (e' = e /\ r' = r /\ s' = s)).
  { intros e' r' s'. rewrite Hout. destruct (Nat.eqb e' e) eqn:Q.
    - apply Nat.eqb_eq in Q; subst.
      rewrite (remove1_In_nodup tgt_eqb tgt_eqb_eq (r, s) _ (wf_nd_out a Wa e)). split.
      + intros [H1 H2]; split; auto. intros (?&?&?); subst; congruence.
      + intros [H1 H2]; split; auto. intros H; inversion H; subst. apply H2; auto.
    - apply Nat.eqb_neq in Q. split; [intros H; split; auto|tauto]. intros (?&?&?); subst; congruence. }
  split; [|exact Ein]. constructor.
  - intros e' r' s'. rewrite Ein, Eout, (wf_sym a Wa). tauto.
  - intros r' s'. rewrite Hin. destruct (Nat.eqb r' r && isig_eqb s' s).
    + apply remove1_nodup; [apply nat_eqb_eq'|apply (wf_nd_in a Wa)].
    + apply (wf_nd_in a Wa).
  - intros e'. rewrite Hout. destruct (Nat.eqb e' e).
    + apply remove1_nodup; [apply tgt_eqb_eq|apply (wf_nd_out a Wa)].
    + apply (wf_nd_out a Wa).
Qed.

Lemma added_spec a b e r s : WF a -> ~ E a e r s -> added a b e r s ->
  WF b /\ (forall e' r' s', E b e' r' s' <-> E a e' r' s' \/ (e' = e /\ r' = r /\ s' = s)).
Proof.
  intros Wa Hn [Hin Hout].
  assert (Ein : forall e' r' s', In e' (conns_in b r' s') <-> In e' (conns_in a r' s') \/ (e' = e /\ r' = r /\ s' = s)).
  { intros e' r' s'. rewrite Hin. destruct (Nat.eqb r' r && isig_eqb s' s) eqn:Q.
    - apply rs_eqb in Q. destruct Q; subst. simpl. split.
      + intros [->|H]; auto.
      + intros [H|(?&?&?)]; auto.
    - split; auto. intros [H|(?&?&?)]; auto. subst.
      rewrite (proj2 (rs_eqb r s r s) (conj eq_refl eq_refl)) in Q. discriminate. }
  assert (Eout : forall e' r' s', In (r', s') (c_ran b e') <-> In (r', s') (c_ran a e') \/ (e' = e /\ r' = r /\ s' = s)).
  { intros e' r' s'. rewrite Hout. destruct (Nat.eqb e' e) eqn:Q.
    - apply Nat.eqb_eq in Q; subst. simpl. split.
      + intros [H|H]; auto. inversion H; subst; auto.
      + intros [H|(?&?&?)]; auto. subst; auto.
    - apply Nat.eqb_neq in Q. split; auto. intros [H|(?&?&?)]; auto. subst; congruence. }
  split; [|exact Ein]. constructor.
  - intros e' r' s'. rewrite Ein, Eout, (wf_sym a Wa). tauto.
  - intros r' s'. rewrite Hin. destruct (Nat.eqb r' r && isig_eqb s' s) eqn:Q.
    + constructor; [exact Hn|apply (wf_nd_in a Wa)].
    + apply (wf_nd_in a Wa).
  - intros e'. rewrite Hout. destruct (Nat.eqb e' e) eqn:Q.
    + apply Nat.eqb_eq in Q; subst. constructor; [|apply (wf_nd_out a Wa)].
      rewrite <- (wf_sym a Wa). exact Hn.
    + apply (wf_nd_out a Wa).
Qed.

(* ---- table access after set_in / set_out ---- *)
Lemma conns_in_set_in sc r s l r' s' :
  conns_in (set_in sc r s l) r' s' = if Nat.eqb r' r && isig_eqb s' s then l else conns_in sc r' s'.
Proof.
  destruct s, s'; simpl; unfold fupd; destruct (Nat.eqb r' r); simpl; reflexivity.
Qed.
Lemma c_ran_set_in sc r s l : c_ran (set_in sc r s l) = c_ran sc.
Proof. destruct s; reflexivity. Qed.
Lemma conns_in_set_out sc e l r s : conns_in (set_out sc e l) r s = conns_in sc r s.
Proof. destruct s; reflexivity. Qed.
Lemma c_ran_set_out sc e l e' : c_ran (set_out sc e l) e' = if Nat.eqb e' e then l else c_ran sc e'.
Proof. reflexivity. Qed.
Lemma frame_set_in sc r s l : frame sc (set_in sc r s l).
Proof. destruct s; unfold frame; simpl; repeat split; auto. Qed.
Lemma frame_set_out sc e l : frame sc (set_out sc e l).
Proof. unfold frame; simpl; repeat split; auto. Qed.

(* ================================================================== the four primitives *)
Lemma disc_from_in_spec sc r s e sc' ps : WF sc -> disc_from_in sc r s e = (sc', ps) ->
  WF sc' /\ frame sc sc' /\
  (forall e' r' s', E sc' e' r' s' <-> E sc e' r' s' /\ ~ (e' = e /\ r' = r /\ s' = s)) /\
  (forall b e' t, In (b, e', t) ps <-> (b = false /\ e' = e /\ t = (r, s) /\ E sc e r s)) .
Proof.
  intros W. unfold disc_from_in. destruct (memn e (conns_in sc r s)) eqn:M.
  - apply memn_In in M.
    assert (M2 : memt (r, s) (c_ran (set_in sc r s (remove1 Nat.eqb e (conns_in sc r s))) e) = true).
    { rewrite c_ran_set_in. apply memt_In. apply (wf_sym sc W). exact M. }
    rewrite M2. intros H; inversion H; subst; clear H.
    set (sc1 := set_in sc r s (remove1 Nat.eqb e (conns_in sc r s))).
    assert (R : removed sc (set_out sc1 e (remove1 tgt_eqb (r, s) (c_ran sc1 e))) e r s).
    { split.
      - intros r' s'. rewrite conns_in_set_out. unfold sc1. rewrite conns_in_set_in. reflexivity.
      - intros e'. rewrite c_ran_set_out. unfold sc1. rewrite c_ran_set_in. reflexivity. }
    destruct (removed_spec _ _ _ _ _ W R) as [W' HE]. split; [exact W'|]. split.
    + eapply frame_trans; [apply frame_set_in|apply frame_set_out].
    + split; [exact HE|]. intros b e' t. simpl. split.
      * intros [H|[]]; inversion H; subst; auto.
      * intros (?&?&?&?); subst; auto.
  - intros H; inversion H; subst sc' ps; clear H. apply memn_false in M. split; [exact W|]. split; [apply frame_refl|]. split.
    + intros e' r' s'. split; [intros H; split; auto|tauto]. intros (?&?&?); subst; contradiction.
    + intros b e' t. simpl. split; [tauto|]. intros (?&?&?&?); contradiction.
Qed.

Lemma disc_from_out_spec sc e r s sc' ps : WF sc -> disc_from_out sc e r s = (sc', ps) ->
  WF sc' /\ frame sc sc' /\
  (forall e' r' s', E sc' e' r' s' <-> E sc e' r' s' /\ ~ (e' = e /\ r' = r /\ s' = s)) /\
  (forall b e' t, In (b, e', t) ps <-> (b = true /\ e' = e /\ t = (r, s) /\ E sc e r s)).
Proof.
  intros W. unfold disc_from_out. destruct (memt (r, s) (c_ran sc e)) eqn:M.
  - apply memt_In in M. apply (wf_sym sc W) in M.
    assert (M2 : memn e (conns_in (set_out sc e (remove1 tgt_eqb (r, s) (c_ran sc e))) r s) = true).
    { rewrite conns_in_set_out. apply memn_In. exact M. }
    rewrite M2. intros H; inversion H; subst; clear H.
    set (sc1 := set_out sc e (remove1 tgt_eqb (r, s) (c_ran sc e))).
    assert (R : removed sc (set_in sc1 r s (remove1 Nat.eqb e (conns_in sc1 r s))) e r s).
    { split.
      - intros r' s'. rewrite conns_in_set_in. unfold sc1. rewrite !conns_in_set_out. reflexivity.
      - intros e'. rewrite c_ran_set_in. unfold sc1. rewrite c_ran_set_out. reflexivity. }
    destruct (removed_spec _ _ _ _ _ W R) as [W' HE]. split; [exact W'|]. split.
    + eapply frame_trans; [apply frame_set_out|apply frame_set_in].
    + split; [exact HE|]. intros b e' t. simpl. split.
      * intros [H|[]]; inversion H; subst; auto.
      * intros (?&?&?&?); subst; auto.
  - intros H; inversion H; subst sc' ps; clear H. apply memt_false in M.
    assert (M' : ~ E sc e r s) by (unfold E; rewrite (wf_sym sc W); exact M).
    split; [exact W|]. split; [apply frame_refl|]. split.
    + intros e' r' s'. split; [intros H; split; auto|tauto]. intros (?&?&?); subst; contradiction.
    + intros b e' t. simpl. split; [tauto|]. intros (?&?&?&?); contradiction.
Qed.

Lemma connect_in_spec sc r s e : WF sc ->
  WF (connect_in sc r s e) /\ frame sc (connect_in sc r s e) /\
  (forall e' r' s', E (connect_in sc r s e) e' r' s' <-> E sc e' r' s' \/ (e' = e /\ r' = r /\ s' = s)).
Proof.
  intros W. unfold connect_in. destruct (memn e (conns_in sc r s)) eqn:M.
  - apply memn_In in M. split; [exact W|]. split; [apply frame_refl|].
    intros e' r' s'. split; auto. intros [H|(?&?&?)]; auto. subst; exact M.
  - apply memn_false in M.
    set (sc1 := set_in sc r s (e :: conns_in sc r s)).
    assert (A : added sc (set_out sc1 e ((r, s) :: c_ran sc1 e)) e r s).
    { split.
      - intros r' s'. rewrite conns_in_set_out. unfold sc1. rewrite conns_in_set_in. reflexivity.
      - intros e'. rewrite c_ran_set_out. unfold sc1. rewrite c_ran_set_in. reflexivity. }
    destruct (added_spec _ _ _ _ _ W M A) as [W' HE]. split; [exact W'|]. split; [|exact HE].
    eapply frame_trans; [apply frame_set_in|apply frame_set_out].
Qed.

Lemma connect_out_spec sc e r s : WF sc ->
  WF (connect_out sc e r s) /\ frame sc (connect_out sc e r s) /\
  (forall e' r' s', E (connect_out sc e r s) e' r' s' <-> E sc e' r' s' \/ (e' = e /\ r' = r /\ s' = s)).
Proof.
  intros W. unfold connect_out. destruct (memt (r, s) (c_ran sc e)) eqn:M.
  - apply memt_In in M. apply (wf_sym sc W) in M. split; [exact W|]. split; [apply frame_refl|].
    intros e' r' s'. split; auto. intros [H|(?&?&?)]; auto. subst; exact M.
  - apply memt_false in M. assert (M' : ~ E sc e r s) by (unfold E; rewrite (wf_sym sc W); exact M).
    set (sc1 := set_out sc e ((r, s) :: c_ran sc e)).
    assert (A : added sc (set_in sc1 r s (e :: conns_in sc1 r s)) e r s).
    { split.
      - intros r' s'. rewrite conns_in_set_in. unfold sc1. rewrite !conns_in_set_out. reflexivity.
      - intros e'. rewrite c_ran_set_in. unfold sc1. rewrite c_ran_set_out. reflexivity. }
    destruct (added_spec _ _ _ _ _ W M' A) as [W' HE]. split; [exact W'|]. split; [|exact HE].
    eapply frame_trans; [apply frame_set_out|apply frame_set_in].
Qed.

(* ================================================================== loops over connection lists *)
Lemma disc_in_list_spec L : forall sc r s sc' ps, WF sc -> disc_in_list sc r s L = (sc', ps) ->
  WF sc' /\ frame sc sc' /\
  (forall e' r' s', E sc' e' r' s' <-> E sc e' r' s' /\ ~ (In e' L /\ r' = r /\ s' = s)) /\
  (forall b e' t, In (b, e', t) ps <-> (b = false /\ In e' L /\ t = (r, s) /\ E sc e' r s)).
Proof.
  induction L as [|e rest IH]; intros sc r s sc' ps W; simpl.
  - intros H; inversion H; subst sc' ps; clear H. split; [exact W|]. split; [apply frame_refl|]. split.
    + intros. tauto.
    + intros. simpl. tauto.
  - destruct (disc_from_in sc r s e) as [sc1 p1] eqn:D1.
    destruct (disc_in_list sc1 r s rest) as [sc2 p2] eqn:D2.
    intros H; inversion H; subst sc' ps; clear H.
    destruct (disc_from_in_spec _ _ _ _ _ _ W D1) as (W1 & F1 & E1 & P1).
    destruct (IH _ _ _ _ _ W1 D2) as (W2 & F2 & E2 & P2).
    split; [exact W2|]. split; [eapply frame_trans; eauto|]. split.
    + intros e' r' s'. rewrite E2, E1. simpl. split.
      * intros [[H1 H2] H3]. split; auto. intros ([<-|?]&?&?); [apply H2|apply H3]; auto.
      * intros [H1 H2]. repeat split; auto; intros (?&?&?); apply H2; subst; auto.
    + intros b e' t. rewrite in_app_iff, P1, P2, E1. simpl.
      destruct (Nat.eq_dec e' e) as [->|Hne]; [intuition auto|]. split.
      * intros [(?&?&?&?)|(?&?&?&?&?)]; subst; auto 8.
      * intros (?&[?|?]&?&?); [congruence|]. right. repeat split; auto. intros (?&?&?); congruence.
Qed.

Lemma disc_out_list_spec L : forall sc e sc' ps, WF sc -> disc_out_list sc e L = (sc', ps) ->
  WF sc' /\ frame sc sc' /\
  (forall e' r' s', E sc' e' r' s' <-> E sc e' r' s' /\ ~ (e' = e /\ In (r', s') L)) /\
  (forall b e' t, In (b, e', t) ps <-> (b = true /\ e' = e /\ In t L /\ E sc e (fst t) (snd t))).
Proof.
  induction L as [|[r s] rest IH]; intros sc e sc' ps W; simpl.
  - intros H; inversion H; subst sc' ps; clear H. split; [exact W|]. split; [apply frame_refl|]. split.
    + intros. tauto.
    + intros. simpl. tauto.
  - destruct (disc_from_out sc e r s) as [sc1 p1] eqn:D1.
    destruct (disc_out_list sc1 e rest) as [sc2 p2] eqn:D2.
    intros H; inversion H; subst sc' ps; clear H.
    destruct (disc_from_out_spec _ _ _ _ _ _ W D1) as (W1 & F1 & E1 & P1).
    destruct (IH _ _ _ _ W1 D2) as (W2 & F2 & E2 & P2).
    split; [exact W2|]. split; [eapply frame_trans; eauto|]. split.
    + intros e' r' s'. rewrite E2, E1. split.
      * intros [[H1 H2] H3]. split; auto. intros [-> [H|H]]; [inversion H; subst; apply H2; auto|apply H3; auto].
      * intros [H1 H2]. split; [split; auto|].
        -- intros (?&?&?); subst. apply H2; auto.
        -- intros [? ?]. apply H2; auto.
    + intros b e' t. rewrite in_app_iff, P1, P2, E1. destruct t as [r' s']. simpl.
      assert (Dec : {(r', s') = (r, s)} + {(r', s') <> (r, s)}).
      { destruct (Nat.eq_dec r' r); [destruct (isig_dec s' s)|]; [left; congruence|right; congruence|right; congruence]. }
      destruct Dec as [Q|Q].
      * inversion Q; subst. split.
        -- intros [(?&?&?&?)|(?&?&?&?&?)]; subst; auto 8.
        -- intros (?&?&?&?). left. auto.
      * split.
        -- intros [(?&?&?&?)|(?&?&?&?&?)]; subst; auto 8. congruence.
        -- intros (?&?&[?|?]&?); [congruence|]. right. repeat split; auto. intros (?&?&?); subst; congruence.
Qed.

Lemma disconnect_run_spec sc v sc' ps : WF sc -> disconnect_run sc v = (sc', ps) ->
  WF sc' /\ frame sc sc' /\
  (forall e r s, E sc' e r s <-> E sc e r s /\ r <> v) /\
  (forall b e t, In (b, e, t) ps <-> (b = false /\ fst t = v /\ E sc e (fst t) (snd t))).
Proof.
  intros W. unfold disconnect_run.
  destruct (disc_in_list sc v IRun (c_run sc v)) as [sc1 p1] eqn:D1.
  destruct (disc_in_list sc1 v IAcc (c_acc sc1 v)) as [sc2 p2] eqn:D2.
  intros H; inversion H; subst sc' ps; clear H.
  destruct (disc_in_list_spec _ _ _ _ _ _ W D1) as (W1 & F1 & E1 & P1).
  destruct (disc_in_list_spec _ _ _ _ _ _ W1 D2) as (W2 & F2 & E2 & P2).
  split; [exact W2|]. split; [eapply frame_trans; eauto|]. split.
  - intros e r s. rewrite E2, E1. split.
    + intros [[H1 H2] H3]. split; auto. intros ->. destruct s.
      * apply H2. repeat split; auto.
      * apply H3. split; [|auto]. change (E sc1 e v IAcc). rewrite E1. split; auto; try (intros (?&?&?); discriminate).
    + intros [H1 H2]. split; [split; auto|]; intros (?&?&?); congruence.
  - intros b e [r s]. rewrite in_app_iff, P1, P2, E1. simpl. split.
    + intros [(?&?&Q&?)|(?&?&Q&?&?)]; inversion Q; subst; auto.
    + intros (?&?&?). subst. destruct s.
      * left. repeat split; auto.
      * right. repeat split; auto.
        -- change (E sc1 e v IAcc). rewrite E1. split; auto; try (intros (?&?&?); discriminate).
        -- intros (?&?&?); discriminate.
Qed.

Lemma ran_disconnect_all_spec sc v sc' ps : WF sc -> ran_disconnect_all sc v = (sc', ps) ->
  WF sc' /\ frame sc sc' /\
  (forall e r s, E sc' e r s <-> E sc e r s /\ e <> ran_of v) /\
  (forall b e t, In (b, e, t) ps <-> (b = true /\ e = ran_of v /\ E sc e (fst t) (snd t))).
Proof.
  intros W. unfold ran_disconnect_all. intros D.
  destruct (disc_out_list_spec _ _ _ _ _ W D) as (W1 & F1 & E1 & P1).
  split; [exact W1|]. split; [exact F1|]. split.
  - intros e r s. rewrite E1. split.
    + intros [H1 H2]. split; auto. intros ->. apply H2. split; auto. apply (wf_sym sc W). exact H1.
    + intros [H1 H2]. split; auto. intros [? ?]; congruence.
  - intros b e [r s]. rewrite P1. simpl. split.
    + intros (?&?&?&?); subst; auto.
    + intros (?&?&?); subst. repeat split; auto. apply (wf_sym sc W). assumption.
Qed.

Lemma ran_of_inj a b : ran_of a = ran_of b -> a = b.
Proof. unfold ran_of. lia. Qed.
Lemma ran_fail_ne a b : ran_of a <> fail_of b.
Proof. unfold ran_of, fail_of. lia. Qed.
Lemma in_rans v D : In (ran_of v) (map ran_of D) <-> In v D.
Proof.
  rewrite in_map_iff. split; [intros (x & Hx & ?); apply ran_of_inj in Hx; subst; auto|intros; exists v; auto].
Qed.

Lemma wrap_disconnect_spec D : forall sc sc' ps, WF sc -> wrap_disconnect sc D = (sc', ps) ->
  WF sc' /\ frame sc sc' /\
  (forall e r s, E sc' e r s <-> E sc e r s /\ ~ In r D /\ ~ In e (map ran_of D)) /\
  (forall e r s, (exists b, In (b, e, (r, s)) ps) <-> E sc e r s /\ (In r D \/ In e (map ran_of D))).
Proof.
  induction D as [|v rest IH]; intros sc sc' ps W; simpl.
  - intros H; inversion H; subst sc' ps; clear H. split; [exact W|]. split; [apply frame_refl|]. split.
    + intros; tauto.
    + intros; simpl. split; [intros [? []]|tauto].
  - destruct (disconnect_run sc v) as [sc1 p1] eqn:D1.
    destruct (ran_disconnect_all sc1 v) as [sc2 p2] eqn:D2.
    destruct (wrap_disconnect sc2 rest) as [sc3 p3] eqn:D3.
    intros H; inversion H; subst sc' ps; clear H.
    destruct (disconnect_run_spec _ _ _ _ W D1) as (W1 & F1 & E1 & P1).
    destruct (ran_disconnect_all_spec _ _ _ _ W1 D2) as (W2 & F2 & E2 & P2).
    destruct (IH _ _ _ W2 D3) as (W3 & F3 & E3 & P3).
    split; [exact W3|]. split; [eapply frame_trans; [eapply frame_trans|]; eauto|]. split.
    + intros e r s. rewrite E3, E2, E1. split.
      * intros [[[H1 H2] H3] [H4 H5]]. split; auto. split; intros [?|?]; auto.
      * intros [H1 [H2 H3]]. repeat split; auto.
    + intros e r s. split.
      * intros [b Hb]. rewrite !in_app_iff in Hb. destruct Hb as [Hb|[Hb|Hb]].
        -- apply P1 in Hb. simpl in Hb. destruct Hb as (?&?&?). subst. auto.
        -- apply P2 in Hb. simpl in Hb. destruct Hb as (?&?&Hb). subst. apply E1 in Hb. tauto.
        -- assert (Hx : exists b, In (b, e, (r, s)) p3) by eauto. apply P3 in Hx.
           rewrite E2, E1 in Hx. tauto.
      * intros [HE HT].
        destruct (Nat.eq_dec r v) as [->|Hr].
        { exists false. rewrite !in_app_iff. left. apply P1. simpl. auto. }
        destruct (Nat.eq_dec e (ran_of v)) as [->|He].
        { exists true. rewrite !in_app_iff. right; left. apply P2. simpl. repeat split; auto. apply E1. auto. }
        assert (Hx : exists b, In (b, e, (r, s)) p3).
        { apply P3. rewrite E2, E1. split; [tauto|]. destruct HT as [[?|?]|[?|?]]; try congruence; auto. }
        destruct Hx as [b Hb]. exists b. rewrite !in_app_iff. auto.
Qed.

Lemma reconnect_spec sc p : WF sc ->
  WF (reconnect sc p) /\ frame sc (reconnect sc p) /\
  (forall e r s, E (reconnect sc p) e r s <-> E sc e r s \/ (e = snd (fst p) /\ (r, s) = snd p)).
Proof.
  intros W. destruct p as [[b e0] [r0 s0]]. simpl. destruct b.
  - destruct (connect_out_spec sc e0 r0 s0 W) as (W1 & F1 & E1). split; [exact W1|]. split; [exact F1|].
    intros e r s. rewrite E1. split; (intros [?|H]; [auto|right]).
    + destruct H as (?&?&?); subst; auto.
    + destruct H as [? H]; inversion H; subst; auto.
  - destruct (connect_in_spec sc r0 s0 e0 W) as (W1 & F1 & E1). split; [exact W1|]. split; [exact F1|].
    intros e r s. rewrite E1. split; (intros [?|H]; [auto|right]).
    + destruct H as (?&?&?); subst; auto.
    + destruct H as [? H]; inversion H; subst; auto.
Qed.

Lemma reconnect_all_spec ps : forall sc, WF sc ->
  WF (reconnect_all sc ps) /\ frame sc (reconnect_all sc ps) /\
  (forall e r s, E (reconnect_all sc ps) e r s <-> E sc e r s \/ (exists b, In (b, e, (r, s)) ps)).
Proof.
  unfold reconnect_all. induction ps as [|p rest IH]; intros sc W; simpl.
  - split; [exact W|]. split; [apply frame_refl|]. intros. split; auto. intros [?|[? []]]; auto.
  - destruct (reconnect_spec sc p W) as (W1 & F1 & E1).
    destruct (IH _ W1) as (W2 & F2 & E2).
    split; [exact W2|]. split; [eapply frame_trans; eauto|].
    intros e r s. rewrite E2, E1. split.
    + intros [[?|[H1 H2]]|[b Hb]]; auto.
      * right. destruct p as [[b e0] t]. simpl in *. subst. exists b. auto.
      * right. exists b; auto.
    + intros [?|[b [Hb|Hb]]]; auto.
      * subst p. simpl. auto.
      * right. exists b; auto.
Qed.

Lemma disconnect_run_all_spec D : forall sc, WF sc ->
  WF (disconnect_run_all sc D) /\ frame sc (disconnect_run_all sc D) /\
  (forall e r s, E (disconnect_run_all sc D) e r s <-> E sc e r s /\ ~ In r D).
Proof.
  induction D as [|v rest IH]; intros sc W; simpl.
  - split; [exact W|]. split; [apply frame_refl|]. intros; tauto.
  - destruct (disconnect_run sc v) as [sc1 p1] eqn:D1. simpl.
    destruct (disconnect_run_spec _ _ _ _ W D1) as (W1 & F1 & E1 & _).
    destruct (IH _ W1) as (W2 & F2 & E2).
    split; [exact W2|]. split; [eapply frame_trans; eauto|].
    intros e r s. rewrite E2, E1. split.
    + intros [[? ?] ?]. split; auto. intros [?|?]; auto.
    + intros [? H]. repeat split; auto.
Qed.

(* consecutive elements of the linear order *)
Fixpoint consec (l : list nat) (a b : nat) : Prop :=
  match l with
  | x :: ((y :: _) as r) => (a = x /\ b = y) \/ consec r a b
  | _ => False
  end.

Lemma chain_spec order : forall sc, WF sc ->
  WF (chain sc order) /\ frame sc (chain sc order) /\
  (forall e r s, E (chain sc order) e r s <-> E sc e r s \/ (s = IRun /\ exists a, e = ran_of a /\ consec order a r)).
Proof.
  induction order as [|a rest IH]; intros sc W.
  - simpl. split; [exact W|]. split; [apply frame_refl|]. intros. split; auto. intros [?|(_&?&_&[])]; auto.
  - destruct rest as [|b rest'].
    + simpl. split; [exact W|]. split; [apply frame_refl|]. intros. split; auto. intros [?|(_&?&_&[])]; auto.
    + change (chain sc (a :: b :: rest')) with (chain (connect_in sc b IRun (ran_of a)) (b :: rest')).
      destruct (connect_in_spec sc b IRun (ran_of a) W) as (W1 & F1 & E1).
      destruct (IH _ W1) as (W2 & F2 & E2).
      split; [exact W2|]. split; [eapply frame_trans; eauto|].
      intros e r s. rewrite E2, E1. split.
      * intros [[?|(?&?&?)]|(?&x&?&?)]; auto.
        -- right. split; auto. exists a. split; auto. left; auto.
        -- right. split; auto. exists x. split; auto. right; auto.
      * intros [?|(?&x&?&Hc)]; auto.
        change (consec (a :: b :: rest') x r) with ((x = a /\ r = b) \/ consec (b :: rest') x r) in Hc.
        destruct Hc as [[-> ->]|Hc]; [left; right; auto|]. right. split; auto. exists x; auto.
Qed.

Lemma consec_In l a b : consec l a b -> In a l /\ In b l.
Proof.
  induction l as [|x r IH]; simpl; [tauto|]. destruct r as [|y r']; [tauto|].
  intros [[-> ->]|H]; [simpl; auto|]. destruct (IH H). split; right; auto.
Qed.

(* ================================================================== running leaves the wiring alone *)
(* everything that running never touches: the three tables, labels, data edges, flags, parent kind,
   starting nodes, automate *)
Definition cframe (a b : scope) : Prop :=
  (forall r s, conns_in b r s = conns_in a r s) /\ (forall e, c_ran b e = c_ran a e) /\
  (forall i, lbl b i = lbl a i) /\ (forall i, ups b i = ups a i) /\
  (forall i, exe b i = exe a i) /\ (forall i, bad b i = bad a i) /\
  par b = par a /\ starting b = starting a /\ automate b = automate a.

Lemma cframe_refl a : cframe a a.
Proof. unfold cframe; repeat split; auto. Qed.
Lemma cframe_trans a b c : cframe a b -> cframe b c -> cframe a c.
Proof.
  unfold cframe. intros (A1&A2&A3&A4&A5&A6&A7&A8&A9) (B1&B2&B3&B4&B5&B6&B7&B8&B9).
  repeat split; intros; congruence.
Qed.
Lemma cframe_mark_failed sc k : cframe sc (mark_failed sc k).
Proof. unfold cframe, mark_failed; repeat split; intros; try reflexivity; destruct s; reflexivity. Qed.
Lemma cframe_set_recv sc f : cframe sc (set_recv sc f).
Proof. unfold cframe; repeat split; intros; try reflexivity; destruct s; reflexivity. Qed.
Lemma cframe_set_pfailed sc b : cframe sc (set_pfailed sc b).
Proof. unfold cframe; repeat split; intros; try reflexivity; destruct s; reflexivity. Qed.

Lemma cframe_acc_deliver sc r e sc' go : acc_deliver sc r e = (sc', go) -> cframe sc sc'.
Proof.
  unfold acc_deliver. destruct (forallb _ _); intros H; inversion H; subst; apply cframe_set_recv.
Qed.

Definition emit_ok (emit : scope -> nat -> scope * list entry * res) : Prop :=
  forall sc k sc' l x, emit sc k = (sc', l, x) -> cframe sc sc'.

Lemma run_with_cframe emit lv : emit_ok emit -> emit_ok (run_with emit lv).
Proof.
  intros He sc r sc' l x. unfold run_with. destruct (failed sc r).
  - intros H; inversion H; subst; apply cframe_refl.
  - destruct (bad sc r).
    + destruct (emit (mark_failed sc r) (fail_of r)) as [[sc1 l1] x1] eqn:Q. intros H; inversion H; subst.
      eapply cframe_trans; [apply cframe_mark_failed|]. eapply He; eauto.
    + destruct (emit sc (ran_of r)) as [[sc1 l1] x1] eqn:Q. intros H; inversion H; subst. eapply He; eauto.
Qed.

Lemma deliver_all_cframe runf e : emit_ok runf ->
  forall conns sc sc' l x, deliver_all runf e conns sc = (sc', l, x) -> cframe sc sc'.
Proof.
  intros Hr. induction conns as [|[r s] rest IH]; intros sc sc' l x; simpl.
  - intros H; inversion H; subst; apply cframe_refl.
  - destruct (match s with IRun => (sc, true) | IAcc => acc_deliver sc r e end) as [sc1 go] eqn:Q.
    assert (C1 : cframe sc sc1).
    { destruct s; [inversion Q; subst; apply cframe_refl|eapply cframe_acc_deliver; eauto]. }
    destruct go.
    + destruct (runf sc1 r) as [[sc2 l2] x2] eqn:Q2. assert (C2 := Hr _ _ _ _ _ Q2). destruct x2.
      * destruct (deliver_all runf e rest sc2) as [[sc3 l3] x3] eqn:Q3. intros H; inversion H; subst.
        eapply cframe_trans; [exact C1|]. eapply cframe_trans; [exact C2|]. eapply IH; eauto.
      * intros H; inversion H; subst. eapply cframe_trans; eauto.
    + intros H. eapply cframe_trans; [exact C1|]. eapply IH; eauto.
Qed.

Lemma emit_dfs_cframe fuel lv : emit_ok (emit_dfs fuel lv).
Proof.
  induction fuel as [|f IH]; intros sc k sc' l x; simpl.
  - intros H; inversion H; subst; apply cframe_refl.
  - intros H. eapply deliver_all_cframe; [|exact H]. apply run_with_cframe. exact IH.
Qed.

Lemma run_dfs_cframe fuel lv : emit_ok (run_dfs fuel lv).
Proof. unfold run_dfs. apply run_with_cframe. apply emit_dfs_cframe. Qed.

Lemma run_q_cframe lv sc r sc' l q x : run_q lv sc r = (sc', l, q, x) -> cframe sc sc'.
Proof.
  unfold run_q. destruct (failed sc r); [intros H; inversion H; subst; apply cframe_refl|].
  destruct (bad sc r); intros H; inversion H; subst; [apply cframe_mark_failed|apply cframe_refl].
Qed.

Lemma queue_loop_cframe fuel lv : forall sc q errs sc' l x,
  queue_loop fuel lv sc q errs = (sc', l, x) -> cframe sc sc'.
Proof.
  induction fuel as [|f IH]; intros sc q errs sc' l x; destruct q as [|[e [r s]] rest]; simpl;
    try (intros H; inversion H; subst; apply cframe_refl).
  destruct (match s with IRun => (sc, true) | IAcc => acc_deliver sc r e end) as [sc1 go] eqn:Q.
  assert (C1 : cframe sc sc1).
  { destruct s; [inversion Q; subst; apply cframe_refl|eapply cframe_acc_deliver; eauto]. }
  destruct go.
  - destruct (run_q lv sc1 r) as [[[sc2 l2] q2] x2] eqn:Q2.
    destruct (queue_loop f lv sc2 (rest ++ q2) _) as [[sc3 l3] x3] eqn:Q3.
    intros H; inversion H; subst.
    eapply cframe_trans; [exact C1|]. eapply cframe_trans; [eapply run_q_cframe; eauto|]. eapply IH; eauto.
  - intros H. eapply cframe_trans; [exact C1|]. eapply IH; eauto.
Qed.

Lemma run_starters_cframe lv st : forall sc sc' l q x,
  run_starters lv sc st = (sc', l, q, x) -> cframe sc sc'.
Proof.
  induction st as [|s rest IH]; intros sc sc' l q x; simpl.
  - intros H; inversion H; subst; apply cframe_refl.
  - destruct (run_q lv sc s) as [[[sc1 l1] q1] x1] eqn:Q1. assert (C1 := run_q_cframe _ _ _ _ _ _ _ Q1).
    destruct x1.
    + destruct (run_starters lv sc1 rest) as [[[sc2 l2] q2] x2] eqn:Q2. intros H; inversion H; subst.
      eapply cframe_trans; [exact C1|]. eapply IH; eauto.
    + intros H; inversion H; subst. exact C1.
Qed.

Lemma run_children_cframe fuel lv sc sc' l x : run_children fuel lv sc = (sc', l, x) -> cframe sc sc'.
Proof.
  unfold run_children. destruct (run_starters lv sc (starting sc)) as [[[sc1 l1] q1] x1] eqn:Q1.
  assert (C1 := run_starters_cframe _ _ _ _ _ _ _ Q1). destruct x1.
  - destruct (queue_loop fuel lv sc1 q1 false) as [[sc2 l2] x2] eqn:Q2. intros H; inversion H; subst.
    eapply cframe_trans; [exact C1|]. eapply queue_loop_cframe; eauto.
  - intros H; inversion H; subst. exact C1.
Qed.

Definition upper_cframe (a b : upper) : Prop :=
  match a, b with
  | Some (u, pk), Some (u', pk') => pk' = pk /\ cframe u u'
  | None, None => True
  | _, _ => False
  end.
Lemma upper_cframe_refl a : upper_cframe a a.
Proof. destruct a as [[u pk]|]; simpl; auto. split; auto. apply cframe_refl. Qed.

Lemma run_parent_cframe fuel lv sc up sc' up' l x :
  run_parent fuel lv sc up = (sc', up', l, x) -> cframe sc sc' /\ upper_cframe up up'.
Proof.
  unfold run_parent.
  destruct (match par sc, up with
            | PMacro, Some (usc, pk) => failed usc pk | PWf, _ => pfailed sc | _, _ => false end).
  - intros H; inversion H; subst. split; [apply cframe_refl|apply upper_cframe_refl].
  - destruct (run_children fuel lv sc) as [[sc1 l1] x1] eqn:Q1. assert (C1 := run_children_cframe _ _ _ _ _ _ Q1).
    destruct x1.
    + intros H; inversion H; subst; split; [exact C1|apply upper_cframe_refl].
    + destruct (par sc); [| |destruct up as [[usc pk]|]]; intros H; inversion H; subst.
      * split; [exact C1|apply upper_cframe_refl].
      * split; [|apply upper_cframe_refl]. eapply cframe_trans; [exact C1|apply cframe_set_pfailed].
      * split; [exact C1|]. simpl. split; auto. apply cframe_mark_failed.
      * split; [exact C1|apply upper_cframe_refl].
Qed.

(* ================================================================== closure *)
Inductive reach (up : nat -> list nat) : nat -> nat -> Prop :=
| reach_refl k : reach up k k
| reach_step k u x : In u (up k) -> reach up u x -> reach up k x.

Lemma add_new_In x y l : In x (add_new y l) <-> x = y \/ In x l.
Proof.
  unfold add_new. destruct (memn y l) eqn:M.
  - apply memn_In in M. split; auto. intros [->|?]; auto.
  - rewrite in_app_iff. simpl. split; intros [?|?]; auto. destruct H; auto. contradiction.
Qed.
Lemma add_new_nodup y l : NoDup l -> NoDup (add_new y l).
Proof.
  unfold add_new. destruct (memn y l) eqn:M; auto. apply memn_false in M. intros H.
  eapply Permutation_NoDup; [apply Permutation_cons_append|]. constructor; auto.
Qed.

Lemma union_spec b : forall a, (forall x, In x (union a b) <-> In x a \/ In x b) /\ (NoDup a -> NoDup (union a b)).
Proof.
  unfold union. induction b as [|y r IH]; intros a; simpl.
  - split; [intros; tauto|auto].
  - destruct (IH (add_new y a)) as [I1 I2]. split.
    + intros x. rewrite I1, add_new_In. split; intros; intuition auto.
    + intros Ha. apply I2. apply add_new_nodup. exact Ha.
Qed.

Definition cl_step (f : nat) (up : nat -> list nat) (acc : option (list nat)) (u : nat) :=
  match acc with
  | None => None
  | Some a => match closure f up u with None => None | Some b => Some (union a b) end
  end.

Lemma cl_fold_none f up l : fold_left (cl_step f up) l None = None.
Proof. induction l; simpl; auto. Qed.

Lemma cl_fold_some f up l : forall a D, fold_left (cl_step f up) l (Some a) = Some D ->
  (forall u, In u l -> exists b, closure f up u = Some b) /\
  (forall x, In x D <-> In x a \/ exists u b, In u l /\ closure f up u = Some b /\ In x b) /\
  (NoDup a -> NoDup D).
Proof.
  induction l as [|u r IH]; intros a D; simpl.
  - intros H; inversion H; subst. split; [intros ? []|]. split; auto.
    intros x. split; auto. intros [?|(?&?&[]&_)]; auto.
  - destruct (closure f up u) as [b|] eqn:Q; [|rewrite cl_fold_none; discriminate].
    intros H. destruct (IH _ _ H) as (I1 & I2 & I3). destruct (union_spec b a) as [U1 U2]. split.
    + intros v [<-|Hv]; eauto.
    + split.
      * intros x. rewrite I2, U1. split.
        -- intros [[?|?]|(v&c&?&?&?)]; auto.
           ++ right. exists u, b. auto.
           ++ right. exists v, c. auto.
        -- intros [?|(v&c&[<-|?]&Hc&?)]; auto.
           ++ rewrite Q in Hc. inversion Hc; subst. auto.
           ++ right. exists v, c. auto.
      * intros Ha. auto.
Qed.

Lemma closure_unfold f up k :
  closure (S f) up k = fold_left (cl_step f up) (up k) (Some [k]).
Proof. reflexivity. Qed.

Lemma closure_sound fuel up : forall k D, closure fuel up k = Some D ->
  (forall x, In x D <-> reach up k x) /\ NoDup D.
Proof.
  induction fuel as [|f IH]; intros k D; [discriminate|].
  rewrite closure_unfold. intros H. destruct (cl_fold_some _ _ _ _ _ H) as (I1 & I2 & I3). split.
  - intros x. rewrite I2. split.
    + intros [[<-|[]]|(u&b&Hu&Hb&Hx)]; [constructor|].
      econstructor; [exact Hu|]. apply (IH _ _ Hb). exact Hx.
    + intros R. inversion R; subst; [left; left; auto|]. right.
      destruct (I1 _ H0) as [b Hb]. exists u, b. repeat split; auto. apply (IH _ _ Hb). assumption.
  - apply I3. constructor; [simpl; tauto|constructor].
Qed.

(* cyclic data reachable from the target is always refused: no amount of recursion depth helps *)
Lemma closure_some_down fuel up : forall k D u, closure (S fuel) up k = Some D -> In u (up k) ->
  exists b, closure fuel up u = Some b.
Proof. intros k D u. rewrite closure_unfold. intros H Hu. apply (cl_fold_some _ _ _ _ _ H). exact Hu. Qed.

Lemma closure_mono fuel up : forall k D, closure fuel up k = Some D -> exists D', closure (S fuel) up k = Some D'.
Proof.
  induction fuel as [|f IH]; intros k D; [discriminate|].
  rewrite (closure_unfold (S f)), closure_unfold.
  assert (G : forall l a D, fold_left (cl_step f up) l (Some a) = Some D ->
                            forall a', exists D', fold_left (cl_step (S f) up) l (Some a') = Some D').
  { induction l as [|u r IHl]; intros a D0; cbn [fold_left]; [eauto|].
    change (cl_step f up (Some a) u) with (match closure f up u with None => None | Some b => Some (union a b) end).
    destruct (closure f up u) as [b|] eqn:Q; [|rewrite cl_fold_none; discriminate].
    intros H a'. destruct (IH _ _ Q) as [b' Hb'].
    assert (R : cl_step (S f) up (Some a') u = Some (union a' b')).
    { cbv beta iota delta [cl_step]. rewrite Hb'. reflexivity. }
    rewrite R. eapply IHl; eauto. }
  intros H. eapply G; eauto.
Qed.

Lemma closure_reach_some fuel up : forall k D x, closure fuel up k = Some D -> reach up k x ->
  exists f' b, f' <= fuel /\ closure f' up x = Some b.
Proof.
  intros k D x H R. revert fuel D H. induction R as [k|k u x Hu R IH]; intros fuel D H.
  - exists fuel, D. auto.
  - destruct fuel as [|f]; [discriminate|]. destruct (closure_some_down _ _ _ _ _ H Hu) as [b Hb].
    destruct (IH _ _ Hb) as (f' & b' & Hle & Hb'). exists f', b'. split; auto.
Qed.

Lemma closure_cycle_refused up u : (exists v, In v (up u) /\ reach up v u) ->
  forall fuel, closure fuel up u = None.
Proof.
  intros (v & Hv & R) fuel. induction fuel as [fuel IH] using lt_wf_ind.
  destruct (closure fuel up u) as [D|] eqn:Q; auto. exfalso.
  destruct fuel as [|f]; [discriminate|].
  destruct (closure_some_down _ _ _ _ _ Q Hv) as [b Hb].
  destruct (closure_reach_some _ _ _ _ _ Hb R) as (f' & b' & Hle & Hb').
  rewrite (IH f') in Hb'; [discriminate|lia].
Qed.

(* ================================================================== the linear order *)
Lemma insert_by_perm le x l : Permutation (insert_by le x l) (x :: l).
Proof.
  induction l as [|y r IH]; simpl; auto. destruct (le x y); auto.
  eapply perm_trans; [apply perm_skip; exact IH|apply perm_swap].
Qed.
Lemma sort_by_perm le l : Permutation (sort_by le l) l.
Proof.
  unfold sort_by. induction l as [|x r IH]; simpl; auto.
  eapply perm_trans; [apply insert_by_perm|]. apply perm_skip. exact IH.
Qed.

Lemma filter_split_perm {A} (p : A -> bool) l :
  Permutation (filter p l ++ filter (fun x => negb (p x)) l) l.
Proof.
  induction l as [|x r IH]; simpl; auto. destruct (p x); simpl.
  - apply perm_skip. exact IH.
  - eapply perm_trans; [apply Permutation_sym; apply Permutation_middle|]. apply perm_skip. exact IH.
Qed.

Lemma layers_perm fuel up le : forall rem o, layers fuel up le rem = Some o -> Permutation o rem.
Proof.
  induction fuel as [|f IH]; intros rem o; destruct rem as [|r0 rem']; simpl;
    try (intros H; inversion H; subst; constructor); try discriminate.
  set (rem := r0 :: rem'). fold rem.
  set (p := fun v => negb (existsb (fun u => memn u rem) (up v))).
  change (match filter p rem with
          | [] => None
          | _ => match layers f up le (filter (fun v => negb (memn v (filter p rem))) rem) with
                 | None => None | Some o0 => Some (sort_by le (filter p rem) ++ o0) end
          end = Some o -> Permutation o rem).
  destruct (filter p rem) as [|a ready'] eqn:Qr; [discriminate|]. rewrite <- Qr.
  destruct (layers f up le _) as [o'|] eqn:Q; [|discriminate]. intros H; inversion H; subst; clear H.
  apply IH in Q.
  assert (Fe : filter (fun v => negb (memn v (filter p rem))) rem = filter (fun v => negb (p v)) rem).
  { apply filter_ext_in. intros v Hv. f_equal. destruct (p v) eqn:Pv.
    - apply memn_In. apply filter_In. auto.
    - apply memn_false. rewrite filter_In. intros [_ ?]; congruence. }
  rewrite Fe in Q.
  eapply perm_trans; [|apply (filter_split_perm p rem)].
  apply Permutation_app; [apply sort_by_perm|exact Q].
Qed.

(* every node comes after all its upstream nodes: [done] = what came before *)
Fixpoint topo (up : nat -> list nat) (done l : list nat) : Prop :=
  match l with
  | [] => True
  | v :: r => (forall u, In u (up v) -> In u done) /\ topo up (v :: done) r
  end.

Lemma topo_mono up l : forall d d', (forall x, In x d -> In x d') -> topo up d l -> topo up d' l.
Proof.
  induction l as [|v r IH]; simpl; auto. intros d d' Hs [H1 H2]. split; auto.
  eapply IH; [|exact H2]. simpl. intros x [?|?]; auto.
Qed.

Lemma topo_app up a : forall d b, (forall v, In v a -> forall u, In u (up v) -> In u d) ->
  topo up (a ++ d) b -> topo up d (a ++ b).
Proof.
  induction a as [|v r IH]; intros d b Ha Hb; simpl; auto. split; [apply Ha; left; auto|].
  apply IH.
  - intros w Hw u Hu. right. eapply Ha; [right; exact Hw|exact Hu].
  - eapply topo_mono; [|exact Hb]. intros x. simpl. rewrite !in_app_iff. simpl. tauto.
Qed.

Lemma topo_prefix up a : forall d b, topo up d (a ++ b) -> topo up d a.
Proof. induction a as [|v r IH]; simpl; auto. intros d b [H1 H2]. split; auto. eapply IH; eauto. Qed.

Lemma layers_topo fuel up le : forall rem o d, layers fuel up le rem = Some o ->
  (forall v, In v rem -> forall u, In u (up v) -> In u rem \/ In u d) -> topo up d o.
Proof.
  induction fuel as [|f IH]; intros rem o d; destruct rem as [|r0 rem']; simpl;
    try (intros H; inversion H; subst; simpl; auto; fail); try discriminate.
  set (rem := r0 :: rem'). fold rem.
  set (p := fun v => negb (existsb (fun u => memn u rem) (up v))).
  change (match filter p rem with
          | [] => None
          | _ => match layers f up le (filter (fun v => negb (memn v (filter p rem))) rem) with
                 | None => None | Some o0 => Some (sort_by le (filter p rem) ++ o0) end
          end = Some o -> (forall v, In v rem -> forall u, In u (up v) -> In u rem \/ In u d) -> topo up d o).
  destruct (filter p rem) as [|a ready'] eqn:Qr; [discriminate|]. rewrite <- Qr.
  destruct (layers f up le _) as [o'|] eqn:Q; [|discriminate]. intros H Hc; inversion H; subst; clear H.
  assert (Hready : forall v, In v (filter p rem) -> forall u, In u (up v) -> In u d).
  { intros v Hv u Hu. apply filter_In in Hv. destruct Hv as [Hv Pv].
    destruct (Hc v Hv u Hu) as [Hr|?]; auto. exfalso. unfold p in Pv.
    apply negb_true_iff in Pv. assert (existsb (fun u0 => memn u0 rem) (up v) = true); [|congruence].
    apply existsb_exists. exists u. split; auto. apply memn_In. exact Hr. }
  apply topo_app.
  - intros v Hv. apply Hready. eapply Permutation_in; [apply sort_by_perm|exact Hv].
  - eapply IH; [exact Q|]. intros v Hv u Hu. apply filter_In in Hv. destruct Hv as [Hv Nv].
    destruct (Hc v Hv u Hu) as [Hr|Hd]; [|right; apply in_app_iff; auto].
    destruct (memn u (filter p rem)) eqn:Mu.
    + right. apply in_app_iff. left. apply memn_In in Mu.
      eapply Permutation_in; [apply Permutation_sym; apply sort_by_perm|exact Mu].
    + left. apply filter_In. split; auto. rewrite Mu. reflexivity.
Qed.

Definition closed_under (up : nat -> list nat) (d : list nat) : Prop :=
  forall v x, In v d -> reach up v x -> In x d.

Lemma topo_reach up l : forall d, topo up d l -> closed_under up d -> closed_under up (l ++ d).
Proof.
  induction l as [|w r IH]; intros d Ht Hc; simpl; auto. destruct Ht as [H1 H2].
  assert (Hc' : closed_under up (w :: d)).
  { intros v x [<-|Hv] R.
    - inversion R; subst; [left; auto|]. right. eapply Hc; [apply H1; eassumption|assumption].
    - right. eapply Hc; eauto. }
  specialize (IH _ H2 Hc'). intros v x Hv R.
  assert (In x (r ++ w :: d)).
  { eapply IH; [|exact R]. apply in_app_iff. simpl. destruct Hv as [<-|Hv]; [right; left; auto|].
    apply in_app_iff in Hv. destruct Hv; [left|right; right]; auto. }
  apply in_app_iff in H. simpl in H. simpl. rewrite in_app_iff. tauto.
Qed.

(* the target is the last element of any topological enumeration of its closure *)
Lemma topo_target_last up k order :
  NoDup order -> topo up [] order -> (forall x, In x order <-> reach up k x) ->
  exists l, order = l ++ [k].
Proof.
  intros Hn Ht Hr.
  assert (Hk : In k order) by (apply Hr; constructor).
  destruct (exists_last (l := order)) as (l & z & ->); [intros ->; contradiction|].
  exists l. f_equal. f_equal.
  destruct (Nat.eq_dec z k) as [|Hne]; auto. exfalso.
  apply in_app_iff in Hk. destruct Hk as [Hk|[?|[]]]; [|congruence].
  assert (Hz : reach up k z) by (apply Hr; apply in_app_iff; right; left; auto).
  assert (C : closed_under up (l ++ [])).
  { apply topo_reach; [eapply topo_prefix; eauto|intros ? ? []]. }
  rewrite app_nil_r in C. specialize (C k z Hk Hz).
  apply NoDup_remove_2 in Hn. rewrite app_nil_r in Hn. contradiction.
Qed.

(* ================================================================== restoration, one scope *)
Definition rframe (a b : scope) : Prop :=
  (forall r s, conns_in b r s = conns_in a r s) /\ (forall e, c_ran b e = c_ran a e) /\
  (forall i, lbl b i = lbl a i) /\ (forall i, ups b i = ups a i) /\
  (forall i, exe b i = exe a i) /\ (forall i, bad b i = bad a i) /\ par b = par a.

Lemma rframe_refl a : rframe a a.
Proof. unfold rframe; repeat split; auto. Qed.
Lemma rframe_trans a b c : rframe a b -> rframe b c -> rframe a c.
Proof.
  unfold rframe. intros (A1&A2&A3&A4&A5&A6&A7) (B1&B2&B3&B4&B5&B6&B7). repeat split; intros; congruence.
Qed.
Lemma cframe_rframe a b : cframe a b -> rframe a b.
Proof. unfold cframe, rframe. intros (A1&A2&A3&A4&A5&A6&A7&A8&A9). repeat split; auto. Qed.
Lemma rframe_set_starting sc l : rframe sc (set_starting sc l).
Proof. unfold rframe; repeat split; intros; try reflexivity; destruct s; reflexivity. Qed.
Lemma rframe_set_automate sc b : rframe sc (set_automate sc b).
Proof. unfold rframe; repeat split; intros; try reflexivity; destruct s; reflexivity. Qed.

Lemma WF_tables a b : (forall r s, conns_in b r s = conns_in a r s) -> (forall e, c_ran b e = c_ran a e) ->
  WF a -> WF b.
Proof.
  intros H1 H2 W. constructor.
  - intros e r s. rewrite H1, H2. apply (wf_sym a W).
  - intros r s. rewrite H1. apply (wf_nd_in a W).
  - intros e. rewrite H2. apply (wf_nd_out a W).
Qed.
Lemma rframe_WF a b : rframe a b -> WF a -> WF b.
Proof. intros (A1&A2&_). apply WF_tables; auto. Qed.
Lemma rframe_E a b : rframe a b -> forall e r s, E b e r s <-> E a e r s.
Proof. intros (A1&_) e r s. unfold E. rewrite A1. tauto. Qed.

Lemma tables_set_lbl sc f : (forall r s, conns_in (set_lbl sc f) r s = conns_in sc r s) /\
                            (forall e, c_ran (set_lbl sc f) e = c_ran sc e).
Proof. split; intros; reflexivity. Qed.

Definition same_graph (a b : scope) : Prop :=
  (forall i, lbl b i = lbl a i) /\ starting b = starting a /\
  (forall r s e, In e (conns_in b r s) <-> In e (conns_in a r s)) /\
  (forall e t, In t (c_ran b e) <-> In t (c_ran a e)) /\ WF b /\
  (forall i, ups b i = ups a i) /\ par b = par a /\
  (forall i, exe b i = exe a i) /\ (forall i, bad b i = bad a i).

Lemma same_graph_of_E a b : WF a -> WF b -> (forall e r s, E b e r s <-> E a e r s) ->
  (forall i, lbl b i = lbl a i) -> starting b = starting a -> (forall i, ups b i = ups a i) -> par b = par a ->
  (forall i, exe b i = exe a i) -> (forall i, bad b i = bad a i) -> same_graph a b.
Proof.
  intros Wa Wb HE. unfold same_graph. intros Hl Hs Hu Hp Hx Hb.
  refine (conj Hl (conj Hs (conj _ (conj _ (conj Wb (conj Hu (conj Hp (conj Hx Hb)))))))).
  - intros r s e. apply HE.
  - intros e [r s]. rewrite <- (wf_sym b Wb), <- (wf_sym a Wa). apply HE.
Qed.

Lemma same_graph_refl a : WF a -> same_graph a a.
Proof. intros W. apply same_graph_of_E; auto. intros; tauto. Qed.

Lemma same_graph_trans a b c : same_graph a b -> same_graph b c -> same_graph a c.
Proof.
  unfold same_graph. intros (A1&A2&A3&A4&A5&A6&A7&A8&A9) (B1&B2&B3&B4&B5&B6&B7&B8&B9).
  refine (conj _ (conj _ (conj _ (conj _ (conj B5 (conj _ (conj _ (conj _ _)))))))); intros; try congruence.
  - rewrite B3. apply A3.
  - rewrite B4. apply A4.
Qed.

Lemma cframe_same_graph a b : WF a -> cframe a b -> same_graph a b.
Proof.
  intros W C. assert (R := cframe_rframe _ _ C). destruct C as (C1&C2&C3&C4&C5&C6&C7&C8&C9).
  apply same_graph_of_E; auto.
  - eapply rframe_WF; eauto.
  - apply rframe_E; auto.
Qed.

Lemma closure_self fuel up k D : closure fuel up k = Some D -> In k D.
Proof. intros H. apply (closure_sound _ _ _ _ H). constructor. Qed.

Lemma linear_order_perm sc D order : linear_order sc D = Some order -> Permutation order D.
Proof. unfold linear_order. destruct (self_dep sc D); [discriminate|]. apply layers_perm. Qed.

Lemma in_dec_nat (x : nat) l : In x l \/ ~ In x l.
Proof. destruct (in_dec Nat.eq_dec x l); auto. Qed.

Lemma relabel_restore sc D j :
  (if memn j D then lbl sc j else lbl (relabel sc D) j) = lbl sc j.
Proof. unfold relabel; simpl. destruct (memn j D); reflexivity. Qed.

(* what the `finally:` clause achieves, given what is known about the state it starts from *)
Lemma finally_restore_spec sc sc1 sc4 D pairs saved :
  WF sc -> WF sc1 -> WF sc4 ->
  (forall e r s, E sc1 e r s <-> E sc e r s) ->
  (forall e r s, (exists b, In (b, e, (r, s)) pairs) <-> E sc1 e r s /\ (In r D \/ In e (map ran_of D))) ->
  (forall e r s, E sc4 e r s -> ~ In r D -> E sc1 e r s /\ ~ In e (map ran_of D)) ->
  (forall e r s, E sc1 e r s -> ~ In r D -> ~ In e (map ran_of D) -> E sc4 e r s) ->
  (forall i, lbl sc4 i = lbl (relabel sc D) i) ->
  (forall i, ups sc4 i = ups sc i) -> (forall i, exe sc4 i = exe sc i) -> (forall i, bad sc4 i = bad sc i) ->
  par sc4 = par sc -> saved = starting sc -> (par sc = PNone -> starting sc4 = starting sc) ->
  same_graph sc (finally_restore sc4 D (lbl sc) pairs saved).
Proof.
  intros W W1 W4 HE1 HP H4a H4b Hl Hu Hx Hb Hp Hs Hs0. unfold finally_restore.
  set (sc5 := restore_labels sc4 D (lbl sc)).
  assert (W5 : WF sc5) by (eapply WF_tables; [apply tables_set_lbl|apply tables_set_lbl|exact W4]).
  destruct (disconnect_run_all_spec D sc5 W5) as (W6 & F6 & E6).
  set (sc6 := disconnect_run_all sc5 D) in *.
  destruct (reconnect_all_spec pairs sc6 W6) as (W7 & F7 & E7).
  set (sc7 := reconnect_all sc6 pairs) in *.
  assert (F57 : frame sc5 sc7) by (eapply frame_trans; eauto).
  destruct F57 as (G1&G2&G3&G4&G5&G6&G7&G8&G9&G10).
  assert (HE7 : forall e r s, E sc7 e r s <-> E sc e r s).
  { intros e r s. rewrite E7, E6, HP. change (E sc5 e r s) with (E sc4 e r s). rewrite <- HE1. split.
    - intros [[Ha Hb']|[Ha _]]; auto. apply (H4a _ _ _ Ha Hb').
    - intros Ha. destruct (in_dec_nat r D) as [Hr|Hr]; [right; auto|].
      destruct (in_dec_nat e (map ran_of D)) as [He|He]; [right; auto|]. left. split; auto. }
  assert (Hl7 : forall i, lbl sc7 i = lbl sc i).
  { intros i. rewrite G1. unfold sc5, restore_labels. simpl. rewrite Hl. apply relabel_restore. }
  assert (Hp7 : par sc7 = par sc) by (rewrite G7; exact Hp).
  assert (Hu7 : forall i, ups sc7 i = ups sc i) by (intros i; exact (eq_trans (G2 i) (Hu i))).
  assert (Hx7 : forall i, exe sc7 i = exe sc i) by (intros i; exact (eq_trans (G4 i) (Hx i))).
  assert (Hb7 : forall i, bad sc7 i = bad sc i) by (intros i; exact (eq_trans (G5 i) (Hb i))).
  destruct (par sc7) eqn:P7.
  - apply same_graph_of_E; auto; try congruence.
    rewrite G8. apply Hs0. congruence.
  - apply same_graph_of_E; auto; try (simpl; congruence).
    eapply WF_tables; [| |exact W7]; intros; reflexivity.
  - apply same_graph_of_E; auto; try (simpl; congruence).
    eapply WF_tables; [| |exact W7]; intros; reflexivity.
Qed.

Lemma run_upstream_spec fuel lv sc3 k first up sc4 up4 l4 x4 : WF sc3 ->
  run_upstream fuel lv sc3 k first up = (sc4, up4, l4, x4) ->
  WF sc4 /\ (forall e r s, E sc4 e r s -> E sc3 e r s) /\
  (forall e r s, E sc3 e r s -> r <> k -> E sc4 e r s) /\
  (forall i, lbl sc4 i = lbl sc3 i) /\ (forall i, ups sc4 i = ups sc3 i) /\
  (forall i, exe sc4 i = exe sc3 i) /\ (forall i, bad sc4 i = bad sc3 i) /\ par sc4 = par sc3 /\
  (par sc3 = PNone -> starting sc4 = starting sc3) /\ upper_cframe up up4.
Proof.
  intros W3. unfold run_upstream. destruct (Nat.eqb first k).
  - intros H; inversion H; subst. split; [exact W3|]. repeat split; auto. apply upper_cframe_refl.
  - destruct (disconnect_run sc3 k) as [sc3' pk] eqn:Dk. simpl fst.
    destruct (disconnect_run_spec _ _ _ _ W3 Dk) as (W3' & F3' & E3' & _).
    destruct F3' as (G1&G2&G3&G4&G5&G6&G7&G8&G9&G10).
    assert (Main : forall sc4, rframe sc3' sc4 ->
      WF sc4 /\ (forall e r s, E sc4 e r s -> E sc3 e r s) /\
      (forall e r s, E sc3 e r s -> r <> k -> E sc4 e r s) /\
      (forall i, lbl sc4 i = lbl sc3 i) /\ (forall i, ups sc4 i = ups sc3 i) /\
      (forall i, exe sc4 i = exe sc3 i) /\ (forall i, bad sc4 i = bad sc3 i) /\ par sc4 = par sc3).
    { intros s4 R. assert (RE := rframe_E _ _ R). assert (RW := rframe_WF _ _ R W3').
      destruct R as (R1&R2&R3&R4&R5&R6&R7).
      refine (conj RW (conj _ (conj _ (conj _ (conj _ (conj _ (conj _ _))))))); intros; try congruence.
      - apply RE, E3' in H. tauto.
      - apply RE, E3'. auto. }
    destruct (par sc3') eqn:P3.
    + destruct (run_dfs fuel lv sc3' first) as [[a b] c] eqn:Q. intros H; inversion H; subst.
      assert (C := run_dfs_cframe _ _ _ _ _ _ _ Q).
      destruct (Main _ (cframe_rframe _ _ C)) as (M1&M2&M3&M4&M5&M6&M7&M8).
      refine (conj M1 (conj M2 (conj M3 (conj M4 (conj M5 (conj M6 (conj M7 (conj M8 (conj _ _))))))))).
      * intros _. destruct C as (_&_&_&_&_&_&_&C8&_). congruence.
      * apply upper_cframe_refl.
    + destruct (run_parent fuel lv _ up) as [[[a u] b] c] eqn:Q. intros H; inversion H; subst.
      destruct (run_parent_cframe _ _ _ _ _ _ _ _ Q) as [C U].
      assert (R : rframe sc3' (match x4 with Ok => set_automate a (automate sc3') | Err _ => a end)).
      { eapply rframe_trans; [apply rframe_set_automate|]. eapply rframe_trans; [apply rframe_set_starting|].
        eapply rframe_trans; [apply cframe_rframe; exact C|]. destruct x4; [apply rframe_set_automate|apply rframe_refl]. }
      destruct (Main _ R) as (M1&M2&M3&M4&M5&M6&M7&M8).
      refine (conj M1 (conj M2 (conj M3 (conj M4 (conj M5 (conj M6 (conj M7 (conj M8 (conj _ U))))))))).
      intros. congruence.
    + intros Q. destruct (run_parent_cframe _ _ _ _ _ _ _ _ Q) as [C U].
      assert (R : rframe sc3' sc4).
      { eapply rframe_trans; [apply rframe_set_starting|]. apply cframe_rframe; exact C. }
      destruct (Main _ R) as (M1&M2&M3&M4&M5&M6&M7&M8).
      refine (conj M1 (conj M2 (conj M3 (conj M4 (conj M5 (conj M6 (conj M7 (conj M8 (conj _ U))))))))).
      intros. congruence.
Qed.

Lemma level_pull_restores fuel lv sc k up sc' up' l x : WF sc ->
  level_pull fuel lv sc k up = (sc', up', l, x) -> same_graph sc sc' /\ upper_cframe up up'.
Proof.
  intros W. unfold level_pull.
  destruct (closure fuel (ups sc) k) as [D|] eqn:C;
    [|intros H; inversion H; subst; split; [apply same_graph_refl; auto|apply upper_cframe_refl]].
  destruct (existsb (exe sc) D);
    [intros H; inversion H; subst; split; [apply same_graph_refl; auto|apply upper_cframe_refl]|].
  assert (Hk : In k D) by (eapply closure_self; eauto).
  set (sc1 := relabel sc D).
  assert (W1 : WF sc1) by (eapply WF_tables; [apply tables_set_lbl|apply tables_set_lbl|exact W]).
  assert (HE1 : forall e r s, E sc1 e r s <-> E sc e r s) by (intros; tauto).
  destruct (wrap_disconnect sc1 D) as [sc2 pairs] eqn:Wd.
  destruct (wrap_disconnect_spec _ _ _ _ W1 Wd) as (W2 & F2 & E2 & P2).
  destruct F2 as (G1&G2&G3&G4&G5&G6&G7&G8&G9&G10).
  destruct (if siblings sc k D then linear_order sc2 D else None) as [order|] eqn:Lo0.
  - assert (Lo : linear_order sc2 D = Some order) by (destruct (siblings sc k D); [exact Lo0|discriminate]).
    assert (Po := linear_order_perm _ _ _ Lo).
    destruct (chain_spec order sc2 W2) as (W3 & F3 & E3).
    set (sc3 := chain sc2 order) in *.
    destruct F3 as (K1&K2&K3&K4&K5&K6&K7&K8&K9&K10).
    destruct (run_upstream fuel lv sc3 k (hd k order) up) as [[[sc4 up4] l4] x4] eqn:Ru.
    intros H; inversion H; subst; clear H.
    destruct (run_upstream_spec _ _ _ _ _ _ _ _ _ _ W3 Ru) as (W4&M2&M3&M4&M5&M6&M7&M8&M9&U).
    split; [|exact U].
    apply (finally_restore_spec sc sc1 sc4 D pairs (starting sc3) W W1 W4 HE1 P2).
    + intros e r s H4 Hr. apply M2, E3 in H4. destruct H4 as [H4|[_ (a & _ & Hc)]].
      * apply E2 in H4. tauto.
      * exfalso. apply Hr. apply consec_In in Hc. eapply Permutation_in; [exact Po|tauto].
    + intros e r s H1 Hr He. apply M3; [|intros ->; contradiction]. apply E3. left. apply E2. auto.
    + intros i. rewrite M4, K1, G1. reflexivity.
    + intros i. rewrite M5, K2, G2. reflexivity.
    + intros i. rewrite M6, K4, G4. reflexivity.
    + intros i. rewrite M7, K5, G5. reflexivity.
    + rewrite M8, K7, G7. reflexivity.
    + rewrite K8, G8. reflexivity.
    + intros Hp. rewrite M9; [rewrite K8, G8; reflexivity|]. rewrite K7, G7. exact Hp.
  - intros H; inversion H; subst; clear H. split; [|apply upper_cframe_refl].
    destruct (reconnect_all_spec pairs sc2 W2) as (W7 & F7 & E7).
    destruct F7 as (K1&K2&K3&K4&K5&K6&K7&K8&K9&K10).
    apply same_graph_of_E; auto.
    + eapply WF_tables; [apply tables_set_lbl|apply tables_set_lbl|exact W7].
    + intros e r s. change (E (restore_labels (reconnect_all sc2 pairs) D (lbl sc)) e r s)
        with (E (reconnect_all sc2 pairs) e r s). rewrite E7, E2, P2, HE1.
      destruct (in_dec_nat r D); destruct (in_dec_nat e (map ran_of D)); tauto.
    + intros i. simpl. rewrite K1, G1. apply relabel_restore.
    + simpl. rewrite K8, G8. reflexivity.
    + intros i. simpl. rewrite K2, G2. reflexivity.
    + simpl. rewrite K7, G7. reflexivity.
    + intros i. simpl. rewrite K4, G4. reflexivity.
    + intros i. simpl. rewrite K5, G5. reflexivity.
Qed.

(* ================================================================== restoration, level by level *)
Definition level_same (a b : scope * nat) : Prop := snd b = snd a /\ same_graph (fst a) (fst b).
Definition stack_same (st st' : stack) : Prop := Forall2 level_same st st'.
Definition stack_wf (st : stack) : Prop := Forall (fun p => WF (fst p)) st.

Lemma stack_same_refl st : stack_wf st -> stack_same st st.
Proof.
  induction 1 as [|p r Hp Hr IH]; constructor; auto. split; auto. apply same_graph_refl; auto.
Qed.

Lemma same_graph_WF a b : same_graph a b -> WF b.
Proof. intros (_&_&_&_&W&_). exact W. Qed.

Lemma put_upper_same rest rest1 up1 : stack_same rest rest1 -> upper_cframe (hd_error rest1) up1 ->
  stack_same rest (put_upper rest1 up1).
Proof.
  intros Hs Hu. destruct Hs as [|[u pk] [u1 pk1] r r1 [H1 H2] Hr]; simpl in *.
  - destruct up1; [contradiction|constructor].
  - destruct up1 as [[u' pk']|]; [|contradiction]. destruct Hu as [-> C]. constructor; auto.
    split; auto. simpl in *. eapply same_graph_trans; [exact H2|].
    apply cframe_same_graph; auto. eapply same_graph_WF; eauto.
Qed.

Lemma pull_tree_restores fuel parents : forall st lv st' l x, stack_wf st ->
  pull_tree fuel parents lv st = (st', l, x) -> stack_same st st'.
Proof.
  induction st as [|[sc k] rest IH]; intros lv st' l x Hw; simpl.
  - intros H; inversion H; subst. constructor.
  - inversion Hw as [|? ? Wsc Wrest]; subst. simpl in Wsc.
    destruct (match par sc with
              | PMacro => if parents then pull_tree fuel parents (S lv) rest else (rest, [], Ok)
              | _ => (rest, [], Ok) end) as [[rest1 l0] x0] eqn:Q.
    assert (Hr : stack_same rest rest1).
    { destruct (par sc); try (inversion Q; subst; apply stack_same_refl; auto; fail).
      destruct parents; [eapply IH; eauto|inversion Q; subst; apply stack_same_refl; auto]. }
    destruct x0.
    + destruct (level_pull fuel lv sc k (hd_error rest1)) as [[[sc1 up1] l1] x1] eqn:Lp.
      intros H; inversion H; subst; clear H.
      destruct (level_pull_restores _ _ _ _ _ _ _ _ _ Wsc Lp) as [G U].
      constructor; [split; auto|]. apply put_upper_same; auto.
    + intros H; inversion H; subst; clear H. constructor; auto. split; auto. apply same_graph_refl; auto.
Qed.

Lemma pull_restores fuel parents st st' l x : stack_wf st ->
  pull fuel parents st = (st', l, x) -> stack_same st st'.
Proof.
  intros Hw. unfold pull. destruct (pull_tree fuel parents 0 st) as [[st1 l1] x1] eqn:Q.
  assert (Hs := pull_tree_restores _ _ _ _ _ _ _ Hw Q).
  destruct x1; [|intros H; inversion H; subst; exact Hs].
  destruct st1 as [|[sc k] rest]; [intros H; inversion H; subst; exact Hs|].
  destruct (failed sc k); [intros H; inversion H; subst; exact Hs|].
  destruct (bad sc k); intros H; inversion H; subst; auto.
  inversion Hs as [|[a ka] ? r ? [H1 H2] Hr]; subst. constructor; auto. split; auto. simpl in *.
  eapply same_graph_trans; [exact H2|]. apply cframe_same_graph; [eapply same_graph_WF; eauto|apply cframe_mark_failed].
Qed.

(* ================================================================== running a linear chain *)
Fixpoint chained sc (l : list nat) : Prop :=
  match l with
  | [] => True
  | a :: r => match r with
              | [] => c_ran sc (ran_of a) = []
              | b :: _ => c_ran sc (ran_of a) = [(b, IRun)] /\ chained sc r
              end
  end.

(* no node of the list has anything connected to its `failed` signal *)
Definition fail_quiet sc (l : list nat) : Prop := forall v, In v l -> c_ran sc (fail_of v) = [].

Lemma chained_ext a b l : (forall e, c_ran b e = c_ran a e) -> chained a l -> chained b l.
Proof.
  intros C2. induction l as [|x r IH]; simpl; auto. destruct r as [|y r'].
  - rewrite C2. auto.
  - rewrite C2. intros [? ?]; split; auto.
Qed.

Lemma emit_dfs_quiet fuel lv sc e sc' l x : c_ran sc e = [] -> emit_dfs fuel lv sc e = (sc', l, x) -> l = [].
Proof.
  intros Hq. destruct fuel; simpl; [intros H; inversion H; auto|]. rewrite Hq. simpl.
  intros H; inversion H; auto.
Qed.

Definition chain_result (lv : nat) (l : list nat) sc (log : list entry) (x : res) : Prop :=
  (x = Ok -> log = map (pair lv) l) /\
  (fail_quiet sc l -> exists p q, l = p ++ q /\ log = map (pair lv) p).

Lemma chain_result_cons lv a l sc log x : chain_result lv l sc log x -> chain_result lv (a :: l) sc ((lv, a) :: log) x.
Proof.
  intros [H1 H2]. split.
  - intros Hx. rewrite (H1 Hx). reflexivity.
  - intros Hq. destruct H2 as (p & q & -> & ->); [intros v Hv; apply Hq; right; auto|].
    exists (a :: p), q. split; reflexivity.
Qed.

Lemma chain_result_stop lv a l sc (x : res) : x <> Ok -> chain_result lv (a :: l) sc [] x.
Proof. intros Hx. split; [intros; contradiction|]. intros _. exists [], (a :: l). split; reflexivity. Qed.
Lemma chain_result_one lv a l sc (x : res) : (x = Ok -> l = []) -> chain_result lv (a :: l) sc [(lv, a)] x.
Proof.
  intros Hx. split; [intros H; rewrite (Hx H); reflexivity|]. intros _. exists [a], l. split; reflexivity.
Qed.

Lemma dfs_chain lv : forall l a fuel sc sc' log x, chained sc (a :: l) ->
  run_with (emit_dfs fuel lv) lv sc a = (sc', log, x) -> chain_result lv (a :: l) sc log x.
Proof.
  induction l as [|b l' IH]; intros a fuel sc sc' log x Hc; unfold run_with.
  - destruct (failed sc a); [intros H; inversion H; subst; apply chain_result_stop; discriminate|].
    destruct (bad sc a).
    + destruct (emit_dfs fuel lv (mark_failed sc a) (fail_of a)) as [[sc1 l1] x1] eqn:Q.
      intros H; inversion H; subst; clear H. split; [destruct x1; discriminate|].
      intros Hq. assert (l1 = []) as ->.
      { eapply emit_dfs_quiet; [|exact Q]. apply (Hq a). left; auto. }
      exists [a], []. split; reflexivity.
    + simpl in Hc. destruct (emit_dfs fuel lv sc (ran_of a)) as [[sc1 l1] x1] eqn:Q.
      assert (l1 = []) as -> by (eapply emit_dfs_quiet; eauto).
      intros H; inversion H; subst. apply chain_result_one. auto.
  - destruct (failed sc a); [intros H; inversion H; subst; apply chain_result_stop; discriminate|].
    destruct (bad sc a).
    + destruct (emit_dfs fuel lv (mark_failed sc a) (fail_of a)) as [[sc1 l1] x1] eqn:Q.
      intros H; inversion H; subst; clear H. split; [destruct x1; discriminate|].
      intros Hq. assert (l1 = []) as ->.
      { eapply emit_dfs_quiet; [|exact Q]. apply (Hq a). left; auto. }
      exists [a], (b :: l'). split; reflexivity.
    + destruct Hc as [Ha Hc]. destruct fuel as [|f]; simpl.
      * intros H; inversion H; subst. apply chain_result_one. discriminate.
      * rewrite Ha. simpl.
        destruct (run_with (emit_dfs f lv) lv sc b) as [[sc2 l2] x2] eqn:Q.
        assert (R := IH _ _ _ _ _ _ Hc Q).
        destruct x2; intros H; inversion H; subst; clear H.
        -- rewrite app_nil_r. apply chain_result_cons. exact R.
        -- apply chain_result_cons. exact R.
Qed.

Lemma queue_loop_errs lv : forall fuel sc q sc' l x, queue_loop fuel lv sc q true = (sc', l, x) -> x <> Ok.
Proof.
  induction fuel as [|f IH]; intros sc q sc' l x; destruct q as [|[e [r s]] rest]; simpl;
    try (intros H; inversion H; subst; discriminate).
  destruct (match s with IRun => (sc, true) | IAcc => acc_deliver sc r e end) as [sc1 go]. destruct go.
  - destruct (run_q lv sc1 r) as [[[sc2 l2] q2] x2].
    destruct (queue_loop f lv sc2 (rest ++ q2) _) as [[sc3 l3] x3] eqn:Q3.
    intros H; inversion H; subst. eapply IH. destruct x2; exact Q3.
  - intros H. eapply IH; eauto.
Qed.

Lemma queue_loop_nil fuel lv sc errs : queue_loop fuel lv sc [] errs = (sc, [], if errs then Err EFailedChild else Ok).
Proof. destruct fuel; reflexivity. Qed.

Lemma queue_chain lv : forall l a fuel sc e errs sc' log x, chained sc (a :: l) ->
  queue_loop fuel lv sc [(e, (a, IRun))] errs = (sc', log, x) -> chain_result lv (a :: l) sc log x.
Proof.
  induction l as [|b l' IH]; intros a fuel sc e errs sc' log x Hc; destruct fuel as [|f];
    try (simpl; intros H; inversion H; subst; apply chain_result_stop; discriminate).
  - simpl. unfold run_q. destruct (failed sc a).
    + simpl. rewrite queue_loop_nil. intros H; inversion H; subst. apply chain_result_stop; discriminate.
    + destruct (bad sc a).
      * simpl. destruct (queue_loop f lv (mark_failed sc a) _ true) as [[sc3 l3] x3] eqn:Q.
        intros H; inversion H; subst; clear H. split.
        -- intros Hx. exfalso. eapply queue_loop_errs; eauto.
        -- intros Hq. rewrite (Hq a (or_introl eq_refl)) in Q. simpl in Q. rewrite queue_loop_nil in Q.
           inversion Q; subst. exists [a], []. split; reflexivity.
      * simpl in Hc. rewrite Hc. simpl. rewrite queue_loop_nil. intros H; inversion H; subst.
        apply chain_result_one. auto.
  - simpl. unfold run_q. destruct (failed sc a).
    + simpl. rewrite queue_loop_nil. intros H; inversion H; subst. apply chain_result_stop; discriminate.
    + destruct (bad sc a).
      * simpl. destruct (queue_loop f lv (mark_failed sc a) _ true) as [[sc3 l3] x3] eqn:Q.
        intros H; inversion H; subst; clear H. split.
        -- intros Hx. exfalso. eapply queue_loop_errs; eauto.
        -- intros Hq. rewrite (Hq a (or_introl eq_refl)) in Q. simpl in Q. rewrite queue_loop_nil in Q.
           inversion Q; subst. exists [a], (b :: l'). split; reflexivity.
      * destruct Hc as [Ha Hc]. rewrite Ha. simpl.
        destruct (queue_loop f lv sc [(ran_of a, (b, IRun))] errs) as [[sc3 l3] x3] eqn:Q.
        assert (R := IH _ _ _ _ _ _ _ _ Hc Q).
        intros H; inversion H; subst; clear H. apply chain_result_cons. exact R.
Qed.

Lemma run_children_chain fuel lv sc first l sc' log x : starting sc = [first] -> chained sc (first :: l) ->
  run_children fuel lv sc = (sc', log, x) -> chain_result lv (first :: l) sc log x.
Proof.
  intros Hs Hc. unfold run_children. rewrite Hs. simpl. unfold run_q.
  destruct (failed sc first); [intros H; inversion H; subst; apply chain_result_stop; discriminate|].
  destruct (bad sc first); [intros H; inversion H; subst; apply chain_result_one; discriminate|].
  simpl. rewrite app_nil_r. destruct l as [|b l'].
  - simpl in Hc. rewrite Hc. simpl. rewrite queue_loop_nil. intros H; inversion H; subst.
    apply chain_result_one. auto.
  - destruct Hc as [Ha Hc]. rewrite Ha. simpl.
    destruct (queue_loop fuel lv sc [(ran_of first, (b, IRun))] false) as [[sc2 l2] x2] eqn:Q.
    assert (R := queue_chain _ _ _ _ _ _ _ _ _ _ Hc Q).
    intros H; inversion H; subst; clear H. apply chain_result_cons. exact R.
Qed.

Lemma run_parent_chain fuel lv sc up first l sc' up' log x : starting sc = [first] -> chained sc (first :: l) ->
  run_parent fuel lv sc up = (sc', up', log, x) -> chain_result lv (first :: l) sc log x.
Proof.
  intros Hs Hc. unfold run_parent.
  destruct (match par sc, up with
            | PMacro, Some (usc, pk) => failed usc pk | PWf, _ => pfailed sc | _, _ => false end).
  - intros H; inversion H; subst. apply chain_result_stop; discriminate.
  - destruct (run_children fuel lv sc) as [[sc1 l1] x1] eqn:Q1.
    assert (R := run_children_chain _ _ _ _ _ _ _ _ Hs Hc Q1).
    destruct x1; [intros H; inversion H; subst; exact R|].
    destruct (par sc); [| |destruct up as [[usc pk]|]]; intros H; inversion H; subst; exact R.
Qed.

(* ---- from the edge characterisation to the exact `ran` lists of the chain ---- *)
Lemma consec_head_fresh a l x y : ~ In a l -> consec (a :: l) x y -> x = a -> match l with b :: _ => y = b | [] => False end.
Proof.
  destruct l as [|b r]; simpl; [tauto|]. intros Hn [[_ ->]|Hc] ->; auto.
  exfalso. apply Hn. change (consec (b :: r) a y) in Hc. apply consec_In in Hc. tauto.
Qed.

Lemma chained_of_consec sc : forall l, NoDup l -> (forall v, NoDup (c_ran sc v)) ->
  (forall v t, In v l -> (In t (c_ran sc (ran_of v)) <-> snd t = IRun /\ consec l v (fst t))) -> chained sc l.
Proof.
  induction l as [|a r IH]; intros Hn Hnd H; [exact I|].
  inversion Hn as [|? ? Ha Hr]; subst.
  assert (Htail : chained sc r).
  { apply IH; auto. intros v t Hv. rewrite (H v t (or_intror Hv)).
    destruct r as [|b r']; [destruct Hv|].
    change (consec (a :: b :: r') v (fst t)) with ((v = a /\ fst t = b) \/ consec (b :: r') v (fst t)).
    split; [|tauto]. intros [? [[-> _]|?]]; [contradiction|auto]. }
  simpl. destruct r as [|b r'].
  - apply nil_of_no_elements. intros t Ht. apply (H a t (or_introl eq_refl)) in Ht. destruct Ht as [_ []].
  - split; [|exact Htail]. apply singleton_of_elements; [apply Hnd|].
    intros [y s]. rewrite (H a (y, s) (or_introl eq_refl)). simpl. split.
    + intros [-> Hc]. f_equal. exact (consec_head_fresh a (b :: r') a y Ha Hc eq_refl).
    + intros Q; inversion Q; subst. split; auto.
Qed.

Lemma consec_snoc_ne l k : ~ In k l -> forall x y, (consec (l ++ [k]) x y /\ y <> k <-> consec l x y).
Proof.
  induction l as [|a r IH]; intros Hk x y.
  - simpl. tauto.
  - assert (Hk' : ~ In k r) by (intros ?; apply Hk; right; auto).
    destruct r as [|b r'].
    + simpl. split; [|tauto]. intros [[[-> ->]|[]] Hne]. congruence.
    + change (consec ((a :: b :: r') ++ [k]) x y) with ((x = a /\ y = b) \/ consec ((b :: r') ++ [k]) x y).
      change (consec (a :: b :: r') x y) with ((x = a /\ y = b) \/ consec (b :: r') x y).
      rewrite <- (IH Hk' x y). split.
      * intros [[[-> ->]|Hc] Hne]; auto.
      * intros [[-> ->]|[Hc Hne]]; [|auto]. split; auto. intros ->. apply Hk'. left; auto.
Qed.

Lemma reach_snoc up k v u : reach up k v -> In u (up v) -> reach up k u.
Proof.
  induction 1; intros Hu.
  - econstructor; [exact Hu|constructor].
  - econstructor; eauto.
Qed.

Lemma topo_ext up up' : (forall v, up v = up' v) -> forall l d, topo up d l -> topo up' d l.
Proof.
  intros He. induction l as [|v r IH]; simpl; auto. intros d [H1 H2]. split; auto.
  intros u Hu. apply H1. rewrite He. exact Hu.
Qed.

Lemma self_dep_false sc D : self_dep sc D = false -> forall v, In v D -> ~ In v (ups sc v).
Proof.
  unfold self_dep. intros H v Hv Hin.
  assert (existsb (fun v0 => memn v0 (ups sc v0)) D = true); [|congruence].
  apply existsb_exists. exists v. split; auto. apply memn_In. exact Hin.
Qed.


(* ---- errors of the run phase are never the two refusals ---- *)
Definition run_err (x : res) : Prop := x <> Err ECyclic /\ x <> Err EExecutor /\ x <> Err ENotSiblings.
Definition emit_re (emit : scope -> nat -> scope * list entry * res) : Prop :=
  forall sc k sc' l x, emit sc k = (sc', l, x) -> run_err x.
Ltac re := repeat split; discriminate.

Lemma run_with_re emit lv : emit_re emit -> emit_re (run_with emit lv).
Proof.
  intros He sc r sc' l x. unfold run_with. destruct (failed sc r); [intros H; inversion H; re|].
  destruct (bad sc r).
  - destruct (emit (mark_failed sc r) (fail_of r)) as [[sc1 l1] x1] eqn:Q. intros H; inversion H; subst.
    destruct x1; [re|]. eapply He; eauto.
  - destruct (emit sc (ran_of r)) as [[sc1 l1] x1] eqn:Q. intros H; inversion H; subst. eapply He; eauto.
Qed.
Lemma deliver_all_re runf e : emit_re runf ->
  forall conns sc sc' l x, deliver_all runf e conns sc = (sc', l, x) -> run_err x.
Proof.
  intros Hr. induction conns as [|[r s] rest IH]; intros sc sc' l x; simpl; [intros H; inversion H; re|].
  destruct (match s with IRun => (sc, true) | IAcc => acc_deliver sc r e end) as [sc1 go]. destruct go.
  - destruct (runf sc1 r) as [[sc2 l2] x2] eqn:Q2. assert (C2 := Hr _ _ _ _ _ Q2). destruct x2.
    + destruct (deliver_all runf e rest sc2) as [[sc3 l3] x3] eqn:Q3. intros H; inversion H; subst. eapply IH; eauto.
    + intros H; inversion H; subst. exact C2.
  - intros H. eapply IH; eauto.
Qed.
Lemma emit_dfs_re fuel lv : emit_re (emit_dfs fuel lv).
Proof.
  induction fuel as [|f IH]; intros sc k sc' l x; simpl; [intros H; inversion H; re|].
  intros H. eapply deliver_all_re; [|exact H]. apply run_with_re. exact IH.
Qed.
Lemma queue_loop_re fuel lv : forall sc q errs sc' l x, queue_loop fuel lv sc q errs = (sc', l, x) -> run_err x.
Proof.
  induction fuel as [|f IH]; intros sc q errs sc' l x; destruct q as [|[e [r s]] rest]; simpl;
    try (intros H; inversion H; subst; destruct errs; re).
  destruct (match s with IRun => (sc, true) | IAcc => acc_deliver sc r e end) as [sc1 go]. destruct go.
  - destruct (run_q lv sc1 r) as [[[sc2 l2] q2] x2].
    destruct (queue_loop f lv sc2 (rest ++ q2) _) as [[sc3 l3] x3] eqn:Q3.
    intros H; inversion H; subst. eapply IH; eauto.
  - intros H. eapply IH; eauto.
Qed.
Lemma run_q_re lv sc r sc' l q x : run_q lv sc r = (sc', l, q, x) -> run_err x.
Proof.
  unfold run_q. destruct (failed sc r); [intros H; inversion H; re|].
  destruct (bad sc r); intros H; inversion H; re.
Qed.
Lemma run_starters_re lv st : forall sc sc' l q x, run_starters lv sc st = (sc', l, q, x) -> run_err x.
Proof.
  induction st as [|s rest IH]; intros sc sc' l q x; simpl; [intros H; inversion H; re|].
  destruct (run_q lv sc s) as [[[sc1 l1] q1] x1] eqn:Q1. assert (C1 := run_q_re _ _ _ _ _ _ _ Q1). destruct x1.
  - destruct (run_starters lv sc1 rest) as [[[sc2 l2] q2] x2] eqn:Q2. intros H; inversion H; subst. eapply IH; eauto.
  - intros H; inversion H; subst. exact C1.
Qed.
Lemma run_children_re fuel lv sc sc' l x : run_children fuel lv sc = (sc', l, x) -> run_err x.
Proof.
  unfold run_children. destruct (run_starters lv sc (starting sc)) as [[[sc1 l1] q1] x1] eqn:Q1.
  assert (C1 := run_starters_re _ _ _ _ _ _ _ Q1). destruct x1.
  - destruct (queue_loop fuel lv sc1 q1 false) as [[sc2 l2] x2] eqn:Q2. intros H; inversion H; subst.
    eapply queue_loop_re; eauto.
  - intros H; inversion H; subst. exact C1.
Qed.
Lemma run_parent_re fuel lv sc up sc' up' l x : run_parent fuel lv sc up = (sc', up', l, x) -> run_err x.
Proof.
  unfold run_parent.
  destruct (match par sc, up with
            | PMacro, Some (usc, pk) => failed usc pk | PWf, _ => pfailed sc | _, _ => false end);
    [intros H; inversion H; re|].
  destruct (run_children fuel lv sc) as [[sc1 l1] x1] eqn:Q1. assert (C1 := run_children_re _ _ _ _ _ _ Q1).
  destruct x1; [intros H; inversion H; subst; re|].
  destruct (par sc); [| |destruct up as [[usc pk]|]]; intros H; inversion H; subst; exact C1.
Qed.

(* ================================================================== what one level executes *)
Definition topo_enum (up : nat -> list nat) (k : nat) (order : list nat) : Prop :=
  NoDup order /\ (forall y, In y order <-> reach up k y) /\ topo up [] order.

Lemma linear_order_enum fuel sc sc2 k D order : closure fuel (ups sc) k = Some D ->
  (forall i, ups sc2 i = ups sc i) -> linear_order sc2 D = Some order ->
  topo_enum (ups sc) k order /\ exists l, order = l ++ [k].
Proof.
  intros C Hu Lo. destruct (closure_sound _ _ _ _ C) as [HD ND].
  assert (Po := linear_order_perm _ _ _ Lo).
  assert (T : topo_enum (ups sc) k order).
  { split; [eapply Permutation_NoDup; [apply Permutation_sym; exact Po|exact ND]|]. split.
    - intros y. rewrite <- HD. split; apply Permutation_in; [exact Po|apply Permutation_sym; exact Po].
    - unfold linear_order in Lo. destruct (self_dep sc2 D); [discriminate|].
      eapply topo_ext; [exact Hu|]. eapply layers_topo; [exact Lo|].
      intros v Hv u Huv. left. apply HD. eapply reach_snoc; [apply HD; exact Hv|]. rewrite <- Hu. exact Huv. }
  split; [exact T|]. destruct T as (T1&T2&T3). eapply topo_target_last; eauto.
Qed.

(* every connection of a `failed` signal of a node of the closure stays inside the closure (where the
   pull has disconnected the receiving triggers) *)
Definition fail_inside sc (order : list nat) : Prop :=
  forall v t, In v order -> In t (c_ran sc (fail_of v)) -> In (fst t) order.

Definition level_exec (lv : nat) sc (k : nat) (log : list entry) (x : res) : Prop :=
  exists order l,
    topo_enum (ups sc) k order /\ order = l ++ [k] /\
    (x = Ok -> log = map (pair lv) l) /\
    (fail_inside sc order -> exists p q, l = p ++ q /\ log = map (pair lv) p) /\ run_err x.

Lemma level_pull_exec fuel lv sc k up sc' up' log x : WF sc ->
  level_pull fuel lv sc k up = (sc', up', log, x) ->
  (log = [] /\ (x = Err ECyclic \/ x = Err EExecutor \/ x = Err ENotSiblings)) \/ level_exec lv sc k log x.
Proof.
  intros W. unfold level_pull.
  destruct (closure fuel (ups sc) k) as [D|] eqn:C; [|intros H; inversion H; subst; left; auto].
  destruct (existsb (exe sc) D); [intros H; inversion H; subst; left; auto|].
  set (sc1 := relabel sc D).
  assert (W1 : WF sc1) by (eapply WF_tables; [apply tables_set_lbl|apply tables_set_lbl|exact W]).
  destruct (wrap_disconnect sc1 D) as [sc2 pairs] eqn:Wd.
  destruct (wrap_disconnect_spec _ _ _ _ W1 Wd) as (W2 & F2 & E2 & P2).
  destruct F2 as (G1&G2&G3&G4&G5&G6&G7&G8&G9&G10).
  destruct (if siblings sc k D then linear_order sc2 D else None) as [order|] eqn:Lo0;
    [|intros H; inversion H; subst; left; split; auto; destruct (siblings sc k D); auto].
  assert (Lo : linear_order sc2 D = Some order) by (destruct (siblings sc k D); [exact Lo0|discriminate]).
  destruct (linear_order_enum _ _ _ _ _ _ C G2 Lo) as [T [l Hol]].
  assert (Po := linear_order_perm _ _ _ Lo).
  destruct (chain_spec order sc2 W2) as (W3 & F3 & E3).
  set (sc3 := chain sc2 order) in *.
  destruct F3 as (K1&K2&K3&K4&K5&K6&K7&K8&K9&K10).
  destruct (run_upstream fuel lv sc3 k (hd k order) up) as [[[sc4 up4] l4] x4] eqn:Ru.
  intros H; inversion H; subst sc' up' log x; clear H. right.
  assert (Hnd : NoDup (l ++ [k])) by (rewrite <- Hol; apply T).
  assert (Hkl : ~ In k l).
  { apply NoDup_remove_2 in Hnd. rewrite app_nil_r in Hnd. exact Hnd. }
  assert (Hpar3 : par sc3 = par sc) by (rewrite K7, G7; reflexivity).
  unfold run_upstream in Ru. destruct (Nat.eqb (hd k order) k) eqn:Hf.
  - inversion Ru; subst sc4 up4 l4 x4. exists order, l.
    assert (l = []).
    { destruct l as [|a l']; auto. exfalso. apply Nat.eqb_eq in Hf. rewrite Hol in Hf. simpl in Hf.
      subst a. apply Hkl. left; auto. }
    subst l. refine (conj T (conj Hol (conj (fun _ => eq_refl) (conj _ _)))).
    + intros _. exists [], []. split; reflexivity.
    + repeat split; discriminate.
  - apply Nat.eqb_neq in Hf.
    destruct l as [|first l']; [rewrite Hol in Hf; simpl in Hf; congruence|].
    assert (Hfirst : hd k order = first) by (rewrite Hol; reflexivity). rewrite Hfirst in Ru.
    destruct (disconnect_run sc3 k) as [sc3' pk] eqn:Dk. simpl fst in Ru.
    destruct (disconnect_run_spec _ _ _ _ W3 Dk) as (W3' & F3' & E3' & _).
    destruct F3' as (J1&J2&J3&J4&J5&J6&J7&J8&J9&J10).
    assert (HlD : forall v, In v (first :: l') -> In v D).
    { intros v Hv. eapply Permutation_in; [exact Po|]. rewrite Hol. apply in_app_iff. left. exact Hv. }
    assert (Hch : chained sc3' (first :: l')).
    { apply chained_of_consec.
      - apply NoDup_remove_1 in Hnd. rewrite app_nil_r in Hnd. exact Hnd.
      - apply (wf_nd_out _ W3').
      - intros v [r s] Hv. simpl. rewrite <- (wf_sym _ W3').
        change (In (ran_of v) (conns_in sc3' r s)) with (E sc3' (ran_of v) r s). rewrite E3', E3, E2.
        rewrite <- (consec_snoc_ne _ _ Hkl v r). rewrite <- Hol.
        assert (HvD : In (ran_of v) (map ran_of D)) by (apply in_rans; auto).
        split.
        + intros [[[_ [_ Hn]]|[Hs (a & Ha & Hc)]] Hne]; [contradiction|]. apply ran_of_inj in Ha. subst a. auto.
        + intros [Hs [Hc Hne]]. split; auto. right. split; auto. exists v. auto. }
    assert (Hfq : fail_inside sc order -> fail_quiet sc3' (first :: l')).
    { intros Hfi v Hv. apply nil_of_no_elements. intros [r s] Ht.
      apply (wf_sym _ W3') in Ht. change (E sc3' (fail_of v) r s) in Ht. rewrite E3', E3, E2 in Ht.
      destruct Ht as [[[Ht [Hr _]]|[_ (a & Ha & _)]] _].
      - apply Hr. eapply Permutation_in; [exact Po|].
        apply (Hfi v (r, s)); [rewrite Hol; apply in_app_iff; left; exact Hv|].
        apply (wf_sym _ W). exact Ht.
      - symmetry in Ha. exact (ran_fail_ne _ _ Ha). }
    assert (Hp3' : par sc3' = par sc) by (rewrite J7; exact Hpar3).
    assert (Fin : forall scr, (forall e, c_ran scr e = c_ran sc3' e) -> run_err x4 ->
                  chain_result lv (first :: l') scr l4 x4 -> level_exec lv sc k l4 x4).
    { intros scr Hcr R [A1 A2]. exists order, (first :: l').
      refine (conj T (conj Hol (conj A1 (conj _ R)))). intros Hfi. apply A2.
      intros v Hv. rewrite Hcr. apply (Hfq Hfi v Hv). }
    rewrite Hp3' in Ru. destruct (par sc) eqn:Psc.
    + destruct (run_dfs fuel lv sc3' first) as [[a b] c] eqn:Q. inversion Ru; subst.
      assert (R := run_with_re _ lv (emit_dfs_re fuel lv) _ _ _ _ _ Q).
      apply (Fin sc3'); auto. eapply dfs_chain; eauto.
    + destruct (run_parent fuel lv _ up) as [[[a u] b] c] eqn:Q. inversion Ru; subst.
      assert (R := run_parent_re _ _ _ _ _ _ _ _ Q).
      apply (Fin (set_starting (set_automate sc3' false) [first])); auto.
      eapply (run_parent_chain fuel lv _ up first l'); [reflexivity| |exact Q].
      eapply chained_ext; [|exact Hch]. reflexivity.
    + assert (R := run_parent_re _ _ _ _ _ _ _ _ Ru).
      apply (Fin (set_starting sc3' [first])); auto.
      eapply (run_parent_chain fuel lv _ up first l'); [reflexivity| |exact Ru].
      eapply chained_ext; [|exact Hch]. reflexivity.
Qed.

(* ================================================================== the whole pull *)
(* what the property wants the data trees of a stack to execute *)
Fixpoint tree_exec (parents : bool) (lv : nat) (st : stack) (log : list entry) : Prop :=
  match st with
  | [] => log = []
  | (sc, k) :: rest =>
    exists l0 order l,
      (match par sc with
       | PMacro => if parents then tree_exec parents (S lv) rest l0 else l0 = []
       | _ => l0 = []
       end) /\
      topo_enum (ups sc) k order /\ order = l ++ [k] /\ log = l0 ++ map (pair lv) l
  end.

Lemma pull_tree_exec fuel parents : forall st lv st' log, stack_wf st ->
  pull_tree fuel parents lv st = (st', log, Ok) -> tree_exec parents lv st log.
Proof.
  induction st as [|[sc k] rest IH]; intros lv st' log Hw; simpl.
  - intros H; inversion H; subst. reflexivity.
  - inversion Hw as [|? ? Wsc Wrest]; subst. simpl in Wsc.
    destruct (match par sc with
              | PMacro => if parents then pull_tree fuel parents (S lv) rest else (rest, [], Ok)
              | _ => (rest, [], Ok) end) as [[rest1 l0] x0] eqn:Q.
    destruct x0; [|intros H; inversion H].
    destruct (level_pull fuel lv sc k (hd_error rest1)) as [[[sc1 up1] l1] x1] eqn:Lp.
    intros H; inversion H; subst; clear H.
    assert (Ht : match par sc with
                 | PMacro => if parents then tree_exec parents (S lv) rest l0 else l0 = []
                 | _ => l0 = [] end).
    { destruct (par sc); try (inversion Q; subst; reflexivity).
      destruct parents; [|inversion Q; subst; reflexivity]. eapply IH; eauto. }
    destruct (level_pull_exec _ _ _ _ _ _ _ _ _ Wsc Lp) as [[_ [?|[?|?]]]|Hx]; try discriminate.
    destruct Hx as (order & l & T & Ho & Hlog & _ & _).
    rewrite (Hlog eq_refl). exists l0, order, l. auto.
Qed.

Lemma pull_exec fuel parents sc k rest st' log : stack_wf ((sc, k) :: rest) ->
  pull fuel parents ((sc, k) :: rest) = (st', log, Ok) ->
  exists l1, tree_exec parents 0 ((sc, k) :: rest) l1 /\ log = l1 ++ [(0, k)].
Proof.
  intros Hw. unfold pull. destruct (pull_tree fuel parents 0 ((sc, k) :: rest)) as [[st1 l1] x1] eqn:Q.
  destruct x1; [|intros H; inversion H].
  assert (T := pull_tree_exec _ _ _ _ _ _ Hw Q).
  assert (Hs := pull_tree_restores _ _ _ _ _ _ _ Hw Q).
  inversion Hs as [|? [sc1 k1] ? r1 [H1 H2] Hr]; subst.
  simpl in H1. subst k1. destruct (failed sc1 k); [intros H; inversion H|].
  destruct (bad sc1 k); intros H; inversion H; subst. exists l1. split; auto.
Qed.

(* ================================================================== refusals *)
Lemma level_pull_refused_cycle fuel lv sc k up u v :
  reach (ups sc) k u -> In v (ups sc u) -> reach (ups sc) v u ->
  level_pull fuel lv sc k up = (sc, up, [], Err ECyclic).
Proof.
  intros Rk Hv Rv. unfold level_pull. destruct (closure fuel (ups sc) k) as [D|] eqn:C; auto. exfalso.
  destruct (closure_reach_some _ _ _ _ _ C Rk) as (f' & b & _ & Hb).
  rewrite (closure_cycle_refused (ups sc) u) in Hb; [discriminate|]. exists v. auto.
Qed.

Lemma level_pull_refused_executor fuel lv sc k up D v :
  closure fuel (ups sc) k = Some D -> reach (ups sc) k v -> exe sc v = true ->
  level_pull fuel lv sc k up = (sc, up, [], Err EExecutor).
Proof.
  intros C R Hx. unfold level_pull. rewrite C.
  assert (existsb (exe sc) D = true) as ->; auto.
  apply existsb_exists. exists v. split; auto. apply (closure_sound _ _ _ _ C). exact R.
Qed.

(* acyclic data (a rank decreasing along every data edge) is never refused as cyclic *)
Lemma closure_acyclic up (rank : nat -> nat) : (forall v u, In u (up v) -> rank u < rank v) ->
  forall fuel k, rank k < fuel -> exists D, closure fuel up k = Some D.
Proof.
  intros Hr. induction fuel as [|f IH]; intros k Hk; [lia|]. rewrite closure_unfold.
  assert (G : forall l a, (forall u, In u l -> rank u < f) -> exists D, fold_left (cl_step f up) l (Some a) = Some D).
  { induction l as [|u r IHl]; intros a Hl; cbn [fold_left]; [eauto|].
    destruct (IH u (Hl u (or_introl eq_refl))) as [b Hb].
    assert (R : cl_step f up (Some a) u = Some (union a b)).
    { cbv beta iota delta [cl_step]. rewrite Hb. reflexivity. }
    rewrite R. apply IHl. intros; apply Hl; right; auto. }
  apply G. intros u Hu. specialize (Hr _ _ Hu). lia.
Qed.

(* ================================================================== witnesses *)
Definition nofn {A} : nat -> list A := fun _ => [].
Definition nob : nat -> bool := fun _ => false.
Definition nolbl : nat -> string := fun i => match i with 0 => "a" | 1 => "b" | 2 => "c" | _ => "d" end.

Lemma WF_empty sc : (forall i, c_run sc i = []) -> (forall i, c_acc sc i = []) -> (forall i, c_ran sc i = []) -> WF sc.
Proof.
  intros H1 H2 H3. constructor.
  - intros e r s. rewrite H3. destruct s; simpl; rewrite ?H1, ?H2; tauto.
  - intros r s. destruct s; simpl; rewrite ?H1, ?H2; constructor.
  - intros e. rewrite H3. constructor.
Qed.

(* regression instance of the repaired defect S12: a macro m (node 0 of the outer scope) holding a -> b;
   outside, m >> d.  Pulling b runs a and b only *)
Definition w_inner : scope :=
  mkScope nolbl (fun i => match i with 1 => [0] | _ => [] end) nofn nofn nofn nofn nob nob nob PMacro [] true false (fun _ => 0).
Definition w_outer : scope :=
  mkScope nolbl (fun i => match i with 1 => [0] | _ => [] end)
          (fun i => match i with 1 => [0] | _ => [] end) nofn
          (fun i => match i with 0 => [(1, IRun)] | _ => [] end) nofn nob nob nob PNone [] true false (fun _ => 0).
Definition w_stack : stack := [(w_inner, 1); (w_outer, 0)].

Lemma w_outer_WF : WF w_outer.
Proof.
  constructor.
  - intros e r s. destruct s; destruct r as [|[|r]]; destruct e as [|e]; simpl; split; intros H;
      repeat (destruct H as [H|H]; try discriminate; try (inversion H; fail)); auto; try contradiction.
  - intros r s. destruct s; destruct r as [|[|r]]; simpl; repeat constructor; simpl; tauto.
  - intros e. destruct e as [|e]; simpl; repeat constructor; simpl; tauto.
Qed.
Lemma w_stack_wf : stack_wf w_stack.
Proof.
  constructor; [simpl; apply WF_empty; reflexivity|]. constructor; [exact w_outer_WF|constructor].
Qed.

(* a `failed` handler: a (node 0) raises, t (node 1) <- a is pulled, h (node 2) hangs on a.failed
   (emitter 1 = fail_of 0) *)
Definition w_handler : scope :=
  mkScope nolbl (fun i => match i with 1 => [0] | _ => [] end)
          (fun i => match i with 2 => [1] | _ => [] end) nofn
          (fun e => match e with 1 => [(2, IRun)] | _ => [] end) nofn nob
          (fun i => match i with 0 => true | _ => false end) nob PNone [] true false (fun _ => 0).
Lemma w_handler_WF : WF w_handler.
Proof.
  constructor.
  - intros e r s. destruct s; destruct r as [|[|[|r]]]; destruct e as [|[|e]]; simpl; split; intros H;
      repeat (destruct H as [H|H]; try discriminate; try (inversion H; fail)); auto; try contradiction.
  - intros r s. destruct s; destruct r as [|[|[|r]]]; simpl; repeat constructor; simpl; tauto.
  - intros e. destruct e as [|[|e]]; simpl; repeat constructor; simpl; tauto.
Qed.

(* signal order: n.run = [b.ran; a.ran] (emitters 2, 0) before, [a.ran; b.ran] after pulling t (t <- n) *)
Definition w_order : scope :=
  mkScope nolbl (fun i => match i with 3 => [2] | _ => [] end)
          (fun i => match i with 2 => [2; 0] | _ => [] end) nofn
          (fun e => match e with 0 => [(2, IRun)] | 2 => [(2, IRun)] | _ => [] end) nofn nob nob nob PNone [] true false (fun _ => 0).
Lemma w_order_WF : WF w_order.
Proof.
  constructor.
  - intros e r s. destruct s; destruct r as [|[|[|r]]]; destruct e as [|[|[|e]]]; simpl; split; intros H;
      repeat (destruct H as [H|H]; try discriminate; try (inversion H; fail)); auto; try contradiction.
  - intros r s. destruct s; destruct r as [|[|[|r]]]; simpl; repeat constructor; simpl; intuition discriminate.
  - intros e. destruct e as [|[|[|e]]]; simpl; repeat constructor; simpl; tauto.
Qed.

(* non-vacuity instance for Props/C11.v *)
Definition ex_inner : scope :=
  mkScope nolbl (fun i => match i with 1 => [0] | _ => [] end)
          (fun i => match i with 2 => [0] | _ => [] end) nofn
          (fun i => match i with 0 => [(2, IRun)] | _ => [] end) nofn nob nob nob PMacro [2] true false (fun _ => 0).
Definition ex_outer : scope :=
  mkScope nolbl (fun i => match i with 1 => [0] | _ => [] end) nofn nofn nofn nofn nob nob nob PNone [] true false (fun _ => 0).
Lemma ex_stack_wf : stack_wf [(ex_inner, 1); (ex_outer, 1)].
Proof.
  constructor; [|constructor; [simpl; apply WF_empty; reflexivity|constructor]]. simpl. constructor.
  - intros e r s. destruct s; destruct r as [|[|[|r]]]; destruct e as [|e]; simpl; split; intros H;
      repeat (destruct H as [H|H]; try discriminate; try (inversion H; fail)); auto; try contradiction.
  - intros r s. destruct s; destruct r as [|[|[|r]]]; simpl; repeat constructor; simpl; tauto.
  - intros e. destruct e as [|e]; simpl; repeat constructor; simpl; tauto.
Qed.

(* a data connection that crosses composites: the upstream closure is not a set of siblings *)
Lemma level_pull_refused_siblings fuel lv sc k up D v sc' up' log x :
  closure fuel (ups sc) k = Some D -> existsb (exe sc) D = false -> In v D -> own sc v <> own sc k ->
  level_pull fuel lv sc k up = (sc', up', log, x) -> x = Err ENotSiblings /\ log = [] /\ up' = up.
Proof.
  intros C Hx Hv Ho. unfold level_pull. rewrite C, Hx.
  destruct (wrap_disconnect (relabel sc D) D) as [sc2 pairs].
  assert (Hs : siblings sc k D = false).
  { unfold siblings. destruct (forallb _ D) eqn:Q; auto. exfalso.
    rewrite forallb_forall in Q. specialize (Q v Hv). apply Nat.eqb_eq in Q. contradiction. }
  rewrite Hs. intros H; inversion H; subst. auto.
Qed.
