(* CacheKeys.v -- the cache key of a node is its input DICTIONARY (Node.cache_hit:
   `self.inputs.to_value_dict() == self._cached_inputs`): labels matter, not positions.  For a
   Workflow the labels are those of its children's unconnected channels, so internal wiring changes
   the key SET; Cache.v abstracts that into a fixed-length vector, this layer states what python's
   dict equality gives: a hit needs the same key set and equal values key by key. *)
From PW Require Import Base.

Definition slot := option Z.                         (* None = NOT_DATA (compared by identity) *)
Definition slot_eqb (a b : slot) : bool :=
  match a, b with Some x, Some y => Z.eqb x y | None, None => true | _, _ => false end.

Definition dict := list (string * slot).
Definition keys (d : dict) : list string := map fst d.

(* python: len(a) == len(b) and all(k in b and a[k] == b[k] for k in a) *)
Definition dict_eqb (a b : dict) : bool :=
  Nat.eqb (List.length a) (List.length b) &&
  forallb (fun kv => match assoc String.eqb (fst kv) b with Some v => slot_eqb (snd kv) v | None => false end) a.

(* Node.cache_hit *)
Definition cache_hit (running failed : bool) (now : dict) (cached : option dict) : bool :=
  negb (running || failed) && match cached with Some c => dict_eqb now c | None => false end.

Definition obs_hit (running failed : bool) (now : dict) (cached : option dict) : obs :=
  ob (cache_hit running failed now cached).
