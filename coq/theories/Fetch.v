(* Fetch.v -- data delivery into input channels and the readiness gate (C03).
   channels.py: DataChannel.value setter (+ InputData lock), _type_check_new_value,
   value_receiver forwarding, InputData.fetch, DataChannel.ready;
   node.py / run.py: set_input_values -> fetch -> readiness gate -> call.
   Hints are reduced to one bit (hinted `int` or unhinted); the hint calculus itself is C04.
   A value is an int (VZ) or something that is not an int (VBad, e.g. a string). *)
From PW Require Import Base.

Inductive val := VZ (z : Z) | VBad (z : Z).
Definition slot := option val.                       (* None = NOT_DATA *)

Record chan := { c_val : slot;
                 c_hinted : bool;                    (* type_hint = int (else None)          *)
                 c_strict : bool;                    (* strict_hints                          *)
                 c_recv : option nat;                (* value_receiver                        *)
                 c_conns : list nat;                 (* connections, newest first (inputs)    *)
                 c_owner : option nat }.             (* Some n: an INPUT of node n (lockable) *)

Record store := { chans : list chan; running : list bool (* per node: data_input_locked *) }.

Inductive err := Locked | TypeErr | Readiness | Recursion | SelfLink.
Inductive result (A : Type) := Ok (a : A) | Err (e : err).
Arguments Ok {A}. Arguments Err {A}.

Definition admits (v : val) : bool := match v with VZ _ => true | VBad _ => false end.

Definition dchan : chan := {| c_val := None; c_hinted := false; c_strict := true; c_recv := None; c_conns := []; c_owner := None |}.
Definition getc (s : store) (c : nat) : chan := nth c (chans s) dchan.

Fixpoint set_nth {A} (l : list A) (n : nat) (x : A) : list A :=
  match l, n with
  | [], _ => []
  | _ :: r, O => x :: r
  | y :: r, S m => y :: set_nth r m x
  end.

Definition put (s : store) (c : nat) (v : slot) : store :=
  let ch := getc s c in
  {| chans := set_nth (chans s) c {| c_val := v; c_hinted := c_hinted ch; c_strict := c_strict ch;
                                     c_recv := c_recv ch; c_conns := c_conns ch; c_owner := c_owner ch |};
     running := running s |}.

Definition locked (s : store) (c : nat) : bool :=
  match c_owner (getc s c) with Some n => nth n (running s) false | None => false end.

(* _type_check_new_value *)
Definition type_ok (ch : chan) (v : slot) : bool :=
  match v with
  | None => true
  | Some x => negb (c_strict ch && c_hinted ch) || admits x
  end.

(* the value setter: lock test, own type check, FORWARD to the receiver (which runs the
   same setter and may raise), and only then store -- in that order *)
Fixpoint set_value (fuel : nat) (s : store) (c : nat) (v : slot) : result store :=
  match fuel with
  | O => Err Recursion
  | S fuel' =>
      let ch := getc s c in
      if locked s c then Err Locked
      else if negb (type_ok ch v) then Err TypeErr
      else match c_recv ch with
           | None => Ok (put s c v)
           | Some r => match set_value fuel' s r v with
                       | Ok s1 => Ok (put s1 c v)
                       | Err e => Err e
                       end
           end
  end.

(* InputData.fetch *)
Fixpoint first_data (s : store) (conns : list nat) : slot :=
  match conns with
  | [] => None
  | u :: r => match c_val (getc s u) with Some v => Some v | None => first_data s r end
  end.

Definition fetch (fuel : nat) (s : store) (c : nat) : result store :=
  match first_data s (c_conns (getc s c)) with
  | None => Ok s
  | Some v => set_value fuel s c (Some v)
  end.

(* DataChannel.ready *)
Definition ready (ch : chan) : bool :=
  match c_val ch with
  | None => false
  | Some v => if c_hinted ch && c_strict ch then admits v else true
  end.

(* IO.fetch: every input in panel order; the first error propagates (inputs fetched before it keep their values) *)
Fixpoint fetch_all (fuel : nat) (s : store) (inputs : list nat) : store * option err :=
  match inputs with
  | [] => (s, None)
  | c :: r => match fetch fuel s c with Ok s1 => fetch_all fuel s1 r | Err e => (s, Some e) end
  end.

(* set_input_values: keys in order; the first error propagates (earlier keys stay assigned) *)
Fixpoint assign_all (fuel : nat) (s : store) (kw : list (nat * slot)) : store * option err :=
  match kw with
  | [] => (s, None)
  | (c, v) :: r => match set_value fuel s c v with Ok s1 => assign_all fuel s1 r | Err e => (s, Some e) end
  end.

(* ---- a node: inputs, one output, flags; run = [kwargs] -> fetch -> gate -> call ------------ *)
Record nodeinfo := { n_inputs : list nat; n_output : nat }.

Definition all_ready (s : store) (inputs : list nat) : bool := forallb (fun c => ready (getc s c)) inputs.
Definition arg_of (s : store) (c : nat) : val := match c_val (getc s c) with Some v => v | None => VBad 0 end.

Section Run.
  Variable sem : list val -> val.

  (* result: new store, the arguments the function was called with (None = not called), the
     error that refused the run.  [me] = the node's index (its running flag), [node_failed] its failed flag *)
  Definition run_node (fuel : nat) (s : store) (nd : nodeinfo) (me : nat) (node_failed : bool)
             (kw : list (nat * slot)) : store * option (list val) * option err :=
    match assign_all fuel s kw with
    | (s1, Some e) => (s1, None, Some e)
    | (s1, None) =>
        match fetch_all fuel s1 (n_inputs nd) with
        | (s2, Some e) => (s2, None, Some e)
        | (s2, None) =>
            if nth me (running s2) false || node_failed || negb (all_ready s2 (n_inputs nd)) then (s2, None, Some Readiness)
            else let args := map (arg_of s2) (n_inputs nd) in
                 (put s2 (n_output nd) (Some (sem args)), Some args, None)
        end
    end.
End Run.

(* the value_receiver setter: self link refused, else the partner immediately receives the
   current value through its own setter, then the link is stored *)
Definition set_receiver (fuel : nat) (s : store) (c r : nat) : result store :=
  if Nat.eqb c r then Err SelfLink
  else match set_value fuel s r (c_val (getc s c)) with
       | Err e => Err e
       | Ok s1 => let ch := getc s1 c in
                  Ok {| chans := set_nth (chans s1) c {| c_val := c_val ch; c_hinted := c_hinted ch; c_strict := c_strict ch;
                                                         c_recv := Some r; c_conns := c_conns ch; c_owner := c_owner ch |};
                        running := running s1 |}
       end.

(* ---- histories of public operations (the correspondence check runs these on real channels) ------ *)
Inductive fop :=
| FSetOut (c : nat) (v : slot)            (* upstream.outputs.y.value = v                       *)
| FConnect (c u : nat)                    (* input c .connect(output u)  (prepends)             *)
| FConnectMany (c : nat) (us : list nat)  (* input c .connect(u1, u2, ...): one after the other  *)
| FDisconnect (c u : nat)
| FAssign (c : nat) (v : slot)            (* node.inputs.x.value = v  /  node.inputs.x = v      *)
| FStrict (c : nat) (b : bool)            (* channel.strict_hints = b                           *)
| FLink (c r : nat)                       (* c.value_receiver = r                               *)
| FFetch (n : nat)                        (* node.inputs.fetch()                                *)
| FRun (n : nat) (kw : list (nat * slot)) (* node.run with keyword values                      *)
| FLock (n : nat) (b : bool)              (* node.running = b                                   *)
| FFailed (n : nat) (b : bool).           (* node.failed = b                                    *)

Record fstate := { f_store : store; f_failed : list bool }.

Definition upd_chan (s : store) (c : nat) (f : chan -> chan) : store :=
  {| chans := set_nth (chans s) c (f (getc s c)); running := running s |}.

Inductive fout := FOk | FErr (e : err) | FCalled (args : list val).

Section Hist.
  Variable sem : list val -> val.
  Variable nodes : list nodeinfo.
  Variable fuel : nat.

  Definition ninfo (n : nat) : nodeinfo := nth n nodes {| n_inputs := []; n_output := 0 |}.

  Definition fstep (st : fstate) (o : fop) : fstate * fout :=
    let s := f_store st in
    let keep (s' : store) := {| f_store := s'; f_failed := f_failed st |} in
    match o with
    | FSetOut c v | FAssign c v =>
        match set_value fuel s c v with Ok s' => (keep s', FOk) | Err e => (st, FErr e) end
    | FConnect c u =>
        if memn u (c_conns (getc s c)) then (st, FOk)
        else (keep (upd_chan s c (fun ch => {| c_val := c_val ch; c_hinted := c_hinted ch; c_strict := c_strict ch;
                                               c_recv := c_recv ch; c_conns := u :: c_conns ch; c_owner := c_owner ch |})), FOk)
    | FConnectMany c us =>
        (keep (fold_left (fun s' u => if memn u (c_conns (getc s' c)) then s'
                                      else upd_chan s' c (fun ch => {| c_val := c_val ch; c_hinted := c_hinted ch; c_strict := c_strict ch;
                                                                      c_recv := c_recv ch; c_conns := u :: c_conns ch; c_owner := c_owner ch |}))
                         us s), FOk)
    | FDisconnect c u =>
        (keep (upd_chan s c (fun ch => {| c_val := c_val ch; c_hinted := c_hinted ch; c_strict := c_strict ch;
                                          c_recv := c_recv ch; c_conns := remove1 Nat.eqb u (c_conns ch); c_owner := c_owner ch |})), FOk)
    | FStrict c b =>
        (keep (upd_chan s c (fun ch => {| c_val := c_val ch; c_hinted := c_hinted ch; c_strict := b;
                                          c_recv := c_recv ch; c_conns := c_conns ch; c_owner := c_owner ch |})), FOk)
    | FLink c r => match set_receiver fuel s c r with Ok s' => (keep s', FOk) | Err e => (st, FErr e) end
    | FFetch n => match fetch_all fuel s (n_inputs (ninfo n)) with
                  | (s', None) => (keep s', FOk)
                  | (s', Some e) => (keep s', FErr e)
                  end
    | FRun n kw =>
        match run_node sem fuel s (ninfo n) n (nth n (f_failed st) false) kw with
        | (s', Some args, _) => (keep s', FCalled args)
        | (s', None, Some e) => (keep s', FErr e)
        | (s', None, None) => (keep s', FOk)
        end
    | FLock n b => ({| f_store := {| chans := chans s; running := set_nth (running s) n b |}; f_failed := f_failed st |}, FOk)
    | FFailed n b => ({| f_store := s; f_failed := set_nth (f_failed st) n b |}, FOk)
    end.

  Fixpoint frun (st : fstate) (ops : list fop) : list (fstate * fout) :=
    match ops with
    | [] => []
    | o :: r => let '(st1, x) := fstep st o in (st1, x) :: frun st1 r
    end.
End Hist.

(* concrete semantics used by the harness: an int counts as itself, a non-int as 1000*k *)
Definition weight (v : val) : Z := match v with VZ z => z | VBad k => (1000 * k)%Z end.
Definition sum_sem (args : list val) : val := VZ (fold_left (fun a v => (a + weight v)%Z) args 0%Z).

Definition obs_val (v : slot) : obs := match v with None => OS "nd" | Some (VZ z) => OZ z | Some (VBad k) => OL [OS "bad"; OZ k] end.
Definition obs_err (e : err) : obs :=
  OS match e with Locked => "Locked" | TypeErr => "TypeErr" | Readiness => "Readiness" | Recursion => "Recursion" | SelfLink => "SelfLink" end.
Definition obs_fout (x : fout) : obs :=
  match x with FOk => OS "ok" | FErr e => obs_err e | FCalled args => OL [OS "called"; OL (map (fun v => obs_val (Some v)) args)] end.
Definition obs_hist (nodes : list nodeinfo) (st : fstate) (ops : list fop) : obs :=
  OL (map (fun p : fstate * fout => OL [obs_fout (snd p); OL (map (fun ch => obs_val (c_val ch)) (chans (f_store (fst p))))])
          (frun sum_sem nodes 12 st ops)).
